// Package c02 decides property C02: the tax summary partitions taxable
// amounts into rate groups and sums them correctly; included taxes are taken
// out with their own percentage.
package c02

import (
	"encoding/json"
	"fmt"
	"math/big"
	"regexp"
	"sort"
	"strings"
	"testing"

	_ "github.com/invopop/gobl"
	"github.com/invopop/gobl/cal"
	"github.com/invopop/gobl/cbc"
	"github.com/invopop/gobl/currency"
	"github.com/invopop/gobl/l10n"
	"github.com/invopop/gobl/num"
	"github.com/invopop/gobl/tax"
	"github.com/invopop/gobl/verifharness/internal/billrun"
	"github.com/invopop/gobl/verifharness/internal/docgen"
	"github.com/invopop/gobl/verifharness/internal/pubdata"
	"github.com/invopop/gobl/verifharness/internal/ratref"
	"github.com/invopop/gobl/verifharness/internal/refcalc"
	"github.com/invopop/gobl/verifharness/internal/vh"
	"pgregory.net/rapid"
)

func TestMain(m *testing.M) { vh.Main(m, "C02") }

func TestAll(t *testing.T) { vh.RunAll(t) }

var idxRe = regexp.MustCompile(`\[\d+\]`)

var family = []int{2, 3, 4, 6}

// ---------------------------------------------------------------------------
// model-free invariants over a flattened tax summary

type rowT struct {
	total  *big.Rat // tax-exclusive total of the row (nil when unknown)
	combos []refcalc.Combo
}

func groupKey(cb refcalc.Combo) string {
	pct := "exempt"
	if cb.Percent != nil {
		pct = cb.Percent.Rat().RatString()
	}
	sur := ""
	if cb.Percent != nil && cb.Surcharge != nil {
		sur = cb.Surcharge.Rat().RatString()
	}
	return fmt.Sprintf("%s|%s|%s|%s", cb.Country, pct, sur, cb.Ext)
}

func dec(f map[string]string, path string) *big.Rat {
	d, err := ratref.ParseDec(f[path])
	if err != nil {
		return new(big.Rat)
	}
	return d.Rat()
}

func absr(x *big.Rat) *big.Rat { return new(big.Rat).Abs(x) }

// invariants checks the clauses of the statement that need no calculation
// model: the partition into groups, exempt rows kept apart, amount = percent
// of base, category = sum of groups, total = ordinary - retained.
func invariants(f map[string]string, prefix string, rows []rowT, regime string, c int, rule string, o *vh.Obs) bool {
	unit := new(big.Rat).SetFrac(big.NewInt(1), ratref.Pow10(c))
	half := new(big.Rat).Quo(unit, big.NewRat(2, 1))
	// expected partition: category -> set of group keys, in order of first appearance
	var catOrder []string
	expect := map[string][]string{}
	members := map[string]map[string]int{}
	// a category is retained when its definition in the regime of the combo
	// that introduces it (the combo's country, else the document's) says so
	wantRetained := map[string]bool{}
	for _, r := range rows {
		for _, cb := range r.combos {
			if _, ok := expect[cb.Cat]; !ok {
				catOrder = append(catOrder, cb.Cat)
				members[cb.Cat] = map[string]int{}
				wantRetained[cb.Cat] = cb.Retained
				if cb.Country != "" && cb.Cat != "VAT" {
					o.Class("foreign-category-first")
					if cb.Retained {
						o.Class("foreign-retained-category")
					}
				}
			}
			k := groupKey(cb)
			if members[cb.Cat][k] == 0 {
				expect[cb.Cat] = append(expect[cb.Cat], k)
			}
			members[cb.Cat][k]++
		}
	}
	// observed
	var obsCats []string
	taxSum := new(big.Rat)
	nGroups := 0
	for ci := 0; ; ci++ {
		cp := fmt.Sprintf("%s.categories[%d]", prefix, ci)
		code, ok := f[cp+".code"]
		if !ok {
			break
		}
		obsCats = append(obsCats, code)
		retained := f[cp+".retained"] == "true"
		if want, ok := wantRetained[code]; ok && want != retained {
			o.Failf("partition:retained-flag", "category %s retained=%v in the summary, the published definition that applies to its first combo (document regime %s) says %v", code, retained, regime, want)
			return false
		}
		var obsKeys []string
		catAmt, catSur := new(big.Rat), new(big.Rat)
		nr := 0
		for ri := 0; ; ri++ {
			rp := fmt.Sprintf("%s.rates[%d]", cp, ri)
			if _, ok := f[rp+".base"]; !ok {
				break
			}
			nr++
			nGroups++
			cb := refcalc.Combo{Cat: code, Country: f[rp+".country"], Ext: f[rp+".ext"]}
			if s, ok := f[rp+".percent"]; ok {
				d, err := refcalc.ParsePercent(s)
				if err != nil {
					o.Failf("partition:percent-text", "%s.percent = %q", rp, s)
					return false
				}
				cb.Percent = &d
			}
			if s, ok := f[rp+".surcharge.percent"]; ok {
				d, err := refcalc.ParsePercent(s)
				if err != nil {
					o.Failf("partition:percent-text", "%s.surcharge.percent = %q", rp, s)
					return false
				}
				cb.Surcharge = &d
			}
			obsKeys = append(obsKeys, groupKey(cb))
			base, amt := dec(f, rp+".base"), dec(f, rp+".amount")
			if cb.Percent == nil {
				o.Class("exempt-group")
				if amt.Sign() != 0 {
					o.Failf("group:exempt-amount", "%s has no percentage but amount %s", rp, f[rp+".amount"])
					return false
				}
			} else {
				// amount is the percentage of the base (both presented: half a unit each way)
				want := new(big.Rat).Mul(base, cb.Percent.Rat())
				// presented amount and base: half a unit each way, plus the rounding at the working precision (>= c+2)
				tol := new(big.Rat).Add(half, new(big.Rat).Mul(half, absr(cb.Percent.Rat())))
				tol.Add(tol, new(big.Rat).Quo(half, big.NewRat(100, 1)))
				if rule == "currency" {
					tol = new(big.Rat).Set(half)
				}
				if absr(new(big.Rat).Sub(amt, want)).Cmp(tol) > 0 {
					o.Failf("group:amount-not-percent-of-base", "%s: amount %s is not %s of base %s", rp, f[rp+".amount"], f[rp+".percent"], f[rp+".base"])
					return false
				}
				if cb.Surcharge != nil {
					o.Class("surcharge-group")
					sa := dec(f, rp+".surcharge.amount")
					want := new(big.Rat).Mul(base, cb.Surcharge.Rat())
					tol := new(big.Rat).Add(half, new(big.Rat).Mul(half, absr(cb.Surcharge.Rat())))
					tol.Add(tol, new(big.Rat).Quo(half, big.NewRat(100, 1)))
					if absr(new(big.Rat).Sub(sa, want)).Cmp(tol) > 0 {
						o.Failf("group:surcharge-not-percent-of-base", "%s: surcharge %s is not %s of base %s", rp, f[rp+".surcharge.amount"], f[rp+".surcharge.percent"], f[rp+".base"])
						return false
					}
					catSur.Add(catSur, sa)
				}
			}
			catAmt.Add(catAmt, amt)
		}
		// the groups of this category are exactly the distinct keys of its combos
		want := append([]string{}, expect[code]...)
		got := append([]string{}, obsKeys...)
		sort.Strings(want)
		sort.Strings(got)
		if strings.Join(want, "\n") != strings.Join(got, "\n") {
			o.Failf("partition:groups", "category %s has groups %q, the rows' combos distinguish %q (country|percent|surcharge|extensions)", code, got, want)
			return false
		}
		if nr >= 2 {
			o.Class("multi-group-category")
			o.NonTrivial()
		}
		if retained {
			o.Class("retained-category")
			o.NonTrivial()
		}
		// category = sum of its groups (presented figures: half a unit per group, exact under the currency rule)
		tolN := new(big.Rat).Mul(half, big.NewRat(int64(nr+1), 1))
		if rule == "currency" {
			tolN = new(big.Rat)
		}
		if absr(new(big.Rat).Sub(dec(f, cp+".amount"), catAmt)).Cmp(tolN) > 0 {
			o.Failf("category:amount-not-sum", "category %s amount %s is not the sum of its %d groups (%s)", code, f[cp+".amount"], nr, catAmt.FloatString(c+2))
			return false
		}
		if _, ok := f[cp+".surcharge"]; ok || catSur.Sign() != 0 {
			if absr(new(big.Rat).Sub(dec(f, cp+".surcharge"), catSur)).Cmp(tolN) > 0 {
				o.Failf("category:surcharge-not-sum", "category %s surcharge %q is not the sum of its groups' surcharges (%s)", code, f[cp+".surcharge"], catSur.FloatString(c+2))
				return false
			}
		}
		part := new(big.Rat).Add(dec(f, cp+".amount"), dec(f, cp+".surcharge"))
		if retained {
			taxSum.Sub(taxSum, part)
		} else {
			taxSum.Add(taxSum, part)
		}
	}
	if strings.Join(obsCats, ",") != strings.Join(catOrder, ",") {
		o.Failf("partition:categories", "summary has categories %v, the rows use %v", obsCats, catOrder)
		return false
	}
	tol := new(big.Rat).Mul(half, big.NewRat(int64(2*len(obsCats)+1), 1))
	if rule == "currency" {
		tol = new(big.Rat)
	}
	if absr(new(big.Rat).Sub(dec(f, prefix+".sum"), taxSum)).Cmp(tol) > 0 {
		o.Failf("sum:ordinary-minus-retained", "tax total %s is not ordinary categories minus retained ones including surcharges (%s)", f[prefix+".sum"], taxSum.FloatString(c+2))
		return false
	}
	return true
}

// ---------------------------------------------------------------------------
// (A) the tax calculator on its own

type TaxRowCase struct {
	Total  string         `json:"total"`
	Combos []docgen.Combo `json:"combos"`
}

type TaxCase struct {
	Regime   string       `json:"regime"`
	Currency string       `json:"currency"`
	Rule     string       `json:"rule"`
	Includes string       `json:"includes,omitempty"`
	Rows     []TaxRowCase `json:"rows"`
}

type line struct {
	total num.Amount
	taxes tax.Set
}

func (l *line) GetTaxes() tax.Set    { return l.taxes }
func (l *line) GetTotal() num.Amount { return l.total }

func buildSet(cs []docgen.Combo) (tax.Set, error) {
	var set tax.Set
	for _, c := range cs {
		cb := &tax.Combo{Category: cbc.Code(c.Cat), Rate: cbc.Key(c.Rate), Country: l10n.TaxCountryCode(c.Country)}
		if c.Percent != "" {
			p, err := num.PercentageFromString(c.Percent)
			if err != nil {
				return nil, err
			}
			cb.Percent = &p
		}
		if c.Surcharge != "" {
			p, err := num.PercentageFromString(c.Surcharge)
			if err != nil {
				return nil, err
			}
			cb.Surcharge = &p
		}
		if len(c.Ext) > 0 {
			cb.Ext = tax.Extensions{}
			for k, v := range c.Ext {
				cb.Ext[cbc.Key(k)] = cbc.Code(v)
			}
		}
		set = append(set, cb)
	}
	return set, nil
}

func resolved(regime string, set tax.Set) []refcalc.Combo {
	var out []refcalc.Combo
	for _, cb := range set {
		rc := refcalc.Combo{Cat: string(cb.Category), Key: string(cb.Rate), Country: string(cb.Country)}
		if cb.Percent != nil {
			d := ratref.NewDec(cb.Percent.Value(), int(cb.Percent.Exp()))
			rc.Percent = &d
		}
		if cb.Surcharge != nil {
			d := ratref.NewDec(cb.Surcharge.Value(), int(cb.Surcharge.Exp()))
			rc.Surcharge = &d
		}
		if len(cb.Ext) > 0 {
			m := map[string]string{}
			for k, v := range cb.Ext {
				m[string(k)] = string(v)
			}
			rc.Ext = refcalc.ExtKey(m)
		}
		country := regime
		if rc.Country != "" && pubdata.HasRegime(rc.Country) {
			country = rc.Country
		}
		rc.Retained = pubdata.Retained(country, rc.Cat)
		out = append(out, rc)
	}
	return out
}

func judgeCalculator(c TaxCase, o *vh.Obs) {
	cur := currency.Code(c.Currency)
	if cur.Def() == nil {
		o.Discard()
		return
	}
	var lines []tax.TaxableLine
	var sets []tax.Set
	var totals []ratref.Dec
	for _, r := range c.Rows {
		a, err := num.AmountFromString(r.Total)
		if err != nil {
			o.Discard()
			return
		}
		set, err := buildSet(r.Combos)
		if err != nil {
			o.Discard()
			return
		}
		lines = append(lines, &line{total: a, taxes: set})
		sets = append(sets, set)
		totals = append(totals, ratref.NewDec(a.Value(), int(a.Exp())))
	}
	tc := &tax.TotalCalculator{
		Country:  l10n.TaxCountryCode(c.Regime),
		Rounding: cbc.Key(c.Rule),
		Currency: cur,
		Date:     cal.MakeDate(2024, 6, 13),
		Lines:    lines,
		Includes: cbc.Code(c.Includes),
	}
	total := new(tax.Total)
	if err := tc.Calculate(total); err != nil {
		o.Class("calc-error")
		o.Discard()
		return
	}
	data, err := json.Marshal(total)
	if err != nil {
		o.Failf("calculator:unserialisable", "%v", err)
		return
	}
	var m map[string]any
	_ = json.Unmarshal(data, &m)
	fig := map[string]string{}
	billrun.FlattenTaxes(fig, "taxes", m)

	env := refcalc.Env{C: billrun.Decimals(c.Currency), Currency: c.Currency, Rule: c.Rule, K1: 2, K2: 2, Decimals: billrun.Decimals}
	var rows []refcalc.TaxRow
	var rts []rowT
	for i := range c.Rows {
		cbs := resolved(c.Regime, sets[i])
		rows = append(rows, refcalc.TaxRow{Total: totals[i], Combos: cbs})
		rts = append(rts, rowT{total: totals[i].Rat(), combos: cbs})
	}
	o.Class("rule-" + c.Rule)
	if c.Includes != "" {
		o.Class("tax-included")
		o.NonTrivial()
	}
	var first *refcalc.Result
	matched := false
	var diffs []string
	for _, k := range family {
		e2 := env
		e2.K2 = k
		ref, err := refcalc.CalcTaxes(e2, rows, c.Includes)
		if err != nil {
			o.Failf("model:calculated-incalculable", "summary calculated although the reference refuses: %v", err)
			return
		}
		if first == nil {
			first = ref
			if ref.Stats.OutOfDomain {
				o.Class("outside-2^52-domain")
				o.Discard()
				return
			}
		}
		d := billrun.Compare(ref.Figures, fig)
		if len(d) == 0 {
			matched = true
			break
		}
		if diffs == nil {
			diffs = d
		}
	}
	if first.Stats.Roundings > 0 {
		o.Class("rounded")
	}
	if first.Stats.Ties > 0 {
		o.Class("tie")
	}
	if !invariants(fig, "taxes", rts, c.Regime, env.C, c.Rule, o) {
		return
	}
	if !matched {
		path := strings.SplitN(diffs[0], ":", 2)[0]
		o.Failf("model:"+idxRe.ReplaceAllString(path, "[]"), "%d figure(s) of the tax summary differ from the reference partition (rule %s, %s/%d): %s", len(diffs), c.Rule, c.Currency, env.C, strings.Join(head(diffs, 5), "; "))
		return
	}
	o.Note("regime=%s rule=%s rows=%d sum=%s", c.Regime, c.Rule, len(c.Rows), fig["taxes.sum"])
}

func head(s []string, n int) []string {
	if len(s) > n {
		return s[:n]
	}
	return s
}

func genAmount(t *rapid.T, label string) string {
	neg := rapid.IntRange(0, 9).Draw(t, label+"_neg") < 2
	if rapid.IntRange(0, 14).Draw(t, label+"_zero") == 0 {
		return "0.00"
	}
	nd := rapid.IntRange(1, 5).Draw(t, label+"_nd")
	var sb strings.Builder
	if neg {
		sb.WriteByte('-')
	}
	for i := 0; i < nd; i++ {
		lo := 0
		if i == 0 && nd > 1 {
			lo = 1
		}
		sb.WriteByte(byte('0' + rapid.IntRange(lo, 9).Draw(t, label+"_d")))
	}
	dec := rapid.SampledFrom([]int{2, 2, 2, 0, 3, 4, 4, 5, 6}).Draw(t, label+"_dec")
	if dec > 0 {
		sb.WriteByte('.')
		for i := 0; i < dec; i++ {
			d := rapid.SampledFrom([]int{0, 0, 1, 2, 3, 4, 5, 5, 5, 6, 7, 8, 9}).Draw(t, label+"_f")
			sb.WriteByte(byte('0' + d))
		}
	}
	return sb.String()
}

func genTaxCase(t *rapid.T) TaxCase {
	regs, list := pubdata.Regimes()
	c := TaxCase{Regime: rapid.SampledFrom(list).Draw(t, "regime")}
	reg := regs[c.Regime]
	c.Currency = reg.Currency
	if rapid.IntRange(0, 9).Draw(t, "owncur") < 3 {
		c.Currency = rapid.SampledFrom([]string{"EUR", "USD", "JPY", "KWD", "CLP", "BHD"}).Draw(t, "currency")
	}
	c.Rule = rapid.SampledFrom([]string{"precise", "precise", "currency"}).Draw(t, "rule")
	if rapid.IntRange(0, 9).Draw(t, "inc") < 3 {
		var cands []string
		for _, cat := range reg.Categories {
			if !cat.Retained {
				cands = append(cands, cat.Code)
			}
		}
		if len(cands) > 0 {
			c.Includes = rapid.SampledFrom(cands).Draw(t, "incl")
		}
	}
	n := rapid.IntRange(1, 7).Draw(t, "nrows")
	for i := 0; i < n; i++ {
		label := fmt.Sprintf("r%d", i)
		row := TaxRowCase{Total: genAmount(t, label+"_tot")}
		row.Combos = docgen.CombosFor(t, label, c.Regime, c.Includes, docgen.Opts{TaxHeavy: true})
		// reuse the combos of an earlier row often, so rows share groups
		if i > 0 && rapid.IntRange(0, 9).Draw(t, label+"_reuse") < 5 {
			row.Combos = c.Rows[rapid.IntRange(0, i-1).Draw(t, label+"_from")].Combos
		}
		c.Rows = append(c.Rows, row)
	}
	return c
}

// ---------------------------------------------------------------------------
// (B) whole documents

func judgeDocument(p docgen.Plan, o *vh.Obs) {
	out := billrun.Run(p)
	if p.CustomerRates != "" {
		o.Class("customer-rates")
	}
	if out.Err != nil {
		o.Class("calc-error")
		o.Discard()
		return
	}
	env := out.Env
	ref, err := refcalc.Calculate(p, env, out.Rows)
	if err != nil {
		o.Failf("model:calculated-incalculable", "document calculated although the reference refuses: %v", err)
		return
	}
	if ref.Stats.OutOfDomain {
		o.Class("outside-2^52-domain")
		o.Discard()
		return
	}
	if !ref.HasTotals {
		o.Class("no-totals")
		return
	}
	o.Class("rule-" + env.Rule)
	// rows as the summary sees them: priced lines, discounts (negative), charges
	var rts []rowT
	for i := range p.Lines {
		if i < len(ref.Prices) && ref.Prices[i].Units != nil && i < len(out.Rows.Lines) {
			rts = append(rts, rowT{combos: out.Rows.Lines[i]})
		}
	}
	for i := range p.Discounts {
		if i < len(out.Rows.Discounts) {
			rts = append(rts, rowT{combos: out.Rows.Discounts[i]})
		}
	}
	for i := range p.Charges {
		if i < len(out.Rows.Charges) {
			rts = append(rts, rowT{combos: out.Rows.Charges[i]})
		}
	}
	anyCombo := false
	for _, r := range rts {
		if len(r.combos) > 0 {
			anyCombo = true
		}
	}
	if anyCombo {
		if !invariants(out.Figures, "totals.taxes", rts, p.Regime, env.C, env.Rule, o) {
			return
		}
	} else if _, ok := out.Figures["totals.taxes.sum"]; ok {
		o.Failf("partition:summary-without-taxes", "a tax summary is presented although no row carries a tax")
		return
	}
	// the tax figures against the reference partition (family of tax working precisions)
	taxOnly := func(m map[string]string) map[string]string {
		out := map[string]string{}
		for k, v := range m {
			if strings.HasPrefix(k, "totals.taxes.") || k == "totals.tax" || k == "totals.tax_included" || k == "totals.total_with_tax" {
				out[k] = v
			}
		}
		return out
	}
	obs := taxOnly(out.Figures)
	matched := false
	var diffs []string
	for _, k := range family {
		e2 := env
		e2.K2 = k
		r2, err := refcalc.Calculate(p, e2, out.Rows)
		if err != nil {
			continue
		}
		d := billrun.Compare(taxOnly(r2.Figures), obs)
		if len(d) == 0 {
			matched = true
			break
		}
		if diffs == nil {
			diffs = d
		}
	}
	if !matched {
		path := strings.SplitN(diffs[0], ":", 2)[0]
		o.Failf("model:"+idxRe.ReplaceAllString(path, "[]"), "%d tax figure(s) differ from the reference partition (rule %s, %s/%d): %s", len(diffs), env.Rule, env.Currency, env.C, strings.Join(head(diffs, 5), "; "))
		return
	}
	// gross-sum relation: prices include X and no other tax applies
	if p.PricesInclude != "" {
		o.Class("tax-included")
		o.NonTrivial()
		only := true
		for _, r := range rts {
			for _, cb := range r.combos {
				// a surcharge is a further tax on top of the included one
				if cb.Cat != p.PricesInclude || cb.Surcharge != nil {
					only = false
				}
			}
		}
		if only && anyCombo {
			o.Class("gross-sum-relation")
			gross := ref.PreTaxTotal.Rescale(env.C).String()
			if got := out.Figures["totals.total_with_tax"]; got != gross {
				o.Failf("included:gross-sum", "prices include %s and no other tax applies: total with tax %s differs from the gross sum of the rows %s", p.PricesInclude, got, gross)
				return
			}
		}
	}
	o.Note("regime=%s rule=%s rows=%d tax=%s", p.Regime, env.Rule, len(rts), out.Figures["totals.tax"])
}

func init() {
	vh.Describe(
		"(A) tax.TotalCalculator directly: 1-7 taxable rows with totals of either sign and 0-6 decimals (and zero), 1-4 combos each drawn from the regime's published categories (keyed rates, explicit percentages incl. 0%, exempt keys, surcharges, extension maps, per-combo country overrides to VAT or to any category, ordinary or retained, of another regime), rows frequently sharing combos, with and without an included category, both rounding rules, every registered regime, currencies with 0/2/3 decimals. (B) whole documents from internal/docgen in tax-heavy mode, half of them with an included tax as the only category. Oracles: model-free invariants (groups of a category = distinct (country, percent-or-exempt, surcharge, extensions) of its combos, exempt apart from 0%, amount = percent of base, category = sum of groups, total = ordinary - retained incl. surcharges), the reference partition in exact decimals (family of tax working precisions), and the gross-sum relation when prices include the only tax. Non-trivial: a category with >= 2 groups, a retained category, or an included tax.",
		"keyed rate percentages are taken from the calculated combos (rate selection is property C12)",
		"row order inside a category follows first appearance and is asserted only as a set",
	)
	vh.Rapid("calculator", 40_000, 2_400_000, genTaxCase, judgeCalculator)
	vh.Rapid("documents", 8_000, 480_000, func(t *rapid.T) docgen.Plan {
		return docgen.GenPlan(t, docgen.Opts{TaxHeavy: true, MaxLines: 5})
	}, judgeDocument)
	vh.Rapid("documents_gross", 6_000, 320_000, func(t *rapid.T) docgen.Plan {
		return docgen.GenPlan(t, docgen.Opts{OnlyInclude: true, MaxLines: 5})
	}, judgeDocument)
}
