// Package c16 decides property C16: correcting or replicating an envelope
// yields a linked, freshly calculated, unsigned new envelope and leaves the
// source envelope, document, header and signatures intact.
//
// Referees:
//   - the refusal model is computed from the PUBLISHED definition files
//     data/regimes/*.json and data/addons/*.json (`corrections` of schema
//     bill/invoice, merged regime first, then the active addons in order, the
//     way tax/corrections.go Merge documents), never from the Go tables;
//   - the expected document is built by editing the JSON text of the source
//     document (type, series, code, issue date, preceding[0]) and calculating
//     it independently of Envelope.Correct / Replicate;
//   - "source intact" is the JSON bytes of the source envelope plus a
//     reflection dump of everything reachable from it (unexported fields
//     included), taken before the call, after the call, and after the RESULT
//     has been recalculated, stamped, signed and had every reachable string,
//     number, map and slice element overwritten in place.
package c16

import (
	"bytes"
	"context"
	"encoding/json"
	"fmt"
	"io"
	"os"
	"os/exec"
	"path/filepath"
	"reflect"
	"runtime"
	"sort"
	"strings"
	"sync"
	"testing"
	"time"
	"unsafe"

	"github.com/invopop/gobl"
	"github.com/invopop/gobl/bill"
	"github.com/invopop/gobl/cal"
	"github.com/invopop/gobl/cbc"
	"github.com/invopop/gobl/dsig"
	"github.com/invopop/gobl/head"
	"github.com/invopop/gobl/internal/cli"
	"github.com/invopop/gobl/org"
	"github.com/invopop/gobl/schema"
	"github.com/invopop/gobl/tax"
	"github.com/invopop/gobl/verifharness/internal/corpus"
	"github.com/invopop/gobl/verifharness/internal/jsontree"
	"github.com/invopop/gobl/verifharness/internal/vh"
	"pgregory.net/rapid"
)

func TestMain(m *testing.M) { vh.Main(m, "C16") }

func TestAll(t *testing.T) { vh.RunAll(t) }

// ---------------------------------------------------------------------------
// "today": sampled once, outside the property. Correct and Replicate stamp the
// current date; any of the three dates around the sample is accepted.

var todayWindow = func() []string {
	now := time.Now().UTC()
	out := make([]string, 0, 3)
	for _, n := range []int{-1, 0, 1} {
		out = append(out, now.AddDate(0, 0, n).Format("2006-01-02"))
	}
	return out
}()

func inWindow(d string) bool {
	for _, w := range todayWindow {
		if w == d {
			return true
		}
	}
	return false
}

// signing key of the source envelopes (signatures are never compared byte-wise)
var signKey = dsig.NewES256Key()

const (
	undefinedType = "c16-undefined"
	undefinedExt  = "c16-undefined-ext"
	otherStamp    = "c16-other"
	defaultReason = "C16 reason"
)

// codes tried when a source without code is given one (PT SAF-T wants "<doc type> <series>/<number>")
var setCodes = []string{"C16-0001", "FT C16/1", "NC C16/1", "ND C16/1", "FS C16/1", "FR C16/1", "PF C16/1"}

// ---------------------------------------------------------------------------
// published definitions

type pubCorrection struct {
	Schema         string   `json:"schema"`
	Types          []string `json:"types"`
	Extensions     []string `json:"extensions"`
	ReasonRequired bool     `json:"reason_required"`
	Stamps         []string `json:"stamps"`
	CopyTax        bool     `json:"copy_tax"`
}

type pubExtension struct {
	Key    string `json:"key"`
	Values []struct {
		Code string `json:"code"`
	} `json:"values"`
	Pattern string `json:"pattern"`
}

type pubFile struct {
	Country     string          `json:"country"`
	Alt         []string        `json:"alt_country_codes"`
	Key         string          `json:"key"`
	Corrections []pubCorrection `json:"corrections"`
	Extensions  []pubExtension  `json:"extensions"`
}

type published struct {
	regimes  map[string]*pubFile // by country and alternative country code
	addons   map[string]*pubFile // by key
	extCodes map[string][]string // extension key -> published codes
	extKeys  []string            // every published extension key with a code list
	types    []string            // invoice types of the published schema
}

var (
	pubOnce sync.Once
	pub     published
)

func loadPub() *published {
	pubOnce.Do(func() {
		pub.regimes = map[string]*pubFile{}
		pub.addons = map[string]*pubFile{}
		pub.extCodes = map[string][]string{}
		repo := vh.Cfg().Repo
		read := func(dir string, into func(*pubFile)) {
			files, _ := filepath.Glob(filepath.Join(repo, "data", dir, "*.json"))
			sort.Strings(files)
			if len(files) == 0 {
				panic("c16: no published files under data/" + dir)
			}
			for _, f := range files {
				data, err := os.ReadFile(f)
				if err != nil {
					panic(err)
				}
				pf := new(pubFile)
				if err := json.Unmarshal(data, pf); err != nil {
					panic(fmt.Sprintf("c16: %s: %v", f, err))
				}
				into(pf)
				for _, e := range pf.Extensions {
					if len(e.Values) == 0 {
						continue
					}
					var codes []string
					for _, v := range e.Values {
						codes = append(codes, v.Code)
					}
					if _, dup := pub.extCodes[e.Key]; !dup {
						pub.extKeys = append(pub.extKeys, e.Key)
					}
					pub.extCodes[e.Key] = codes
				}
			}
		}
		read("regimes", func(pf *pubFile) {
			if pf.Country == "" {
				return
			}
			pub.regimes[pf.Country] = pf
			for _, a := range pf.Alt {
				pub.regimes[a] = pf
			}
		})
		read("addons", func(pf *pubFile) {
			if pf.Key != "" {
				pub.addons[pf.Key] = pf
			}
		})
		sort.Strings(pub.extKeys)
		// invoice types from the published schema
		data, err := os.ReadFile(filepath.Join(repo, "data", "schemas", "bill", "invoice.json"))
		if err == nil {
			var s struct {
				Defs map[string]struct {
					Properties map[string]struct {
						OneOf []struct {
							Const string `json:"const"`
						} `json:"oneOf"`
					} `json:"properties"`
				} `json:"$defs"`
			}
			if json.Unmarshal(data, &s) == nil {
				for _, o := range s.Defs["Invoice"].Properties["type"].OneOf {
					pub.types = append(pub.types, o.Const)
				}
			}
		}
		if len(pub.types) == 0 {
			panic("c16: cannot read the invoice types from data/schemas/bill/invoice.json")
		}
	})
	return &pub
}

// definition is the merged correction definition of a regime and its addons.
type definition struct {
	Defined        bool // some source published a definition for bill/invoice
	Types          []string
	Extensions     []string
	ReasonRequired bool
	Stamps         []string
	CopyTax        bool
}

func corrFor(pf *pubFile) *pubCorrection {
	if pf == nil {
		return nil
	}
	for i := range pf.Corrections {
		if strings.HasSuffix("bill/invoice", pf.Corrections[i].Schema) {
			return &pf.Corrections[i]
		}
	}
	return nil
}

func mergedDef(regime string, addons []string) definition {
	p := loadPub()
	var d definition
	add := func(c *pubCorrection) {
		if c == nil {
			return
		}
		d.Defined = true
		d.Types = append(d.Types, c.Types...)
		d.Extensions = append(d.Extensions, c.Extensions...)
		d.ReasonRequired = d.ReasonRequired || c.ReasonRequired
		d.Stamps = append(d.Stamps, c.Stamps...)
		d.CopyTax = d.CopyTax || c.CopyTax
	}
	add(corrFor(p.regimes[regime]))
	for _, a := range addons {
		add(corrFor(p.addons[a]))
	}
	return d
}

func has(list []string, s string) bool {
	for _, x := range list {
		if x == s {
			return true
		}
	}
	return false
}

func dedup(list []string) []string {
	var out []string
	for _, x := range list {
		if !has(out, x) {
			out = append(out, x)
		}
	}
	return out
}

// ---------------------------------------------------------------------------
// cases

// Stamp is a header stamp handed over in the options.
type Stamp struct {
	Prv string `json:"prv,omitempty"`
	Val string `json:"val,omitempty"`
}

// Opts is the option vector; its JSON form is the correction options object
// accepted by bill.WithData / the CLI `--data` flag / the bulk `options`.
type Opts struct {
	Type      string            `json:"type,omitempty"`
	Reason    string            `json:"reason,omitempty"`
	Ext       map[string]string `json:"ext,omitempty"`
	Series    string            `json:"series,omitempty"`
	IssueDate string            `json:"issue_date,omitempty"`
	CopyTax   bool              `json:"copy_tax,omitempty"`
	Stamps    []Stamp           `json:"stamps,omitempty"`
}

// Case = (corpus invoice, option vector, entry point).
type Case struct {
	Path string `json:"path"`
	// Op: correct | replicate
	Op string `json:"op"`
	// Entry: lib (Envelope.Correct/Replicate) | cli (in-process internal/cli) |
	// cli-doc (in-process, bare document input) | bulk (cli.Bulk) | exec (gobl executable)
	Entry string `json:"entry"`
	// Pass: func (functional options) | struct (WithOptions) | data (WithData /
	// --data JSON) | flags (CLI: --credit/--debit, Date; the rest as JSON)
	Pass string `json:"pass,omitempty"`
	Opts Opts   `json:"opts"`
	// HeadStamps: providers stamped on the source header (value "C16/<provider>")
	HeadStamps []string `json:"head_stamps,omitempty"`
	// Sign: the source envelope is signed (always when it carries stamps)
	Sign bool `json:"sign,omitempty"`
	// Code: "" keep | strip (source without code) | set (code C16-0001)
	Code string `json:"code,omitempty"`
	// SrcDates: the source is given a value_date and an op_date (= its issue date)
	SrcDates bool `json:"src_dates,omitempty"`
	// SrcRounding: the source carries its own totals.rounding (-0.01), the one
	// member of the totals that is an input: business content a replica keeps
	SrcRounding bool `json:"src_rounding,omitempty"`
	// Edits applied to the result before the source is compared again (lib
	// entry): recalc, stamp, sign, append, scribble
	Edits []string `json:"edits,omitempty"`
	// After (bulk entry): the request is the second of its stream, sent once an
	// unrelated correct request carrying every option has been answered; and
	// when no option is set, the payload has no `options` member at all
	After bool `json:"after,omitempty"`
}

var allEdits = []string{"recalc", "stamp", "sign", "append", "scribble"}

// ---------------------------------------------------------------------------
// corpus

type docInfo struct {
	doc    corpus.Doc
	ok     bool // builds and validates
	regime string
	addons []string
	def    definition
	code   string
	typ    string
}

var (
	corpOnce sync.Once
	corpList []*docInfo
	corpBy   map[string]*docInfo
)

func loadCorpus() []*docInfo {
	corpOnce.Do(func() {
		corpBy = map[string]*docInfo{}
		invoices := corpus.Invoices()
		// every invoice that lists addons also comes without them (same regime, regime
		// rules only): what one document's addons require must never carry over to
		// another document of the same regime corrected later in the same process
		var stripped []corpus.Doc
		for _, d := range invoices {
			if len(d.Addons) == 0 {
				continue
			}
			tree, err := jsontree.Decode(d.JSON)
			if err != nil {
				continue
			}
			t2, err := jsontree.Delete(tree, "/$addons")
			if err != nil {
				continue
			}
			d2 := d
			d2.Path, d2.JSON, d2.Addons = d.Path+"#no-addons", jsontree.Encode(t2), nil
			stripped = append(stripped, d2)
		}
		invoices = append(invoices, stripped...)
		for _, d := range invoices {
			di := &docInfo{doc: d}
			corpList = append(corpList, di)
			corpBy[d.Path] = di
			env, err := d.Envelope()
			if err != nil || env.Validate() != nil {
				continue
			}
			m, err := docMap(env)
			if err != nil {
				continue
			}
			di.ok = true
			di.regime, _ = m["$regime"].(string)
			if as, ok := m["$addons"].([]any); ok {
				for _, a := range as {
					if s, ok := a.(string); ok {
						di.addons = append(di.addons, s)
					}
				}
			}
			di.code, _ = m["code"].(string)
			di.typ, _ = m["type"].(string)
			di.def = mergedDef(di.regime, di.addons)
		}
		if len(corpList) == 0 {
			panic("c16: no invoices in the corpus")
		}
	})
	return corpList
}

func docMap(env *gobl.Envelope) (map[string]any, error) {
	data, err := json.Marshal(env.Document)
	if err != nil {
		return nil, err
	}
	v, err := jsontree.Decode(data)
	if err != nil {
		return nil, err
	}
	m, ok := v.(map[string]any)
	if !ok {
		return nil, fmt.Errorf("document is not an object")
	}
	return m, nil
}

// buildSource builds the source envelope of a case: calculated, valid, signed
// and stamped as requested. status != "" means the case is outside the domain.
func buildSource(c Case) (*gobl.Envelope, string) {
	loadCorpus()
	di := corpBy[c.Path]
	if di == nil {
		return nil, "unknown-path"
	}
	var env *gobl.Envelope
	switch {
	case c.Code == "" && !c.SrcDates && !c.SrcRounding:
		var err error
		if env, err = corpus.EnvelopeOf(di.doc.JSON, di.doc.IsEnv); err != nil {
			return nil, "source-does-not-calculate"
		}
	case c.Code == "" || c.Code == "strip" || c.Code == "set":
		v, err := jsontree.Decode(di.doc.JSON)
		if err != nil {
			return nil, "source-unreadable"
		}
		root, _ := v.(map[string]any)
		doc := root
		if di.doc.IsEnv {
			doc, _ = root["doc"].(map[string]any)
		}
		if doc == nil {
			return nil, "source-unreadable"
		}
		if c.SrcDates {
			d, ok := doc["issue_date"].(string)
			if !ok {
				return nil, "source-without-issue-date"
			}
			doc["value_date"], doc["op_date"] = d, d
		}
		if c.SrcRounding {
			tot, _ := doc["totals"].(map[string]any)
			if tot == nil {
				tot = map[string]any{}
			}
			tot["rounding"] = "-0.01"
			doc["totals"] = tot
		}
		cands := []string{"keep"}
		switch c.Code {
		case "strip":
			cands = []string{""}
		case "set":
			cands = setCodes // the first one the regime / addons accept
		}
		for _, code := range cands {
			switch code {
			case "keep":
			case "":
				delete(doc, "code")
			default:
				doc["code"] = code
			}
			e, err := corpus.EnvelopeOf(jsontree.Encode(root), di.doc.IsEnv)
			if err != nil {
				continue
			}
			e.Signatures, e.Head.Stamps = nil, nil
			if e.Validate() == nil {
				env = e
				break
			}
		}
		if env == nil {
			return nil, "source-invalid"
		}
	default:
		return nil, "bad-case"
	}
	env.Signatures = nil
	env.Head.Stamps = nil
	// every source header is labelled (tags, meta, notes): a result that took
	// them over by reference shares them with the source, which the edits of
	// the result then show
	env.Head.Tags = []string{"c16-b", "c16-a"}
	env.Head.Meta = cbc.Meta{"c16-source": "yes"}
	env.Head.Notes = "C16 source"
	if err := env.Validate(); err != nil {
		return nil, "source-invalid"
	}
	if c.Sign || len(c.HeadStamps) > 0 {
		if err := env.Sign(signKey); err != nil {
			return nil, "source-cannot-be-signed"
		}
		for _, p := range c.HeadStamps {
			env.Head.AddStamp(&head.Stamp{Provider: cbc.Key(p), Value: "C16/" + p})
		}
		if err := env.Validate(); err != nil {
			return nil, "stamped-source-invalid"
		}
	}
	return env, ""
}

// ---------------------------------------------------------------------------
// deep snapshot

type snapshot struct {
	json []byte
	deep string
}

func takeSnapshot(env *gobl.Envelope) (snapshot, error) {
	data, err := json.Marshal(env)
	if err != nil {
		return snapshot{}, err
	}
	var sb strings.Builder
	d := dumper{sb: &sb, seen: map[unsafe.Pointer]bool{}}
	sb.WriteString("schema=")
	sb.WriteString(string(env.Schema))
	sb.WriteString(";head=")
	d.dump(reflect.ValueOf(env.Head), 0)
	sb.WriteString(";doc=")
	if env.Document != nil {
		sb.WriteString(string(env.Document.Schema))
		sb.WriteString(":")
		d.dump(reflect.ValueOf(env.Document.Instance()), 0)
	}
	fmt.Fprintf(&sb, ";sigs=%d", len(env.Signatures))
	for _, s := range env.Signatures {
		if s == nil {
			sb.WriteString("|nil")
			continue
		}
		fmt.Fprintf(&sb, "|%p:%s", s, s.String())
	}
	return snapshot{json: data, deep: sb.String()}, nil
}

type dumper struct {
	sb   *strings.Builder
	seen map[unsafe.Pointer]bool
}

// dump writes a canonical text of everything reachable from v (unexported
// fields included; map entries in sorted order).
func (d *dumper) dump(v reflect.Value, depth int) {
	if depth > 64 {
		d.sb.WriteString("<deep>")
		return
	}
	if !v.IsValid() {
		d.sb.WriteString("<invalid>")
		return
	}
	switch v.Kind() {
	case reflect.Ptr:
		if v.IsNil() {
			d.sb.WriteString("nil")
			return
		}
		p := v.UnsafePointer()
		if d.seen[p] {
			d.sb.WriteString("<seen>")
			return
		}
		d.seen[p] = true
		d.sb.WriteString("&")
		d.dump(v.Elem(), depth+1)
	case reflect.Interface:
		if v.IsNil() {
			d.sb.WriteString("nil")
			return
		}
		d.sb.WriteString(v.Elem().Type().String())
		d.sb.WriteString(":")
		d.dump(v.Elem(), depth+1)
	case reflect.Struct:
		d.sb.WriteString("{")
		t := v.Type()
		for i := 0; i < v.NumField(); i++ {
			d.sb.WriteString(t.Field(i).Name)
			d.sb.WriteString("=")
			d.dump(v.Field(i), depth+1)
			d.sb.WriteString(";")
		}
		d.sb.WriteString("}")
	case reflect.Slice:
		if v.IsNil() {
			d.sb.WriteString("nil[]")
			return
		}
		fallthrough
	case reflect.Array:
		fmt.Fprintf(d.sb, "[%d:", v.Len())
		for i := 0; i < v.Len(); i++ {
			d.dump(v.Index(i), depth+1)
			d.sb.WriteString(",")
		}
		d.sb.WriteString("]")
	case reflect.Map:
		if v.IsNil() {
			d.sb.WriteString("nil{}")
			return
		}
		type kv struct{ k, v string }
		var rows []kv
		it := v.MapRange()
		for it.Next() {
			var ks, vs strings.Builder
			(&dumper{sb: &ks, seen: d.seen}).dump(it.Key(), depth+1)
			(&dumper{sb: &vs, seen: d.seen}).dump(it.Value(), depth+1)
			rows = append(rows, kv{ks.String(), vs.String()})
		}
		sort.Slice(rows, func(i, j int) bool { return rows[i].k < rows[j].k })
		d.sb.WriteString("map{")
		for _, r := range rows {
			d.sb.WriteString(r.k)
			d.sb.WriteString("->")
			d.sb.WriteString(r.v)
			d.sb.WriteString(",")
		}
		d.sb.WriteString("}")
	case reflect.String:
		fmt.Fprintf(d.sb, "%q", v.String())
	case reflect.Bool:
		fmt.Fprintf(d.sb, "%v", v.Bool())
	case reflect.Int, reflect.Int8, reflect.Int16, reflect.Int32, reflect.Int64:
		fmt.Fprintf(d.sb, "%d", v.Int())
	case reflect.Uint, reflect.Uint8, reflect.Uint16, reflect.Uint32, reflect.Uint64, reflect.Uintptr:
		fmt.Fprintf(d.sb, "%d", v.Uint())
	case reflect.Float32, reflect.Float64:
		fmt.Fprintf(d.sb, "%x", v.Float())
	case reflect.Complex64, reflect.Complex128:
		fmt.Fprintf(d.sb, "%v", v.Complex())
	default: // func, chan, unsafe pointer
		if v.IsNil() {
			d.sb.WriteString("nil")
		} else {
			d.sb.WriteString("<" + v.Kind().String() + ">")
		}
	}
}

// firstDiff names the first JSON position where two texts differ (array
// indexes dropped so that the name is stable).
func firstDiff(a, b []byte) string {
	x, err1 := jsontree.Decode(a)
	y, err2 := jsontree.Decode(b)
	if err1 != nil || err2 != nil {
		return "unreadable"
	}
	p, _ := diffTree(x, y, "")
	if p == "" {
		return "member-order"
	}
	return p
}

func diffTree(a, b any, at string) (string, string) {
	switch x := a.(type) {
	case map[string]any:
		y, ok := b.(map[string]any)
		if !ok {
			return at, fmt.Sprintf("%s vs %s", short(a), short(b))
		}
		keys := map[string]bool{}
		for k := range x {
			keys[k] = true
		}
		for k := range y {
			keys[k] = true
		}
		ks := make([]string, 0, len(keys))
		for k := range keys {
			ks = append(ks, k)
		}
		sort.Strings(ks)
		for _, k := range ks {
			xv, xo := x[k]
			yv, yo := y[k]
			p := k
			if at != "" {
				p = at + "." + k
			}
			if xo != yo {
				if xo {
					return p, fmt.Sprintf("%s vs absent", short(xv))
				}
				return p, fmt.Sprintf("absent vs %s", short(yv))
			}
			if q, m := diffTree(xv, yv, p); q != "" {
				return q, m
			}
		}
		return "", ""
	case []any:
		y, ok := b.([]any)
		if !ok {
			return at, fmt.Sprintf("%s vs %s", short(a), short(b))
		}
		for i := 0; i < len(x) && i < len(y); i++ {
			if q, m := diffTree(x[i], y[i], at+"[]"); q != "" {
				return q, m
			}
		}
		if len(x) != len(y) {
			return at + "[]", fmt.Sprintf("%d vs %d elements", len(x), len(y))
		}
		return "", ""
	default:
		if !jsontree.Equal(a, b) {
			return at, fmt.Sprintf("%s vs %s", short(a), short(b))
		}
		return "", ""
	}
}

func short(v any) string {
	s := string(jsontree.Encode(v))
	if len(s) > 120 {
		s = s[:120] + "..."
	}
	return s
}

// sourceIntact compares the source with its snapshot.
func sourceIntact(env *gobl.Envelope, before snapshot, o *vh.Obs, sigPrefix, when string) bool {
	after, err := takeSnapshot(env)
	if err != nil {
		o.Failf(sigPrefix+":unserialisable", "the source envelope no longer serialises %s: %v", when, err)
		return false
	}
	if !bytes.Equal(before.json, after.json) {
		p, m := "", ""
		x, e1 := jsontree.Decode(before.json)
		y, e2 := jsontree.Decode(after.json)
		if e1 == nil && e2 == nil {
			p, m = diffTree(x, y, "")
		}
		if p == "" {
			p = firstDiff(before.json, after.json)
		}
		o.Failf(sigPrefix+":"+p, "the source envelope changed %s: %s was %s", when, p, m)
		return false
	}
	if before.deep != after.deep {
		i := 0
		for i < len(before.deep) && i < len(after.deep) && before.deep[i] == after.deep[i] {
			i++
		}
		lo := i - 80
		if lo < 0 {
			lo = 0
		}
		hi := func(s string) int {
			if i+80 < len(s) {
				return i + 80
			}
			return len(s)
		}
		o.Failf(sigPrefix+":deep-state", "the source envelope serialises identically but its in-memory state changed %s: ...%s... became ...%s...", when, before.deep[lo:hi(before.deep)], after.deep[lo:hi(after.deep)])
		return false
	}
	return true
}

// ---------------------------------------------------------------------------
// overwriting the result in place (with an undo log, because calculated
// documents may legitimately point at shared definition tables)

type scribbler struct {
	seen map[unsafe.Pointer]bool
	undo []func()
	n    int
}

func writable(v reflect.Value) reflect.Value {
	if v.CanSet() {
		return v
	}
	if v.CanAddr() {
		return reflect.NewAt(v.Type(), unsafe.Pointer(v.UnsafeAddr())).Elem()
	}
	return reflect.Value{}
}

func (s *scribbler) set(v reflect.Value, nv reflect.Value) {
	w := writable(v)
	if !w.IsValid() {
		return
	}
	old := reflect.New(w.Type()).Elem()
	old.Set(w)
	s.undo = append(s.undo, func() { w.Set(old) })
	w.Set(nv)
	s.n++
}

func (s *scribbler) walk(v reflect.Value, depth int) {
	if !v.IsValid() || depth > 64 {
		return
	}
	switch v.Kind() {
	case reflect.Ptr:
		if v.IsNil() {
			return
		}
		p := v.UnsafePointer()
		if s.seen[p] {
			return
		}
		s.seen[p] = true
		s.walk(v.Elem(), depth+1)
	case reflect.Interface:
		if v.IsNil() {
			return
		}
		if e := v.Elem(); e.Kind() == reflect.Ptr || e.Kind() == reflect.Map || e.Kind() == reflect.Slice {
			s.walk(e, depth+1)
		}
	case reflect.Struct:
		for i := 0; i < v.NumField(); i++ {
			f := v.Field(i)
			if !f.CanSet() {
				// unexported: only plain values (amounts, flags), never pointers
				switch f.Kind() {
				case reflect.Ptr, reflect.Map, reflect.Slice, reflect.Interface, reflect.Func, reflect.Chan, reflect.UnsafePointer:
					continue
				}
				f = writable(f)
				if !f.IsValid() {
					continue
				}
			}
			s.walk(f, depth+1)
		}
	case reflect.Slice, reflect.Array:
		for i := 0; i < v.Len(); i++ {
			s.walk(v.Index(i), depth+1)
		}
	case reflect.Map:
		if v.IsNil() {
			return
		}
		m := v
		for _, k := range v.MapKeys() {
			k := k
			e := v.MapIndex(k)
			switch e.Kind() {
			case reflect.Ptr, reflect.Map, reflect.Slice:
				s.walk(e, depth+1)
			case reflect.Interface:
				s.walk(e, depth+1)
			default:
				nv := reflect.New(e.Type()).Elem()
				nv.Set(e)
				mutateScalar(nv)
				old := reflect.New(e.Type()).Elem()
				old.Set(e)
				s.undo = append(s.undo, func() { m.SetMapIndex(k, old) })
				m.SetMapIndex(k, nv)
				s.n++
			}
		}
		if v.Type().Key().Kind() == reflect.String {
			nk := reflect.New(v.Type().Key()).Elem()
			nk.SetString("c16-scribble")
			if !v.MapIndex(nk).IsValid() {
				s.undo = append(s.undo, func() { m.SetMapIndex(nk, reflect.Value{}) })
				m.SetMapIndex(nk, reflect.Zero(v.Type().Elem()))
				s.n++
			}
		}
	case reflect.String, reflect.Bool,
		reflect.Int, reflect.Int8, reflect.Int16, reflect.Int32, reflect.Int64,
		reflect.Uint, reflect.Uint8, reflect.Uint16, reflect.Uint32, reflect.Uint64,
		reflect.Float32, reflect.Float64:
		w := writable(v)
		if !w.IsValid() {
			return
		}
		nv := reflect.New(w.Type()).Elem()
		nv.Set(w)
		mutateScalar(nv)
		s.set(w, nv)
	}
}

func mutateScalar(v reflect.Value) {
	switch v.Kind() {
	case reflect.String:
		v.SetString(v.String() + "~c16")
	case reflect.Bool:
		v.SetBool(!v.Bool())
	case reflect.Int, reflect.Int8, reflect.Int16, reflect.Int32, reflect.Int64:
		v.SetInt(v.Int() + 1)
	case reflect.Uint, reflect.Uint8, reflect.Uint16, reflect.Uint32, reflect.Uint64:
		v.SetUint(v.Uint() + 1)
	case reflect.Float32, reflect.Float64:
		v.SetFloat(v.Float() + 1)
	}
}

func (s *scribbler) rollback() {
	for i := len(s.undo) - 1; i >= 0; i-- {
		s.undo[i]()
	}
	s.undo = nil
}

// ---------------------------------------------------------------------------
// the reference model

// effectiveStamps: the stamps the correction can see = the ones handed over in
// the options followed by the ones of the source header.
func effectiveStamps(c Case) []Stamp {
	out := append([]Stamp(nil), c.Opts.Stamps...)
	if len(c.Opts.Stamps) > 0 && (c.Pass == "data" || c.Pass == "flags") {
		// stamps in a raw options object replace the list (documented: the raw
		// object overrides the other options)
		return out
	}
	if c.Entry != "cli-doc" {
		for _, p := range c.HeadStamps {
			out = append(out, Stamp{Prv: p, Val: "C16/" + p})
		}
	}
	return out
}

func findStamp(list []Stamp, prv string) *Stamp {
	for i := range list {
		if list[i].Prv == prv {
			return &list[i]
		}
	}
	return nil
}

// refusal returns why the published definition refuses the correction ("" =
// must be carried out).
func refusal(def definition, srcCode string, c Case) string {
	p := loadPub()
	switch {
	case c.Opts.Type == "":
		return "type-missing"
	case srcCode == "":
		return "source-without-code"
	}
	for _, k := range def.Stamps {
		if findStamp(effectiveStamps(c), k) == nil {
			return "stamp-missing"
		}
	}
	if len(def.Types) > 0 {
		if !has(def.Types, c.Opts.Type) {
			if !has(p.types, c.Opts.Type) {
				return "type-undefined"
			}
			return "type-not-allowed"
		}
	}
	if def.ReasonRequired && c.Opts.Reason == "" {
		return "reason-missing"
	}
	return ""
}

// expectedDoc edits the JSON of the source document into the correction (or
// the replica) and calculates it independently of the code under test.
func expectedDoc(src map[string]any, c Case, def definition, date string) (env *gobl.Envelope, doc map[string]any, calcErr error) {
	m := jsontree.Clone(src).(map[string]any)
	delete(m, "uuid")
	delete(m, "code")
	m["issue_date"] = date
	switch c.Op {
	case "replicate":
		delete(m, "value_date")
		delete(m, "op_date")
	default:
		pre := map[string]any{}
		for _, k := range []string{"uuid", "type", "series", "code", "issue_date"} {
			if v, ok := src[k]; ok {
				pre[k] = v
			}
		}
		if c.Opts.Reason != "" {
			pre["reason"] = c.Opts.Reason
		}
		if len(c.Opts.Ext) > 0 {
			e := map[string]any{}
			for k, v := range c.Opts.Ext {
				e[k] = v
			}
			pre["ext"] = e
		}
		var stamps []any
		eff := effectiveStamps(c)
		for _, k := range def.Stamps {
			if s := findStamp(eff, k); s != nil {
				stamps = append(stamps, map[string]any{"prv": s.Prv, "val": s.Val})
			}
		}
		if len(stamps) > 0 {
			pre["stamps"] = stamps
		}
		if c.Opts.CopyTax {
			if t, ok := src["totals"].(map[string]any); ok {
				if tx, ok := t["taxes"]; ok {
					pre["tax"] = jsontree.Clone(tx)
				}
			}
		}
		m["preceding"] = []any{pre}
		m["type"] = c.Opts.Type
		if c.Opts.Series != "" {
			m["series"] = c.Opts.Series
		}
	}
	obj := new(schema.Object)
	if err := json.Unmarshal(jsontree.Encode(m), obj); err != nil {
		return nil, nil, err
	}
	env, err := gobl.Envelop(obj)
	if err != nil {
		return nil, nil, err
	}
	doc, err = docMap(env)
	if err != nil {
		return nil, nil, err
	}
	return env, doc, nil
}

// ---------------------------------------------------------------------------
// entry points

// outcome of running the code under test
type outcome struct {
	err    string         // non-empty: refused
	env    *gobl.Envelope // lib entry only
	result map[string]any // JSON of what was returned (envelope, or document for cli-doc)
	raw    []byte
}

func optsJSON(o Opts) []byte {
	data, err := json.Marshal(o)
	if err != nil {
		panic(err)
	}
	return data
}

func headStamps(list []Stamp) []*head.Stamp {
	var out []*head.Stamp
	for _, s := range list {
		out = append(out, &head.Stamp{Provider: cbc.Key(s.Prv), Value: s.Val})
	}
	return out
}

func parseDate(s string) (cal.Date, error) {
	var d cal.Date
	err := json.Unmarshal([]byte(fmt.Sprintf("%q", s)), &d)
	return d, err
}

// the options struct handed to WithOptions by the last struct+func case, and
// the number of extensions it held: the caller's values must come back intact
var (
	callerStruct *bill.CorrectionOptions
	callerExt    int
)

func libOptions(c Case) ([]schema.Option, error) {
	o := c.Opts
	switch c.Pass {
	case "data":
		return []schema.Option{bill.WithData(optsJSON(o))}, nil
	case "struct", "struct+func":
		co := &bill.CorrectionOptions{Type: cbc.Key(o.Type), Reason: o.Reason, Series: cbc.Code(o.Series), CopyTax: o.CopyTax, Stamps: headStamps(o.Stamps)}
		if o.IssueDate != "" {
			d, err := parseDate(o.IssueDate)
			if err != nil {
				return nil, err
			}
			co.IssueDate = &d
		}
		if len(o.Ext) > 0 {
			co.Ext = tax.Extensions{}
			for k, v := range o.Ext {
				co.Ext[cbc.Key(k)] = cbc.Code(v)
			}
		}
		if c.Pass == "struct+func" {
			// the struct keeps an extension map of its own (an entry that the
			// definition does not know would be refused: it carries the first of
			// the requested entries) and the others follow as functional options
			keys := vh.SortedKeys(o.Ext)
			out := []schema.Option{bill.WithOptions(co)}
			if len(keys) > 0 {
				co.Ext = tax.Extensions{cbc.Key(keys[0]): cbc.Code(o.Ext[keys[0]])}
				for _, k := range keys[1:] {
					out = append(out, bill.WithExtension(cbc.Key(k), cbc.Code(o.Ext[k])))
				}
			}
			callerStruct = co
			callerExt = len(co.Ext)
			return out, nil
		}
		return []schema.Option{bill.WithOptions(co)}, nil
	case "func", "":
		var out []schema.Option
		switch o.Type {
		case "":
		case "credit-note":
			out = append(out, bill.Credit)
		case "debit-note":
			out = append(out, bill.Debit)
		case "corrective":
			out = append(out, bill.Corrective)
		default:
			// no functional option exists for the other types
			out = append(out, bill.WithOptions(&bill.CorrectionOptions{Type: cbc.Key(o.Type)}))
		}
		if o.Reason != "" {
			out = append(out, bill.WithReason(o.Reason))
		}
		for _, k := range vh.SortedKeys(o.Ext) {
			out = append(out, bill.WithExtension(cbc.Key(k), cbc.Code(o.Ext[k])))
		}
		if o.Series != "" {
			out = append(out, bill.WithSeries(cbc.Code(o.Series)))
		}
		if o.IssueDate != "" {
			d, err := parseDate(o.IssueDate)
			if err != nil {
				return nil, err
			}
			out = append(out, bill.WithIssueDate(d))
		}
		if o.CopyTax {
			out = append(out, bill.WithCopyTax())
		}
		if len(o.Stamps) > 0 {
			out = append(out, bill.WithStamps(headStamps(o.Stamps)))
		}
		return out, nil
	}
	return nil, fmt.Errorf("pass %q", c.Pass)
}

func resultOf(v any) (map[string]any, []byte, error) {
	data, err := json.Marshal(v)
	if err != nil {
		return nil, nil, err
	}
	return resultOfJSON(data)
}

func resultOfJSON(data []byte) (map[string]any, []byte, error) {
	t, err := jsontree.Decode(data)
	if err != nil {
		return nil, data, err
	}
	m, ok := t.(map[string]any)
	if !ok {
		return nil, data, fmt.Errorf("result is not a JSON object")
	}
	return m, data, nil
}

// flagSplit moves what the CLI has flags for out of the JSON options.
func flagSplit(c Case) (credit, debit bool, rest Opts) {
	rest = c.Opts
	if c.Pass != "flags" {
		return
	}
	switch rest.Type {
	case "credit-note":
		credit, rest.Type = true, ""
	case "debit-note":
		debit, rest.Type = true, ""
	}
	return
}

func restJSON(o Opts) []byte {
	data := optsJSON(o)
	if string(data) == "{}" {
		return nil
	}
	return data
}

func runCLI(c Case, input []byte) (any, error) {
	ctx := context.Background()
	po := &cli.ParseOptions{Input: bytes.NewReader(input)}
	if c.Op == "replicate" {
		return cli.Replicate(ctx, &cli.ReplicateOptions{ParseOptions: po})
	}
	credit, debit, rest := flagSplit(c)
	co := &cli.CorrectOptions{ParseOptions: po, Credit: credit, Debit: debit}
	if c.Pass == "flags" && rest.IssueDate != "" {
		d, err := parseDate(rest.IssueDate)
		if err != nil {
			return nil, err
		}
		co.Date = d
		rest.IssueDate = ""
	}
	co.Data = restJSON(rest)
	return cli.Correct(ctx, co)
}

// preludeOptions: options that give a valid correction in most regimes, none
// of them this case's; what the request before ours on the stream asked for.
var preludeOptions = []byte(`{"type":"credit-note","issue_date":"2021-02-03","series":"PRELUDE","reason":"prelude reason","copy_tax":true}`)

func runBulk(c Case, input []byte) (json.RawMessage, string, string) {
	payload := map[string]any{"data": input}
	if c.Op != "replicate" {
		if oj := optsJSON(c.Opts); !(c.After && string(oj) == "{}") {
			payload["options"] = oj
		}
	}
	pl, _ := json.Marshal(payload)
	req, _ := json.Marshal(cli.BulkRequest{Action: c.Op, ReqID: "c16-req", Payload: pl})
	var got *cli.BulkResponse
	final := false
	n := 0
	want := 2
	if c.After {
		// one stream, two requests, the second written once the first is answered
		want = 3
		// on one processor, so that whatever the command keeps per processor
		// between requests (pools, caches) is the same for both requests
		prev := runtime.GOMAXPROCS(1)
		defer runtime.GOMAXPROCS(prev)
		ppl, _ := json.Marshal(cli.CorrectRequest{Data: input, Options: preludeOptions})
		pre, _ := json.Marshal(cli.BulkRequest{Action: "correct", ReqID: "c16-prelude", Payload: ppl})
		pr, pw := io.Pipe()
		ch := cli.Bulk(context.Background(), &cli.BulkOptions{In: pr})
		_, _ = pw.Write(append(pre, '\n'))
		first, ok := <-ch
		n++
		if !ok || first.ReqID != "c16-prelude" {
			pw.Close()
			for range ch {
			}
			return nil, "", "the first request of the stream was not answered first"
		}
		_, _ = pw.Write(append(req, '\n'))
		pw.Close()
		for r := range ch {
			n++
			if r.IsFinal {
				final = true
				continue
			}
			got = r
		}
	} else {
		for r := range cli.Bulk(context.Background(), &cli.BulkOptions{In: bytes.NewReader(req)}) {
			n++
			if r.IsFinal {
				final = true
				continue
			}
			got = r
		}
	}
	switch {
	case got == nil || !final || n != want:
		return nil, "", fmt.Sprintf("%d responses, final=%v", n, final)
	case got.ReqID != "c16-req" || got.SeqID != int64(want-1):
		return nil, "", fmt.Sprintf("response pairs with req_id %q seq %d", got.ReqID, got.SeqID)
	}
	if got.Error != nil {
		return nil, got.Error.Error(), ""
	}
	return got.Payload, "", ""
}

func runExec(c Case, input []byte) (stdout []byte, errText string, infra string) {
	bin := os.Getenv("VERIF_GOBL_BIN")
	if bin == "" {
		return nil, "", "no-binary"
	}
	args := []string{c.Op}
	if c.Op == "correct" {
		credit, debit, rest := flagSplit(c)
		if credit {
			args = append(args, "--credit")
		}
		if debit {
			args = append(args, "--debit")
		}
		if d := restJSON(rest); d != nil {
			args = append(args, "--data", string(d))
		}
	}
	ctx, cancel := context.WithTimeout(context.Background(), 60*time.Second)
	defer cancel()
	cmd := exec.CommandContext(ctx, bin, args...)
	cmd.Stdin = bytes.NewReader(input)
	var so, se bytes.Buffer
	cmd.Stdout, cmd.Stderr = &so, &se
	err := cmd.Run()
	if err != nil {
		if _, ok := err.(*exec.ExitError); ok && ctx.Err() == nil {
			msg := strings.TrimSpace(se.String())
			if msg == "" {
				msg = err.Error()
			}
			return nil, msg, ""
		}
		return nil, "", "exec: " + err.Error()
	}
	return so.Bytes(), "", ""
}

// ---------------------------------------------------------------------------
// the judge

func str(m map[string]any, k string) string {
	s, _ := m[k].(string)
	return s
}

func obj(m map[string]any, k string) map[string]any {
	x, _ := m[k].(map[string]any)
	return x
}

func isDefault(c Case, def definition) bool {
	first := ""
	if len(def.Types) > 0 {
		first = def.Types[0]
	}
	if c.Opts.Type != first || c.Opts.Reason == "" || len(c.Opts.Ext) > 0 || c.Opts.Series != "" || c.Opts.IssueDate != "" || c.Opts.CopyTax || c.Code != "" || len(c.Opts.Stamps) > 0 {
		return false
	}
	if len(c.HeadStamps) != len(def.Stamps) {
		return false
	}
	for _, k := range def.Stamps {
		if !has(c.HeadStamps, k) {
			return false
		}
	}
	return true
}

func judge(c Case, o *vh.Obs) {
	loadCorpus()
	di := corpBy[c.Path]
	if di == nil || (c.Op != "correct" && c.Op != "replicate") {
		o.Discard()
		return
	}
	if !di.ok {
		o.Class("corpus-source-invalid")
		o.Discard()
		return
	}
	if c.Entry == "cli-doc" && (len(c.HeadStamps) > 0 || c.Sign) {
		o.Discard() // a bare document has no header
		return
	}
	if c.Entry != "lib" && c.Pass != "data" && c.Pass != "flags" && c.Op == "correct" {
		o.Discard()
		return
	}
	if c.Pass == "flags" && c.Entry != "cli" && c.Entry != "exec" {
		o.Discard()
		return
	}
	for _, v := range c.Opts.Ext {
		if v == "" {
			o.Discard() // empty extension values are cleaned away by calculation
			return
		}
	}
	src, status := buildSource(c)
	if status != "" {
		o.Class("discard:" + status)
		o.Discard()
		return
	}
	srcDoc, err := docMap(src)
	if err != nil {
		o.Failf("harness:source-unserialisable", "%v", err)
		return
	}
	def := di.def
	srcCode := str(srcDoc, "code")

	o.Class("op:" + c.Op)
	o.Class("entry:" + c.Entry)
	if c.Op == "correct" {
		o.Class("pass:" + c.Pass)
	}
	if def.Defined {
		if c.Op == "correct" && !isDefault(c, def) {
			o.NonTrivial()
		}
		if c.Op == "replicate" && (len(src.Signatures) > 0 || len(src.Head.Stamps) > 0 || c.SrcDates || c.SrcRounding) {
			o.NonTrivial()
		}
	} else {
		o.Class("no-correction-definition")
	}
	if len(src.Signatures) > 0 {
		o.Class("source-signed")
	}
	if len(src.Head.Stamps) > 0 {
		o.Class("source-stamped")
	}
	if c.SrcDates {
		o.Class("source-with-value-and-op-date")
	}
	if c.SrcRounding {
		o.Class("source-with-own-rounding")
	}

	before, err := takeSnapshot(src)
	if err != nil {
		o.Failf("harness:source-unserialisable", "%v", err)
		return
	}
	input := before.json
	if c.Entry == "cli-doc" {
		input, _ = json.Marshal(src.Document)
	}

	// ---- run
	var out outcome
	switch c.Entry {
	case "lib":
		var res *gobl.Envelope
		var rerr error
		if c.Op == "replicate" {
			res, rerr = src.Replicate()
		} else {
			opts, err := libOptions(c)
			if err != nil {
				o.Discard()
				return
			}
			// the caller's options are used twice
			full := make([]schema.Option, len(opts), len(opts)+3)
			copy(full, opts)
			res, rerr = src.Correct(full...)
			if c.Pass == "struct+func" && callerStruct != nil && len(callerStruct.Ext) != callerExt {
				o.Failf("correct:caller-options-written", "the options struct given to WithOptions held %d extension(s) and holds %d after the correction (a later option wrote into it)", callerExt, len(callerStruct.Ext))
				return
			}
			if rerr == nil && res != nil {
				again, err2 := src.Correct(full...)
				if err2 != nil {
					o.Failf("correct:options-consumed", "the same options corrected the same envelope once and are refused the second time: %v", err2)
					return
				}
				if a, b := docSansUUID(res), docSansUUID(again); a != b {
					o.Failf("correct:options-consumed", "correcting the same envelope twice with the same option values gives different documents: %.300s vs %.300s", firstDiffText(a, b), firstDiffText(b, a))
					return
				}
			}
		}
		if rerr != nil {
			out.err = rerr.Error()
		} else {
			if res == nil {
				o.Failf(c.Op+":nil-result", "no error and no envelope returned")
				return
			}
			if res == src {
				o.Failf(c.Op+":same-envelope", "the source envelope itself was returned")
				return
			}
			out.env = res
			out.result, out.raw, err = resultOf(res)
			if err != nil {
				o.Failf(c.Op+":result-unserialisable", "%v", err)
				return
			}
		}
		if !sourceIntact(src, before, o, "source:changed-by-"+c.Op, "during "+c.Op) {
			return
		}
	case "cli", "cli-doc":
		res, rerr := runCLI(c, input)
		if rerr != nil {
			out.err = rerr.Error()
		} else if out.result, out.raw, err = resultOf(res); err != nil {
			o.Failf(c.Op+":result-unserialisable", "%v", err)
			return
		}
	case "bulk":
		payload, errText, infra := runBulk(c, input)
		if infra != "" {
			o.Failf("bulk:protocol", "%s", infra)
			return
		}
		if errText != "" {
			out.err = errText
		} else if out.result, out.raw, err = resultOfJSON(payload); err != nil {
			o.Failf(c.Op+":result-unserialisable", "%v", err)
			return
		}
	case "exec":
		stdout, errText, infra := runExec(c, input)
		if infra == "no-binary" {
			o.Class("discard:no-gobl-binary")
			o.Discard()
			return
		}
		if infra != "" {
			o.Failf("harness:exec", "%s", infra)
			return
		}
		if errText != "" {
			out.err = errText
		} else if out.result, out.raw, err = resultOfJSON(bytes.TrimSpace(stdout)); err != nil {
			o.Failf(c.Op+":result-unserialisable", "stdout is not a JSON object: %v", err)
			return
		}
	default:
		o.Discard()
		return
	}
	if !bytes.Equal(input, before.json) && c.Entry != "cli-doc" {
		o.Failf("harness:input-bytes-changed", "input buffer changed")
		return
	}

	// ---- expectation
	why := ""
	if c.Op == "correct" {
		why = refusal(def, srcCode, c)
		if c.Opts.IssueDate != "" {
			if _, err := parseDate(c.Opts.IssueDate); err != nil {
				o.Discard()
				return
			}
		}
	}
	viaCLI := c.Entry != "lib"
	envelope := c.Entry != "cli-doc"
	where := fmt.Sprintf("%s of %s (%s %v) via %s/%s opts %s head stamps %v", c.Op, c.Path, di.regime, di.addons, c.Entry, c.Pass, optsJSON(c.Opts), c.HeadStamps)

	resDoc := out.result
	if out.err == "" && envelope {
		resDoc = obj(out.result, "doc")
		if resDoc == nil {
			o.Failf(c.Op+":no-document", "%s: result has no doc", where)
			return
		}
	}

	if why != "" {
		o.Class("expect:refused:" + why)
		if out.err == "" {
			o.Failf("correct:accepted:"+why, "%s: the published definition refuses this (%s) but a correction was produced: type %q preceding %s", where, why, str(resDoc, "type"), short(resDoc["preceding"]))
			return
		}
		o.Note("%s: refused (%s): %s", where, why, firstLine(out.err))
		return
	}

	// the date the new document must carry
	date := c.Opts.IssueDate
	if c.Op == "replicate" {
		date = ""
	}
	gotDate := ""
	if out.err == "" {
		gotDate = str(resDoc, "issue_date")
		if date == "" {
			if !inWindow(gotDate) {
				o.Failf(c.Op+":issue-date-not-today", "%s: issue_date %q is not today (%v)", where, gotDate, todayWindow)
				return
			}
		} else if gotDate != date {
			o.Failf(c.Op+":issue-date-not-the-requested", "%s: issue_date %q, requested %q", where, gotDate, date)
			return
		}
	}
	dates := []string{gotDate}
	if out.err != "" {
		dates = todayWindow
		if date != "" {
			dates = []string{date}
		}
	}
	var expEnv *gobl.Envelope
	var expDoc map[string]any
	var calcErr, validErr error
	for _, d := range dates {
		expEnv, expDoc, calcErr = expectedDoc(srcDoc, c, def, d)
		if calcErr != nil {
			break
		}
		if viaCLI {
			if c.Entry == "cli-doc" {
				validErr = expEnv.Document.Validate()
			} else {
				validErr = expEnv.Validate()
			}
			if validErr != nil {
				break
			}
		}
	}
	switch {
	case calcErr != nil:
		o.Class("expect:refused:does-not-calculate")
		if out.err == "" {
			o.Failf(c.Op+":accepted:does-not-calculate", "%s: the edited source does not calculate (%v) but a result was produced", where, calcErr)
		} else {
			o.Note("%s: refused, does not calculate: %s", where, firstLine(out.err))
		}
		return
	case validErr != nil:
		o.Class("expect:refused:result-invalid")
		if out.err == "" {
			o.Failf(c.Op+":cli-returned-invalid-result", "%s: the expected result does not validate (%v) but the command line path returned one", where, validErr)
		} else {
			o.Note("%s: refused, result would be invalid: %s", where, firstLine(out.err))
		}
		return
	}
	o.Class("expect:carried-out")
	if out.err != "" {
		sig := c.Op + ":refused:" + errKind(out.err)
		o.Failf(sig, "%s: nothing in the published definition refuses this and the expected result calculates%s, but it was refused: %s", where, map[bool]string{true: " and validates", false: ""}[viaCLI], firstLine(out.err))
		return
	}

	// ---- the result
	if envelope {
		h := obj(out.result, "head")
		if h == nil {
			o.Failf(c.Op+":no-header", "%s: result has no head", where)
			return
		}
		switch id := str(h, "uuid"); {
		case id == "":
			o.Failf(c.Op+":head-uuid-missing", "%s: result header has no uuid", where)
			return
		case id == src.Head.UUID.String():
			o.Failf(c.Op+":head-uuid-kept", "%s: result header keeps the source uuid %s", where, id)
			return
		}
		if s, ok := out.result["sigs"]; ok && s != nil {
			if a, _ := s.([]any); len(a) > 0 || a == nil {
				o.Failf(c.Op+":signatures-kept", "%s: result carries signatures: %s", where, short(s))
				return
			}
		}
		if s, ok := h["stamps"]; ok && s != nil {
			o.Failf(c.Op+":head-stamps-kept", "%s: result header carries stamps: %s", where, short(s))
			return
		}
		// digest
		chk := new(gobl.Envelope)
		if err := json.Unmarshal(out.raw, chk); err != nil {
			o.Failf(c.Op+":result-unreadable", "%s: result does not parse as an envelope: %v", where, err)
			return
		}
		dg, err := chk.Digest()
		if err != nil || chk.Head == nil || chk.Head.Digest == nil || chk.Head.Digest.Equals(dg) != nil {
			o.Failf(c.Op+":digest", "%s: header digest %v does not match the document (%v, %v)", where, chk.Head.Digest, dg, err)
			return
		}
	}
	if v, ok := resDoc["code"]; ok {
		o.Failf(c.Op+":code-kept", "%s: new document has code %s", where, short(v))
		return
	}
	switch id := str(resDoc, "uuid"); {
	case id == "" && envelope:
		o.Failf(c.Op+":doc-uuid-missing", "%s: new document has no uuid", where)
		return
	case id != "" && id == str(srcDoc, "uuid"):
		o.Failf(c.Op+":doc-uuid-kept", "%s: new document keeps the source uuid %s", where, id)
		return
	}
	if c.Op == "correct" {
		if t := str(resDoc, "type"); t != c.Opts.Type {
			o.Failf("correct:type", "%s: new document has type %q", where, t)
			return
		}
		pres, _ := resDoc["preceding"].([]any)
		if len(pres) != 1 {
			o.Failf("correct:preceding-count", "%s: %d preceding references", where, len(pres))
			return
		}
		pre, _ := pres[0].(map[string]any)
		if pre == nil {
			o.Failf("correct:preceding-count", "%s: preceding[0] is %s", where, short(pres[0]))
			return
		}
		for _, k := range []string{"uuid", "type", "series", "code", "issue_date"} {
			if !jsontree.Equal(pre[k], srcDoc[k]) {
				o.Failf("correct:preceding."+k, "%s: preceding[0].%s = %s, the source has %s", where, k, short(pre[k]), short(srcDoc[k]))
				return
			}
		}
		if r := str(pre, "reason"); r != c.Opts.Reason {
			o.Failf("correct:preceding.reason", "%s: preceding[0].reason = %q", where, r)
			return
		}
		// requested extensions: in the preceding row or, "according to the local
		// rules" (CorrectionOptions.Ext), moved to the document level
		gotExt := obj(pre, "ext")
		docExt := obj(obj(resDoc, "tax"), "ext")
		for _, k := range vh.SortedKeys(c.Opts.Ext) {
			v := c.Opts.Ext[k]
			if str(gotExt, k) != v && str(docExt, k) != v {
				o.Failf("correct:requested-ext-lost", "%s: requested ext %s=%s is neither in preceding[0].ext (%s) nor in tax.ext (%s)", where, k, v, short(pre["ext"]), short(docExt))
				return
			}
		}
		for _, k := range vh.SortedKeys(gotExt) {
			if _, ok := c.Opts.Ext[k]; !ok {
				o.Failf("correct:preceding.ext-unrequested", "%s: preceding[0].ext carries %s which was not requested", where, k)
				return
			}
		}
		var wantStamps []any
		eff := effectiveStamps(c)
		for _, k := range def.Stamps {
			if s := findStamp(eff, k); s != nil {
				wantStamps = append(wantStamps, map[string]any{"prv": s.Prv, "val": s.Val})
			}
		}
		gotStamps, _ := pre["stamps"].([]any)
		if !jsontree.Equal(gotStamps, wantStamps) && (len(gotStamps) > 0 || len(wantStamps) > 0) {
			o.Failf("correct:preceding.stamps", "%s: preceding[0].stamps = %s, required by the definition: %v", where, short(pre["stamps"]), def.Stamps)
			return
		}
		if len(wantStamps) > 0 {
			o.Class("stamps-copied")
		}
		if _, hasTax := pre["tax"]; hasTax != (c.Opts.CopyTax && obj(srcDoc, "totals")["taxes"] != nil) {
			o.Failf("correct:preceding.tax", "%s: copy_tax=%v but preceding[0].tax present=%v", where, c.Opts.CopyTax, hasTax)
			return
		}
		if c.Opts.Series != "" && str(expDoc, "series") != str(resDoc, "series") {
			o.Failf("correct:series", "%s: new document series %q", where, str(resDoc, "series"))
			return
		}
	} else {
		for _, k := range []string{"value_date", "op_date"} {
			if v, ok := resDoc[k]; ok {
				o.Failf("replicate:"+k+"-kept", "%s: replica keeps %s %s", where, k, short(v))
				return
			}
		}
	}
	// whole document = the independently edited and calculated source
	a := jsontree.Clone(resDoc).(map[string]any)
	b := jsontree.Clone(expDoc).(map[string]any)
	delete(a, "uuid")
	delete(b, "uuid")
	if p, m := diffTree(a, b, ""); p != "" {
		o.Failf(c.Op+":document-differs:"+p, "%s: result differs from the edited and recalculated source at %s: %s", where, p, m)
		return
	}
	if c.Op == "correct" {
		o.Note("%s -> type %s, preceding[0] %s", where, str(resDoc, "type"), short(resDoc["preceding"].([]any)[0]))
	} else {
		o.Note("%s -> replica dated %s", where, gotDate)
	}

	// ---- aliasing: edit the result, the source must not move
	if out.env == nil {
		return
	}
	editResult(c, out.env, src, before, o)
}

// editResult applies the edits to the result and re-compares the source.
func editResult(c Case, res, src *gobl.Envelope, before snapshot, o *vh.Obs) {
	inv, _ := res.Extract().(*bill.Invoice)
	for _, e := range c.Edits {
		switch e {
		case "recalc":
			_ = res.Calculate()
		case "stamp":
			// AddStamp overwrites an existing provider's stamp in place
			for _, p := range append(append([]string{}, c.HeadStamps...), otherStamp) {
				res.Head.AddStamp(&head.Stamp{Provider: cbc.Key(p), Value: "edited"})
			}
			if inv != nil {
				for _, pre := range inv.Preceding {
					for _, p := range c.HeadStamps {
						pre.Stamps = head.AddStamp(pre.Stamps, &head.Stamp{Provider: cbc.Key(p), Value: "edited"})
					}
				}
			}
		case "sign":
			_ = res.Sign(signKey)
		case "append":
			if inv != nil {
				if len(inv.Lines) > 0 {
					inv.Lines = append(inv.Lines, inv.Lines[0])
					inv.Lines = inv.Lines[1:]
				}
				inv.Notes = append(inv.Notes, &org.Note{Text: "c16"})
				inv.Preceding = append(inv.Preceding, &org.DocumentRef{Code: "C16"})
				if inv.Supplier != nil {
					inv.Supplier.Addresses = append(inv.Supplier.Addresses, &org.Address{Locality: "c16"})
				}
			}
			res.Head.Tags = append(res.Head.Tags, "c16")
			if len(res.Head.Tags) > 1 {
				res.Head.Tags[0], res.Head.Tags[1] = res.Head.Tags[1], res.Head.Tags[0] // in place
			}
			if res.Head.Meta != nil {
				res.Head.Meta["c16"] = "edited"
				res.Head.Meta["c16-source"] = "no longer"
			}
		case "scribble":
			var rb snapshot
			var err error
			if rb, err = takeSnapshot(res); err != nil {
				continue
			}
			s := &scribbler{seen: map[unsafe.Pointer]bool{}}
			s.walk(reflect.ValueOf(res.Head), 0)
			s.walk(reflect.ValueOf(res.Document.Instance()), 0)
			ok := sourceIntact(src, before, o, "source:shares-memory-with-result", "after overwriting every value reachable from the result")
			s.rollback()
			if !ok {
				return
			}
			if ra, err := takeSnapshot(res); err != nil || ra.deep != rb.deep {
				o.Failf("harness:scribble-not-undone", "the result was not restored after overwriting it (%v)", err)
				return
			}
			o.Class("edit:scribble")
			continue
		default:
			continue
		}
		o.Class("edit:" + e)
		if !sourceIntact(src, before, o, "source:changed-by-editing-result:"+e, "after the result was edited ("+e+")") {
			return
		}
	}
}

func firstLine(s string) string {
	s = strings.Join(strings.Fields(s), " ")
	if len(s) > 200 {
		s = s[:200] + "..."
	}
	return s
}

// errKind reduces an error text to a stable word for signatures.
func errKind(s string) string {
	l := strings.ToLower(s)
	for _, k := range []string{"missing stamp", "invalid correction type", "missing correction type", "missing corrective reason", "without a code", "unmarshal", "validation", "calculation", "digest"} {
		if strings.Contains(l, k) {
			return strings.ReplaceAll(k, " ", "-")
		}
	}
	return "other"
}

// ---------------------------------------------------------------------------
// enumeration

type vector struct {
	opts       Opts
	headStamps []string
	sign       bool
	code       string
}

func extOK(def definition) map[string]string {
	p := loadPub()
	out := map[string]string{}
	for _, k := range dedup(def.Extensions) {
		if codes := p.extCodes[k]; len(codes) > 0 {
			out[k] = codes[0]
		}
	}
	return out
}

func stampsOf(list []string) []Stamp {
	var out []Stamp
	for _, p := range list {
		out = append(out, Stamp{Prv: p, Val: "C16/" + p})
	}
	return out
}

func without(list []string, s string) []string {
	var out []string
	for _, x := range list {
		if x != s {
			out = append(out, x)
		}
	}
	return out
}

// vectors lists the option vectors swept for one invoice.
func vectors(di *docInfo) []vector {
	p := loadPub()
	def := di.def
	req := dedup(def.Stamps)
	giveCode := ""
	if di.code == "" {
		giveCode = "set" // examples without a code are given one, except in the vector that tests its absence
	}
	base := func(t string) vector {
		return vector{opts: Opts{Type: t, Reason: defaultReason}, headStamps: req, sign: len(req) > 0, code: giveCode}
	}
	var out []vector
	for _, t := range append(append([]string{}, p.types...), "", undefinedType) {
		out = append(out, base(t))
	}
	allowed := dedup(def.Types)
	if len(allowed) == 0 {
		allowed = []string{"credit-note"}
	}
	for _, t := range allowed {
		v := base(t)
		v.opts.Reason = ""
		out = append(out, v)
		// a reason written with blanks around it, and one of blanks only: carried
		// as given (what counts as a reason is decided before anything is tidied)
		for _, r := range []string{"  wrong quantity\t", " ", "\n"} {
			v := base(t)
			v.opts.Reason = r
			out = append(out, v)
		}
		// extensions
		offered := dedup(def.Extensions)
		for _, k := range offered {
			codes := p.extCodes[k]
			if len(codes) == 0 {
				continue
			}
			for _, code := range []string{codes[0], codes[len(codes)-1], "ZZ9"} {
				v := base(t)
				v.opts.Ext = map[string]string{k: code}
				out = append(out, v)
			}
		}
		if ok := extOK(def); len(ok) > 1 {
			v := base(t)
			v.opts.Ext = ok
			out = append(out, v)
		}
		for _, k := range p.extKeys { // a published key this definition does not offer
			if !has(offered, k) && strings.Contains(k, "correction") || !has(offered, k) && strings.Contains(k, "credit-code") {
				v := base(t)
				v.opts.Ext = map[string]string{k: p.extCodes[k][0]}
				out = append(out, v)
				break
			}
		}
		v = base(t)
		v.opts.Ext = map[string]string{undefinedExt: "X"}
		out = append(out, v)
		// stamps
		for _, k := range req {
			v := base(t)
			v.headStamps = without(req, k)
			out = append(out, v)
		}
		if len(req) > 0 {
			v := base(t)
			v.headStamps, v.sign = nil, false
			out = append(out, v)
			v = base(t)
			v.headStamps = []string{otherStamp}
			out = append(out, v)
			v = base(t) // handed over in the options instead of the header
			v.headStamps, v.sign = nil, false
			v.opts.Stamps = stampsOf(req)
			out = append(out, v)
		}
		v = base(t)
		v.headStamps = append(append([]string{}, req...), otherStamp)
		v.sign = true
		out = append(out, v)
		// the header carries every stamp; the options name one provider only,
		// the last required one, without a value (and another one with an empty
		// provider): what the options give is used as given, never completed from
		// whatever the header holds at the same position
		if len(req) > 0 {
			v = base(t)
			v.headStamps = append([]string{otherStamp}, req...)
			v.sign = true
			v.opts.Stamps = []Stamp{{Prv: req[len(req)-1]}}
			out = append(out, v)
			v = base(t)
			v.headStamps = append([]string{}, req...)
			v.sign = true
			v.opts.Stamps = []Stamp{{Val: "OPT/only-a-value"}}
			out = append(out, v)
		}
		// the same providers handed over in the options with OTHER values while the
		// header carries its own: the source header must keep its values
		v = base(t)
		v.headStamps = append(append([]string{}, req...), otherStamp)
		v.sign = true
		for _, p := range v.headStamps {
			v.opts.Stamps = append(v.opts.Stamps, Stamp{Prv: p, Val: "OPT/" + p})
		}
		out = append(out, v)
		v = base(t)
		v.sign = true
		out = append(out, v)
		// series, date, tax
		v = base(t)
		v.opts.Series = "C16-S"
		out = append(out, v)
		v = base(t)
		v.opts.IssueDate = "2024-02-29"
		out = append(out, v)
		v = base(t)
		v.opts.IssueDate = "2001-01-01"
		out = append(out, v)
		v = base(t)
		v.opts.CopyTax = true
		out = append(out, v)
		v = base(t)
		v.opts.Series, v.opts.IssueDate, v.opts.CopyTax, v.opts.Ext = "C16-S", "2025-06-30", true, extOK(def)
		if len(v.opts.Ext) == 0 {
			v.opts.Ext = nil
		}
		out = append(out, v)
		// source code
		v = base(t)
		if di.code != "" {
			v.code = "strip"
		} else {
			v.code = ""
		}
		v.headStamps, v.sign = nil, false // cannot be signed
		out = append(out, v)
	}
	return out
}

type combo struct{ entry, pass string }

var correctCombos = []combo{{"lib", "func"}, {"lib", "struct"}, {"lib", "struct+func"}, {"lib", "data"}, {"cli", "data"}, {"cli", "flags"}, {"bulk", "data"}, {"cli-doc", "data"}}
var replicateEntries = []string{"lib", "cli", "bulk", "cli-doc"}

// sweepDocs: thorough = every corpus invoice; quick = one invoice per
// (regime, addons) group, rotated by the seed.
func sweepDocs() []*docInfo {
	all := loadCorpus()
	if vh.Thorough() {
		return all
	}
	groups := map[string][]*docInfo{}
	var order []string
	for _, di := range all {
		k := di.regime + "|" + strings.Join(di.addons, ",") + "|" + fmt.Sprint(di.code != "")
		if _, ok := groups[k]; !ok {
			order = append(order, k)
		}
		groups[k] = append(groups[k], di)
	}
	var out []*docInfo
	for _, k := range order {
		g := groups[k]
		out = append(out, g[int(vh.Cfg().Seed%uint64(len(g)))])
	}
	return out
}

func caseOf(di *docInfo, v vector, cb combo) (Case, bool) {
	c := Case{Path: di.doc.Path, Op: "correct", Entry: cb.entry, Pass: cb.pass, Opts: v.opts, HeadStamps: v.headStamps, Sign: v.sign, Code: v.code}
	if cb.entry == "cli-doc" {
		if len(v.headStamps) > 0 || v.sign {
			// a bare document has no header: required stamps travel in the options
			if len(v.opts.Stamps) > 0 {
				return c, false
			}
			c.Opts.Stamps = stampsOf(without(v.headStamps, otherStamp))
			c.HeadStamps, c.Sign = nil, false
		}
	}
	if cb.entry == "lib" {
		c.Edits = allEdits
	}
	if cb.entry == "bulk" {
		oj := optsJSON(c.Opts)
		c.After = string(oj) == "{}" || len(oj)%2 == 0
	}
	return c, true
}

func enumSweep(yield func(Case) bool) {
	cfg := vh.Cfg()
	idx := 0
	for di, d := range sweepDocs() {
		if !d.ok {
			continue
		}
		for vi, v := range vectors(d) {
			var cbs []combo
			if vh.Thorough() {
				cbs = correctCombos
			} else {
				// one library route and two of the command line routes per vector
				cbs = []combo{correctCombos[(di+vi)%3], correctCombos[3+(di+vi)%4], correctCombos[3+(di+vi+1+vi%3)%4]}
				if cbs[1] == cbs[2] {
					cbs = cbs[:2]
				}
			}
			for _, cb := range cbs {
				c, ok := caseOf(d, v, cb)
				if !ok {
					continue
				}
				idx++
				if idx%cfg.Shards != cfg.Shard {
					continue
				}
				if !yield(c) {
					return
				}
			}
		}
		// a bulk request without any option, after another one on the same stream
		if vs := vectors(d); len(vs) > 0 {
			v := vs[0]
			v.opts = Opts{}
			if c, ok := caseOf(d, v, combo{"bulk", "data"}); ok {
				idx++
				if idx%cfg.Shards == cfg.Shard && !yield(c) {
					return
				}
			}
		}
		// replicas
		for _, e := range replicateEntries {
			for si, sv := range []struct {
				sign   bool
				stamps []string
				dates  bool
			}{{false, nil, false}, {true, nil, true}, {true, append(dedup(d.def.Stamps), otherStamp), false}} {
				if e == "cli-doc" && si > 0 {
					continue
				}
				if !vh.Thorough() && e != "lib" && si != (di%3) {
					continue
				}
				c := Case{Path: d.doc.Path, Op: "replicate", Entry: e, Sign: sv.sign, HeadStamps: sv.stamps, SrcDates: sv.dates, SrcRounding: sv.dates || (si == 0 && di%2 == 0)}
				if d.code == "" && sv.sign {
					c.Code = "set"
				}
				if e == "lib" {
					c.Edits = allEdits
				}
				idx++
				if idx%cfg.Shards != cfg.Shard {
					continue
				}
				if !yield(c) {
					return
				}
			}
		}
	}
}

// enumExec: the same vectors through the gobl executable (sampled).
func enumExec(yield func(Case) bool) {
	cfg := vh.Cfg()
	budget := 20 // per shard
	if vh.Thorough() {
		budget = 300
	}
	var pool []Case
	for di, d := range loadCorpus() {
		if !d.ok {
			continue
		}
		for vi, v := range vectors(d) {
			pass := "data"
			if (di+vi)%2 == 1 {
				pass = "flags"
			}
			if c, ok := caseOf(d, v, combo{"exec", pass}); ok {
				pool = append(pool, c)
			}
		}
		pool = append(pool, Case{Path: d.doc.Path, Op: "replicate", Entry: "exec", Sign: di%2 == 0 && d.code != "", SrcDates: di%3 == 0})
	}
	// a seed-rotated sample without repetition (stride coprime with the pool
	// size); every shard takes its own part of it
	n := len(pool)
	total := budget * cfg.Shards
	if total > n {
		total = n
	}
	stride := 7919 % n
	for stride < 1 || gcd(stride, n) != 1 {
		stride++
	}
	off := int(cfg.Seed % uint64(n))
	for i := 0; i < total; i++ {
		if i%cfg.Shards != cfg.Shard {
			continue
		}
		if !yield(pool[(off+i*stride)%n]) {
			return
		}
	}
}

func gcd(a, b int) int {
	for b != 0 {
		a, b = b, a%b
	}
	return a
}

// ---------------------------------------------------------------------------
// random option vectors and result edits

func genCase(t *rapid.T) Case {
	p := loadPub()
	docs := loadCorpus()
	var di *docInfo
	for i := 0; i < 8; i++ {
		di = docs[rapid.IntRange(0, len(docs)-1).Draw(t, "doc")]
		if di.ok {
			break
		}
	}
	def := di.def
	c := Case{Path: di.doc.Path, Op: "correct"}
	if rapid.IntRange(0, 9).Draw(t, "op") == 0 {
		c.Op = "replicate"
	}
	switch n := rapid.IntRange(0, 19).Draw(t, "entry"); {
	case n < 12:
		c.Entry = "lib"
	case n < 15:
		c.Entry = "cli"
	case n < 18:
		c.Entry = "bulk"
	default:
		c.Entry = "cli-doc"
	}
	if c.Entry == "bulk" {
		c.After = rapid.Bool().Draw(t, "after")
	}
	// source
	req := dedup(def.Stamps)
	for _, k := range req {
		if rapid.IntRange(0, 9).Draw(t, "stamp:"+k) < 8 {
			c.HeadStamps = append(c.HeadStamps, k)
		}
	}
	if rapid.IntRange(0, 3).Draw(t, "other_stamp") == 0 {
		c.HeadStamps = append(c.HeadStamps, otherStamp)
	}
	switch n := rapid.IntRange(0, 19).Draw(t, "code"); {
	case n == 0 && di.code != "":
		c.Code = "strip"
	case n < 12 && di.code == "":
		c.Code = "set"
	}
	if (di.code == "" && c.Code != "set") || c.Code == "strip" {
		c.HeadStamps = nil // an envelope without a code cannot be signed, hence not stamped
	}
	c.Sign = len(c.HeadStamps) > 0 || (rapid.Bool().Draw(t, "sign") && (di.code != "" || c.Code == "set") && c.Code != "strip")
	if c.Entry == "cli-doc" {
		if rapid.Bool().Draw(t, "stamps_in_opts") {
			c.Opts.Stamps = stampsOf(without(c.HeadStamps, otherStamp))
		}
		c.HeadStamps, c.Sign = nil, false
	} else if len(c.HeadStamps) == 0 && len(req) > 0 && rapid.Bool().Draw(t, "stamps_in_opts") {
		c.Opts.Stamps = stampsOf(req)
	}
	if c.Entry == "lib" {
		n := rapid.IntRange(0, len(allEdits)).Draw(t, "edits")
		for i := 0; i < n; i++ {
			c.Edits = append(c.Edits, rapid.SampledFrom(allEdits).Draw(t, "edit"))
		}
		if !has(c.Edits, "scribble") && rapid.Bool().Draw(t, "scribble_last") {
			c.Edits = append(c.Edits, "scribble")
		}
	}
	c.SrcDates = rapid.IntRange(0, 3).Draw(t, "src_dates") == 0
	c.SrcRounding = rapid.IntRange(0, 3).Draw(t, "src_rounding") == 0
	if c.Op == "replicate" {
		c.Opts.Stamps = nil
		return c
	}
	switch c.Entry {
	case "lib":
		c.Pass = rapid.SampledFrom([]string{"func", "struct", "struct+func", "data"}).Draw(t, "pass")
	case "cli":
		c.Pass = rapid.SampledFrom([]string{"data", "flags"}).Draw(t, "pass")
	default:
		c.Pass = "data"
	}
	// option vector
	types := append(append([]string{}, p.types...), "", undefinedType)
	if allowed := dedup(def.Types); len(allowed) > 0 && rapid.IntRange(0, 9).Draw(t, "allowed_type") < 7 {
		types = allowed
	}
	c.Opts.Type = rapid.SampledFrom(types).Draw(t, "type")
	if rapid.IntRange(0, 9).Draw(t, "reason") < 7 {
		c.Opts.Reason = rapid.SampledFrom([]string{defaultReason, "x", "Devolución parcial – línea 2", "reason with \"quotes\" and\ttab", "  padded reason ", " ", "\t\n"}).Draw(t, "reason_text")
	}
	nExt := rapid.SampledFrom([]int{0, 0, 1, 1, 2, 3}).Draw(t, "n_ext")
	for i := 0; i < nExt; i++ {
		var k string
		switch n := rapid.IntRange(0, 9).Draw(t, "ext_kind"); {
		case n < 6 && len(def.Extensions) > 0:
			k = rapid.SampledFrom(def.Extensions).Draw(t, "ext_offered")
		case n < 9:
			k = rapid.SampledFrom(p.extKeys).Draw(t, "ext_published")
		default:
			k = undefinedExt
		}
		code := "ZZ9"
		if codes := p.extCodes[k]; len(codes) > 0 && rapid.IntRange(0, 9).Draw(t, "ext_code_ok") < 8 {
			code = rapid.SampledFrom(codes).Draw(t, "ext_code")
		}
		if c.Opts.Ext == nil {
			c.Opts.Ext = map[string]string{}
		}
		c.Opts.Ext[k] = code
	}
	if rapid.IntRange(0, 3).Draw(t, "series") == 0 {
		c.Opts.Series = rapid.SampledFrom([]string{"C16-S", "R", "RECT-2025", "A1"}).Draw(t, "series_text")
	}
	if rapid.IntRange(0, 2).Draw(t, "date") == 0 {
		y := rapid.IntRange(1995, 2032).Draw(t, "year")
		m := rapid.IntRange(1, 12).Draw(t, "month")
		d := rapid.IntRange(1, 28).Draw(t, "day")
		c.Opts.IssueDate = fmt.Sprintf("%04d-%02d-%02d", y, m, d)
	}
	c.Opts.CopyTax = rapid.IntRange(0, 3).Draw(t, "copy_tax") == 0
	if c.After && c.Op == "correct" && rapid.IntRange(0, 3).Draw(t, "no_options") == 0 {
		c.Opts = Opts{} // a request that asks for nothing: no `options` member
	}
	return c
}

func init() {
	vh.Describe(
		"Cases = (corpus invoice, option vector, entry point). Source: every example invoice of the repository (73, all regimes and addons), calculated, validated, optionally signed with a generated key and stamped in the header with each provider the published definition requires (present / absent / an unrelated one), optionally with its code removed (or, for the examples without one, a code added), optionally with value_date / op_date. "+
			"Option vector: type in every published invoice type + {absent, an undefined key}; reason absent / set / set with blanks around it / blanks only (carried as given); ext: each offered key with its first/last published code and an unpublished code, all offered keys, a published key the definition does not offer, an undefined key; required stamps in the header / missing one by one / all missing / handed over in the options; series; issue date; copy_tax; passed as functional options, bill.WithOptions(struct), the struct followed by functional extension options (the struct must come back unchanged), bill.WithData(JSON) and CLI flags; on the library path the same option values are used for two corrections of the same envelope, which must give the same document (options consumed by the first correction would starve the second). "+
			"Entry points: Envelope.Correct / Replicate, in-process internal/cli Correct / Replicate (envelope and bare-document input), cli.Bulk correct / replicate requests - alone on their stream, or (half of them) as the second request of a stream, written once an unrelated correct request carrying every option has been answered, on one processor; a request with no option at all then has no `options` member - and the gobl executable (sampled). "+
			"Oracle: (1) json.Marshal(source) and a reflection dump of everything reachable from the source (unexported fields, signatures) are identical before the call, after it, and after the result was recalculated, stamped (AddStamp overwrites in place), signed, had rows appended and had every reachable scalar, map entry and slice element overwritten in place (undone afterwards). "+
			"(2) refusal model from data/regimes + data/addons `corrections` (types/extensions/stamps concatenated regime then addons, reason_required OR-ed): refused iff type missing, source without code, a required stamp missing, types defined and the type not among them, reason required and empty, or the edited source does not calculate; CLI/bulk/exec additionally iff the expected result does not validate. The code must refuse exactly then. "+
			"(3) on success: new head.uuid, no sigs, no header stamps, digest matches the document, doc.code absent, new doc.uuid, doc.type = requested, exactly one preceding = {uuid,type,series,code,issue_date of the source, reason, ext as requested, the required stamps, tax iff copy_tax}, issue_date = requested or today (window sampled once at start-up), and the whole document equals the source JSON edited accordingly and calculated independently. "+
			"(4) replica: no code, value_date, op_date; new uuids; no sigs/stamps; issue_date today; rest equals the recalculated source. "+
			"Every source header carries tags, meta and notes (a result that took them over by reference would share them with the source; the edits of the result write into them). Non-trivial: the regime/addons publish a correction definition and the option vector is not the all-valid default (first allowed type, a reason, nothing else, all required stamps in the header); replicas: the source is signed or stamped or carries a value_date / op_date or its own totals.rounding (an input among the totals, which the replica and the correction keep).",
		"data/regimes/*.json and data/addons/*.json in the tree under test are the referee for what a regime requires; the Go tables are only observed",
		"extension keys a definition does not offer are not refused by Correct (CorrectionDefinition.Extensions: 'keys that can be included'; nothing in the code or its tests rejects others): the ext must be carried as requested, and only the validating command line paths refuse undefined keys / unpublished codes",
		"a document without any published correction definition (no regime) accepts any non-empty type in the library (no table to check against); only the validating paths refuse undefined types",
		"stamps in a raw JSON options object replace the header's stamps (prepareCorrectionOptions: the raw object overrides the other options); that combination is not generated",
		"today is sampled once at start-up (UTC, +-1 day); the judge never reads the clock",
		"calculation and validation of the independently edited source use the library's own Calculate / Validate: they are not what this property judges",
	)
	vh.Enum("sweep", enumSweep, judge)
	vh.Enum("exec", enumExec, judge)
	vh.Rapid("random", 6_000, 400_000, genCase, judge)
}

// docSansUUID serialises the document of an envelope without its identifier.
func docSansUUID(env *gobl.Envelope) string {
	raw, err := json.Marshal(env.Document)
	if err != nil {
		return "unserialisable: " + err.Error()
	}
	var m map[string]any
	if json.Unmarshal(raw, &m) != nil {
		return string(raw)
	}
	delete(m, "uuid")
	out, _ := json.Marshal(m)
	return string(out)
}

// firstDiffText returns a around the first position where it differs from b.
func firstDiffText(a, b string) string {
	i := 0
	for i < len(a) && i < len(b) && a[i] == b[i] {
		i++
	}
	lo, hi := i-60, i+120
	if lo < 0 {
		lo = 0
	}
	if hi > len(a) {
		hi = len(a)
	}
	return a[lo:hi]
}
