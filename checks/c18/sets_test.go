package c18

// Tax sets with several combos: each combo's category and rate key belong to
// the regime that applies to THAT combo - the country it names, else the
// document's regime. A combo naming another country must not change what
// applies to its neighbours. For every tax set of every example the set is
// replaced by a pair: first a combo that names another country (a regime that
// defines the category, or a country without regime), then a combo without
// country whose category or rate key the document's regime does not define.

import (
	"encoding/json"
	"sort"
	"strings"

	"github.com/invopop/gobl/verifharness/internal/jsontree"
	"github.com/invopop/gobl/verifharness/internal/pubdata"
	"github.com/invopop/gobl/verifharness/internal/vh"
)

// taxSetPtrs lists the pointers of all "taxes" arrays of a document.
func taxSetPtrs(doc any) []string {
	var out []string
	var walk func(v any, ptr string)
	walk = func(v any, ptr string) {
		switch t := v.(type) {
		case map[string]any:
			for _, k := range sortedKeys(t) {
				cp := ptr + "/" + escPtr(k)
				if arr, ok := t[k].([]any); ok && k == "taxes" && len(arr) > 0 {
					if _, isCombo := arr[0].(map[string]any); isCombo {
						out = append(out, cp)
						continue
					}
				}
				walk(t[k], cp)
			}
		case []any:
			for i, e := range t {
				walk(e, ptr+"/"+itoa(i))
			}
		}
	}
	walk(doc, "")
	return out
}

func itoa(i int) string {
	b, _ := json.Marshal(i)
	return string(b)
}

func enumSets(yield func(Case) bool) {
	loadBases()
	cfg := vh.Cfg()
	d := pubdata.MustPublished()
	var countries []string
	for c := range d.Regimes {
		countries = append(countries, c)
	}
	sort.Strings(countries)
	idx := 0
	for _, path := range baseList {
		b := bases[path]
		if b.err != nil {
			continue
		}
		for _, m := range modes {
			tree := b.tree(m)
			ctx := newCtx(tree)
			if ctx.regime == nil {
				continue
			}
			ptrs := taxSetPtrs(tree)
			if len(ptrs) > 3 && !vh.Thorough() {
				ptrs = ptrs[:3]
			}
			// leading combos: another regime with a keyed VAT-like category, and a
			// country that has no regime (any category with a percentage)
			var leads []map[string]any
			for _, c := range countries {
				r := d.Regimes[c]
				if c == ctx.regimeCode || r.Country != c || len(leads) >= 2 {
					continue
				}
				for _, cat := range r.Categories {
					if len(cat.Rates) > 0 {
						leads = append(leads, map[string]any{"cat": cat.Code, "country": c, "rate": cat.Rates[0]})
						break
					}
				}
			}
			leads = append(leads, map[string]any{"cat": "VAT", "country": "JP", "percent": "10%"})
			// trailing combos the document's regime does not define
			var trails []map[string]any
			for _, c := range countries {
				r := d.Regimes[c]
				for _, cat := range r.Categories {
					if ctx.regime.Category(cat.Code) == nil && len(trails) < 2 {
						t := map[string]any{"cat": cat.Code, "percent": "5%"}
						trails = append(trails, t)
					}
				}
			}
			trails = append(trails, map[string]any{"cat": "NOTATAX", "percent": "5%"})
			if len(ctx.regime.Categories) > 0 {
				trails = append(trails, map[string]any{"cat": ctx.regime.Categories[0].Code, "rate": "bogus-rate"})
			}
			for _, ptr := range ptrs {
				for _, lead := range leads {
					for _, trail := range trails {
						idx++
						if cfg.Shards > 1 && idx%cfg.Shards != cfg.Shard {
							continue
						}
						val, _ := json.Marshal([]any{lead, trail})
						kind := kCat
						if _, ok := trail["rate"]; ok {
							kind = kRate
						}
						e := Edit{Op: "replace-json", Ptr: ptr, Kind: kind, New: "set", Val: string(val), Why: "pair: foreign-country combo, then a combo the document's regime does not define"}
						if !yield(Case{Doc: path, Mode: m, Edits: []Edit{e}}) {
							return
						}
					}
				}
			}
		}
	}
}

func replaceJSON(doc any, e Edit) (any, error) {
	v, err := jsontree.Decode([]byte(e.Val))
	if err != nil {
		return nil, err
	}
	if !strings.HasPrefix(e.Ptr, "/") {
		return nil, err
	}
	return jsontree.Set(doc, e.Ptr, v)
}
