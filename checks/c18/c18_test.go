// Package c18 decides property C18: a document that passes validation only
// refers to things the published definition files define.
//
// The referee is a resolver over the files shipped under data/ (regimes,
// addons, catalogues, currency tables, and the country enumerations of the
// published l10n schemas), read by internal/pubdata without consulting the Go
// registries of the library. The cases are corpus documents in which one (or
// two) references were replaced; the real code builds / calculates / validates
// the edited document; when it validates, every reference of the *validated*
// JSON has to resolve.
package c18

import (
	"encoding/json"
	"fmt"
	"os"
	"regexp"
	"runtime/debug"
	"sort"
	"strconv"
	"strings"
	"sync"
	"testing"

	"github.com/invopop/gobl"
	"github.com/invopop/gobl/verifharness/internal/corpus"
	"github.com/invopop/gobl/verifharness/internal/jsontree"
	"github.com/invopop/gobl/verifharness/internal/pubdata"
	"github.com/invopop/gobl/verifharness/internal/vh"
	"pgregory.net/rapid"
)

func TestMain(m *testing.M) { vh.Main(m, "C18") }

func TestAll(t *testing.T) { vh.RunAll(t) }

const schemaPrefix = "https://gobl.org/draft-0/"

// ---------------------------------------------------------------------------
// cases

// Edit is one reference replacement.
//
//	set     replace the string at Ptr by New
//	rename  rename the member at Ptr (an extension key) to New, keeping its value
//	append  append New to the array at Ptr (created when missing)
//	put     add the member New = Val to the object at Ptr (created when missing)
type Edit struct {
	Op   string `json:"op"`
	Ptr  string `json:"ptr"`
	Kind string `json:"kind"`
	New  string `json:"new"`
	Val  string `json:"val,omitempty"`
	Why  string `json:"why,omitempty"` // how the value was chosen
}

// Case is a corpus document, the way it is processed, and the replacements.
//
//	build     the example source is edited, enveloped (calculated) and validated
//	validate  the calculated example is edited and validated as it stands
//	          (digest recomputed, no calculation in between)
type Case struct {
	Doc   string `json:"doc"`
	Mode  string `json:"mode"`
	Edits []Edit `json:"edits"`
}

// ---------------------------------------------------------------------------
// references of a document

// Reference kinds.
const (
	kRegime  = "regime"
	kAddon   = "addon"
	kTag     = "tag"
	kCat     = "cat"
	kRate    = "rate"
	kExtKey  = "ext-key"
	kExtVal  = "ext-value"
	kCurr    = "currency"
	kCtryISO = "country-iso"
	kCtryTax = "country-tax"
)

// Ref is one reference found in a document tree.
type Ref struct {
	Kind    string
	Ptr     string // pointer of the value (ext: of the member)
	Val     string // the referenced code / key (ext-value: the value)
	Key     string // ext-value: the extension key
	Cat     string // rate: category of the combo
	Country string // cat / rate / ext inside a combo: the combo's country override
	InCombo bool
	Root    bool // regime / addon / tag: directly on the document
}

func escPtr(k string) string {
	return strings.ReplaceAll(strings.ReplaceAll(k, "~", "~0"), "/", "~1")
}

func ptrOf(path []string) string {
	var sb strings.Builder
	for _, p := range path {
		sb.WriteByte('/')
		sb.WriteString(escPtr(p))
	}
	return sb.String()
}

func isIndex(s string) bool {
	if s == "" {
		return false
	}
	for _, c := range s {
		if c < '0' || c > '9' {
			return false
		}
	}
	return true
}

// normPtr replaces array indexes by '*'.
func normPtr(ptr string) string {
	parts := strings.Split(ptr, "/")
	for i, p := range parts {
		if isIndex(p) {
			parts[i] = "*"
		}
	}
	return strings.Join(parts, "/")
}

func shortSchema(doc any) string {
	if m, ok := doc.(map[string]any); ok {
		if s, ok := m["$schema"].(string); ok {
			return strings.TrimPrefix(s, schemaPrefix)
		}
	}
	return ""
}

func sortedKeys(m map[string]any) []string {
	ks := make([]string, 0, len(m))
	for k := range m {
		ks = append(ks, k)
	}
	sort.Strings(ks)
	return ks
}

func has(path []string, key string) bool {
	for _, p := range path {
		if p == key {
			return true
		}
	}
	return false
}

// refs lists every reference of a document, in a deterministic order.
func refs(doc any) []Ref {
	var out []Ref
	schema := shortSchema(doc)
	var walk func(v any, path []string, combo map[string]any)
	walk = func(v any, path []string, combo map[string]any) {
		switch t := v.(type) {
		case []any:
			for i, x := range t {
				walk(x, append(append([]string{}, path...), strconv.Itoa(i)), combo)
			}
		case map[string]any:
			n := len(path)
			// a tax combo: element of a "taxes" array that carries a category
			isCombo := false
			if n >= 2 && isIndex(path[n-1]) && path[n-2] == "taxes" {
				if _, ok := t["cat"].(string); ok {
					combo, isCombo = t, true
				}
			}
			comboCountry := ""
			if combo != nil {
				comboCountry, _ = combo["country"].(string)
			}
			for _, k := range sortedKeys(t) {
				x := t[k]
				if k == "complements" && n == 0 {
					continue // free-form objects with schemas of their own
				}
				p := append(append([]string{}, path...), k)
				s, isStr := x.(string)
				switch {
				case k == "$regime" && isStr:
					out = append(out, Ref{Kind: kRegime, Ptr: ptrOf(p), Val: s, Root: n == 0})
				case k == "$addons" || k == "$tags":
					kind := kAddon
					if k == "$tags" {
						kind = kTag
					}
					if arr, ok := x.([]any); ok {
						for i, e := range arr {
							if es, ok := e.(string); ok {
								out = append(out, Ref{Kind: kind, Ptr: ptrOf(append(p, strconv.Itoa(i))), Val: es, Root: n == 0})
							}
						}
					}
				case k == "cat" && isStr && isCombo:
					out = append(out, Ref{Kind: kCat, Ptr: ptrOf(p), Val: s, Country: comboCountry, InCombo: true})
				case k == "rate" && isStr && isCombo:
					cat, _ := t["cat"].(string)
					out = append(out, Ref{Kind: kRate, Ptr: ptrOf(p), Val: s, Cat: cat, Country: comboCountry, InCombo: true})
				case k == "ext":
					if em, ok := x.(map[string]any); ok {
						for _, ek := range sortedKeys(em) {
							mp := ptrOf(append(p, ek))
							out = append(out, Ref{Kind: kExtKey, Ptr: mp, Val: ek, Country: comboCountry, InCombo: combo != nil})
							if ev, ok := em[ek].(string); ok {
								out = append(out, Ref{Kind: kExtVal, Ptr: mp, Val: ev, Key: ek, Country: comboCountry, InCombo: combo != nil})
							}
						}
					}
					continue // nothing else below an extension map
				case k == "currency" && isStr:
					out = append(out, Ref{Kind: kCurr, Ptr: ptrOf(p), Val: s})
				case (k == "from" || k == "to") && isStr && n >= 2 && path[n-2] == "exchange_rates":
					out = append(out, Ref{Kind: kCurr, Ptr: ptrOf(p), Val: s})
				case k == "country" && isStr:
					kind := kCtryISO
					switch {
					case isCombo:
						kind = kCtryTax
					case n >= 1 && path[n-1] == "tax_id":
						kind = kCtryTax
					case has(path, "totals"):
						kind = kCtryTax // tax.RateTotal
					case n == 0 && schema == "tax/identity":
						kind = kCtryTax
					}
					out = append(out, Ref{Kind: kind, Ptr: ptrOf(p), Val: s, InCombo: isCombo})
				case k == "origin" && isStr && n >= 1 && path[n-1] == "item":
					out = append(out, Ref{Kind: kCtryISO, Ptr: ptrOf(p), Val: s})
				}
				walk(x, p, combo)
			}
		}
	}
	walk(doc, nil, nil)
	return out
}

// ---------------------------------------------------------------------------
// the resolver (published files only)

// Unres is a reference that does not resolve.
type Unres struct {
	Kind  string
	Ptr   string
	Level string // "undefined" | "misplaced" | "foreign"
	Msg   string
}

// Levels:
//
//	undefined  nothing published defines the value
//	misplaced  published, but not for this place (category of another regime,
//	           rate of another category, tag not offered to this document,
//	           tax-only country where an ISO country is required)
//	foreign    an extension key published by a regime / addon that does not
//	           apply to the document. The library documents one global
//	           extension register, so this is counted, not judged.
func (u Unres) violation() bool { return u.Level != "foreign" }

type docCtx struct {
	d          *pubdata.Defs
	schema     string
	regimeCode string
	regime     *pubdata.PubRegime
	regimeBad  bool // a regime code is given and is not published
	active     map[string]bool
}

func newCtx(doc any) *docCtx {
	d := pubdata.MustPublished()
	c := &docCtx{d: d, schema: shortSchema(doc), active: map[string]bool{}}
	m, _ := doc.(map[string]any)
	if m == nil {
		return c
	}
	if s, ok := m["$regime"].(string); ok && s != "" {
		c.regimeCode = s
	} else if sup, ok := m["supplier"].(map[string]any); ok {
		// the library derives a missing regime from the supplier's tax identity
		if tid, ok := sup["tax_id"].(map[string]any); ok {
			if s, ok := tid["country"].(string); ok && d.Regimes[s] != nil {
				c.regimeCode = s
			}
		}
	}
	if c.regimeCode != "" {
		c.regime = d.Regimes[c.regimeCode]
		c.regimeBad = c.regime == nil
	}
	if arr, ok := m["$addons"].([]any); ok {
		var add func(k string)
		add = func(k string) {
			a := d.Addons[k]
			if a == nil || c.active[k] {
				return
			}
			c.active[k] = true
			for _, r := range a.Requires {
				add(r)
			}
		}
		for _, e := range arr {
			if s, ok := e.(string); ok {
				add(s)
			}
		}
	}
	return c
}

// offeredTags are the tags the regime and the active addons offer to this
// document type.
func (c *docCtx) offeredTags() map[string]bool {
	out := map[string]bool{}
	if c.regime != nil {
		for _, t := range c.regime.Tags[c.schema] {
			out[t] = true
		}
	}
	for k := range c.active {
		for _, t := range c.d.Addons[k].Tags[c.schema] {
			out[t] = true
		}
	}
	return out
}

// comboRegime returns the regime that applies to a combo, whether one applies
// at all, and whether the combo has to be left alone because the document's
// own regime reference is already unresolved.
func (c *docCtx) comboRegime(r Ref) (reg *pubdata.PubRegime, skip bool) {
	if r.Country != "" {
		return c.d.Regimes[r.Country], false
	}
	if c.regimeBad {
		return nil, true
	}
	return c.regime, false
}

var (
	reMu    sync.Mutex
	reCache = map[string]*regexp.Regexp{}
)

func matches(pattern, s string) bool {
	reMu.Lock()
	re, ok := reCache[pattern]
	if !ok {
		re, _ = regexp.Compile(pattern)
		reCache[pattern] = re
	}
	reMu.Unlock()
	return re != nil && re.MatchString(s)
}

// rateResolves: a rate key belongs to a category when it is listed, or when
// it extends a listed key with further `+` parts (CHANGELOG: "rate keys can
// now be extended, so `exempt+reverse-charge` will be accepted").
func rateResolves(cat *pubdata.PubCategory, key string) bool {
	if cat.HasRate(key) {
		return true
	}
	for _, part := range strings.Split(key, "+") {
		if cat.HasRate(part) {
			return true
		}
	}
	return false
}

func extValueOK(defs []*pubdata.ExtDef, v string) bool {
	for _, d := range defs {
		switch {
		case len(d.Codes) > 0:
			if d.HasCode(v) {
				return true
			}
		case d.Pattern != "":
			if matches(d.Pattern, v) {
				return true
			}
		default:
			return true // neither a list nor a pattern: free
		}
	}
	return false
}

// resolve checks every reference of the document against the published files.
func resolve(doc any) []Unres {
	c := newCtx(doc)
	d := c.d
	var out []Unres
	add := func(r Ref, kind, level, format string, args ...any) {
		ptr := r.Ptr
		if r.Kind == kExtKey || r.Kind == kExtVal {
			ptr = ptr[:strings.LastIndex(ptr, "/")] // the map, not the member
		}
		out = append(out, Unres{Kind: kind, Ptr: ptr, Level: level, Msg: fmt.Sprintf(format, args...)})
	}
	var offered map[string]bool
	for _, r := range refs(doc) {
		switch r.Kind {
		case kRegime:
			if d.Regimes[r.Val] == nil {
				add(r, "regime", "undefined", "regime %q is not published under data/regimes", r.Val)
			}
		case kAddon:
			if d.Addons[r.Val] == nil {
				add(r, "addon", "undefined", "addon %q is not published under data/addons", r.Val)
			}
		case kTag:
			if !r.Root {
				continue
			}
			if offered == nil {
				offered = c.offeredTags()
			}
			if !offered[r.Val] {
				level := "undefined"
				if tagUniverse()[r.Val] {
					level = "misplaced"
				}
				add(r, "tag", level, "tag %q is not offered to %s by regime %q or the active addons %v", r.Val, c.schema, c.regimeCode, vh.SortedKeys(c.active))
			}
		case kCat:
			reg, skip := c.comboRegime(r)
			if skip || reg == nil {
				continue // no regime applies: categories are free
			}
			if reg.Category(r.Val) == nil {
				level := "undefined"
				if catUniverse()[r.Val] {
					level = "misplaced"
				}
				add(r, "cat", level, "category %q is not a category of regime %s", r.Val, reg.Country)
			}
		case kRate:
			reg, skip := c.comboRegime(r)
			if skip {
				continue
			}
			if reg == nil {
				add(r, "rate", "undefined", "rate key %q where no published regime applies", r.Val)
				continue
			}
			cat := reg.Category(r.Cat)
			if cat == nil {
				continue // reported with the category
			}
			if !rateResolves(cat, r.Val) {
				level := "undefined"
				if rateUniverse()[r.Val] {
					level = "misplaced"
				}
				add(r, "rate", level, "rate key %q is not a rate of %s/%s", r.Val, reg.Country, r.Cat)
			}
		case kExtKey:
			defs := d.Ext[r.Val]
			if len(defs) == 0 {
				add(r, "ext-key", "undefined", "extension key %q is defined by no published regime, addon or catalogue", r.Val)
				continue
			}
			applies := false
			for _, def := range defs {
				src := def.Source
				switch {
				case strings.HasPrefix(src, "catalogue:"):
					applies = true
				case strings.HasPrefix(src, "addon:"):
					applies = applies || c.active[strings.TrimPrefix(src, "addon:")]
				case strings.HasPrefix(src, "regime:"):
					code := strings.TrimPrefix(src, "regime:")
					if c.regime != nil && c.regime.Country == code {
						applies = true
					}
					if r.Country != "" && d.Regimes[r.Country] != nil && d.Regimes[r.Country].Country == code {
						applies = true
					}
				}
			}
			if !applies {
				add(r, "ext-key", "foreign", "extension key %q belongs to %s, which does not apply to this document", r.Val, defs[0].Source)
			}
		case kExtVal:
			defs := d.Ext[r.Key]
			if len(defs) == 0 {
				continue // reported with the key
			}
			if !extValueOK(defs, r.Val) {
				add(r, "ext-value", "undefined", "value %q of extension %q is neither a listed code nor matches the declared pattern (%s)", r.Val, r.Key, defs[0].Source)
			}
		case kCurr:
			if !d.Currencies[r.Val] {
				add(r, "currency", "undefined", "currency %q is not in the published currency tables", r.Val)
			}
		case kCtryISO:
			if !d.ISOCountries[r.Val] {
				level := "undefined"
				if d.TaxCountries[r.Val] {
					level = "misplaced"
				}
				add(r, "country", level, "country %q is not a published ISO country code", r.Val)
			}
		case kCtryTax:
			if !d.TaxCountries[r.Val] {
				add(r, "country", "undefined", "country %q is not a published tax country code", r.Val)
			}
		}
	}
	// regime and addon references first: an unknown regime explains whatever follows
	prio := map[string]int{"regime": 0, "addon": 1}
	sort.SliceStable(out, func(i, j int) bool {
		pi, oki := prio[out[i].Kind]
		pj, okj := prio[out[j].Kind]
		if !oki {
			pi = 9
		}
		if !okj {
			pj = 9
		}
		return pi < pj
	})
	return out
}

func (u Unres) id() string { return u.Kind + "|" + u.Level + "|" + u.Ptr + "|" + u.Msg }

// ---------------------------------------------------------------------------
// universes of defined values (from the published files)

var (
	uniOnce                    sync.Once
	uniTags, uniCats, uniRates map[string]bool
	tagList, catList, rateList []string
	ctryNoRegime               []string          // tax countries without a published regime
	extSample                  map[string]string // ext key -> a value that satisfies its definition
	extKeysBySource            map[string][]string
)

func universes() {
	uniOnce.Do(func() {
		d := pubdata.MustPublished()
		uniTags, uniCats, uniRates = map[string]bool{}, map[string]bool{}, map[string]bool{}
		seenReg := map[*pubdata.PubRegime]bool{}
		for _, code := range d.RegimeCodes {
			r := d.Regimes[code]
			if seenReg[r] {
				continue
			}
			seenReg[r] = true
			for _, ts := range r.Tags {
				for _, t := range ts {
					uniTags[t] = true
				}
			}
			for _, c := range r.Categories {
				uniCats[c.Code] = true
				for _, k := range c.Rates {
					uniRates[k] = true
				}
			}
		}
		for _, k := range d.AddonKeys {
			for _, ts := range d.Addons[k].Tags {
				for _, t := range ts {
					uniTags[t] = true
				}
			}
		}
		tagList, catList, rateList = keys(uniTags), keys(uniCats), keys(uniRates)
		for _, c := range d.TaxList {
			if d.Regimes[c] == nil {
				ctryNoRegime = append(ctryNoRegime, c)
			}
		}
		extSample = map[string]string{}
		extKeysBySource = map[string][]string{}
		for _, k := range d.ExtKeys {
			def := d.Ext[k][0]
			extKeysBySource[def.Source] = append(extKeysBySource[def.Source], k)
			switch {
			case len(def.Codes) > 0:
				extSample[k] = def.Codes[0]
			case def.Pattern != "":
				for _, s := range []string{"1234", "12345", "123456", "1234567", "12345678", "A1", "1"} {
					if matches(def.Pattern, s) {
						extSample[k] = s
						break
					}
				}
			default:
				extSample[k] = "X1"
			}
		}
	})
}

func keys(m map[string]bool) []string {
	out := make([]string, 0, len(m))
	for k := range m {
		out = append(out, k)
	}
	sort.Strings(out)
	return out
}

func tagUniverse() map[string]bool  { universes(); return uniTags }
func catUniverse() map[string]bool  { universes(); return uniCats }
func rateUniverse() map[string]bool { universes(); return uniRates }

// ---------------------------------------------------------------------------
// corpus bases

type base struct {
	doc     corpus.Doc
	srcEnv  any                        // source envelope tree (IsEnv only)
	src     any                        // source document tree
	calc    any                        // calculated document tree
	calcEnv any                        // calculated envelope tree
	err     error                      // the unmodified example does not calculate
	pre     map[string]map[string]bool // mode -> ids of what the unmodified tree leaves unresolved
	pos     map[string][]Pos
}

var (
	baseOnce sync.Once
	bases    map[string]*base
	baseList []string
)

func loadBases() {
	baseOnce.Do(func() {
		bases = map[string]*base{}
		for _, d := range corpus.MustLoad() {
			b := &base{doc: d, pre: map[string]map[string]bool{}, pos: map[string][]Pos{}}
			tree, err := jsontree.Decode(d.JSON)
			if err != nil {
				panic(fmt.Sprintf("c18: %s: %v", d.Path, err))
			}
			if d.IsEnv {
				b.srcEnv = tree
				b.src = tree.(map[string]any)["doc"]
			} else {
				b.src = tree
			}
			env, err := d.Envelope()
			if err != nil {
				b.err = err
			} else {
				raw, err := json.Marshal(env)
				if err != nil {
					panic(err)
				}
				b.calcEnv, err = jsontree.Decode(raw)
				if err != nil {
					panic(err)
				}
				b.calc = b.calcEnv.(map[string]any)["doc"]
			}
			for _, mode := range []string{"build", "validate"} {
				t := b.tree(mode)
				if t == nil {
					continue
				}
				ids := map[string]bool{}
				for _, u := range resolve(t) {
					ids[u.id()] = true
				}
				b.pre[mode] = ids
				b.pos[mode] = positions(t)
			}
			bases[d.Path] = b
			baseList = append(baseList, d.Path)
		}
		sort.Strings(baseList)
	})
}

func (b *base) tree(mode string) any {
	if mode == "validate" {
		return b.calc
	}
	return b.src
}

// run processes an (edited) document tree the way the mode says. stage names
// where a rejection happened ("" = validated).
func (b *base) run(mode string, doc any) (out any, stage string, err error) {
	defer func() {
		// a crash is not a verdict "valid"; crashes are property C14's business
		if r := recover(); r != nil {
			out, stage, err = nil, "panic", fmt.Errorf("panic at %s: %v", vh.PanicSite(debug.Stack()), r)
		}
	}()
	var env *gobl.Envelope
	if mode == "validate" {
		et, err := jsontree.Set(b.calcEnv, "/doc", doc)
		if err != nil {
			return nil, "harness", err
		}
		env = new(gobl.Envelope)
		if err := json.Unmarshal(jsontree.Encode(et), env); err != nil {
			return nil, "parse", err
		}
		dig, err := env.Digest()
		if err != nil {
			return nil, "digest", err
		}
		env.Head.Digest = dig
	} else {
		js := jsontree.Encode(doc)
		if b.doc.IsEnv {
			et, err := jsontree.Set(b.srcEnv, "/doc", doc)
			if err != nil {
				return nil, "harness", err
			}
			js = jsontree.Encode(et)
		}
		env, err = corpus.EnvelopeOf(js, b.doc.IsEnv)
		if err != nil {
			return nil, "calculate", err
		}
	}
	if err := env.Validate(); err != nil {
		return nil, "validate", err
	}
	raw, err := json.Marshal(env.Document)
	if err != nil {
		return nil, "harness", err
	}
	out, err = jsontree.Decode(raw)
	if err != nil {
		return nil, "harness", err
	}
	return out, "", nil
}

// ---------------------------------------------------------------------------
// edits

func applyEdit(doc any, e Edit) (any, error) {
	if strings.HasPrefix(e.Op, "graft:") {
		return graft(doc, e)
	}
	if e.Op == "replace-json" {
		return replaceJSON(doc, e)
	}
	if e.Op == "strip-regime" {
		// no $regime, and parties of a tax country that has none: no regime applies
		out := doc
		var err error
		if _, ok := jsontree.Get(out, "/$regime"); ok {
			if out, err = jsontree.Delete(out, "/$regime"); err != nil {
				return nil, err
			}
		}
		if _, ok := jsontree.Get(out, "/$addons"); ok {
			if out, err = jsontree.Delete(out, "/$addons"); err != nil {
				return nil, err
			}
		}
		for _, party := range []string{"supplier", "customer"} {
			if _, ok := jsontree.Get(out, "/"+party); ok {
				if out, err = jsontree.Set(out, "/"+party+"/tax_id", map[string]any{"country": e.New}); err != nil {
					return nil, err
				}
			}
		}
		return out, nil
	}
	switch e.Op {
	case "set":
		if _, ok := jsontree.Get(doc, e.Ptr); !ok && e.Kind != kRegime && e.Kind != kCtryTax {
			return nil, fmt.Errorf("no node %s", e.Ptr)
		}
		return jsontree.Set(doc, e.Ptr, e.New)
	case "rename":
		i := strings.LastIndex(e.Ptr, "/")
		if i < 0 {
			return nil, fmt.Errorf("bad pointer")
		}
		parent := e.Ptr[:i]
		pm, ok := jsontree.Get(doc, parent)
		m, isMap := pm.(map[string]any)
		if !ok || !isMap {
			return nil, fmt.Errorf("no map %s", parent)
		}
		old, ok := jsontree.Get(doc, e.Ptr)
		if !ok {
			return nil, fmt.Errorf("no member %s", e.Ptr)
		}
		if _, dup := m[e.New]; dup {
			return nil, fmt.Errorf("member %s exists", e.New)
		}
		nd, err := jsontree.Delete(doc, e.Ptr)
		if err != nil {
			return nil, err
		}
		return jsontree.Set(nd, parent+"/"+escPtr(e.New), old)
	case "append":
		cur, ok := jsontree.Get(doc, e.Ptr)
		if !ok {
			return jsontree.Set(doc, e.Ptr, []any{e.New})
		}
		arr, isArr := cur.([]any)
		if !isArr {
			return nil, fmt.Errorf("%s is not an array", e.Ptr)
		}
		for _, x := range arr {
			if x == any(e.New) {
				return nil, fmt.Errorf("already listed")
			}
		}
		return jsontree.Set(doc, e.Ptr, append(append([]any{}, arr...), e.New))
	case "put":
		cur, ok := jsontree.Get(doc, e.Ptr)
		if !ok {
			return jsontree.Set(doc, e.Ptr, map[string]any{e.New: e.Val})
		}
		m, isMap := cur.(map[string]any)
		if !isMap {
			return nil, fmt.Errorf("%s is not an object", e.Ptr)
		}
		if _, dup := m[e.New]; dup {
			return nil, fmt.Errorf("member %s exists", e.New)
		}
		return jsontree.Set(doc, e.Ptr+"/"+escPtr(e.New), e.Val)
	}
	return nil, fmt.Errorf("unknown op %q", e.Op)
}

// ---------------------------------------------------------------------------
// reference positions and replacement values

// Pos is a place where a reference stands (or can be added).
type Pos struct {
	Op  string
	Ptr string
	Ref Ref // Kind, current value and context
}

// positions lists the reference positions of a tree: every reference present,
// and the places where one can be added (document tags, addons, a missing
// regime, one more extension on every combo and every extension map).
func positions(doc any) []Pos {
	var out []Pos
	rs := refs(doc)
	extMaps := map[string]Ref{}
	for _, r := range rs {
		switch r.Kind {
		case kExtKey:
			out = append(out, Pos{Op: "rename", Ptr: r.Ptr, Ref: r})
			extMaps[r.Ptr[:strings.LastIndex(r.Ptr, "/")]] = r
		default:
			out = append(out, Pos{Op: "set", Ptr: r.Ptr, Ref: r})
		}
	}
	m, _ := doc.(map[string]any)
	sch := shortSchema(doc)
	if m != nil && (strings.HasPrefix(sch, "bill/") || sch == "org/party") {
		if _, ok := m["$regime"]; !ok {
			out = append(out, Pos{Op: "set", Ptr: "/$regime", Ref: Ref{Kind: kRegime, Root: true}})
		}
	}
	if m != nil && strings.HasPrefix(sch, "bill/") {
		out = append(out, Pos{Op: "append", Ptr: "/$tags", Ref: Ref{Kind: kTag, Root: true}})
		out = append(out, Pos{Op: "append", Ptr: "/$addons", Ref: Ref{Kind: kAddon, Root: true}})
	}
	// a country override on every combo without one;
	// one more extension: on every existing map, and on every combo without one
	for _, r := range rs {
		if r.Kind == kCat && r.Country == "" {
			out = append(out, Pos{Op: "set", Ptr: strings.TrimSuffix(r.Ptr, "/cat") + "/country", Ref: Ref{Kind: kCtryTax, InCombo: true}})
		}
		if r.Kind == kCat {
			p := strings.TrimSuffix(r.Ptr, "/cat") + "/ext"
			if _, ok := extMaps[p]; !ok {
				extMaps[p] = Ref{Kind: kExtKey, Country: r.Country, InCombo: true}
			}
		}
	}
	ps := make([]string, 0, len(extMaps))
	for p := range extMaps {
		ps = append(ps, p)
	}
	sort.Strings(ps)
	have := map[string]bool{}
	for _, p := range ps {
		r := extMaps[p]
		have[p] = true
		out = append(out, Pos{Op: "put", Ptr: p, Ref: Ref{Kind: kExtKey, Country: r.Country, InCombo: r.InCombo}})
	}
	// extension maps the published schema allows and the example does not carry
	out = append(out, schemaExtPositions(doc, have)...)
	return out
}

// Val is a replacement value and the reason it was chosen.
type Val struct {
	New string
	Val string // op put: the member's value
	Why string
}

// mix is a small deterministic hash for sampling (no private RNG state).
func mix(parts ...any) uint64 {
	h := uint64(0xcbf29ce484222325)
	for _, b := range []byte(fmt.Sprint(parts...)) {
		h ^= uint64(b)
		h *= 0x100000001b3
	}
	h ^= h >> 29
	h *= 0xbf58476d1ce4e5b9
	h ^= h >> 32
	return h
}

// sample picks n distinct members of list (all when n <= 0 or n >= len).
func sample(list []string, n int, salt uint64) []string {
	if n <= 0 || n >= len(list) {
		return append([]string{}, list...)
	}
	idx := make([]int, len(list))
	for i := range idx {
		idx[i] = i
	}
	sort.Slice(idx, func(a, b int) bool {
		return mix(salt, list[idx[a]]) < mix(salt, list[idx[b]])
	})
	out := make([]string, 0, n)
	for _, i := range idx[:n] {
		out = append(out, list[i])
	}
	sort.Strings(out)
	return out
}

// nearMisses changes one character of s, keeping its character class, and
// keeps the results that are not defined.
func nearMisses(s string, defined func(string) bool, max int) []string {
	var out []string
	seen := map[string]bool{}
	b := []byte(s)
	for i := len(b) - 1; i >= 0 && len(out) < max; i-- {
		c := b[i]
		var alts []byte
		switch {
		case c >= 'a' && c <= 'z':
			alts = []byte{'a' + (c-'a'+1)%26, 'a' + (c-'a'+13)%26}
		case c >= 'A' && c <= 'Z':
			alts = []byte{'A' + (c-'A'+1)%26, 'A' + (c-'A'+13)%26}
		case c >= '0' && c <= '9':
			alts = []byte{'0' + (c-'0'+1)%10, 'A' + (c - '0')}
		default:
			continue
		}
		for _, a := range alts {
			nb := append([]byte{}, b...)
			nb[i] = a
			n := string(nb)
			if n != s && !seen[n] && !defined(n) {
				seen[n] = true
				out = append(out, n)
				break
			}
		}
	}
	return out
}

func inSet(m map[string]bool) func(string) bool { return func(s string) bool { return m[s] } }

func quickN(n int) int {
	if vh.Thorough() {
		return 0 // all
	}
	return n
}

// values lists the replacement values for a position: (a) other defined values
// of the kind, (b) undefined ones.
func values(b *base, p Pos, salt uint64) []Val {
	universes()
	d := pubdata.MustPublished()
	r := p.Ref
	cur := r.Val
	var out []Val
	seen := map[string]bool{cur: cur != ""}
	add := func(why string, vs ...string) {
		for _, v := range vs {
			if v == "" || seen[v] {
				continue
			}
			seen[v] = true
			out = append(out, Val{New: v, Why: why})
		}
	}
	lower := strings.ToLower(cur)
	upper := strings.ToUpper(cur)
	switch r.Kind {
	case kRegime:
		add("defined", sample(d.RegimeCodes, quickN(3), salt)...)
		add("country-without-regime", "FJ", "JP")
		add("near-miss", nearMisses(cur, func(s string) bool { return d.Regimes[s] != nil }, 2)...)
		add("malformed", lower, cur+"X", "E")
		add("random", "ZZ", "QX")
	case kAddon:
		add("defined", sample(d.AddonKeys, quickN(3), salt)...)
		add("near-miss", nearMisses(cur, func(s string) bool { return d.Addons[s] != nil }, 2)...)
		add("random", "zz-bogus-v1", "es-facturae-v4", "mx-cfdi")
		add("malformed", upper, "ES-FACTURAE-V3")
	case kTag:
		add("defined", sample(tagList, quickN(4), salt)...)
		add("near-miss", nearMisses(cur, inSet(uniTags), 2)...)
		add("near-miss", "simplifed", "reverse-charged")
		add("random", "zz-undefined-tag")
		add("malformed", upper, "Simplified")
	case kCat:
		add("defined", sample(catList, quickN(4), salt)...)
		add("near-miss", nearMisses(cur, inSet(uniCats), 2)...)
		add("random", "WHATEVER", "VAX")
		add("malformed", lower)
	case kRate:
		add("defined", sample(rateList, quickN(4), salt)...)
		add("defined-extended", cur+"+zzz")
		add("near-miss", nearMisses(cur, inSet(uniRates), 2)...)
		add("random", "zzz", "zzz+yyy", "standrd")
		add("malformed", upper)
	case kCtryTax:
		add("defined", sample(d.RegimeCodes, quickN(3), salt)...)
		if vh.Thorough() {
			add("defined", d.TaxList...)
		} else {
			add("country-without-regime", sample(ctryNoRegime, 2, salt)...)
		}
		add("near-miss", nearMisses(cur, inSet(d.TaxCountries), 2)...)
		add("random", "ZZ", "QQ", "E1")
		add("malformed", lower, "ESP")
	case kCtryISO:
		add("defined", sample(d.ISOList, quickN(3), salt)...)
		add("tax-only", "EL", "XI", "XU")
		add("near-miss", nearMisses(cur, inSet(d.ISOCountries), 2)...)
		add("random", "ZZ", "QQ")
		add("malformed", lower, "ESP")
	case kCurr:
		add("defined", sample(d.CurrencyList, quickN(3), salt)...)
		add("near-miss", nearMisses(cur, inSet(d.Currencies), 2)...)
		add("random", "ZZZ", "EUX")
		add("malformed", lower, "EURO", "EU")
	case kExtKey:
		undefined := func(s string) bool { return len(d.Ext[s]) > 0 }
		if p.Op == "put" || strings.HasPrefix(p.Op, "graft:") {
			// a new member: defined key with a good value, with a bad value, undefined key
			for _, k := range sample(d.ExtKeys, quickN(3), salt) {
				if !seen[k] {
					seen[k] = true
					out = append(out, Val{New: k, Val: extSample[k], Why: "defined"})
					out = append(out, Val{New: k, Val: "ZZ~9", Why: "defined-key-bad-value"})
				}
			}
			for _, k := range []string{"zz-undefined-key", "es-facturae-doc-typo", "untdid-tax-categor"} {
				out = append(out, Val{New: k, Val: "X1", Why: "random"})
			}
			// a published key refined with a +sub-key, carrying a value valid for the parent key
			for _, k := range sample(d.ExtKeys, quickN(2), salt+7) {
				out = append(out, Val{New: k + "+local", Val: extSample[k], Why: "refined"})
			}
			return out
		}
		if defs := d.Ext[cur]; len(defs) > 0 {
			add("defined-sibling", sample(extKeysBySource[defs[0].Source], quickN(2), salt)...)
		}
		add("defined", sample(d.ExtKeys, quickN(3), salt)...)
		add("near-miss", nearMisses(cur, undefined, 2)...)
		add("random", "zz-undefined-key", cur+"-x")
		// a published key refined with +sub-keys is not itself a published key
		add("refined", cur+"+local", cur+"+zz+9")
		add("malformed", upper)
	case kExtVal:
		defs := d.Ext[r.Key]
		if len(defs) == 0 {
			add("random", "ZZZ9")
			break
		}
		def := defs[0]
		ok := func(s string) bool { return extValueOK(defs, s) }
		switch {
		case len(def.Codes) > 0:
			n := quickN(3)
			if vh.Thorough() {
				n = 100
			}
			add("defined", sample(def.Codes, n, salt)...)
		case def.Pattern != "":
			// another value of the same shape
			nb := []byte(cur)
			for i := range nb {
				if nb[i] >= '0' && nb[i] <= '9' {
					nb[i] = '0' + (nb[i]-'0'+3)%10
				}
			}
			if ok(string(nb)) {
				add("defined", string(nb))
			}
			add("off-pattern", cur+"1", strings.TrimSuffix(cur, cur[len(cur)-1:]), "A"+cur)
		default:
			add("defined", "X1", "ANY-THING")
		}
		add("near-miss", nearMisses(cur, ok, 2)...)
		add("random", "ZZZ9", "0")
		add("other-case", lower, upper)
		add("malformed", lower+"~")
	}
	return out
}

// ---------------------------------------------------------------------------
// the judge

func clip(s string, n int) string {
	if len(s) > n {
		return s[:n] + "..."
	}
	return s
}

func judge(c Case, o *vh.Obs) {
	loadBases()
	b := bases[c.Doc]
	if b == nil || (c.Mode != "build" && c.Mode != "validate") {
		o.Discard()
		return
	}
	if b.err != nil {
		o.Failf("harness:corpus-does-not-calculate", "%s: %v", c.Doc, b.err)
		return
	}
	tree := b.tree(c.Mode)
	for _, e := range c.Edits {
		var err error
		tree, err = applyEdit(tree, e)
		if err != nil {
			o.Class("edit-inapplicable")
			o.Discard()
			return
		}
	}
	o.Class("mode:" + c.Mode)
	for _, e := range c.Edits {
		o.Class("kind:" + e.Kind)
	}

	// what the input refers to that the published files do not offer here
	var fresh []Unres
	for _, u := range resolve(tree) {
		if !b.pre[c.Mode][u.id()] {
			fresh = append(fresh, u)
		}
	}
	switch {
	case len(c.Edits) == 0:
		o.Class("input:unmodified")
	case len(fresh) == 0:
		o.Class("input:defined")
	default:
		o.NonTrivial()
		lv := map[string]bool{}
		for _, u := range fresh {
			lv[u.Level] = true
		}
		for _, l := range vh.SortedKeys(lv) {
			o.Class("input:" + l)
		}
	}

	out, stage, err := b.run(c.Mode, tree)
	if stage == "harness" {
		o.Failf("harness:cannot-run", "%v", err)
		return
	}
	if stage != "" {
		if len(c.Edits) == 0 {
			o.Failf("harness:corpus-rejected", "unmodified %s is rejected at %s: %v", c.Doc, stage, err)
			return
		}
		o.Class("rejected")
		o.Class("rejected:" + stage)
		o.Note("rejected at %s: %s", stage, clip(err.Error(), 200))
		return
	}

	// validated: everything the validated document refers to must resolve
	un := resolve(out)
	sch := shortSchema(out)
	foreign := false
	for _, u := range un {
		if !u.violation() {
			foreign = true
			continue
		}
		o.Class("accepted-undefined")
		o.Failf(fmt.Sprintf("unresolved:%s:%s#%s", u.Kind, sch, normPtr(u.Ptr)),
			"%s (%s, edits %s) validates, but %s: %s [%s]", c.Doc, c.Mode, editsString(c.Edits), u.Ptr, u.Msg, u.Level)
		return
	}
	o.Class("accepted-defined")
	if foreign {
		o.Class("accepted:foreign-ext-key")
	}
	for _, u := range fresh {
		if u.violation() {
			// the input referred to something undefined; the validated document no longer does
			o.Class("accepted:undefined-input-normalised-away")
			break
		}
	}
	o.Note("validated; every reference resolves")
}

// judgeSafely turns a panic of the judge itself into a failure (the library's
// own panics are already caught in run).
func judgeSafely(c Case, o *vh.Obs) {
	defer func() {
		if r := recover(); r != nil {
			site := vh.PanicSite(debug.Stack())
			o.Failf("panic@"+site, "panic: %v (at %s)", r, site)
		}
	}()
	judge(c, o)
}

func editsString(es []Edit) string {
	var parts []string
	for _, e := range es {
		op, _, _ := strings.Cut(e.Op, ":")
		s := fmt.Sprintf("%s %s %s=%q", op, e.Kind, e.Ptr, e.New)
		if e.Op == "put" || op == "graft" {
			s += fmt.Sprintf(":%q", e.Val)
		}
		parts = append(parts, s)
	}
	return "[" + strings.Join(parts, "; ") + "]"
}

// ---------------------------------------------------------------------------
// enumerations

var modes = []string{"build", "validate"}

// enumCorpus: every unmodified example, both ways.
func enumCorpus(yield func(Case) bool) {
	if vh.Cfg().Shard != 0 {
		return
	}
	loadBases()
	for _, path := range baseList {
		for _, m := range modes {
			if !yield(Case{Doc: path, Mode: m}) {
				return
			}
		}
	}
}

func editOf(p Pos, v Val) Edit {
	kind := p.Ref.Kind
	return Edit{Op: p.Op, Ptr: p.Ptr, Kind: kind, New: v.New, Val: v.Val, Why: v.Why}
}

// enumSingle: every reference position x replacement value.
func enumSingle(yield func(Case) bool) {
	loadBases()
	cfg := vh.Cfg()
	idx := 0
	for _, path := range baseList {
		b := bases[path]
		if b.err != nil {
			continue
		}
		for _, m := range modes {
			for _, p := range b.pos[m] {
				// the sample of defined values moves with the seed in the quick tier
				salt := mix(cfg.Seed, path, m, p.Ptr, p.Ref.Kind, p.Op)
				for _, v := range values(b, p, salt) {
					idx++
					if cfg.Shards > 1 && idx%cfg.Shards != cfg.Shard {
						continue
					}
					if !yield(Case{Doc: path, Mode: m, Edits: []Edit{editOf(p, v)}}) {
						return
					}
				}
			}
		}
	}
}

// enumRegimeless: documents to which no regime applies (no $regime, parties of
// a tax country without one) still only name known currencies and countries:
// every currency and country position x undefined values, after the strip.
func enumRegimeless(yield func(Case) bool) {
	loadBases()
	cfg := vh.Cfg()
	idx := 0
	perSchema := map[string]int{}
	for _, path := range baseList {
		b := bases[path]
		if b.err != nil {
			continue
		}
		sch := shortSchema(b.src)
		perSchema[sch]++
		if perSchema[sch] > 4 {
			continue // four examples of every document kind
		}
		for _, m := range modes {
			strip := Edit{Op: "strip-regime", Ptr: "/$regime", Kind: kRegime, New: "JP", Why: "country-without-regime"}
			if !yield(Case{Doc: path, Mode: m, Edits: []Edit{strip}}) {
				return
			}
			for _, p := range b.pos[m] {
				if p.Op != "set" || (p.Ref.Kind != kCurr && p.Ref.Kind != kCtryISO) || strings.Contains(p.Ptr, "/tax_id/") {
					continue
				}
				vals := []string{"XXZ", "ZZZ", "EUX", "eur"}
				if p.Ref.Kind == kCtryISO {
					vals = []string{"ZZ", "QQ", "es"}
				}
				for _, v := range vals {
					idx++
					if cfg.Shards > 1 && idx%cfg.Shards != cfg.Shard {
						continue
					}
					if !yield(Case{Doc: path, Mode: m, Edits: []Edit{strip, {Op: "set", Ptr: p.Ptr, Kind: p.Ref.Kind, New: v, Why: "random"}}}) {
						return
					}
				}
			}
		}
	}
}

// ---------------------------------------------------------------------------
// random double replacements

var (
	keyGen  = rapid.StringMatching(`[a-z]{2,6}(-[a-z0-9]{1,6}){0,2}`)
	codeGen = rapid.StringMatching(`[A-Z0-9]{1,6}`)
)

func drawValue(t *rapid.T, b *base, p Pos, label string) Val {
	d := pubdata.MustPublished()
	universes()
	// half of the time a value of the deterministic lists, otherwise a free draw
	if rapid.Bool().Draw(t, label+"-listed") {
		vs := values(b, p, rapid.Uint64().Draw(t, label+"-salt"))
		if len(vs) > 0 {
			return rapid.SampledFrom(vs).Draw(t, label+"-value")
		}
	}
	pick := func(list []string) string { return rapid.SampledFrom(list).Draw(t, label+"-defined") }
	free := rapid.Bool().Draw(t, label+"-free")
	switch p.Ref.Kind {
	case kRegime:
		if free {
			return Val{New: rapid.StringMatching(`[A-Z]{2}`).Draw(t, label), Why: "random"}
		}
		return Val{New: pick(d.RegimeCodes), Why: "defined"}
	case kAddon:
		if free {
			return Val{New: keyGen.Draw(t, label), Why: "random"}
		}
		return Val{New: pick(d.AddonKeys), Why: "defined"}
	case kTag:
		if free {
			return Val{New: keyGen.Draw(t, label), Why: "random"}
		}
		return Val{New: pick(tagList), Why: "defined"}
	case kCat:
		if free {
			return Val{New: codeGen.Draw(t, label), Why: "random"}
		}
		return Val{New: pick(catList), Why: "defined"}
	case kRate:
		if free {
			return Val{New: keyGen.Draw(t, label), Why: "random"}
		}
		return Val{New: pick(rateList), Why: "defined"}
	case kCtryTax:
		if free {
			return Val{New: rapid.StringMatching(`[A-Z]{2}`).Draw(t, label), Why: "random"}
		}
		return Val{New: pick(d.TaxList), Why: "defined"}
	case kCtryISO:
		if free {
			return Val{New: rapid.StringMatching(`[A-Z]{2}`).Draw(t, label), Why: "random"}
		}
		return Val{New: pick(d.ISOList), Why: "defined"}
	case kCurr:
		if free {
			return Val{New: rapid.StringMatching(`[A-Z]{3}`).Draw(t, label), Why: "random"}
		}
		return Val{New: pick(d.CurrencyList), Why: "defined"}
	case kExtKey:
		k := pick(d.ExtKeys)
		why := "defined"
		if free {
			k, why = keyGen.Draw(t, label), "random"
		}
		v := Val{New: k, Why: why}
		if p.Op == "put" || strings.HasPrefix(p.Op, "graft:") {
			v.Val = extSample[k]
			if v.Val == "" || rapid.Bool().Draw(t, label+"-badval") {
				v.Val = codeGen.Draw(t, label+"-val")
			}
		}
		return v
	case kExtVal:
		defs := d.Ext[p.Ref.Key]
		if !free && len(defs) > 0 && len(defs[0].Codes) > 0 {
			return Val{New: pick(defs[0].Codes), Why: "defined"}
		}
		return Val{New: codeGen.Draw(t, label), Why: "random"}
	}
	return Val{New: codeGen.Draw(t, label), Why: "random"}
}

func genDouble(t *rapid.T) Case {
	loadBases()
	path := rapid.SampledFrom(baseList).Draw(t, "doc")
	b := bases[path]
	mode := rapid.SampledFrom(modes).Draw(t, "mode")
	ps := b.pos[mode]
	c := Case{Doc: path, Mode: mode}
	if len(ps) == 0 {
		return c
	}
	i := rapid.IntRange(0, len(ps)-1).Draw(t, "pos1")
	j := rapid.IntRange(0, len(ps)-1).Draw(t, "pos2")
	c.Edits = append(c.Edits, editOf(ps[i], drawValue(t, b, ps[i], "v1")))
	if j != i && ps[j].Ptr != ps[i].Ptr {
		c.Edits = append(c.Edits, editOf(ps[j], drawValue(t, b, ps[j], "v2")))
	}
	return c
}

func init() {
	vh.Describe(
		"Cases are the 83 example documents with references replaced. Reference positions are found by walking the JSON tree: $regime, $addons[*], $tags[*], "+
			"cat / rate / country of every tax combo, every key and every value of every `ext` map wherever it stands, every currency (document, exchange rates, items, ...) and every country "+
			"(addresses, identities, tax_id, combos, item origin); plus insert positions (a tag, an addon, a missing $regime, a country override on every combo, one more extension on every combo and ext map, an extension map on every object whose published schema allows one and that has none, and - for absent members whose published type allows one - a small instance of the member carrying the extension). "+
			"`single` crosses every position with (a) other values the published files define for that kind (a seed-dependent sample in the quick tier, all of them in the thorough tier) and "+
			"(b) undefined ones: one-character near misses of defined values, countries without a regime, keys of other regimes / addons, malformed and random well-formed keys / codes; "+
			"`regimeless` strips the regime from four examples of every document kind (no $regime, no addons, parties of a tax country without regime) and then replaces every currency and country with undefined codes; `double` draws two replacements at random (half from those lists, half free strings). `combo_sets` replaces every tax set of every example (quick: the first three per document) by a pair - a combo naming another regime's country (with one of its keyed categories) or a country without regime, then a combo without country whose category (of another regime, or undefined) or rate key the document's regime does not define: what applies to a combo is its own country or the document's regime, never its neighbour's. Two modes: `build` edits the example source and envelopes (calculates) it before validating; "+
			"`validate` edits the calculated example and validates it as it stands (digest recomputed). A rejection at any stage is fine; when Validate() returns nil the resolver "+
			"(data/regimes, data/addons, data/catalogues, data/currency, the country enumerations of data/schemas/l10n; never the Go registries) must resolve every reference of the validated JSON. "+
			"Non-trivial rule: the edited input itself contains a reference that the published files do not define, or define for another regime / category / addon / document type than the one that applies "+
			"(judged by the resolver on the edited input, relative to the unmodified example).",
		"a rate key resolves in a category when it is listed or extends a listed key with `+` parts (CHANGELOG: rate keys can be extended, e.g. exempt+reverse-charge; the example de/invoice-de-es-b2b uses it)",
		"an extension key published by a regime or addon that is not the document's own is counted (class accepted:foreign-ext-key), not judged: tax/extensions.go documents one global register of extension keys",
		"where no published regime applies to a combo (no document regime, or a combo country without a regime) its category is free and its rate key must be empty",
		"countries are checked against the enumerations of the published l10n schemas (no country table is published on its own): ISO codes for addresses / identities / item origin, tax country codes for tax_id, combos and $regime",
		"tags are judged on the document root only, for the document's own schema, against the regime and the addons listed in the validated document (requirements included)",
	)
	vh.Enum("corpus", enumCorpus, judge)
	// `single` drives itself so that the quick tier (a sample of the defined
	// values) is not reported as an exhaustive enumeration.
	vh.Custom("single", func(t *testing.T, r *vh.Runner) {
		r.DistinctByConstruction()
		complete := true
		violations, n := 0, 0
		enumSingle(func(c Case) bool {
			n++
			if n&0x3ff == 0 && vh.DeadlinePassed() {
				complete = false
				return false
			}
			o := &vh.Obs{}
			judgeSafely(c, o)
			if r.Observe(t, c, o) {
				violations++
				complete = false
			}
			return violations < 3
		})
		r.MarkExhaustive(complete && vh.Thorough())
	}, func(raw json.RawMessage, o *vh.Obs) {
		var c Case
		if err := json.Unmarshal(raw, &c); err != nil {
			o.Failf("harness:bad-replay", "%v", err)
			return
		}
		judge(c, o)
	})
	vh.Rapid("double", 12_000, 600_000, genDouble, judge)
	vh.Enum("regimeless", enumRegimeless, judgeSafely)
	vh.Enum("combo_sets", enumSets, judgeSafely)
}

// ---------------------------------------------------------------------------
// development aid: C18_SIGSURVEY=1 go test -run TestSigSurvey prints every
// distinct violation signature of the `single` sweep with a count and the
// first case (the harness itself stops at the first few).

func TestSigSurvey(t *testing.T) {
	if os.Getenv("C18_SIGSURVEY") == "" {
		t.Skip("set C18_SIGSURVEY=1")
	}
	type agg struct {
		n     int
		first string
	}
	sigs := map[string]*agg{}
	classes := map[string]int{}
	total := 0
	for _, it := range []func(func(Case) bool){enumCorpus, enumSingle} {
		it(func(c Case) bool {
			o := &vh.Obs{}
			func() {
				defer func() {
					if r := recover(); r != nil {
						o.Failf("panic", "%v", r)
					}
				}()
				judge(c, o)
			}()
			total++
			if f := o.Failure(); f != nil {
				a := sigs[f.Sig]
				if a == nil {
					a = &agg{first: f.Msg}
					sigs[f.Sig] = a
				}
				a.n++
			}
			return true
		})
	}
	_ = classes
	fmt.Printf("cases %d\n", total)
	for _, s := range vh.SortedKeys(sigs) {
		fmt.Printf("%6d  %s\n        %s\n", sigs[s].n, s, clip(sigs[s].first, 400))
	}
}
