package c18

// Extension maps that the published schemas allow and the examples do not
// carry: on objects that are present, and inside members that are absent
// (grafted in as a small instance holding the extension).

import (
	"encoding/json"
	"fmt"
	"strconv"
	"strings"

	"github.com/invopop/gobl/verifharness/internal/jsontree"
	"github.com/invopop/gobl/verifharness/internal/pubschema"
)

func hasExt(s *pubschema.Set, n pubschema.Node) bool {
	_, nodes := s.Props(n)
	e, ok := nodes["ext"]
	return ok && s.TypeID(e) == "tax/extensions"
}

// schemaExtPositions walks the document alongside its published schema.
func schemaExtPositions(doc any, have map[string]bool) []Pos {
	s := pubschema.MustLoad()
	var out []Pos
	seen := map[string]bool{}
	var walk func(v any, sch pubschema.Node, ptr string)
	walk = func(v any, sch pubschema.Node, ptr string) {
		switch t := v.(type) {
		case map[string]any:
			if id, ok := t["$schema"].(string); ok {
				if r, ok := s.Root(id); ok {
					sch = r
				}
			}
			names, nodes := s.Props(sch)
			for _, name := range names {
				child, present := t[name]
				cptr := ptr + "/" + escPtr(name)
				if present {
					walk(child, nodes[name], cptr)
					continue
				}
				if strings.HasPrefix(name, "$") || seen[normPtr(cptr)] {
					continue
				}
				if name == "ext" && s.TypeID(nodes[name]) == "tax/extensions" {
					if !have[cptr] {
						seen[normPtr(cptr)] = true
						out = append(out, Pos{Op: "put", Ptr: cptr, Ref: Ref{Kind: kExtKey}})
					}
					continue
				}
				// an absent member whose instances may carry an extension map
				target, isList := nodes[name], false
				if s.Kind(target) == "array" {
					if it, ok := s.Items(target); ok {
						target, isList = it, true
					}
				}
				if s.Kind(target) != "object" || !hasExt(s, target) {
					continue
				}
				inst, ok := s.Sample(target, 0).(map[string]any)
				if !ok {
					continue
				}
				var tmpl any = inst
				if isList {
					tmpl = []any{inst}
				}
				raw, err := json.Marshal(tmpl)
				if err != nil {
					continue
				}
				seen[normPtr(cptr)] = true
				out = append(out, Pos{Op: "graft:" + string(raw), Ptr: cptr, Ref: Ref{Kind: kExtKey}})
			}
		case []any:
			if it, ok := s.Items(sch); ok {
				for i, e := range t {
					if i >= 2 {
						break
					}
					walk(e, it, ptr+"/"+strconv.Itoa(i))
				}
			}
		}
	}
	walk(doc, pubschema.Node{}, "")
	return out
}

// graft sets the member at e.Ptr to the template carried by the op, with the
// extension e.New = e.Val added to it (to its first element when it is a list).
func graft(doc any, e Edit) (any, error) {
	tmpl, err := jsontree.Decode([]byte(strings.TrimPrefix(e.Op, "graft:")))
	if err != nil {
		return nil, err
	}
	if _, exists := jsontree.Get(doc, e.Ptr); exists {
		return nil, fmt.Errorf("member %s exists", e.Ptr)
	}
	ext := map[string]any{e.New: e.Val}
	switch t := tmpl.(type) {
	case map[string]any:
		t["ext"] = ext
	case []any:
		if len(t) == 0 {
			return nil, fmt.Errorf("empty template")
		}
		m, ok := t[0].(map[string]any)
		if !ok {
			return nil, fmt.Errorf("bad template")
		}
		m["ext"] = ext
	default:
		return nil, fmt.Errorf("bad template")
	}
	return jsontree.Set(doc, e.Ptr, tmpl)
}
