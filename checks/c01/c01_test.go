// Package c01 decides property C01: document totals equal exact decimal
// arithmetic over the inputs, rounded only at the documented points.
package c01

import (
	"fmt"
	"math/big"
	"regexp"
	"strings"
	"testing"

	"github.com/invopop/gobl/verifharness/internal/billrun"
	"github.com/invopop/gobl/verifharness/internal/docgen"
	"github.com/invopop/gobl/verifharness/internal/ratref"
	"github.com/invopop/gobl/verifharness/internal/refcalc"
	"github.com/invopop/gobl/verifharness/internal/vh"
	"pgregory.net/rapid"
)

func TestMain(m *testing.M) { vh.Main(m, "C01") }

func TestAll(t *testing.T) { vh.RunAll(t) }

var idxRe = regexp.MustCompile(`\[\d+\]`)

// family of admissible working precisions ("at least currency + 2")
var family = [][2]int{{2, 2}, {3, 3}, {4, 4}, {2, 3}, {3, 2}, {2, 4}, {4, 2}, {6, 6}}

func judge(p docgen.Plan, o *vh.Obs) {
	out := billrun.Run(p)
	if p.CustomerRates != "" {
		o.Class("customer-rates")
	}
	o.Class("kind-" + p.Kind)
	if out.Err != nil {
		// the property speaks about documents that calculate successfully
		o.Class("calc-error")
		o.Discard()
		return
	}
	env := out.Env
	ref, err := refcalc.Calculate(p, env, out.Rows)
	if err != nil {
		o.Failf("model:calculated-incalculable", "document calculated although the reference declares it incalculable: %v", err)
		return
	}
	if ref.Stats.OutOfDomain {
		o.Class("outside-2^52-domain")
		o.Discard()
		return
	}
	classify(p, env, ref, o)

	// (b) model family: all presented figures equal the reference at one admissible working precision
	diffs := billrun.Compare(ref.Figures, out.Figures)
	matched := len(diffs) == 0
	if !matched {
		for _, k := range family[1:] {
			e2 := env
			e2.K1, e2.K2 = k[0], k[1]
			r2, err := refcalc.Calculate(p, e2, out.Rows)
			if err == nil && len(billrun.Compare(r2.Figures, out.Figures)) == 0 {
				matched = true
				ref = r2 // prices derived from breakdowns and the error bounds belong to the matching member
				o.Class(fmt.Sprintf("matched-k%d-%d", k[0], k[1]))
				break
			}
		}
	}
	if !matched {
		path := strings.SplitN(diffs[0], ":", 2)[0]
		o.Failf("model:"+idxRe.ReplaceAllString(path, "[]"), "%d figure(s) differ from exact decimal arithmetic rounded at the documented points (rule %s, currency %s/%d): %s",
			len(diffs), env.Rule, env.Currency, env.C, strings.Join(head(diffs, 6), "; "))
		return
	}

	// (a/c) formula-level exact values, no rounding anywhere: every presented
	// figure lies within the admissible error of the unrounded value
	exact := exactFigures(p, out.Rows, ref.Prices)
	for path, x := range exact {
		obs, ok := out.Figures[path]
		if !ok {
			continue
		}
		d, err := ratref.ParseDec(obs)
		if err != nil {
			o.Failf("exact:unparseable", "%s = %q", path, obs)
			return
		}
		bound := new(big.Rat)
		if b := ref.Bounds[path]; b != nil {
			bound.Set(b)
		}
		half := new(big.Rat).SetFrac(big.NewInt(1), new(big.Int).Mul(big.NewInt(2), ratref.Pow10(d.Exp)))
		lim := new(big.Rat).Add(bound, half)
		diff := new(big.Rat).Sub(d.Rat(), x)
		diff.Abs(diff)
		if diff.Cmp(lim) > 0 {
			o.Failf("exact:"+idxRe.ReplaceAllString(path, "[]"), "%s presented as %s but the unrounded exact value is %s (distance %s exceeds the admissible rounding error %s)",
				path, obs, x.FloatString(env.C+6), diff.FloatString(env.C+6), lim.FloatString(env.C+6))
			return
		}
		// the statement's last sentence
		if env.Rule == "precise" && strings.HasPrefix(path, "totals.") && len(p.Lines) <= 20 && len(p.Rates) == 0 && bound.Cmp(half) < 0 {
			unit := new(big.Rat).SetFrac(big.NewInt(1), ratref.Pow10(env.C))
			if diff.Cmp(unit) >= 0 {
				o.Failf("exact:full-unit-off", "%s presented as %s is a full minor unit away from the exact %s", path, obs, x.FloatString(env.C+6))
				return
			}
		}
	}
	// a line priced through its breakdown: the presented item price is the sum of
	// the sub-line totals rounded to the sub-lines' price decimals, and the line
	// sum is that price times the quantity. Under the precise rule the line
	// total may then sit a full unit from the exact value (recorded finding).
	if env.Rule == "precise" {
		unit := new(big.Rat).SetFrac(big.NewInt(1), ratref.Pow10(env.C))
		for i, l := range p.Lines {
			if i >= len(ref.Derived) || ref.Derived[i].Units == nil || ref.Prices[i].Units == nil {
				continue
			}
			o.Class("breakdown-priced-line")
			q, err := ratref.ParseDec(l.Quantity)
			if err != nil {
				continue
			}
			dev := new(big.Rat).Sub(ref.Derived[i].Rat(), ref.Prices[i].Rat())
			dev.Mul(dev, q.Rat())
			if dev.Abs(dev).Cmp(unit) >= 0 {
				o.Failf("exact:breakdown-price-rounded", "lines[%d]: the sub-lines add up to %s, presented as the item price %s; times the quantity %s the line sum is %s away from the exact value (precise rule)",
					i, ref.Derived[i].String(), ref.Prices[i].String(), l.Quantity, dev.FloatString(env.C+2))
				return
			}
		}
	}
	// currency conversion, judged without the stepwise model: the presented item
	// price is the exact product rounded to the document currency (allowing the
	// documented intermediate rounding at the finer of the two precisions)
	for i, l := range p.Lines {
		if l.ItemCurrency == "" || l.ItemCurrency == env.Currency || l.Price == "" || len(l.Breakdown) > 0 {
			continue
		}
		alt := false
		for _, ap := range l.AltPrices {
			if ap.Currency == env.Currency {
				alt = true
			}
		}
		if alt {
			continue
		}
		for _, r := range p.Rates {
			if r.From != l.ItemCurrency || r.To != env.Currency {
				continue
			}
			o.Class("converted-price")
			exact := mulr(rat(l.Price), rat(r.Amount))
			obs, ok := out.Figures[fmt.Sprintf("lines[%d].item.price", i)]
			if !ok {
				break
			}
			d, err := ratref.ParseDec(obs)
			if err != nil {
				break
			}
			fine := env.C
			if pd, err := ratref.ParseDec(l.Price); err == nil && pd.Exp > fine {
				fine = pd.Exp
			}
			lim := new(big.Rat).SetFrac(big.NewInt(1), new(big.Int).Mul(big.NewInt(2), ratref.Pow10(env.C)))
			lim.Add(lim, new(big.Rat).SetFrac(big.NewInt(1), new(big.Int).Mul(big.NewInt(2), ratref.Pow10(fine))))
			diff := new(big.Rat).Sub(d.Rat(), exact)
			if diff.Abs(diff).Cmp(lim) > 0 {
				o.Failf("exact:converted-price", "line %d: %s %s at rate %s is %s, presented as %s %s", i, l.Price, l.ItemCurrency, r.Amount, exact.FloatString(env.C+4), obs, env.Currency)
				return
			}
			break
		}
	}
	// presented totals carry exactly the currency's decimals
	for path, v := range out.Figures {
		if strings.HasPrefix(path, "totals.") && !strings.HasSuffix(path, ".percent") && !strings.HasSuffix(path, ".code") &&
			!strings.HasSuffix(path, ".retained") && !strings.HasSuffix(path, ".country") && !strings.HasSuffix(path, ".ext") && path != "totals.rounding" {
			if d, err := ratref.ParseDec(v); err == nil && d.Exp != env.C {
				o.Failf("presentation:decimals", "%s = %s does not carry the currency's %d decimals", path, v, env.C)
				return
			}
		}
	}
	o.Note("rule=%s cur=%s lines=%d payable=%s roundings=%d ties=%d", env.Rule, env.Currency, len(p.Lines), out.Figures["totals.payable"], ref.Stats.Roundings, ref.Stats.Ties)
}

func head(s []string, n int) []string {
	if len(s) > n {
		return s[:n]
	}
	return s
}

func classify(p docgen.Plan, env refcalc.Env, ref *refcalc.Result, o *vh.Obs) {
	o.Class("rule-" + env.Rule)
	o.Class(fmt.Sprintf("decimals-%d", env.C))
	if ref.Stats.Roundings > 0 {
		o.NonTrivial()
		o.Class("rounded")
	}
	if ref.Stats.Ties > 0 {
		o.Class("tie")
	}
	if !ref.HasTotals {
		o.Class("no-totals")
	}
	if p.PricesInclude != "" {
		o.Class("tax-included")
	}
	if len(p.Rates) > 0 {
		o.Class("exchange-rate")
	}
	if len(p.Advances) > 0 {
		o.Class("advances")
	}
	for _, l := range p.Lines {
		if len(l.Breakdown) > 0 {
			o.Class("breakdown")
			break
		}
	}
	if v, ok := ref.Figures["totals.payable"]; ok && strings.HasPrefix(v, "-") {
		o.Class("negative-total")
	}
}

// ---------------------------------------------------------------------------
// formula-level exact evaluation (written separately from the stepwise model)

func rat(s string) *big.Rat {
	d, err := ratref.ParseDec(s)
	if err != nil {
		panic(err)
	}
	return d.Rat()
}

func pct(s string) *big.Rat {
	d, err := refcalc.ParsePercent(s)
	if err != nil {
		panic(err)
	}
	return d.Rat()
}

func mulr(a, b *big.Rat) *big.Rat { return new(big.Rat).Mul(a, b) }
func addr(a, b *big.Rat) *big.Rat { return new(big.Rat).Add(a, b) }
func subr(a, b *big.Rat) *big.Rat { return new(big.Rat).Sub(a, b) }

func exactFigures(p docgen.Plan, rows refcalc.Rows, prices []refcalc.Dec) map[string]*big.Rat {
	fig := map[string]*big.Rat{}
	type trow struct {
		total  *big.Rat
		combos []refcalc.Combo
	}
	var trows []trow
	SUM := new(big.Rat)
	for i, l := range p.Lines {
		if i >= len(prices) || prices[i].Units == nil {
			continue
		}
		price := prices[i].Rat()
		qty := rat(l.Quantity)
		sum := mulr(price, qty)
		total := new(big.Rat).Set(sum)
		for _, d := range l.Discounts {
			total = subr(total, adjAmount(d, sum, qty))
		}
		for _, c := range l.Charges {
			total = addr(total, adjAmount(c, sum, qty))
		}
		fig[fmt.Sprintf("lines[%d].sum", i)] = sum
		fig[fmt.Sprintf("lines[%d].total", i)] = total
		SUM = addr(SUM, total)
		var cbs []refcalc.Combo
		if i < len(rows.Lines) {
			cbs = rows.Lines[i]
		}
		trows = append(trows, trow{total, cbs})
	}
	TOTAL := new(big.Rat).Set(SUM)
	docAdj := func(a docgen.DocAdj) *big.Rat {
		if a.Percent != "" && pct(a.Percent).Sign() != 0 {
			base := SUM
			if a.Base != "" {
				base = rat(a.Base)
			}
			return mulr(base, pct(a.Percent))
		}
		if a.Amount != "" {
			return rat(a.Amount)
		}
		return new(big.Rat)
	}
	if len(p.Discounts) > 0 {
		D := new(big.Rat)
		for i, a := range p.Discounts {
			x := docAdj(a)
			D = addr(D, x)
			var cbs []refcalc.Combo
			if i < len(rows.Discounts) {
				cbs = rows.Discounts[i]
			}
			trows = append(trows, trow{new(big.Rat).Neg(x), cbs})
		}
		fig["totals.discount"] = D
		TOTAL = subr(TOTAL, D)
	}
	if len(p.Charges) > 0 {
		C := new(big.Rat)
		for i, a := range p.Charges {
			x := docAdj(a)
			C = addr(C, x)
			var cbs []refcalc.Combo
			if i < len(rows.Charges) {
				cbs = rows.Charges[i]
			}
			trows = append(trows, trow{x, cbs})
		}
		fig["totals.charge"] = C
		TOTAL = addr(TOTAL, C)
	}
	if len(trows) == 0 {
		return fig
	}
	fig["totals.sum"] = SUM
	TAX := new(big.Rat)
	var included *big.Rat
	one := big.NewRat(1, 1)
	for _, r := range trows {
		t := r.total
		if p.PricesInclude != "" {
			for _, cb := range r.combos {
				if cb.Cat == p.PricesInclude {
					if cb.Percent != nil {
						t = new(big.Rat).Quo(t, addr(one, cb.Percent.Rat()))
					}
					break
				}
			}
		}
		for _, cb := range r.combos {
			if cb.Cat == p.PricesInclude && included == nil {
				included = new(big.Rat)
			}
			if cb.Percent == nil {
				continue
			}
			amt := mulr(t, cb.Percent.Rat())
			if cb.Cat == p.PricesInclude {
				included = addr(included, amt)
			}
			if cb.Surcharge != nil {
				amt = addr(amt, mulr(t, cb.Surcharge.Rat()))
			}
			if cb.Retained {
				TAX = subr(TAX, amt)
			} else {
				TAX = addr(TAX, amt)
			}
		}
	}
	if included != nil {
		fig["totals.tax_included"] = included
		TOTAL = subr(TOTAL, included)
	}
	fig["totals.total"] = TOTAL
	fig["totals.tax"] = TAX
	TWT := addr(TOTAL, TAX)
	fig["totals.total_with_tax"] = TWT
	PAY := TWT
	if p.TotalsRounding != "" {
		PAY = addr(PAY, rat(p.TotalsRounding))
	}
	fig["totals.payable"] = PAY
	if len(p.Advances) > 0 && p.Kind != "delivery" {
		A := new(big.Rat)
		for _, a := range p.Advances {
			switch {
			case a.Percent != "":
				A = addr(A, mulr(TWT, pct(a.Percent)))
			case a.Amount != "":
				A = addr(A, rat(a.Amount))
			}
		}
		fig["totals.advance"] = A
		fig["totals.due"] = subr(PAY, A)
	}
	return fig
}

func adjAmount(a docgen.LineAdj, sum, qty *big.Rat) *big.Rat {
	if a.Rate != "" {
		q := qty
		if a.Quantity != "" {
			q = rat(a.Quantity)
		}
		return mulr(rat(a.Rate), q)
	}
	if a.Percent != "" && pct(a.Percent).Sign() != 0 {
		base := sum
		if a.Base != "" {
			base = rat(a.Base)
		}
		return mulr(base, pct(a.Percent))
	}
	if a.Amount != "" {
		return rat(a.Amount)
	}
	return new(big.Rat)
}

func init() {
	vh.Describe(
		"Cases are document plans (invoice / order / delivery) drawn by internal/docgen over every registered regime: 0-6 lines (thorough: up to 24), quantities and prices of either sign with 0-6 decimals biased to digits on rounding boundaries (x.5 quantities, odd last digits, 50%/5%/12.5% percentages), breakdown and substituted sub-lines, fixed / percentage / percentage-of-base line and document discounts and charges, rate-and-quantity charges, foreign-currency items with exchange rates or alternative prices, advances and due dates by percentage or amount, tax-included prices, both rounding rules and regime defaults, currencies with 0, 2 and 3 decimals. Each is parsed and calculated by gobl from its JSON text and compared (1) figure by figure with the reference calculator (exact decimals, explicit half-away rounding at the documented points, family of admissible working precisions) and (2) with a separately written formula-level exact evaluation under a propagated admissible-error bound. Non-trivial: at least one rounding step discarded a non-zero remainder. Documents gobl refuses to calculate and documents leaving the 2^52 exactness domain are discarded and counted.",
		"percentages of keyed tax rates are read from the calculated document (rate selection is property C12)",
		"values are kept inside the float64 exactness domain of property C05",
		"currency conversion: product at the finer of the price's and the destination currency's precision, then rounded to the destination currency (also judged against the exact product)",
	)
	vh.Rapid("documents", 24_000, 1_600_000, func(t *rapid.T) docgen.Plan { return docgen.GenPlan(t, docgen.Opts{MaxLines: pickMax()}) }, judge)
	vh.Rapid("invoices_precise", 8_000, 480_000, func(t *rapid.T) docgen.Plan {
		return docgen.GenPlan(t, docgen.Opts{MaxLines: pickMax(), Rule: "precise", InvoiceOnly: true})
	}, judge)
}

func pickMax() int {
	if vh.Thorough() {
		return 24
	}
	return 6
}
