// Package c14 decides property C14: no input crashes the library; failures
// are structured errors.
package c14

import (
	"bytes"
	"context"
	"encoding/json"
	"errors"
	"fmt"
	"runtime/debug"
	"strings"
	"testing"
	"time"

	"github.com/invopop/gobl"
	"github.com/invopop/gobl/bill"
	"github.com/invopop/gobl/c14n"
	"github.com/invopop/gobl/cal"
	"github.com/invopop/gobl/dsig"
	"github.com/invopop/gobl/internal/cli"
	"github.com/invopop/gobl/schema"
	"github.com/invopop/gobl/verifharness/internal/corpus"
	"github.com/invopop/gobl/verifharness/internal/docgen"
	"github.com/invopop/gobl/verifharness/internal/goblexec"
	"github.com/invopop/gobl/verifharness/internal/jsontree"
	"github.com/invopop/gobl/verifharness/internal/vh"
	"pgregory.net/rapid"
)

func TestMain(m *testing.M) { vh.Main(m, "C14") }

func TestAll(t *testing.T) { vh.RunAll(t) }

// a fixed key: signatures are random anyway, the key need not be
var signKey = dsig.NewES256Key()

var documentedKeys = map[string]bool{
	"no-document": true, "validation": true, "calculation": true, "marshal": true, "unmarshal": true,
	"signature": true, "digest": true, "internal": true, "unknown-schema": true,
}

// structured checks an error returned by the envelope API.
func structured(o *vh.Obs, step string, err error) {
	if err == nil {
		return
	}
	var ge *gobl.Error
	if !errors.As(err, &ge) || err != error(ge) {
		// must be a *gobl.Error itself, not merely wrap one
		if ge2, ok := err.(*gobl.Error); ok {
			ge = ge2
		} else {
			o.Failf("error:unkeyed@"+step, "%s returned an error without a key: %T %v", step, err, err)
			return
		}
	}
	if !documentedKeys[ge.Key().String()] {
		o.Failf("error:undocumented-key@"+step, "%s returned error key %q", step, ge.Key())
		return
	}
	_ = ge.Error() // rendering the message must not panic either
	data, merr := json.Marshal(ge)
	if merr != nil || !json.Valid(data) {
		o.Failf("error:not-serialisable@"+step, "%s: error does not serialise to JSON: %v %s", step, merr, data)
	}
}

const watchdog = 20 * time.Second

// guarded runs fn under a watchdog; a panic inside fn is re-raised in the
// caller's goroutine so that the harness attributes it to its call site.
func guarded(o *vh.Obs, what string, fn func()) {
	done := make(chan any, 1)
	stack := make(chan string, 1)
	go func() {
		defer func() {
			if r := recover(); r != nil {
				stack <- string(debugStack())
				done <- r
				return
			}
			done <- nil
		}()
		fn()
	}()
	select {
	case r := <-done:
		if r != nil {
			st := <-stack
			o.Failf("panic@"+vh.PanicSite([]byte(st)), "%s panicked: %v (at %s)", what, r, vh.PanicSite([]byte(st)))
		}
	case <-time.After(watchdog):
		o.Failf("hang@"+what, "%s did not return within %s", what, watchdog)
	}
}

// pipeline pushes bytes through the parser and everything that may follow.
func pipeline(data []byte, o *vh.Obs) {
	guarded(o, "pipeline", func() {
		obj, err := gobl.Parse(data)
		structured(o, "Parse", err)
		if err != nil {
			o.Class("parse-rejected")
			return
		}
		o.Class("parsed")
		o.NonTrivial()
		var env *gobl.Envelope
		switch t := obj.(type) {
		case *gobl.Envelope:
			env = t
		default:
			env, err = gobl.Envelop(obj)
			structured(o, "Envelop", err)
			if err != nil {
				o.Class("envelop-rejected")
				return
			}
		}
		exerciseEnvelope(env, o)
	})
}

func exerciseEnvelope(env *gobl.Envelope, o *vh.Obs) {
	err := env.Calculate()
	structured(o, "Calculate", err)
	if err == nil {
		o.Class("calculated")
	}
	verr := env.Validate()
	structured(o, "Validate", verr)
	if verr == nil {
		o.Class("valid")
	}
	_, err = env.Digest()
	structured(o, "Digest", err)
	_ = env.Extract()
	_ = env.Signed()
	// verification of whatever signatures came with the input
	structured(o, "Verify", env.Verify(signKey.Public()))
	structured(o, "Verify(no keys)", env.Verify())
	structured(o, "Verify(empty key)", env.Verify(new(dsig.PublicKey)))
	for _, s := range env.Signatures {
		structured(o, "VerifySignature", env.VerifySignature(s, signKey.Public()))
	}
	// sign + verify
	structured(o, "Sign(nil)", env.Sign(nil))
	err = env.Sign(signKey)
	structured(o, "Sign", err)
	if err == nil {
		o.Class("signed")
		structured(o, "Verify(after sign)", env.Verify(signKey.Public()))
		structured(o, "Verify(empty key, after sign)", env.Verify(new(dsig.PublicKey)))
	}
	if env.Head != nil {
		// nothing handed over is nothing added (and nothing to crash on)
		before := len(env.Head.Stamps)
		env.Head.AddStamp(nil)
		env.Head.AddLink(nil)
		if len(env.Head.Stamps) != before && !o.Failed() {
			o.Failf("header:nil-stamp-stored", "AddStamp(nil) stored an entry in the header's stamps (%d before, %d after)", before, len(env.Head.Stamps))
		}
	}
	out, err := json.Marshal(env)
	if err != nil {
		o.Failf("marshal:envelope", "json.Marshal(envelope) failed: %v", err)
	} else {
		if _, err := c14n.CanonicalJSON(bytes.NewReader(out)); err != nil && !strings.Contains(err.Error(), "U+FFFD") {
			_ = err // canonicalisation errors are C07's subject; only a panic matters here
		}
	}
	// correct with option variants
	optSets := [][]schema.Option{
		nil,
		{bill.Credit},
		{bill.Debit, bill.WithReason("r")},
		{bill.Corrective, bill.WithIssueDate(dateOf(2024, 1, 2)), bill.WithSeries("X")},
		{bill.WithData(json.RawMessage(`{"type":"credit-note","reason":"x","ext":{"a":"b"}}`))},
		{bill.WithData(json.RawMessage(`{"type":null,"ext":null,"stamps":[null]}`))},
		{bill.WithData(json.RawMessage(`[1,2]`))},
	}
	for i, opts := range optSets {
		ne, err := env.Correct(opts...)
		structured(o, fmt.Sprintf("Correct#%d", i), err)
		if err == nil && ne != nil {
			o.Class("corrected")
			structured(o, "Validate(corrected)", ne.Validate())
		}
	}
	_, err = env.CorrectionOptionsSchema()
	structured(o, "CorrectionOptionsSchema", err)
	ne, err := env.Replicate()
	structured(o, "Replicate", err)
	if err == nil && ne != nil {
		o.Class("replicated")
	}
	// invoices: the document level helpers
	if inv, ok := env.Extract().(*bill.Invoice); ok && inv != nil {
		c2, err := env.Document.Clone()
		if err == nil {
			if i2, ok := c2.Instance().(*bill.Invoice); ok {
				_ = i2.Invert()
				_ = i2.RemoveIncludedTaxes()
			}
		}
	}
	env.Unsign()
}

// ---------------------------------------------------------------------------
// structure aware mutation of the examples

// Op is one edit of the JSON tree.
type Op struct {
	Kind  string          `json:"kind"` // delete | set | dup | insert
	Ptr   string          `json:"ptr"`
	Value json.RawMessage `json:"value,omitempty"`
}

// MutCase is an example plus edits.
type MutCase struct {
	Doc      string `json:"doc"`              // corpus path
	Envelope bool   `json:"envelope"`         // mutate the calculated envelope instead of the source document
	Signed   bool   `json:"signed,omitempty"` // ... after signing it (signatures are made once per process)
	Ops      []Op   `json:"ops"`
}

var hostileValues = []string{
	`null`, `""`, `" "`, `0`, `-1`, `1e999`, `1e-999`, `1e-99999999999999999999`, `1e99999999999999999999`, `1e-9223372036854775808`, `-1E-9223372036854775809`, `"1e-99999999999999999999"`, `"2.5E3"`, `"1e-7"`, `0e0`, `-0.0e-0`, `123456789012345678901234567890`, `0.0000000000000000000000001`, `true`, `[]`, `{}`, `[null]`, `[[]]`, `{"":null}`,
	`"ZZZ"`, `"XX"`, `"FJ"`, `"xx-unknown-v1"`, `"https://gobl.org/draft-0/bill/nonexistent"`, `"https://gobl.org/draft-0/bill/invoice"`, `"9999-99-99"`, `"0000-00-00"`,
	`"0.0000000000000000000000000000000000000000000000000000000000000000001"`, `"1.0000000000000000000%"`, `"-"`, `"%"`, `"100%"`, `"-100%"`, `"-100.0%"`, `"-1"`, `"-0"`, `"1.5.2"`, `"99999999999999999999"`, `"00000000-0000-0000-0000-000000000000"`, `"not-a-uuid"`, `[""]`, `[null,null]`,
	`"\u0000"`, `"😀"`, `"é A-1"`, templateText, `"{{"`, `"{{.max}}{{.min}}{{template \"x\"}}"`, `"%!s(MISSING)%d%v%n"`, `"AAAAAAAAAAAAAAAAAAAAAAAAAAAAAAAAAAAAAAAAAAAAAAAAAAAAAAAAAAAAAAAAAAAAAAAAAAAAAAAAAAAAAAAAAAAAAAAAAAAAAAAAAAAAAAAAAAAAAAAAAAAAAAAAAAAAAAAA"`, `{"a":{"a":{"a":{"a":{"a":{"a":{"a":{"a":{"a":{"a":{"a":{"a":{"a":{"a":{"a":{"a":1}}}}}}}}}}}}}}}}`,
	`[[[[[[[[[[[[[[[[[[[[[[[[[[[[[[[[1]]]]]]]]]]]]]]]]]]]]]]]]]]]]]]]]`,
}

var docs []corpus.Doc
var trees map[string]any       // source documents
var envTrees map[string]any    // calculated envelopes
var signedTrees map[string]any // calculated and signed envelopes

func loadTrees() {
	if trees != nil {
		return
	}
	docs = corpus.MustLoad()
	trees = map[string]any{}
	envTrees = map[string]any{}
	signedTrees = map[string]any{}
	for _, d := range docs {
		v, err := jsontree.Decode(d.JSON)
		if err != nil {
			panic(err)
		}
		trees[d.Path] = v
		if env, err := d.Envelope(); err == nil {
			if out, err := json.Marshal(env); err == nil {
				if ev, err := jsontree.Decode(out); err == nil {
					envTrees[d.Path] = ev
				}
			}
			if env.Sign(signKey) == nil {
				if out, err := json.Marshal(env); err == nil {
					if ev, err := jsontree.Decode(out); err == nil {
						signedTrees[d.Path] = ev
					}
				}
			}
		}
	}
}

func applyOps(root any, ops []Op) (any, bool) {
	cur := root
	for _, op := range ops {
		var nv any
		if len(op.Value) > 0 {
			v, err := jsontree.Decode(op.Value)
			if err != nil {
				return nil, false
			}
			nv = v
		}
		var err error
		switch op.Kind {
		case "delete":
			cur, err = jsontree.Delete(cur, op.Ptr)
		case "set":
			cur, err = jsontree.Set(cur, op.Ptr, nv)
		case "dup":
			v, ok := jsontree.Get(cur, op.Ptr)
			if !ok {
				return nil, false
			}
			cur, err = jsontree.Insert(cur, op.Ptr, v)
		case "insert":
			cur, err = jsontree.Insert(cur, op.Ptr, nv)
		default:
			return nil, false
		}
		if err != nil {
			return nil, false
		}
	}
	return cur, true
}

func judgeMutant(c MutCase, o *vh.Obs) {
	loadTrees()
	root := trees[c.Doc]
	if c.Envelope {
		root = envTrees[c.Doc]
		if c.Signed {
			root = signedTrees[c.Doc]
			o.Class("signed-envelope")
		}
	}
	if root == nil {
		o.Discard()
		return
	}
	mut, ok := applyOps(root, c.Ops)
	if !ok {
		o.Class("inapplicable-edit")
		o.Discard()
		return
	}
	for _, op := range c.Ops {
		o.Class("op-" + op.Kind)
	}
	data := jsontree.Encode(mut)
	pipeline(data, o)
	if !o.Failed() {
		bulkOne(data, o)
	}
	o.Note("%s %d ops, %d bytes", c.Doc, len(c.Ops), len(data))
}

func genMutCase(t *rapid.T) MutCase {
	loadTrees()
	d := docs[rapid.IntRange(0, len(docs)-1).Draw(t, "doc")]
	c := MutCase{Doc: d.Path, Envelope: rapid.IntRange(0, 3).Draw(t, "env") == 0}
	root := trees[d.Path]
	if c.Envelope {
		if envTrees[d.Path] == nil {
			c.Envelope = false
		} else {
			root = envTrees[d.Path]
			if signedTrees[d.Path] != nil && rapid.Bool().Draw(t, "signed") {
				c.Signed = true
				root = signedTrees[d.Path]
			}
		}
	}
	n := rapid.SampledFrom([]int{1, 1, 1, 2, 2, 3}).Draw(t, "nops")
	cur := root
	for i := 0; i < n; i++ {
		nodes := jsontree.Nodes(cur)
		if len(nodes) < 2 {
			break
		}
		nd := nodes[rapid.IntRange(1, len(nodes)-1).Draw(t, "node")]
		op := Op{Ptr: nd.Ptr}
		inArray := false
		if i := strings.LastIndex(nd.Ptr, "/"); i >= 0 {
			if p, ok := jsontree.Get(cur, nd.Ptr[:i]); ok {
				_, inArray = p.([]any)
			}
		}
		k := rapid.IntRange(0, 9).Draw(t, "opkind")
		switch {
		case k < 2:
			op.Kind = "delete"
		case k < 8:
			op.Kind = "set"
			op.Value = json.RawMessage(rapid.SampledFrom(hostileValues).Draw(t, "value"))
		case inArray && k == 8:
			op.Kind = "dup"
		case inArray:
			op.Kind = "insert"
			op.Value = json.RawMessage(rapid.SampledFrom([]string{`null`, `{}`, `""`, `[]`, `0`}).Draw(t, "ins"))
		default:
			op.Kind = "set"
			op.Value = json.RawMessage(`null`)
		}
		c.Ops = append(c.Ops, op)
		next, ok := applyOps(cur, []Op{op})
		if !ok {
			break
		}
		cur = next
	}
	return c
}

// every single "set null / delete / null element" edit of every example, exhaustively
func enumSingleEdits(yield func(MutCase) bool) {
	loadTrees()
	cfg := vh.Cfg()
	idx := 0
	values := []string{`null`, `[null]`, `""`, `{}`}
	if vh.Thorough() {
		values = []string{`null`, `[null]`, `""`, `{}`, `[]`, `0`, `"ZZZ"`, `true`, `[""]`}
	}
	for _, d := range docs {
		for variant := 0; variant < 3; variant++ {
			useEnv, signed := variant > 0, variant == 2
			root := trees[d.Path]
			if useEnv {
				root = envTrees[d.Path]
				if signed {
					root = signedTrees[d.Path]
				}
				if root == nil {
					continue
				}
			}
			for _, nd := range jsontree.Nodes(root)[1:] {
				// the signed variant differs from the calculated one outside the document only
				if signed && strings.HasPrefix(nd.Ptr, "/doc/") {
					continue
				}
				idx++
				if idx%cfg.Shards != cfg.Shard {
					continue
				}
				// quick tier: a tenth of the nodes, rotating with the seed (thorough: all)
				if !vh.Thorough() && (idx/cfg.Shards)%10 != int(cfg.Seed%10) {
					continue
				}
				if !yield(MutCase{Doc: d.Path, Envelope: useEnv, Signed: signed, Ops: []Op{{Kind: "delete", Ptr: nd.Ptr}}}) {
					return
				}
				for _, v := range values {
					if !yield(MutCase{Doc: d.Path, Envelope: useEnv, Signed: signed, Ops: []Op{{Kind: "set", Ptr: nd.Ptr, Value: json.RawMessage(v)}}}) {
						return
					}
				}
				if nd.Kind == "array" {
					if !yield(MutCase{Doc: d.Path, Envelope: useEnv, Signed: signed, Ops: []Op{{Kind: "insert", Ptr: nd.Ptr + "/0", Value: json.RawMessage(`null`)}}}) {
						return
					}
					if a, _ := nd.Value.([]any); len(a) > 0 {
						if !yield(MutCase{Doc: d.Path, Envelope: useEnv, Signed: signed, Ops: []Op{{Kind: "dup", Ptr: nd.Ptr + "/0"}}}) {
							return
						}
					}
				}
			}
		}
	}
}

// ---------------------------------------------------------------------------
// generated payments: several lines whose documents carry tax summaries that
// share categories and percentages but differ in surcharges / extensions

type PayRate struct {
	Percent   string `json:"percent,omitempty"` // empty: exempt group
	Surcharge string `json:"surcharge,omitempty"`
	Ext       string `json:"ext,omitempty"`
	Base      string `json:"base"`
}

type PayLine struct {
	Debit  string    `json:"debit,omitempty"`
	Credit string    `json:"credit,omitempty"`
	Cat    string    `json:"cat,omitempty"` // empty: no tax summary
	Rates  []PayRate `json:"rates,omitempty"`
	// Currency of the line (defined, undefined or malformed codes), and whether
	// the payment declares an exchange rate from it (and with which amount)
	Currency string `json:"currency,omitempty"`
	RateAmt  string `json:"rate_amount,omitempty"`
}

type PayCase struct {
	Regime string    `json:"regime"`
	Lines  []PayLine `json:"lines"`
	// Extra exchange rates between other currencies ("USD>GBP"): chains, cycles
	// and dead ends that lead nowhere near the payment's currency
	Extra []string `json:"extra_rates,omitempty"`
}

func (c PayCase) JSON() []byte {
	var lines []any
	var rates []any
	for i, l := range c.Lines {
		doc := map[string]any{"code": fmt.Sprintf("INV-%d", i+1), "issue_date": "2024-05-01"}
		if l.Cat != "" {
			var rates []any
			for _, r := range l.Rates {
				rm := map[string]any{"base": r.Base, "amount": "0.00"}
				if r.Percent != "" {
					rm["percent"] = r.Percent
				}
				if r.Surcharge != "" {
					rm["surcharge"] = map[string]any{"percent": r.Surcharge, "amount": "0.00"}
				}
				if r.Ext != "" {
					rm["ext"] = map[string]any{"xx-verif-group": r.Ext}
				}
				rates = append(rates, rm)
			}
			doc["tax"] = map[string]any{"categories": []any{map[string]any{"code": l.Cat, "rates": rates, "amount": "0.00"}}, "sum": "0.00"}
		}
		lm := map[string]any{"document": doc}
		if l.Currency != "" {
			lm["currency"] = l.Currency
			if l.RateAmt != "" {
				rates = append(rates, map[string]any{"from": l.Currency, "to": "EUR", "amount": json.RawMessage(`"` + l.RateAmt + `"`)})
			}
		}
		if l.Debit != "" {
			lm["debit"] = l.Debit
		}
		if l.Credit != "" {
			lm["credit"] = l.Credit
		}
		lines = append(lines, lm)
	}
	m := map[string]any{
		"$schema": "https://gobl.org/draft-0/bill/payment", "$regime": c.Regime, "type": "receipt", "code": "PAY-1",
		"issue_date": "2024-06-13", "currency": "EUR", "supplier": map[string]any{"name": "Supplier"}, "lines": lines,
	}
	for _, x := range c.Extra {
		from, to, ok := strings.Cut(x, ">")
		if ok {
			rates = append(rates, map[string]any{"from": from, "to": to, "amount": "1.1"})
		}
	}
	if len(rates) > 0 {
		m["exchange_rates"] = rates
	}
	out, _ := json.Marshal(m)
	return out
}

func genPayCase(t *rapid.T) PayCase {
	c := PayCase{Regime: rapid.SampledFrom([]string{"ES", "IT", "PT", "FR"}).Draw(t, "regime")}
	n := rapid.IntRange(1, 4).Draw(t, "nlines")
	for i := 0; i < n; i++ {
		l := PayLine{}
		if rapid.IntRange(0, 4).Draw(t, "hasdebit") > 0 {
			l.Debit = rapid.SampledFrom([]string{"121.00", "100", "0.005", "-50.00", "0"}).Draw(t, "debit")
		}
		if rapid.IntRange(0, 2).Draw(t, "hascredit") == 0 {
			l.Credit = rapid.SampledFrom([]string{"21.00", "1.234", "0"}).Draw(t, "credit")
		}
		if rapid.IntRange(0, 5).Draw(t, "hastax") > 0 {
			l.Cat = rapid.SampledFrom([]string{"VAT", "VAT", "IRPF", "IGIC"}).Draw(t, "cat")
			for j, m := 0, rapid.IntRange(1, 3).Draw(t, "nrates"); j < m; j++ {
				r := PayRate{Base: rapid.SampledFrom([]string{"100.00", "50.00", "-20.00", "0.00"}).Draw(t, "base")}
				r.Percent = rapid.SampledFrom([]string{"21%", "21%", "10%", "", "0%", "21.0%"}).Draw(t, "pct")
				if r.Percent != "" && rapid.IntRange(0, 2).Draw(t, "sur") == 0 {
					r.Surcharge = rapid.SampledFrom([]string{"5.2%", "1.4%"}).Draw(t, "surv")
				}
				if rapid.IntRange(0, 5).Draw(t, "ext") == 0 {
					r.Ext = rapid.SampledFrom([]string{"A", "B"}).Draw(t, "extv")
				}
				l.Rates = append(l.Rates, r)
			}
		}
		if rapid.IntRange(0, 2).Draw(t, "hascur") == 0 {
			l.Currency = rapid.SampledFrom([]string{"USD", "EUR", "JPY", "KWD", "USDT", "XXA", "ZZZ", "usd", "US", "", "€"}).Draw(t, "linecur")
			if rapid.IntRange(0, 3).Draw(t, "hasrate") > 0 {
				l.RateAmt = rapid.SampledFrom([]string{"0.9", "1", "0", "-1", "0.000001", "100000000"}).Draw(t, "rateamt")
			}
		}
		c.Lines = append(c.Lines, l)
	}
	if rapid.IntRange(0, 2).Draw(t, "extra") == 0 {
		curs := []string{"USD", "GBP", "JPY", "KWD", "MXN", "USDT"}
		for i, n := 0, rapid.IntRange(1, 5).Draw(t, "nextra"); i < n; i++ {
			a := rapid.SampledFrom(curs).Draw(t, "xfrom")
			b := rapid.SampledFrom(curs).Draw(t, "xto")
			c.Extra = append(c.Extra, a+">"+b)
		}
		if rapid.Bool().Draw(t, "cycle") {
			c.Extra = append(c.Extra, "USD>GBP", "GBP>JPY", "JPY>USD")
		}
		// a line in one of these currencies without a rate of its own
		if len(c.Lines) > 0 && rapid.Bool().Draw(t, "cycleline") {
			c.Lines[0].Currency, c.Lines[0].RateAmt = "USD", ""
			if c.Lines[0].Debit == "" {
				c.Lines[0].Debit = "10.00"
			}
		}
	}
	return c
}

func judgePayCase(c PayCase, o *vh.Obs) {
	withSur, without := false, false
	for _, l := range c.Lines {
		for _, r := range l.Rates {
			if r.Surcharge != "" {
				withSur = true
			} else if r.Percent != "" {
				without = true
			}
		}
	}
	if withSur && without {
		o.Class("surcharge-on-one-side")
	}
	pipeline(c.JSON(), o)
}

// ---------------------------------------------------------------------------
// bulk: a hostile request must get an answer and must not stop the stream

func bulkOne(doc []byte, o *vh.Obs) {
	guarded(o, "bulk", func() {
		mk := func(action, id string, payload any) []byte {
			p, _ := json.Marshal(payload)
			r, _ := json.Marshal(map[string]any{"action": action, "req_id": id, "payload": json.RawMessage(p)})
			return r
		}
		var in bytes.Buffer
		in.Write(mk("build", "b", map[string]any{"data": doc}))
		in.Write(mk("validate", "v", map[string]any{"data": doc}))
		in.Write(mk("correct", "c", map[string]any{"data": doc, "options": []byte(`{"type":"credit-note"}`)}))
		in.Write(mk("replicate", "r", map[string]any{"data": doc}))
		in.Write(mk("verify", "y", map[string]any{"data": doc, "publickey": signKey.Public()}))
		in.Write(mk("sign", "s", map[string]any{"data": doc}))
		in.Write(mk("ping", "p", nil))
		ctx, cancel := context.WithTimeout(context.Background(), watchdog)
		defer cancel()
		got := map[string]bool{}
		final := false
		for res := range cli.Bulk(ctx, &cli.BulkOptions{In: &in, DefaultPrivateKey: signKey}) {
			if res.IsFinal {
				final = true
				continue
			}
			got[res.ReqID] = true
			if res.Error != nil {
				if res.Error.Code >= 500 || strings.HasPrefix(res.Error.Message, "panic:") {
					o.Failf("panic@bulk:"+res.ReqID, "bulk request %q hit a panic: %s", res.ReqID, res.Error.Message)
				}
				if res.Error.Code == 0 || (res.Error.Key == "" && res.Error.Message == "" && len(res.Error.Fields) == 0) {
					o.Failf("bulk:unstructured-error", "bulk %s answered with an error lacking code/key/message: %+v", res.ReqID, res.Error)
				}
				if res.Error.Key == "" && res.ReqID != "p" && !strings.HasPrefix(res.Error.Message, "invalid payload") {
					sig := "bulk:unkeyed-error:" + res.ReqID
					if res.ReqID == "y" && (strings.HasPrefix(res.Error.Message, "error unmarshaling JSON") || strings.HasPrefix(res.Error.Message, "error converting YAML")) {
						// recorded finding: verify reads the envelope itself and an existing test pins the bare message
						sig += ":unreadable-envelope"
					}
					o.Failf(sig, "bulk %s answered with an error that carries no key: %.200s", res.ReqID, res.Error.Message)
				}
				if res.Error.Key != "" && !documentedKeys[res.Error.Key.String()] {
					o.Failf("bulk:undocumented-key", "bulk %s error key %q", res.ReqID, res.Error.Key)
				}
				if _, err := json.Marshal(res); err != nil {
					o.Failf("bulk:not-serialisable", "bulk response does not serialise: %v", err)
				}
			}
		}
		for _, id := range []string{"b", "v", "c", "r", "y", "s", "p"} {
			if !got[id] {
				o.Failf("bulk:missing-response", "no response for request %q (stream stopped serving)", id)
			}
		}
		if !final {
			o.Failf("bulk:no-final", "bulk stream ended without its final marker")
		}
	})
}

// ---------------------------------------------------------------------------
// raw bytes

type BytesCase struct {
	Data []byte `json:"data"`
}

func judgeBytes(c BytesCase, o *vh.Obs) {
	pipeline(c.Data, o)
	if !o.Failed() {
		guarded(o, "c14n", func() {
			_, _ = c14n.CanonicalJSON(bytes.NewReader(c.Data))
		})
	}
}

// longSleep reports whether the stream asks the bulk "sleep" test action for
// more than a moment: doing as asked is not a hang.
func longSleep(data []byte) bool {
	dec := json.NewDecoder(bytes.NewReader(data))
	for {
		var req struct {
			Action  string          `json:"action"`
			Payload json.RawMessage `json:"payload"`
		}
		if err := dec.Decode(&req); err != nil {
			return false
		}
		if req.Action == "sleep" {
			var d string
			if json.Unmarshal(req.Payload, &d) == nil {
				if dur, err := time.ParseDuration(d); err == nil && dur > 200*time.Millisecond {
					return true
				}
			}
		}
	}
}

func judgeBulkBytes(c BytesCase, o *vh.Obs) {
	if longSleep(c.Data) {
		o.Class("long-sleep-requested")
		o.Discard()
		return
	}
	// the bytes are the request stream itself
	guarded(o, "bulk-stream", func() {
		ctx, cancel := context.WithTimeout(context.Background(), watchdog/2)
		defer cancel()
		n := 0
		final := 0
		for res := range cli.Bulk(ctx, &cli.BulkOptions{In: bytes.NewReader(c.Data), DefaultPrivateKey: signKey}) {
			n++
			if res.IsFinal {
				final++
			}
			if _, err := json.Marshal(res); err != nil {
				o.Failf("bulk:not-serialisable", "bulk response does not serialise: %v", err)
			}
		}
		if final != 1 {
			o.Failf("bulk:final-count", "bulk stream produced %d final markers in %d responses", final, n)
		}
		if n > 1 {
			o.NonTrivial()
		}
	})
}

var seedTexts = []string{
	``, ` `, `null`, `{}`, `[]`, `{"$schema":"https://gobl.org/draft-0/envelope"}`, `{"$schema":"https://gobl.org/draft-0/envelope","head":null,"doc":null,"sigs":[""]}`,
	`{"$schema":"https://gobl.org/draft-0/envelope","head":{"uuid":"8a51fd30-2a27-11ee-be56-0242ac120002","dig":{"alg":"sha256","val":"00"}},"doc":{"$schema":"https://gobl.org/draft-0/note/message","content":"x"},"sigs":[null]}`,
	`{"$schema":"https://gobl.org/draft-0/bill/invoice","lines":[null]}`,
	`{"$schema":"https://gobl.org/draft-0/bill/invoice","currency":"EUR","lines":[{"quantity":"1","item":{"name":"x","price":"1","currency":"ZZZ"}}]}`,
	`{"$schema":"https://gobl.org/draft-0/bill/invoice","discounts":[null],"charges":[null],"payment":{"advances":[null],"terms":{"due_dates":[null]}}}`,
	`{"$schema":"https://gobl.org/draft-0/bill/payment","lines":[null]}`,
	`{"$schema":"https://gobl.org/draft-0/bill/order","lines":[{"quantity":"1","item":null}]}`,
	`{"$schema":"https://gobl.org/draft-0/bill/delivery","lines":[{"breakdown":[null],"substituted":[null],"item":{"name":"a","price":"1"},"quantity":"1"}]}`,
	`{"$schema":"https://gobl.org/draft-0/tax/regime-def"}`, `{"$schema":"https://gobl.org/draft-0/org/party","tax_id":null,"addresses":[null],"emails":[null]}`,
}

func enumSeeds(yield func(BytesCase) bool) {
	if vh.Cfg().Shard != 0 {
		return
	}
	for _, s := range seedTexts {
		if !yield(BytesCase{Data: []byte(s)}) {
			return
		}
	}
	for _, d := range fuzzSeedsFromSchemas() {
		if !yield(BytesCase{Data: d}) {
			return
		}
	}
	for _, d := range corpus.Legacy() {
		if !yield(BytesCase{Data: d.JSON}) {
			return
		}
	}
	loadTrees()
	for _, d := range docs {
		if !yield(BytesCase{Data: d.JSON}) {
			return
		}
		// every proper prefix at a coarse stride, and the text with one byte flipped
		for i := 0; i < len(d.JSON); i += 97 {
			if !yield(BytesCase{Data: d.JSON[:i]}) {
				return
			}
		}
	}
}

var fuzzParse, fuzzBulk func(t *testing.T, c BytesCase)

func init() {
	vh.OnExit(goblexec.Stop)
	vh.Describe(
		"(1) every single edit (quick tier: of a tenth of the nodes, rotating with the seed) (delete; set to null / [null] / \"\" / {}; insert a null element; duplicate the first element) of every node of every example document, of its calculated envelope and (header and signatures) of its signed envelope, exhaustively; (2) rapid: 1-3 random edits drawn from a hostile value list (nulls, retyped values, unknown currency / country / regime / addon / schema ids, empty and huge numbers, empty and null signatures, deep nesting, duplicated elements); (2b) schema-driven: for every published schema type a minimal document (and the first example of that type) in which each declared path of up to 3 member names (thorough: 5) ends in null / {} / [] / \"\" / 0 / [null] / a malformed template-and-format text, and every member a schema declares and an example (source and calculated envelope) does not carry, added in place with values of the right and of the wrong type (quick tier: a rotating twentieth); (3) fixed hostile texts, truncated examples and legacy variants of the examples (older member names, zones, rate and extension keys migrated on load); (3b) generated documents (internal/docgen) with legal but degenerate numbers: -100% / 0% / huge percentages also as tax rates, with and without included taxes, and generated payments of 1-4 lines (a third in a currency of their own - defined, undefined or malformed - mostly with a declared exchange rate of a sensible, zero, negative, tiny or huge amount; a third of the payments declare further rates between other currencies - chains, cycles, dead ends) whose documents carry tax summaries sharing categories and percentages but differing in surcharges and extensions; (4) thorough: native fuzzing of the parser pipeline (seeded with the examples, hostile texts and one all-members document per published type) and of the bulk request stream. Every input goes through Parse, Envelop, Calculate, Validate, Digest, Verify, Sign, Correct (7 option variants), Replicate, Invert, RemoveIncludedTaxes, Marshal and through bulk build / validate / correct / replicate / verify / sign requests. `identity_shapes`: for every tax country (alternative codes, a country without regime, an unknown one) about 150 shapes of identity code - digits of 1 to 40 characters with and without leading zeros, zeros and nines only, padded, with the country prefix once and twice, letters in front and behind, separators, other scripts, valid codes of other countries - as a tax/identity document, inside an org/party and as the customer of a Spanish invoice: hand-written padding / prefix / suffix / check-digit code of every regime is reached by any document through the tax_id of a party of that country. `type_terms`: build and sign requests that name their document type by a term - empty, acronyms, trailing and leading capitals, dots and slashes in odd places, other scripts, control characters, URLs, very long, and random strings over a small alphabet - through cli.FindType, cli.Build and the bulk stream: an unknown type is refused, never a crash. `bulk_storm`: for every published object type a bulk stream of 400 (thorough: 4000) distinct all-members documents (every free string and every pattern member unique) as validate and as build requests, handled concurrently by the process - what the library builds lazily on first sight is then built from several requests at once. Every seed, legacy variant, all-members document and example is also posted to /build and /verify of a running `gobl serve` (never a 5xx, always a JSON object, documented keys, a keyed error for a document that was read). Oracle: no panic (signature = first gobl frame), no death of the process (a Go fatal error: the driver names the case from the shard's breadcrumb), no hang (20 s watchdog), every envelope-API error is a *gobl.Error with a documented key that serialises to JSON, every bulk error about a document carries a documented key (payload-level protocol errors aside), every bulk request is answered and the stream ends with one final marker. Non-trivial: the input parses (reaches logic beyond unmarshalling).",
		"a watchdog expiry is reported as a hang only through the replay file (replay must reproduce it)",
	)
	vh.Enum("seeds", enumSeeds, judgeBytes)
	vh.Enum("single_edits", enumSingleEdits, judgeMutant)
	vh.Rapid("mutants", 8_000, 1_200_000, genMutCase, judgeMutant)
	vh.Enum("schema_skeletons", enumSkeletons, judgeSkeleton)
	vh.Enum("absent_members", enumAbsent, judgeAbsent)
	vh.Enum("identity_shapes", enumIdentities, judgeIdentity)
	vh.Enum("type_terms", enumTerms, judgeTermCase)
	vh.Rapid("type_terms_random", 3_000, 200_000, genTerm, judgeTermCase)
	vh.Rapid("generated_hostile", 4_000, 400_000, func(t *rapid.T) docgen.Plan {
		return docgen.GenPlan(t, docgen.Opts{Hostile: true, MaxLines: 4})
	}, func(p docgen.Plan, o *vh.Obs) {
		pipeline(p.JSON(), o)
		if p.PricesInclude != "" {
			o.Class("tax-included")
		}
	})
	vh.Rapid("generated_payments", 3_000, 300_000, genPayCase, judgePayCase)
	vh.Enum("http", enumHTTP, judgeHTTP)
	vh.Enum("bulk_storm", enumStorm, judgeStorm)
	fuzzParse = vh.FuzzTarget("FuzzParse", judgeBytes)
	fuzzBulk = vh.FuzzTarget("FuzzBulk", judgeBulkBytes)
}

func FuzzParse(f *testing.F) {
	for _, s := range seedTexts {
		f.Add([]byte(s))
	}
	for _, d := range corpus.MustLoad() {
		if len(d.JSON) < 6000 {
			f.Add(d.JSON)
		}
	}
	for _, d := range fuzzSeedsFromSchemas() {
		f.Add(d)
	}
	f.Fuzz(func(t *testing.T, data []byte) { fuzzParse(t, BytesCase{Data: data}) })
}

func FuzzBulk(f *testing.F) {
	f.Add([]byte(`{"action":"ping","req_id":"1"}{"action":"sleep","payload":"1ms"}`))
	f.Add([]byte(`{"action":"build","req_id":"b","payload":{"data":"e30="}}`))
	f.Add([]byte(`{"action":"verify","payload":{"data":"e30=","publickey":null}}{"action":"schema","payload":{"path":"bill/invoice"}}{"action":"regime","payload":{"code":"es"}}`))
	f.Add([]byte(`{"action":"correct","payload":{"data":"e30=","options":"e30=","schema":true}}{"action":"nope"}[`))
	f.Fuzz(func(t *testing.T, data []byte) { fuzzBulk(t, BytesCase{Data: data}) })
}

func dateOf(y, m, d int) cal.Date { return cal.MakeDate(y, time.Month(m), d) }

func debugStack() []byte { return debug.Stack() }
