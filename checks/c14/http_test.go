package c14

// The HTTP front end of `gobl serve`: whatever document is posted, the answer
// is a result or a structured error - never a 5xx, never a reply that is not
// JSON, and the server keeps serving.

import (
	"encoding/json"
	"fmt"
	"strings"

	"github.com/invopop/gobl/verifharness/internal/corpus"
	"github.com/invopop/gobl/verifharness/internal/goblexec"
	"github.com/invopop/gobl/verifharness/internal/vh"
)

// HTTPCase is one document posted to /build and /verify.
type HTTPCase struct {
	Data []byte `json:"data"`
}

func enumHTTP(yield func(HTTPCase) bool) {
	if !goblexec.Available() {
		return
	}
	cfg := vh.Cfg()
	idx := 0
	emit := func(data []byte) bool {
		idx++
		if idx%cfg.Shards != cfg.Shard {
			return true
		}
		return yield(HTTPCase{Data: data})
	}
	for _, s := range seedTexts {
		if !emit([]byte(s)) {
			return
		}
	}
	for _, d := range fuzzSeedsFromSchemas() {
		if !emit(d) {
			return
		}
	}
	for _, d := range corpus.Legacy() {
		if !emit(d.JSON) {
			return
		}
	}
	loadTrees()
	for i, d := range docs {
		// every example; every fourth also with its lines emptied (does not validate)
		if !emit(d.JSON) {
			return
		}
		if i%4 == 0 {
			if bad := strings.Replace(string(d.JSON), `"lines":[`, `"lines":[null,`, 1); bad != string(d.JSON) {
				if !emit([]byte(bad)) {
					return
				}
			}
		}
	}
}

func judgeHTTP(c HTTPCase, o *vh.Obs) {
	if !goblexec.Available() {
		o.Discard()
		return
	}
	srv, err := goblexec.Serve(signKey)
	if err != nil {
		o.Failf("harness:serve", "cannot start gobl serve: %v", err)
		return
	}
	for _, ep := range []string{"/build", "/verify"} {
		req := map[string]any{"data": c.Data}
		if ep == "/verify" {
			req["publickey"] = signKey.Public()
		}
		body, _ := json.Marshal(req)
		status, out, err := srv.Post(ep, body)
		if err != nil {
			o.Failf("http:no-answer:"+ep, "POST %s got no answer (the server died or hung): %v", ep, err)
			return
		}
		o.Class(fmt.Sprintf("%s-%d", ep, status))
		if status >= 500 {
			o.Failf("http:5xx:"+ep, "POST %s answered %d: %.300s", ep, status, out)
			return
		}
		var reply map[string]any
		if json.Unmarshal(out, &reply) != nil {
			o.Failf("http:not-json:"+ep, "POST %s answered %d with a body that is not a JSON object: %.300s", ep, status, out)
			return
		}
		if status >= 400 {
			if k, has := reply["key"].(string); has && !documentedKeys[k] {
				o.Failf("http:undocumented-key:"+ep, "POST %s answered %d with error key %q", ep, status, k)
				return
			}
			if status == 422 && ep == "/build" {
				// the document was read: the error is about it and carries its key
				if _, has := reply["key"]; !has {
					o.Failf("http:unkeyed-error:"+ep, "POST %s answered 422 without an error key: %.300s", ep, out)
					return
				}
			}
		} else {
			o.NonTrivial()
		}
	}
	o.Note("%d bytes", len(c.Data))
}
