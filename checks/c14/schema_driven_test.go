package c14

// Inputs derived from the published schemas: members that no example document
// carries, at every position the schemas declare.

import (
	"encoding/json"
	"fmt"
	"strings"

	"github.com/invopop/gobl/verifharness/internal/jsontree"
	"github.com/invopop/gobl/verifharness/internal/pubschema"
	"github.com/invopop/gobl/verifharness/internal/vh"
)

// templateText is longer than any code may be and is not a well formed
// text/template, printf format or regular expression.
const templateText = `"{{AAAAAAAAAAAAAAAAAAAAAAAAAAAAAAAAAAAAAAAA%!s(MISSING)%d\\E[["`

var skeletonValues = []string{`null`, `{}`, `[]`, `""`, `0`, templateText, `[null]`, `{"":null}`}

// SkelCase is a minimal document of a published type in which one declared
// path exists and ends in a hostile value.
type SkelCase struct {
	Schema string          `json:"schema"` // short id
	Path   []string        `json:"path"`
	Value  json.RawMessage `json:"value"`
	// InExample merges the skeleton over the first example of the same type
	// (arrays replaced), so that the rest of the document is complete.
	InExample bool `json:"in_example,omitempty"`
}

var exampleOf map[string]string // short schema -> corpus path of its first example

func firstExamples() {
	loadTrees()
	if exampleOf != nil {
		return
	}
	exampleOf = map[string]string{}
	for _, d := range docs {
		if _, ok := exampleOf[d.ShortSch]; !ok {
			exampleOf[d.ShortSch] = d.Path
		}
		if envTrees[d.Path] != nil {
			if _, ok := exampleOf["envelope"]; !ok {
				exampleOf["envelope"] = d.Path
			}
		}
	}
}

func mergeTree(base, patch any) any {
	bm, ok1 := base.(map[string]any)
	pm, ok2 := patch.(map[string]any)
	if !ok1 || !ok2 {
		return patch
	}
	out := map[string]any{}
	for k, v := range bm {
		out[k] = v
	}
	for k, v := range pm {
		out[k] = mergeTree(bm[k], v)
	}
	return out
}

func (c SkelCase) doc() ([]byte, bool) {
	leaf, err := jsontree.Decode(c.Value)
	if err != nil {
		return nil, false
	}
	skel, ok := pubschema.Build(c.Path, leaf).(map[string]any)
	if len(c.Path) == 0 {
		skel, ok = map[string]any{}, true // the bare document: nothing but its $schema
	}
	if !ok {
		return nil, false
	}
	if _, has := skel["$schema"]; !has {
		skel["$schema"] = pubschema.FullID(c.Schema)
	}
	if !c.InExample {
		return jsontree.Encode(skel), true
	}
	firstExamples()
	p, ok := exampleOf[c.Schema]
	if !ok {
		return nil, false
	}
	base := trees[p]
	if c.Schema == "envelope" {
		base = envTrees[p]
	}
	return jsontree.Encode(mergeTree(jsontree.Clone(base), skel)), true
}

func enumSkeletons(yield func(SkelCase) bool) {
	cfg := vh.Cfg()
	s := pubschema.MustLoad()
	firstExamples()
	depth := 3
	if vh.Thorough() {
		depth = 5
	}
	idx := 0
	for _, id := range s.IDs {
		root, ok := s.Root(id)
		if !ok {
			continue
		}
		short := pubschema.ShortID(id)
		_, hasExample := exampleOf[short]
		// the bare document of every published type, on its own and as the doc of an envelope
		idx++
		if idx%cfg.Shards == cfg.Shard {
			if !yield(SkelCase{Schema: short, Value: json.RawMessage(`null`)}) {
				return
			}
			if !yield(SkelCase{Schema: "envelope", Path: []string{"doc"}, Value: json.RawMessage(`{"$schema":"` + id + `"}`), InExample: true}) {
				return
			}
		}
		if !s.Paths(root, depth, func(path []string, leaf pubschema.Node) bool {
			if path[0] == "[]" {
				return true
			}
			values := skeletonValues
			// lists of objects: two elements of different completeness, in both
			// orders (rules comparing neighbours meet a member that one of them lacks)
			if len(path) > 0 && path[len(path)-1] != "[]" && s.Kind(leaf) == "array" {
				if it, ok := s.Items(leaf); ok && s.Kind(it) == "object" {
					full, _ := json.Marshal(allMembers(s, it, 2))
					bare, _ := json.Marshal(s.Sample(it, 0))
					// every scalar member and nothing else
					flatM := map[string]any{}
					fn, fnodes := s.Props(it)
					for _, name := range fn {
						if k := s.Kind(fnodes[name]); (k == "scalar" || k == "any") && !strings.HasPrefix(name, "$") {
							flatM[name] = s.Sample(fnodes[name], 0)
						}
					}
					flat, _ := json.Marshal(flatM)
					values = append(append([]string{}, values...),
						"["+string(full)+","+string(bare)+"]", "["+string(bare)+","+string(full)+"]", "["+string(full)+","+string(full)+"]",
						"["+string(flat)+","+string(bare)+"]", "["+string(bare)+","+string(flat)+"]", "["+string(flat)+","+string(flat)+"]")
				}
			}
			for _, v := range values {
				for _, inEx := range []bool{false, true} {
					if inEx && !hasExample {
						continue
					}
					idx++
					if idx%cfg.Shards != cfg.Shard {
						continue
					}
					if !yield(SkelCase{Schema: short, Path: append([]string{}, path...), Value: json.RawMessage(v), InExample: inEx}) {
						return false
					}
				}
			}
			return true
		}) {
			return
		}
	}
}

func judgeSkeleton(c SkelCase, o *vh.Obs) {
	data, ok := c.doc()
	if !ok {
		o.Discard()
		return
	}
	o.Class(fmt.Sprintf("depth-%d", len(c.Path)-strings.Count(strings.Join(c.Path, "/"), "[]")))
	if len(c.Path) == 0 {
		o.Class("bare-document")
	}
	if c.InExample {
		o.Class("in-example")
	}
	pipeline(data, o)
	if !o.Failed() {
		bulkOne(data, o)
	}
	o.Note("%s %s = %s", c.Schema, strings.Join(c.Path, "/"), c.Value)
}

// ---------------------------------------------------------------------------
// members the schema declares and an example does not carry, added in place

// AbsentCase adds one declared member to an object of an example.
type AbsentCase struct {
	Doc      string          `json:"doc"`
	Envelope bool            `json:"envelope"`
	Ptr      string          `json:"ptr"` // the object that gains the member
	Name     string          `json:"name"`
	Value    json.RawMessage `json:"value"`
}

var absentValues = map[string][]string{
	"array":  {`[null]`, `[{}]`, `[[]]`, `[""]`},
	"object": {`{}`, `[]`, `""`},
	"map":    {`{"":null}`, `{"a":null}`, `{"{{":` + templateText + `}`, `{"a":{}}`},
	"scalar": {`""`, `0`, templateText, `{}`},
	"any":    {`{}`, `[null]`, `""`},
}

func walkAbsent(s *pubschema.Set, v any, sch pubschema.Node, ptr string, yield func(ptr, name, kind string) bool) bool {
	switch t := v.(type) {
	case map[string]any:
		if id, ok := t["$schema"].(string); ok {
			if r, ok := s.Root(id); ok {
				sch = r
			}
		}
		names, nodes := s.Props(sch)
		for _, name := range names {
			child, has := t[name]
			if !has {
				if !yield(ptr, name, s.Kind(nodes[name])) {
					return false
				}
				continue
			}
			if !walkAbsent(s, child, nodes[name], ptr+"/"+strings.NewReplacer("~", "~0", "/", "~1").Replace(name), yield) {
				return false
			}
		}
	case []any:
		it, ok := s.Items(sch)
		if !ok {
			return true
		}
		for i, e := range t {
			if i >= 2 { // the first two elements of every list
				break
			}
			if !walkAbsent(s, e, it, fmt.Sprintf("%s/%d", ptr, i), yield) {
				return false
			}
		}
	}
	return true
}

func enumAbsent(yield func(AbsentCase) bool) {
	loadTrees()
	cfg := vh.Cfg()
	s := pubschema.MustLoad()
	envRoot, _ := s.Root(pubschema.FullID("envelope"))
	idx := 0
	// quick tier: a rotating twentieth (thorough: everything)
	parts := 20
	if vh.Thorough() {
		parts = 1
	}
	for _, d := range docs {
		for _, useEnv := range []bool{false, true} {
			root := trees[d.Path]
			sch := pubschema.Node{}
			if useEnv {
				root = envTrees[d.Path]
				sch = envRoot
				if root == nil {
					continue
				}
			}
			if !walkAbsent(s, root, sch, "", func(ptr, name, kind string) bool {
				for _, v := range absentValues[kind] {
					idx++
					if idx%cfg.Shards != cfg.Shard || (idx/cfg.Shards)%parts != int(cfg.Seed)%parts {
						continue
					}
					if !yield(AbsentCase{Doc: d.Path, Envelope: useEnv, Ptr: ptr, Name: name, Value: json.RawMessage(v)}) {
						return false
					}
				}
				return true
			}) {
				return
			}
		}
	}
}

func judgeAbsent(c AbsentCase, o *vh.Obs) {
	op := Op{Kind: "set", Ptr: c.Ptr + "/" + strings.NewReplacer("~", "~0", "/", "~1").Replace(c.Name), Value: c.Value}
	judgeMutant(MutCase{Doc: c.Doc, Envelope: c.Envelope, Ops: []Op{op}}, o)
	o.Class("absent-member")
}

func allMembers(s *pubschema.Set, n pubschema.Node, depth int) any { return s.AllMembers(n, depth) }

// fuzzSeedsFromSchemas gives the fuzzer one small document per published type
// with every declared member present (lists with one element), so that
// coverage-guided mutation starts next to code no example reaches.
func fuzzSeedsFromSchemas() [][]byte {
	s := pubschema.MustLoad()
	var out [][]byte
	for _, id := range s.IDs {
		root, ok := s.Root(id)
		if !ok || s.Kind(root) != "object" {
			continue
		}
		doc := map[string]any{"$schema": id}
		names, nodes := s.Props(root)
		for _, name := range names {
			if name == "$schema" {
				continue
			}
			n := nodes[name]
			switch s.Kind(n) {
			case "array":
				if it, ok := s.Items(n); ok {
					doc[name] = []any{s.Sample(it, 0)}
				}
			case "map":
				doc[name] = map[string]any{"abc": "ABC"}
			default:
				doc[name] = s.Sample(n, 0)
			}
		}
		if raw, err := json.Marshal(doc); err == nil && len(raw) < 6000 {
			out = append(out, raw)
		}
	}
	return out
}
