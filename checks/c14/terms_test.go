package c14

// The document type of a build or sign request may be named by a term (--type,
// the "type" member of a bulk or HTTP request). Whatever the term looks like,
// the request is answered: an unknown type is a refusal, never a crash.

import (
	"bytes"
	"context"
	"encoding/json"
	"strings"

	"github.com/invopop/gobl/internal/cli"
	"github.com/invopop/gobl/verifharness/internal/vh"
	"pgregory.net/rapid"
)

// TermCase is a type term and the data it is applied to.
type TermCase struct {
	Term string `json:"term"`
	Data string `json:"data"`
}

var hostileTerms = []string{
	"", " ", "UBL", "AB", "A", "a", "Ab", "aB", "ABc", "abC", "note.MessageID", "bill.InvoiceXML", "bill.NASAInvoice", "note.MessageX", "X.Y", "x.y.Z", "x.", ".x", ".", "..", "a..b",
	"bill.", ".Invoice", "bill.invoice", "Bill.Invoice", "bill/invoice", "/bill/invoice", "invoice", "INVOICE", "iNVOICE", "Invoice", "InvoiceS", "II", "IIi", "iII", "ÄÖ", "bill.ÄÖ", "日本", "bill.Invoice\n", "bill.Invoice ",
	"https://", "http://", "https://gobl.org/draft-0/bill/invoice", "https://gobl.org/draft-0/bill/invoiceXX", "https://example.com/XX", "HTTP://X", "urn:XX", "a:B", "%", "%s%d", "{{.}}", "\x00", "bill.Invoice\x00XX",
	strings.Repeat("A", 300), strings.Repeat("a.", 200) + "ZZ", strings.Repeat("Z", 2) + "." + strings.Repeat("Q", 2),
}

func enumTerms(yield func(TermCase) bool) {
	cfg := vh.Cfg()
	idx := 0
	for _, term := range hostileTerms {
		for _, data := range []string{`{}`, `{"content":"x"}`, `{"$schema":"https://gobl.org/draft-0/note/message","content":"x"}`} {
			idx++
			if idx%cfg.Shards != cfg.Shard {
				continue
			}
			if !yield(TermCase{Term: term, Data: data}) {
				return
			}
		}
	}
}

func genTerm(t *rapid.T) TermCase {
	term := rapid.StringOfN(rapid.RuneFrom([]rune("ABCXYZabcxyz./:-_ 09Äé")), 0, 12, -1).Draw(t, "term")
	return TermCase{Term: term, Data: rapid.SampledFrom([]string{`{}`, `{"content":"x"}`}).Draw(t, "data")}
}

func judgeTermCase(c TermCase, o *vh.Obs) {
	o.NonTrivial()
	guarded(o, "FindType", func() { _ = cli.FindType(c.Term) })
	if o.Failed() {
		return
	}
	guarded(o, "cli.Build", func() {
		_, err := cli.Build(context.Background(), &cli.BuildOptions{ParseOptions: &cli.ParseOptions{Input: strings.NewReader(c.Data), DocType: c.Term}})
		if err != nil {
			o.Class("refused")
			if _, jerr := json.Marshal(err); jerr != nil {
				o.Failf("error:not-serialisable", "cli.Build error does not serialise: %v", jerr)
			}
		} else {
			o.Class("built")
		}
	})
	if o.Failed() {
		return
	}
	guarded(o, "bulk", func() {
		p, _ := json.Marshal(map[string]any{"data": json.RawMessage(c.Data), "type": c.Term})
		var in bytes.Buffer
		for _, action := range []string{"build", "sign"} {
			r, _ := json.Marshal(map[string]any{"action": action, "req_id": action, "payload": json.RawMessage(p)})
			in.Write(r)
		}
		n, final := 0, false
		for res := range cli.Bulk(context.Background(), &cli.BulkOptions{In: &in, DefaultPrivateKey: signKey}) {
			if res.IsFinal {
				final = true
				continue
			}
			n++
			if res.Error != nil && (res.Error.Code >= 500 || strings.HasPrefix(res.Error.Message, "panic:")) {
				o.Failf("panic@bulk:"+res.ReqID, "bulk %s with \"type\": %q hit a panic: %.200s", res.ReqID, c.Term, res.Error.Message)
			}
		}
		if (n != 2 || !final) && !o.Failed() {
			o.Failf("bulk:response-count", "2 requests with \"type\": %q: %d responses, final marker %v", c.Term, n, final)
		}
	})
	o.Note("type term %q", c.Term)
}
