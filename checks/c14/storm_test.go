package c14

// A bulk stream of many distinct small documents of one published type,
// handled concurrently by one process: whatever the library builds lazily on
// first sight of a value (compiled patterns, caches, interned keys) is then
// built from several requests at once. The stream must be answered in full;
// a Go fatal error (concurrent map writes) kills the shard and is attributed
// to this case through the breadcrumb.

import (
	"bytes"
	"context"
	"encoding/json"
	"fmt"
	"strings"

	"github.com/invopop/gobl/internal/cli"
	"github.com/invopop/gobl/verifharness/internal/pubschema"
	"github.com/invopop/gobl/verifharness/internal/vh"
)

// StormCase names the type and the number of distinct documents.
type StormCase struct {
	Type   string `json:"type"` // short schema id
	N      int    `json:"n"`
	Action string `json:"action"` // validate | build
}

// uniquify gives every free string of the tree a value of its own; members
// called pattern get a valid regular expression of their own.
func uniquify(v any, name string, i int) any {
	switch t := v.(type) {
	case map[string]any:
		out := map[string]any{}
		for k, x := range t {
			out[k] = uniquify(x, k, i)
		}
		return out
	case []any:
		out := make([]any, len(t))
		for j, x := range t {
			out[j] = uniquify(x, name, i)
		}
		return out
	case string:
		switch {
		case name == "pattern":
			return fmt.Sprintf("^[A-Z]{1,%d}X%d$", i%50+1, i)
		case t == "x":
			return fmt.Sprintf("x%d", i)
		case t == "abc":
			return fmt.Sprintf("abc-%d", i)
		case t == "ABC":
			return fmt.Sprintf("ABC%d", i)
		}
	}
	return v
}

func enumStorm(yield func(StormCase) bool) {
	cfg := vh.Cfg()
	s := pubschema.MustLoad()
	n := 400
	if vh.Thorough() {
		n = 4000
	}
	idx := 0
	for _, id := range s.IDs {
		root, ok := s.Root(id)
		if !ok || s.Kind(root) != "object" {
			continue
		}
		for _, action := range []string{"validate", "build"} {
			idx++
			if idx%cfg.Shards != cfg.Shard {
				continue
			}
			if !yield(StormCase{Type: pubschema.ShortID(id), N: n, Action: action}) {
				return
			}
		}
	}
}

func judgeStorm(c StormCase, o *vh.Obs) {
	s := pubschema.MustLoad()
	root, ok := s.Root(pubschema.FullID(c.Type))
	if !ok || c.N <= 0 || c.N > 100000 {
		o.Discard()
		return
	}
	base, _ := allMembers(s, root, 3).(map[string]any)
	if base == nil {
		o.Discard()
		return
	}
	base["$schema"] = pubschema.FullID(c.Type)
	var in bytes.Buffer
	for i := 0; i < c.N; i++ {
		doc, _ := json.Marshal(uniquify(base, "", i))
		req, _ := json.Marshal(map[string]any{"action": c.Action, "req_id": fmt.Sprintf("r%d", i), "payload": map[string]any{"data": doc}})
		in.Write(req)
		in.WriteByte('\n')
	}
	guarded(o, "bulk storm", func() {
		ctx, cancel := context.WithTimeout(context.Background(), 4*watchdog)
		defer cancel()
		got, final, ok200 := 0, false, 0
		for res := range cli.Bulk(ctx, &cli.BulkOptions{In: &in, DefaultPrivateKey: signKey}) {
			if res.IsFinal {
				final = true
				continue
			}
			got++
			if res.Error == nil {
				ok200++
			} else if res.Error.Code >= 500 || strings.HasPrefix(res.Error.Message, "panic:") {
				o.Failf("panic@bulk-storm", "a %s request of the stream hit a panic: %s", c.Action, res.Error.Message)
			}
		}
		if got != c.N || !final {
			o.Failf("bulk:storm-incomplete", "%d of %d requests answered, final marker %v", got, c.N, final)
		}
		if ok200 > 0 {
			o.Class("some-accepted")
		}
	})
	o.NonTrivial()
	o.Note("%d %s requests of %s", c.N, c.Action, c.Type)
}
