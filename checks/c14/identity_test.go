package c14

// Tax identities of every regime in every shape: the normalisers and validators
// of the national codes are hand-written string handling (padding, prefixes,
// suffixes, check digits), reached by any document through the tax_id of a
// party of that country - whatever the document's own regime. Every shape must
// be handled or refused: no panic, no hang (the per-case watchdog of the
// driver), errors keyed as everywhere else.

import (
	"encoding/json"
	"sort"
	"strings"

	"github.com/invopop/gobl/tax"
	"github.com/invopop/gobl/verifharness/internal/vh"
)

// IdentityCase is a tax identity and the document that carries it.
type IdentityCase struct {
	Country string `json:"country"`
	Code    string `json:"code"`
	// In: "identity" (a tax/identity document), "party" (org/party), "customer"
	// (the customer of a minimal Spanish invoice)
	In string `json:"in"`
}

func identityShapes(country string) []string {
	digits := "41317288400123456789012345678901234567890"
	var out []string
	for _, n := range []int{1, 2, 5, 8, 9, 10, 11, 12, 13, 14, 15, 16, 20, 40} {
		out = append(out, digits[:n])                 // no leading zero
		out = append(out, "0"+digits[:n-1])           // one leading zero
		out = append(out, strings.Repeat("0", n))     // zeros only
		out = append(out, "000"+digits[:n])           // padded
		out = append(out, strings.Repeat("9", n))     // nines
		out = append(out, "A"+digits[:n-1])           // a letter in front
		out = append(out, digits[:n-1]+"Z")           // a letter behind
		out = append(out, country+digits[:n])         // with the country prefix
		out = append(out, country+country+digits[:n]) // doubled prefix
	}
	out = append(out,
		country+" 0413.172.884.001", "0413.172.884.001", " 413 172 884 ", "413-172-884-001-002-003", "....", "-", " ", country, country+country,
		strings.Repeat("A", 11), strings.Repeat("A", 30), "ABCDEFGHIJKLMNOPQRSTUVWXYZ", "a1b2c3d4e5f6g7h8", "١٢٣٤٥٦٧٨٩", "１２３４５６７８９０", "12345678 901", "12345678901\n",
		"X1234567L", "B98602642", "CHE284156502MWST", "CHE284156502MWSTMWSTMWST", "27AINPK1234F1ZF", "GB123456782", "FR39356000000", "000000000000000000000000000000",
	)
	return out
}

func enumIdentities(yield func(IdentityCase) bool) {
	cfg := vh.Cfg()
	seen := map[string]bool{}
	var countries []string
	for _, r := range tax.AllRegimeDefs() {
		for _, c := range append([]string{r.Country.String()}, codesOf(r)...) {
			if !seen[c] {
				seen[c] = true
				countries = append(countries, c)
			}
		}
	}
	countries = append(countries, "JP", "ZZ") // a country without regime, and no country at all
	sort.Strings(countries)
	idx := 0
	for _, c := range countries {
		for i, code := range identityShapes(c) {
			in := []string{"identity", "party", "customer"}[i%3]
			idx++
			if idx%cfg.Shards != cfg.Shard {
				continue
			}
			if !yield(IdentityCase{Country: c, Code: code, In: in}) {
				return
			}
		}
	}
}

func codesOf(r *tax.RegimeDef) []string {
	var out []string
	for _, c := range r.AltCountryCodes {
		out = append(out, c.String())
	}
	return out
}

func (c IdentityCase) doc() []byte {
	id := map[string]any{"country": c.Country, "code": c.Code}
	var doc map[string]any
	switch c.In {
	case "identity":
		doc = map[string]any{"$schema": "https://gobl.org/draft-0/tax/identity", "country": c.Country, "code": c.Code}
	case "party":
		// a party on its own names its regime itself
		doc = map[string]any{"$schema": "https://gobl.org/draft-0/org/party", "$regime": c.Country, "name": "Party", "tax_id": id}
	default:
		doc = map[string]any{
			"$schema": "https://gobl.org/draft-0/bill/invoice", "$regime": "ES", "code": "ID-1", "issue_date": "2024-06-13", "currency": "EUR",
			"supplier": map[string]any{"name": "Provide One S.L.", "tax_id": map[string]any{"country": "ES", "code": "B98602642"}},
			"customer": map[string]any{"name": "Customer", "tax_id": id},
			"lines":    []any{map[string]any{"quantity": "1", "item": map[string]any{"name": "Item", "price": "10.00"}, "taxes": []any{map[string]any{"cat": "VAT", "rate": "standard"}}}},
		}
	}
	out, _ := json.Marshal(doc)
	return out
}

func judgeIdentity(c IdentityCase, o *vh.Obs) {
	o.Class("in-" + c.In)
	o.NonTrivial()
	data := c.doc()
	pipeline(data, o)
	if !o.Failed() {
		bulkOne(data, o)
	}
	o.Note("%s %q in %s", c.Country, c.Code, c.In)
}
