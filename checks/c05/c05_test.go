// Package c05 decides property C05: decimal amount arithmetic is exact with
// round-half-away-from-zero inside the stated 2^52 domain.
package c05

import (
	"math/big"
	"testing"

	"github.com/invopop/gobl/num"
	"github.com/invopop/gobl/verifharness/internal/ratref"
	"github.com/invopop/gobl/verifharness/internal/vh"
	"pgregory.net/rapid"
)

func TestMain(m *testing.M) { vh.Main(m, "C05") }

func TestAll(t *testing.T) { vh.RunAll(t) }

// Case is one operation applied to concrete operands.
type Case struct {
	Op string `json:"op"`
	AV int64  `json:"a_value"`
	AE uint32 `json:"a_exp"`
	BV int64  `json:"b_value"`
	BE uint32 `json:"b_exp"`
	N  int    `json:"n"` // target exponent (rescale) or split count
}

var binaryOps = []string{"add", "sub", "mul", "div", "cmp", "pct_of", "pct_from", "remove", "threshold"}
var unaryOps = []string{"negate", "pct_from_amount"}

func bi(v int64) *big.Int { return big.NewInt(v) }

func fits(xs ...*big.Int) bool {
	for _, x := range xs {
		if !ratref.Fits52(x) {
			return false
		}
	}
	return true
}

func sign(x *big.Int) int { return x.Sign() }

// judge is the oracle: exact integer arithmetic from math/big, rounded half
// away from zero to the documented result precision.
func judge(c Case, o *vh.Obs) {
	a := num.MakeAmount(c.AV, c.AE)
	b := num.MakeAmount(c.BV, c.BE)
	av, bv := bi(c.AV), bi(c.BV)
	ae, be := int(c.AE), int(c.BE)
	if c.AV < 0 || c.BV < 0 {
		o.Class("negative")
	}
	if c.AE != c.BE {
		o.Class("mixed-exp")
	}
	expect := func(what string, got num.Amount, units *big.Int, exp int) {
		if !units.IsInt64() || got.Value() != units.Int64() || int(got.Exp()) != exp {
			o.Failf(c.Op+":"+what, "%s: %s(%s, %s, n=%d) = %s (value %d exp %d), exact rounded result is %s",
				c.Op, what, a.String(), b.String(), c.N, got.String(), got.Value(), got.Exp(), ratref.FormatUnits(units, exp))
		}
	}
	switch c.Op {
	case "add", "sub":
		bd := ratref.Dec{Units: bv, Exp: be}
		br := bd.Rescale(ae)
		var res *big.Int
		if c.Op == "add" {
			res = new(big.Int).Add(av, br.Units)
		} else {
			res = new(big.Int).Sub(av, br.Units)
		}
		if !fits(av, bv, br.Units, res) {
			o.Discard()
			return
		}
		if be > ae {
			den := ratref.Pow10(be - ae)
			if ratref.IsTie(bv, den) {
				o.Class("tie")
			}
			if !ratref.Exact(bv, den) {
				o.Class("rounded")
				o.NonTrivial()
			}
		}
		if c.AE != c.BE || c.AV < 0 || c.BV < 0 {
			o.NonTrivial()
		}
		var got num.Amount
		if c.Op == "add" {
			got = a.Add(b)
		} else {
			got = a.Subtract(b)
		}
		expect("result", got, res, ae)
		o.Note("%s %s %s = %s", a, c.Op, b, got)
	case "mul", "pct_of":
		prod := new(big.Int).Mul(av, bv)
		den := ratref.Pow10(be)
		res := ratref.RoundDiv(prod, den)
		if !fits(av, bv, prod, res) {
			o.Discard()
			return
		}
		classify(o, prod, den)
		if c.AV < 0 || c.BV < 0 || c.AE != c.BE {
			o.NonTrivial()
		}
		var got num.Amount
		if c.Op == "mul" {
			got = a.Multiply(b)
		} else {
			got = num.MakePercentage(c.BV, c.BE).Of(a)
		}
		expect("result", got, res, ae)
		o.Note("%s * %s = %s", a, b, got)
	case "div":
		if c.BV == 0 {
			o.Discard()
			return
		}
		n := new(big.Int).Mul(av, ratref.Pow10(be))
		res := ratref.RoundDiv(n, bv)
		if !fits(av, bv, n, res) {
			o.Discard()
			return
		}
		classify(o, n, bv)
		if c.AV < 0 || c.BV < 0 || c.AE != c.BE {
			o.NonTrivial()
		}
		got := a.Divide(b)
		expect("result", got, res, ae)
		o.Note("%s / %s = %s", a, b, got)
	case "remove", "pct_from":
		f := new(big.Int).Add(bv, ratref.Pow10(be)) // factor 1+p at exponent be
		if f.Sign() == 0 {
			o.Discard()
			return
		}
		n := new(big.Int).Mul(av, ratref.Pow10(be))
		p := num.MakePercentage(c.BV, c.BE)
		if c.Op == "remove" {
			res := ratref.RoundDiv(n, f)
			if !fits(av, bv, n, f, res) {
				o.Discard()
				return
			}
			classify(o, n, f)
			if c.AV < 0 || c.BV < 0 || c.AE != c.BE {
				o.NonTrivial()
			}
			got := a.Remove(p)
			expect("result", got, res, ae)
			o.Note("%s remove %s = %s", a, p, got)
			return
		}
		// a - a/(1+p) = a*p/(1+p) = av*bv/f units at exponent ae
		pn := new(big.Int).Mul(av, bv)
		res := ratref.RoundDiv(pn, f)
		if !fits(av, bv, n, f, pn, res) {
			o.Discard()
			return
		}
		classify(o, pn, f)
		if c.AV < 0 || c.BV < 0 || c.AE != c.BE {
			o.NonTrivial()
		}
		got := p.From(a)
		if ratref.IsTie(n, f) && ratref.IsTie(pn, f) {
			// the amount without the percentage is itself an exact half unit:
			// a - round(a/(1+p)) would round this case towards zero
			o.Class("from-on-remove-tie")
		}
		expect("result", got, res, ae)
		o.Note("%s from %s = %s", p, a, got)
	case "cmp":
		m := ae
		if be > m {
			m = be
		}
		ar := new(big.Int).Mul(av, ratref.Pow10(m-ae))
		br := new(big.Int).Mul(bv, ratref.Pow10(m-be))
		if !fits(av, bv, ar, br) {
			o.Discard()
			return
		}
		want := ar.Cmp(br)
		if c.AE != c.BE || c.AV < 0 || c.BV < 0 {
			o.NonTrivial()
		}
		if want == 0 {
			o.Class("equal")
		}
		if got := a.Compare(b); got != want {
			o.Failf("cmp:compare", "(%s).Compare(%s) = %d, rational order gives %d", a, b, got, want)
		}
		if got := b.Compare(a); got != -want {
			o.Failf("cmp:antisymmetry", "(%s).Compare(%s) = %d, expected %d", b, a, got, -want)
		}
		if got := a.Equals(b); got != (want == 0) {
			o.Failf("cmp:equals", "(%s).Equals(%s) = %v, rational equality gives %v", a, b, got, want == 0)
		}
		pa, pb := num.MakePercentage(c.AV, c.AE), num.MakePercentage(c.BV, c.BE)
		if got := pa.Compare(pb); got != want {
			o.Failf("cmp:pct-compare", "percentage Compare(%s,%s) = %d want %d", pa, pb, got, want)
		}
		if got := pa.Equals(pb); got != (want == 0) {
			o.Failf("cmp:pct-equals", "percentage Equals(%s,%s) = %v want %v", pa, pb, got, want == 0)
		}
		o.Note("%s cmp %s = %d", a, b, want)
	case "threshold":
		m := ae
		if be > m {
			m = be
		}
		ar := new(big.Int).Mul(av, ratref.Pow10(m-ae))
		br := new(big.Int).Mul(bv, ratref.Pow10(m-be))
		if !fits(av, bv, ar, br) {
			o.Discard()
			return
		}
		want := ar.Cmp(br)
		if c.AE != c.BE || c.AV < 0 || c.BV < 0 {
			o.NonTrivial()
		}
		chk := func(name string, rule num.ThresholdRule, ok bool) {
			err := rule.Validate(a)
			if (err == nil) != ok {
				o.Failf("threshold:"+name, "%s(%s).Validate(%s) = %v, rational comparison says ok=%v", name, b, a, err, ok)
			}
			// percentages go through the same rule
			err = rule.Validate(num.MakePercentage(c.AV, c.AE))
			if (err == nil) != ok {
				o.Failf("threshold:pct-"+name, "%s(%s).Validate(percentage %s) = %v, want ok=%v", name, b, a, err, ok)
			}
		}
		chk("min", num.Min(b), want >= 0)
		chk("max", num.Max(b), want <= 0)
		chk("min-exclusive", num.Min(b).Exclusive(), want > 0)
		chk("max-exclusive", num.Max(b).Exclusive(), want < 0)
		chk("positive", num.Positive, sign(av) > 0)
		chk("negative", num.Negative, sign(av) < 0)
		chk("notzero", num.NotZero, sign(av) != 0)
		o.Note("%s vs threshold %s: cmp %d", a, b, want)
	case "rescale":
		t := c.N
		if t < 0 || t > 18 {
			o.Discard()
			return
		}
		d := ratref.Dec{Units: av, Exp: ae}
		r := d.Rescale(t)
		if !fits(av, r.Units) {
			o.Discard()
			return
		}
		if t < ae {
			classify(o, av, ratref.Pow10(ae-t))
		} else if t > ae {
			o.Class("raise")
			o.NonTrivial()
		}
		got := a.Rescale(uint32(t))
		expect("rescale", got, r.Units, t)
		if t >= ae {
			// raising precision never loses information
			back := got.Rescale(c.AE)
			expect("raise-then-lower", back, av, ae)
			expect("rescale-up", a.RescaleUp(uint32(t)), r.Units, t)
			expect("rescale-down-noop", a.RescaleDown(uint32(t)), av, ae)
			expect("match-precision", a.MatchPrecision(num.MakeAmount(0, uint32(t))), r.Units, t)
			expect("upscale", a.Upscale(uint32(t-ae)), r.Units, t)
			if !got.Equals(a) || got.Compare(a) != 0 {
				o.Failf("rescale:equal-after-raise", "%s raised to %d decimals (%s) no longer equals the original", a, t, got)
			}
		} else {
			expect("rescale-down", a.RescaleDown(uint32(t)), r.Units, t)
			expect("rescale-up-noop", a.RescaleUp(uint32(t)), av, ae)
			expect("downscale", a.Downscale(uint32(ae-t)), r.Units, t)
			expect("rescale-range", a.RescaleRange(0, uint32(t)), r.Units, t)
		}
		pr := num.MakePercentage(c.AV, c.AE).Rescale(uint32(t))
		if !r.Units.IsInt64() || pr.Value() != r.Units.Int64() || int(pr.Exp()) != t {
			o.Failf("rescale:percentage", "percentage %d/%d rescaled to %d = %d/%d, want %s", c.AV, c.AE, t, pr.Value(), pr.Exp(), r.Units)
		}
		o.Note("%s rescaled to %d = %s", a, t, got)
	case "split":
		n := c.N
		if n < 1 {
			o.Discard()
			return
		}
		a2 := ratref.RoundDiv(av, bi(int64(n)))
		rest := new(big.Int).Mul(a2, bi(int64(n-1)))
		a3 := new(big.Int).Sub(av, rest)
		if !fits(av, a2, rest, a3) {
			o.Discard()
			return
		}
		classify(o, av, bi(int64(n)))
		if c.AV < 0 {
			o.NonTrivial()
		}
		g2, g3 := a.Split(n)
		expect("part", g2, a2, ae)
		expect("remainder", g3, a3, ae)
		// the parts always add back to the original
		sum := new(big.Int).Mul(bi(g2.Value()), bi(int64(n-1)))
		sum.Add(sum, bi(g3.Value()))
		if sum.Cmp(av) != 0 || g2.Exp() != c.AE || g3.Exp() != c.AE {
			o.Failf("split:sum", "%s split %d ways: %d x %s + %s does not add back", a, n, n-1, g2, g3)
		}
		o.Note("%s split %d = %s x%d + %s", a, n, g2, n-1, g3)
	case "negate":
		if !fits(av) {
			o.Discard()
			return
		}
		o.NonTrivial()
		res := new(big.Int).Neg(av)
		expect("negate", a.Negate(), res, ae)
		expect("invert", a.Invert(), res, ae)
		expect("double", a.Negate().Negate(), av, ae)
		abs := new(big.Int).Abs(av)
		expect("abs", a.Abs(), abs, ae)
		pn := num.MakePercentage(c.AV, c.AE).Negate()
		if pn.Value() != res.Int64() || pn.Exp() != c.AE {
			o.Failf("negate:percentage", "percentage negate of %d/%d = %d/%d", c.AV, c.AE, pn.Value(), pn.Exp())
		}
		if a.IsZero() != (sign(av) == 0) || a.IsNegative() != (sign(av) < 0) || a.IsPositive() != (sign(av) > 0) {
			o.Failf("negate:sign-predicates", "sign predicates of %s disagree with its value", a)
		}
	case "pct_from_amount":
		x := new(big.Int).Mul(av, bi(100))
		if !fits(av, x) {
			o.Discard()
			return
		}
		o.NonTrivial()
		p := num.PercentageFromAmount(a)
		if p.Value() != c.AV || p.Exp() != c.AE+2 {
			o.Failf("pct_from_amount:value", "PercentageFromAmount(%s) = %d/%d, exact a/100 is %d/%d", a, p.Value(), p.Exp(), c.AV, c.AE+2)
		}
		expect("amount-back", p.Amount(), av, ae)
		// factor = 1 + p
		f := new(big.Int).Add(av, ratref.Pow10(ae+2))
		if fits(f) {
			expect("factor", p.Factor(), f, ae+2)
		}
		o.Note("PercentageFromAmount(%s) = %s", a, p)
	default:
		o.Discard()
	}
}

// classify marks rounding classes of num/den.
func classify(o *vh.Obs, n, d *big.Int) {
	switch {
	case ratref.IsTie(n, d):
		o.Class("tie")
		o.NonTrivial()
	case !ratref.Exact(n, d):
		o.Class("rounded")
		o.NonTrivial()
	default:
		o.Class("exact")
	}
}

// ---------------------------------------------------------------------------
// exhaustive small box

func boxK() int64 {
	if vh.Thorough() {
		return 60
	}
	return 12
}

func enumBox(yield func(Case) bool) {
	cfg := vh.Cfg()
	k := boxK()
	idx := 0
	for av := -k; av <= k; av++ {
		idx++
		if idx%cfg.Shards != cfg.Shard {
			continue
		}
		for ae := uint32(0); ae <= 9; ae++ {
			// unary, rescale, split
			for _, op := range unaryOps {
				if !yield(Case{Op: op, AV: av, AE: ae}) {
					return
				}
			}
			for t := 0; t <= 12; t++ {
				if !yield(Case{Op: "rescale", AV: av, AE: ae, N: t}) {
					return
				}
			}
			for n := 1; n <= 12; n++ {
				if !yield(Case{Op: "split", AV: av, AE: ae, N: n}) {
					return
				}
			}
			for bv := -k; bv <= k; bv++ {
				for be := uint32(0); be <= 9; be++ {
					for _, op := range binaryOps {
						if !yield(Case{Op: op, AV: av, AE: ae, BV: bv, BE: be}) {
							return
						}
					}
				}
			}
		}
	}
}

// a second box: digit patterns around rounding boundaries (…4, …5, …6 at every
// position) for rescale and the binary operations against small operands.
func enumBoundary(yield func(Case) bool) {
	cfg := vh.Cfg()
	idx := 0
	heads := []int64{0, 1, 2, 7, 12, 99, 100, 1234}
	tails := []int64{-1, 0, 1}
	for _, h := range heads {
		for d := 1; d <= 9; d++ {
			p := ratref.Pow10(d).Int64()
			half := p / 2
			for _, tl := range tails {
				for _, sg := range []int64{1, -1} {
					idx++
					if idx%cfg.Shards != cfg.Shard {
						continue
					}
					v := sg * (h*p + half + tl)
					for ae := uint32(d); ae <= 9; ae++ {
						if !yield(Case{Op: "rescale", AV: v, AE: ae, N: int(ae) - d}) {
							return
						}
						for be := uint32(0); be <= 9; be++ {
							// adding v (finer) to a coarser small amount forces the rounding inside Add
							if be < ae {
								for _, s := range []int64{-3, 0, 5} {
									if !yield(Case{Op: "add", AV: s, AE: be, BV: v, BE: ae}) {
										return
									}
									if !yield(Case{Op: "sub", AV: s, AE: be, BV: v, BE: ae}) {
										return
									}
								}
							}
						}
					}
					// v * 1 at exponent d: multiply must round at that digit
					for ae := uint32(0); ae <= 4; ae++ {
						if !yield(Case{Op: "mul", AV: v, AE: ae, BV: 1, BE: uint32(d)}) {
							return
						}
						if !yield(Case{Op: "pct_of", AV: v, AE: ae, BV: 1, BE: uint32(d)}) {
							return
						}
						if !yield(Case{Op: "div", AV: v, AE: ae, BV: p, BE: 0}) {
							return
						}
					}
				}
			}
		}
	}
}

// a third box: multiplication (and percentage-of) over a wider value range
// at the exponents money and rates actually use; multipliers that are not
// dyadic fractions (1.005, 17.5%) only show up beyond the small box
func enumMulBox(yield func(Case) bool) {
	cfg := vh.Cfg()
	k := int64(160)
	if vh.Thorough() {
		k = 1000
	}
	idx := 0
	for av := -k; av <= k; av++ {
		idx++
		if idx%cfg.Shards != cfg.Shard {
			continue
		}
		for bv := -k; bv <= k; bv++ {
			for _, ae := range []uint32{0, 2} {
				for _, be := range []uint32{1, 2, 3, 4} {
					if !yield(Case{Op: "mul", AV: av, AE: ae, BV: bv, BE: be}) {
						return
					}
					if !yield(Case{Op: "pct_of", AV: av, AE: ae, BV: bv, BE: be}) {
						return
					}
				}
			}
		}
	}
}

// ---------------------------------------------------------------------------
// random search over the full stated domain

func genBits(t *rapid.T, maxBits int, label string) int64 {
	if maxBits < 1 {
		maxBits = 1
	}
	bits := rapid.IntRange(0, maxBits).Draw(t, label+"_bits")
	if bits == 0 {
		return 0
	}
	lo := int64(1) << (bits - 1)
	hi := (int64(1) << bits) - 1
	v := rapid.Int64Range(lo, hi).Draw(t, label)
	if rapid.Bool().Draw(t, label+"_neg") {
		v = -v
	}
	return v
}

func pow10(e int) int64 { return ratref.Pow10(e).Int64() }

func bitsOfPow10(e int) int { return ratref.Pow10(e).BitLen() }

func genCase(t *rapid.T) Case {
	op := rapid.SampledFrom([]string{"add", "sub", "mul", "div", "cmp", "pct_of", "pct_from", "remove", "threshold", "rescale", "split", "negate", "pct_from_amount"}).Draw(t, "op")
	ae := uint32(rapid.IntRange(0, 9).Draw(t, "ae"))
	be := uint32(rapid.IntRange(0, 9).Draw(t, "be"))
	mode := rapid.SampledFrom([]string{"free", "free", "tie", "near"}).Draw(t, "mode")
	c := Case{Op: op, AE: ae, BE: be}
	adj := int64(0)
	if mode == "near" {
		adj = rapid.SampledFrom([]int64{-1, 1}).Draw(t, "adj")
	}
	switch op {
	case "add", "sub":
		c.AV = genBits(t, 51, "a")
		if be > ae && mode != "free" {
			d := int(be - ae)
			p := pow10(d)
			h := genBits(t, 51-bitsOfPow10(d), "h")
			sg := int64(1)
			if h < 0 {
				sg = -1
			}
			c.BV = h*p + sg*(p/2) + adj
		} else if be <= ae {
			c.BV = genBits(t, 51-bitsOfPow10(int(ae-be)), "b")
		} else {
			c.BV = genBits(t, 51, "b")
		}
	case "mul", "pct_of":
		la := rapid.IntRange(0, 51).Draw(t, "la")
		c.AV = genBits(t, la, "a")
		c.BV = genBits(t, 51-la, "b")
		if mode != "free" && be >= 1 && rapid.Bool().Draw(t, "general_tie") {
			// general tie: any multiplier b coprime to 10 (so not a dyadic
			// fraction: 1.005, 0.175, 39.3 ...) and a = 5*10^(be-1) * b^-1 mod 10^be
			mod := ratref.Pow10(int(be))
			bb := genBits(t, 18, "gb")
			if bb < 0 {
				bb = -bb
			}
			bb |= 1
			for bb%5 == 0 {
				bb += 2
			}
			inv := new(big.Int).ModInverse(big.NewInt(bb), mod)
			if inv != nil {
				a0 := new(big.Int).Mul(inv, big.NewInt(5*pow10(int(be)-1)))
				a0.Mod(a0, mod)
				m := genBits(t, max(1, 30-bitsOfPow10(int(be))), "gm")
				av := new(big.Int).Add(a0, new(big.Int).Mul(big.NewInt(m), mod))
				if av.IsInt64() && ratref.Fits52(new(big.Int).Mul(av, big.NewInt(bb))) {
					c.AV, c.BV = av.Int64()+adj, bb
					if rapid.Bool().Draw(t, "gneg") {
						c.BV = -c.BV
					}
					return c
				}
			}
		}
		if mode != "free" && be >= 1 {
			// b = k*5*10^(be-1) with k odd, a odd  =>  a*b/10^be = a*k/2 is a tie
			unit := 5 * pow10(int(be)-1)
			ub := bitsOfPow10(int(be))
			la = rapid.IntRange(1, 25).Draw(t, "la2")
			a := genBits(t, la, "a2") | 1
			k := genBits(t, max(1, 50-la-ub), "k") | 1
			c.AV, c.BV = a, k*unit+adj
		}
	case "div":
		c.BV = genBits(t, 40, "b")
		c.AV = genBits(t, 51-bitsOfPow10(int(be)), "a")
		if mode != "free" {
			// b = 2j*10^be, a = j*odd  =>  a/b = odd/2
			j := genBits(t, 8, "j")
			if j == 0 {
				j = 1
			}
			if be > 4 {
				c.BE = 4
				be = 4
			}
			c.BV = 2 * j * pow10(int(be))
			odd := genBits(t, 20, "odd") | 1
			c.AV = j*odd + adj
		}
	case "remove", "pct_from":
		c.BV = genBits(t, 30, "b")
		c.AV = genBits(t, max(1, 51-bitsOfPow10(int(be))-0), "a")
		if op == "pct_from" {
			// a*b must fit as well
			c.AV = genBits(t, max(1, 51-max(bitsOfPow10(int(be)), big.NewInt(c.BV).BitLen())), "a3")
		}
		if mode != "free" {
			// p = (2j-1) (whole number)  =>  factor = 2j  =>  a = j*odd gives a tie of a/(1+p)
			j := int64(rapid.IntRange(1, 40).Draw(t, "j"))
			if be > 3 {
				c.BE = 3
				be = 3
			}
			c.BV = (2*j - 1) * pow10(int(be))
			odd := genBits(t, 20, "odd") | 1
			c.AV = j*odd + adj
		}
	case "cmp", "threshold":
		m := ae
		if be > m {
			m = be
		}
		c.AV = genBits(t, 51-bitsOfPow10(int(m-ae)), "a")
		if mode == "free" {
			c.BV = genBits(t, 51-bitsOfPow10(int(m-be)), "b")
		} else if be >= ae {
			// equal or off by one unit after rescaling
			c.BV = c.AV*pow10(int(be-ae)) + adj
			if !ratref.Fits52(big.NewInt(c.BV)) {
				c.BV = genBits(t, 20, "b")
			}
		} else {
			c.BV = genBits(t, 51-bitsOfPow10(int(m-be)), "b")
			c.AV = c.BV*pow10(int(ae-be)) + adj
		}
	case "rescale":
		c.N = rapid.IntRange(0, 12).Draw(t, "target")
		if c.N >= int(ae) {
			c.AV = genBits(t, 51-bitsOfPow10(c.N-int(ae)), "a")
		} else if mode == "free" {
			c.AV = genBits(t, 51, "a")
		} else {
			d := int(ae) - c.N
			p := pow10(d)
			h := genBits(t, 51-bitsOfPow10(d), "h")
			sg := int64(1)
			if h < 0 {
				sg = -1
			}
			c.AV = h*p + sg*(p/2) + adj
		}
	case "split":
		c.N = rapid.IntRange(1, 400).Draw(t, "n")
		c.AV = genBits(t, 42, "a")
		if mode != "free" && c.N%2 == 0 {
			// a = (n/2)*odd  =>  a/n is a tie
			odd := genBits(t, 30, "odd") | 1
			c.AV = int64(c.N/2)*odd + adj
		}
	default:
		c.AV = genBits(t, 44, "a")
	}
	return c
}

func init() {
	vh.Describe(
		"Cases are (operation, operands, parameter). Exhaustive box: every value -K..K (K=12 quick, 60 thorough) at every exponent pair 0-9 for every binary operation, every target precision 0-12, every split count 1-12, plus digit patterns ...4/...5/...6 at every position, plus a multiplication / percentage-of box over values -160..160 (thorough -1000..1000) at money and rate exponents (multipliers that are not dyadic fractions); random: operands stratified by bit length up to 2^51 with ties / near-ties constructed for 50% of cases (for multiplication also general ties a = 5*10^(e-1) * b^-1 mod 10^e for multipliers coprime to 10). Non-trivial: the exact result needed rounding (tie or not), or operands have different exponents, or an operand is negative, or precision is raised. Cases whose operands or exact intermediates exceed 2^52 units are discarded (outside the stated domain) and counted.",
		"math/big integer arithmetic is the reference",
		"domain restricted to |operand|,|intermediate| <= 2^52 units as the property states",
	)
	vh.Enum("box", enumBox, judge)
	vh.Enum("boundary", enumBoundary, judge)
	vh.Enum("mul_box", enumMulBox, judge)
	vh.Rapid("random", 400_000, 16_000_000, genCase, judge)
}
