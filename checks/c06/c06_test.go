// Package c06 decides property C06: the amount / percentage text codec
// round-trips and accepts exactly the published pattern (value within 64 bits).
package c06

import (
	"encoding/json"
	"fmt"
	"math"
	"math/big"
	"os"
	"path/filepath"
	"regexp"
	"strings"
	"testing"
	"unicode/utf8"

	"github.com/invopop/gobl/num"
	"github.com/invopop/gobl/verifharness/internal/ratref"
	"github.com/invopop/gobl/verifharness/internal/vh"
	"github.com/invopop/yaml"
	"pgregory.net/rapid"
)

func TestMain(m *testing.M) { vh.Main(m, "C06") }

func TestAll(t *testing.T) { vh.RunAll(t) }

// the published patterns are the referee: read from data/schemas
var amountRe, percentRe *regexp.Regexp

func loadPattern(file, def string) *regexp.Regexp {
	repo := os.Getenv("VERIF_REPO")
	if repo == "" {
		repo = "/repo"
	}
	data, err := os.ReadFile(filepath.Join(repo, "data", "schemas", "num", file))
	if err != nil {
		panic(err)
	}
	var doc struct {
		Defs map[string]struct {
			Pattern string `json:"pattern"`
		} `json:"$defs"`
	}
	if err := json.Unmarshal(data, &doc); err != nil {
		panic(err)
	}
	p := doc.Defs[def].Pattern
	if p == "" {
		panic("no pattern in " + file)
	}
	// JSON-Schema patterns use ECMA 262: `$` matches only at the very end
	// (no trailing newline allowance) - same as Go's without (?m).
	return regexp.MustCompile(p)
}

// the JSON number token (RFC 8259), without surrounding whitespace
var jsonNumberRe = regexp.MustCompile(`^-?(0|[1-9][0-9]*)(\.[0-9]+)?([eE][+-]?[0-9]+)?$`)

var (
	minI64 = big.NewInt(math.MinInt64)
	maxI64 = big.NewInt(math.MaxInt64)
)

// refParse is the reference reader: pattern member and digits within int64.
func refParse(s string, re *regexp.Regexp, trimPct bool) (val *big.Int, exp int, member, fits bool) {
	if !re.MatchString(s) {
		return nil, 0, false, false
	}
	body := s
	if trimPct {
		body = strings.TrimSuffix(body, "%")
	}
	d, err := ratref.ParseDec(body)
	if err != nil {
		// pattern and reference grammar disagree: treat as non member (reported separately)
		return nil, 0, false, false
	}
	fits = d.Units.Cmp(minI64) >= 0 && d.Units.Cmp(maxI64) <= 0
	return d.Units, d.Exp, true, fits
}

// ---------------------------------------------------------------------------
// amounts: value -> text -> value

type AmountCase struct {
	Value int64  `json:"value"`
	Exp   uint32 `json:"exp"`
}

type holder struct {
	Amount  num.Amount      `json:"amount"`
	Percent *num.Percentage `json:"percent,omitempty"`
}

func judgeAmountRoundTrip(c AmountCase, o *vh.Obs) {
	a := num.MakeAmount(c.Value, c.Exp)
	s := a.String()
	if c.Value < 0 && c.Exp >= 1 {
		o.NonTrivial()
		o.Class("negative-fraction")
	}
	if c.Value == math.MinInt64 || c.Value == math.MaxInt64 {
		o.NonTrivial()
		o.Class("int64-edge")
	}
	if c.Exp > 0 && absLess(c.Value, c.Exp) {
		o.NonTrivial()
		o.Class("leading-zero-fraction")
	}
	o.Note("%d/%d -> %q", c.Value, c.Exp, s)
	want := ratref.FormatUnits(big.NewInt(c.Value), int(c.Exp))
	if s != want {
		o.Failf("amount:string", "MakeAmount(%d,%d).String() = %q, exact decimal text is %q", c.Value, c.Exp, s, want)
		return
	}
	if !amountRe.MatchString(s) {
		o.Failf("amount:pattern", "text %q of amount %d/%d does not match the published pattern", s, c.Value, c.Exp)
		return
	}
	mt, err := a.MarshalText()
	if err != nil || string(mt) != s {
		o.Failf("amount:marshaltext", "MarshalText = %q, %v; String = %q", mt, err, s)
	}
	js, err := json.Marshal(holder{Amount: a})
	if err != nil || string(js) != `{"amount":"`+s+`"}` {
		o.Failf("amount:marshaljson", "json.Marshal = %s, %v", js, err)
	}
	// the text written for one value is the caller's: writing other values
	// afterwards does not change it
	other := num.MakeAmount(^c.Value, (c.Exp+3)%19)
	_, _ = other.MarshalText()
	_ = other.String()
	_, _ = json.Marshal(holder{Amount: other})
	_ = num.MakePercentage(c.Value/3+7, 4).String()
	if string(mt) != s {
		o.Failf("amount:text-changed-by-later-write", "the bytes MarshalText returned for %q read %q after other values were written", s, mt)
	}
	check := func(path string, got num.Amount, err error) {
		if err != nil {
			o.Failf("amount:roundtrip-error", "%s: reading back %q failed: %v", path, s, err)
			return
		}
		if got.Value() != c.Value || got.Exp() != c.Exp {
			o.Failf("amount:roundtrip", "%s: %q read back as value %d exp %d, written from value %d exp %d", path, s, got.Value(), got.Exp(), c.Value, c.Exp)
		}
	}
	got, err := num.AmountFromString(s)
	check("AmountFromString", got, err)
	var g2 num.Amount
	err = g2.UnmarshalText([]byte(s))
	check("UnmarshalText", g2, err)
	var h holder
	err = json.Unmarshal(js, &h)
	check("json", h.Amount, err)
	if jsonNumberRe.MatchString(s) {
		var h2 holder
		err = json.Unmarshal([]byte(`{"amount":`+s+`}`), &h2)
		check("json-bare", h2.Amount, err)
	}
}

// escapeAll writes a JSON string with every character as a \uXXXX escape.
func escapeAll(s string) string {
	var sb strings.Builder
	sb.WriteByte('"')
	for _, r := range s {
		if r < 0x10000 {
			fmt.Fprintf(&sb, `\u%04x`, r)
		} else {
			r -= 0x10000
			fmt.Fprintf(&sb, `\u%04x\u%04x`, 0xd800+(r>>10), 0xdc00+(r&0x3ff))
		}
	}
	sb.WriteByte('"')
	return sb.String()
}

func absLess(v int64, exp uint32) bool {
	b := new(big.Int).Abs(big.NewInt(v))
	return b.Cmp(ratref.Pow10(int(exp))) < 0
}

func genAmountCase(t *rapid.T) AmountCase {
	exp := uint32(rapid.IntRange(0, 18).Draw(t, "exp"))
	var v int64
	switch rapid.IntRange(0, 4).Draw(t, "kind") {
	case 0:
		v = rapid.Int64().Draw(t, "v")
	case 1:
		v = rapid.SampledFrom([]int64{math.MinInt64, math.MinInt64 + 1, math.MaxInt64, math.MaxInt64 - 1, 0, -1, 1}).Draw(t, "edge")
	case 2:
		// fewer digits than decimals
		v = rapid.Int64Range(-999, 999).Draw(t, "small")
	case 3:
		e := rapid.IntRange(0, 18).Draw(t, "p")
		v = ratref.Pow10(e).Int64() + rapid.Int64Range(-1, 1).Draw(t, "d")
		if rapid.Bool().Draw(t, "neg") {
			v = -v
		}
	default:
		bits := rapid.IntRange(1, 63).Draw(t, "bits")
		v = rapid.Int64Range(0, (int64(1)<<bits)-1).Draw(t, "vb")
		if rapid.Bool().Draw(t, "neg") {
			v = -v
		}
	}
	return AmountCase{Value: v, Exp: exp}
}

// ---------------------------------------------------------------------------
// percentages: value -> text -> same value, stable text

func judgePercentRoundTrip(c AmountCase, o *vh.Obs) {
	p := num.MakePercentage(c.Value, c.Exp)
	// exact text of value*100 with max(exp-2,0) decimals
	e := int(c.Exp) - 2
	units := big.NewInt(c.Value)
	if e < 0 {
		units = new(big.Int).Mul(units, ratref.Pow10(-e))
		e = 0
	}
	if !units.IsInt64() {
		o.Discard()
		return
	}
	want := ratref.FormatUnits(units, e) + "%"
	s := p.String()
	if c.Value < 0 || c.Exp < 2 {
		o.NonTrivial()
	}
	if new(big.Int).Abs(big.NewInt(c.Value)).BitLen() > 46 {
		o.Class("beyond-float-exact")
		o.NonTrivial()
	}
	o.Note("%d/%d -> %q", c.Value, c.Exp, s)
	if s != want {
		o.Failf("percent:string", "MakePercentage(%d,%d).String() = %q, exact text is %q", c.Value, c.Exp, s, want)
		return
	}
	if !percentRe.MatchString(s) {
		o.Failf("percent:pattern", "text %q does not match the published pattern", s)
		return
	}
	mt, err := p.MarshalText()
	if err != nil || string(mt) != s {
		o.Failf("percent:marshaltext", "MarshalText = %q, %v; String = %q", mt, err, s)
	}
	otherP := num.MakePercentage(^c.Value, (c.Exp+3)%17)
	_, _ = otherP.MarshalText()
	_ = otherP.String()
	_ = num.MakeAmount(c.Value/3+7, 2).String()
	if string(mt) != s {
		o.Failf("percent:text-changed-by-later-write", "the bytes MarshalText returned for %q read %q after other values were written", s, mt)
	}
	check := func(path string, got num.Percentage, err error) {
		if err != nil {
			o.Failf("percent:roundtrip-error", "%s: reading back %q failed: %v", path, s, err)
			return
		}
		// same value: got.value/10^got.exp == c.Value/10^c.Exp
		l := new(big.Int).Mul(big.NewInt(got.Value()), ratref.Pow10(int(c.Exp)))
		r := new(big.Int).Mul(big.NewInt(c.Value), ratref.Pow10(int(got.Exp())))
		if l.Cmp(r) != 0 {
			o.Failf("percent:roundtrip", "%s: %q read back as %d/%d, written from %d/%d", path, s, got.Value(), got.Exp(), c.Value, c.Exp)
			return
		}
		if s2 := got.String(); s2 != s {
			o.Failf("percent:unstable-text", "%s: %q read back and written again gives %q", path, s, s2)
		}
	}
	got, err := num.PercentageFromString(s)
	check("PercentageFromString", got, err)
	var g2 num.Percentage
	err = g2.UnmarshalText([]byte(s))
	check("UnmarshalText", g2, err)
	var h holder
	js, _ := json.Marshal(holder{Percent: &p})
	err = json.Unmarshal(js, &h)
	if h.Percent == nil {
		o.Failf("percent:json", "json round trip lost the percentage: %s %v", js, err)
		return
	}
	check("json", *h.Percent, err)
}

func genPercentCase(t *rapid.T) AmountCase {
	exp := uint32(rapid.IntRange(0, 16).Draw(t, "exp"))
	var v int64
	switch rapid.IntRange(0, 3).Draw(t, "kind") {
	case 0:
		v = rapid.SampledFrom([]int64{0, 4, 55, 7, 10, 175, 19, 21, 3333, 100, 1, -1, -21}).Draw(t, "real")
	case 1:
		bits := rapid.IntRange(1, 45).Draw(t, "bits")
		v = rapid.Int64Range(0, (int64(1)<<bits)-1).Draw(t, "v")
	case 2:
		bits := rapid.IntRange(46, 62).Draw(t, "bigbits")
		v = rapid.Int64Range(int64(1)<<(bits-1), (int64(1)<<bits)-1).Draw(t, "vbig")
	default:
		v = rapid.Int64Range(-100000, 100000).Draw(t, "small")
	}
	if rapid.IntRange(0, 3).Draw(t, "neg") == 0 {
		v = -v
	}
	return AmountCase{Value: v, Exp: exp}
}

// ---------------------------------------------------------------------------
// strings: accepted iff pattern member whose digits fit in 64 bits

type TextCase struct {
	Text string `json:"text"`
	Kind string `json:"kind,omitempty"`
}

const sentinelV, sentinelE = 424242, 7

func judgeAmountText(c TextCase, o *vh.Obs) {
	s := c.Text
	if c.Kind != "" {
		o.Class(c.Kind)
	}
	val, exp, member, fits := refParse(s, amountRe, false)
	accept := member && fits
	// beyond 1000 decimals the writer gives up (the package's tests pin "NA"):
	// such a text may be refused, and when it is read it must still be written
	// back exactly
	optional := accept && exp > 1000
	switch {
	case optional:
		o.Class("member-beyond-writer-limit")
		o.NonTrivial()
	case !member:
		o.Class("non-member")
		o.NonTrivial()
	case !fits:
		o.Class("member-overflow")
		o.NonTrivial()
	default:
		o.Class("member")
		if val.BitLen() >= 60 || (val.Sign() < 0 && exp >= 1) {
			o.NonTrivial()
		}
	}
	type result struct {
		path string
		a    num.Amount
		err  error
	}
	var results []result
	a, err := num.AmountFromString(s)
	if err != nil {
		a = num.MakeAmount(sentinelV, sentinelE) // result of a failed call is not specified; compare the error only
	}
	results = append(results, result{"AmountFromString", a, err})
	// the literal text `null` reaches UnmarshalText for a JSON null and is a documented no-op
	if s != "null" {
		g := num.MakeAmount(sentinelV, sentinelE)
		err = g.UnmarshalText([]byte(s))
		results = append(results, result{"UnmarshalText", g, err})
	}
	if utf8.ValidString(s) {
		q, _ := json.Marshal(s)
		if string(q) == `"`+s+`"` { // only when the JSON string needs no escapes (UnmarshalJSON strips quotes, it does not unescape)
			g := num.MakeAmount(sentinelV, sentinelE)
			err = g.UnmarshalJSON(q)
			results = append(results, result{"UnmarshalJSON(quoted)", g, err})
			h := holder{Amount: num.MakeAmount(sentinelV, sentinelE)}
			err = json.Unmarshal([]byte(`{"amount":`+string(q)+`}`), &h)
			results = append(results, result{"json(quoted)", h.Amount, err})
			h = holder{Amount: num.MakeAmount(sentinelV, sentinelE)}
			err = yaml.Unmarshal([]byte(`amount: `+string(q)+"\n"), &h)
			results = append(results, result{"yaml(quoted)", h.Amount, err})
		}
		// the same JSON string written with \uXXXX escapes is the same value
		if len(s) > 0 && len(s) < 40 {
			o.Class("escaped-rendering")
			h := holder{Amount: num.MakeAmount(sentinelV, sentinelE)}
			err = json.Unmarshal([]byte(`{"amount":`+escapeAll(s)+`}`), &h)
			results = append(results, result{"json(escaped)", h.Amount, err})
		}
	}
	if jsonNumberRe.MatchString(s) {
		o.Class("bare-json-number")
		h := holder{Amount: num.MakeAmount(sentinelV, sentinelE)}
		err = json.Unmarshal([]byte(`{"amount":`+s+`}`), &h)
		results = append(results, result{"json(bare)", h.Amount, err})
	}
	for _, r := range results {
		if optional && r.err != nil {
			if r.a.Value() != sentinelV || r.a.Exp() != sentinelE {
				o.Failf("amount-text:receiver-changed", "%s(%.40q...) failed (%v) but changed the receiver to %d/%d", r.path, s, r.err, r.a.Value(), r.a.Exp())
			}
			continue
		}
		if accept {
			if r.err != nil {
				o.Failf("amount-text:rejected-member", "%s(%q): pattern member within int64 rejected: %v", r.path, s, r.err)
				continue
			}
			if big.NewInt(r.a.Value()).Cmp(val) != 0 || int(r.a.Exp()) != exp {
				o.Failf("amount-text:wrong-value", "%s(%q) = value %d exp %d, text means value %s exp %d", r.path, s, r.a.Value(), r.a.Exp(), val, exp)
				continue
			}
			// whatever was read can be written again and read back (any number of decimals)
			if exp > 18 {
				o.Class("more-than-18-decimals")
			}
			back := r.a.String()
			if want := ratref.FormatUnits(val, exp); back != want {
				o.Failf("amount-text:rewrite", "%s(%q) was read as value %s exp %d but is written back as %q (exact text %q)", r.path, s, val, exp, back, want)
			}
			continue
		}
		if r.err == nil {
			why := "not a member of the published pattern"
			if member {
				why = "its digits do not fit in 64 bits"
			}
			o.Failf("amount-text:accepted-invalid", "%s(%q) accepted as value %d exp %d although %s", r.path, s, r.a.Value(), r.a.Exp(), why)
			continue
		}
		if r.a.Value() != sentinelV || r.a.Exp() != sentinelE {
			o.Failf("amount-text:receiver-changed", "%s(%q) failed (%v) but changed the receiver to %d/%d", r.path, s, r.err, r.a.Value(), r.a.Exp())
		}
	}
	o.Note("%q member=%v fits=%v", s, member, fits)
}

func judgePercentText(c TextCase, o *vh.Obs) {
	s := c.Text
	if c.Kind != "" {
		o.Class(c.Kind)
	}
	// accepted forms: the published pattern; the documented factor form
	// without the symbol (an amount); and the empty string (existing tests)
	var (
		val     *big.Int
		exp     int
		member  bool
		fits    bool
		allowed string
	)
	if v, e, m, f := refParse(s, percentRe, true); m {
		val, exp, member, fits, allowed = v, e+2, m, f, "pattern"
	} else if v, e, m, f := refParse(s, amountRe, false); m {
		val, exp, member, fits, allowed = v, e, m, f, "factor-form"
		// a factor with fewer than two decimals is written with its digits
		// multiplied: what then no longer fits in 64 bits cannot be written as a
		// percentage at all, and is a different number if it is read anyway
		if f && e < 2 && !new(big.Int).Mul(v, ratref.Pow10(2-e)).IsInt64() {
			fits = false
		}
	} else if s == "" {
		val, exp, member, fits, allowed = big.NewInt(0), 0, true, true, "empty"
	}
	accept := member && fits
	textDecimals := exp
	if allowed == "pattern" {
		textDecimals = exp - 2
	}
	optional := accept && textDecimals > 1000 // see judgeAmountText
	switch {
	case optional:
		o.Class("member-beyond-writer-limit")
		o.NonTrivial()
	case !member:
		o.Class("non-member")
		o.NonTrivial()
	case !fits:
		o.Class("member-overflow")
		o.NonTrivial()
	default:
		o.Class("member-" + allowed)
		if val.BitLen() >= 50 || val.Sign() < 0 {
			o.NonTrivial()
		}
	}
	type result struct {
		path string
		p    num.Percentage
		err  error
	}
	var results []result
	p, err := num.PercentageFromString(s)
	if err != nil {
		p = num.MakePercentage(sentinelV, sentinelE)
	}
	results = append(results, result{"PercentageFromString", p, err})
	if s != "null" {
		g := num.MakePercentage(sentinelV, sentinelE)
		err = g.UnmarshalText([]byte(s))
		results = append(results, result{"UnmarshalText", g, err})
	}
	if utf8.ValidString(s) && s != "" {
		q, _ := json.Marshal(s)
		if string(q) == `"`+s+`"` {
			g := num.MakePercentage(sentinelV, sentinelE)
			h := holder{Percent: &g}
			err = json.Unmarshal([]byte(`{"percent":`+string(q)+`}`), &h)
			results = append(results, result{"json(quoted)", *h.Percent, err})
		}
	}
	if s == "" {
		// the empty-string allowance belongs to PercentageFromString / UnmarshalText only:
		// the JSON string "" is not a member of the published pattern
		g := num.MakePercentage(sentinelV, sentinelE)
		h := holder{Percent: &g}
		if err := json.Unmarshal([]byte(`{"percent":""}`), &h); err == nil {
			o.Failf("percent-text:accepted-invalid", "json(quoted)(\"\") accepted as value %d exp %d although the empty JSON string is not a member of the published pattern", h.Percent.Value(), h.Percent.Exp())
		}
		var a holder
		a.Amount = num.MakeAmount(sentinelV, sentinelE)
		if err := json.Unmarshal([]byte(`{"amount":""}`), &a); err == nil {
			o.Failf("amount-text:accepted-invalid", "json(quoted)(\"\") accepted as amount %d/%d", a.Amount.Value(), a.Amount.Exp())
		}
	}
	for _, r := range results {
		if optional && r.err != nil {
			if r.p.Value() != sentinelV || r.p.Exp() != sentinelE {
				o.Failf("percent-text:receiver-changed", "%s(%.40q...) failed (%v) but changed the receiver to %d/%d", r.path, s, r.err, r.p.Value(), r.p.Exp())
			}
			continue
		}
		if accept {
			if r.err != nil {
				o.Failf("percent-text:rejected-member", "%s(%q): acceptable text (%s) within int64 rejected: %v", r.path, s, allowed, r.err)
				continue
			}
			if big.NewInt(r.p.Value()).Cmp(val) != 0 || int(r.p.Exp()) != exp {
				o.Failf("percent-text:wrong-value", "%s(%q) = value %d exp %d, text means value %s exp %d", r.path, s, r.p.Value(), r.p.Exp(), val, exp)
				continue
			}
			// whatever was read can be written again and read back as the same value
			back := r.p.String()
			same := func(p2 num.Percentage) bool {
				// exact, not through the library's own comparison
				l := new(big.Int).Mul(big.NewInt(p2.Value()), ratref.Pow10(exp))
				r := new(big.Int).Mul(val, ratref.Pow10(int(p2.Exp())))
				return l.Cmp(r) == 0
			}
			if p2, err := num.PercentageFromString(back); err != nil || !percentRe.MatchString(back) || !same(p2) {
				o.Failf("percent-text:rewrite", "%s(%.60q) was read as value %s exp %d but is written back as %.60q, which reads as %v (%v)", r.path, s, val, exp, back, p2, err)
			}
			continue
		}
		if r.err == nil {
			why := "not a member of the published pattern (nor the documented factor form)"
			if member {
				why = "its digits do not fit in 64 bits"
				if allowed == "factor-form" {
					why = "the percentage it stands for cannot be written in 64 bits"
				}
			}
			o.Failf("percent-text:accepted-invalid", "%s(%q) accepted as value %d exp %d although %s", r.path, s, r.p.Value(), r.p.Exp(), why)
			continue
		}
		if r.p.Value() != sentinelV || r.p.Exp() != sentinelE {
			o.Failf("percent-text:receiver-changed", "%s(%q) failed (%v) but changed the receiver to %d/%d", r.path, s, r.err, r.p.Value(), r.p.Exp())
		}
	}
	o.Note("%q member=%v fits=%v", s, member, fits)
}

var hostile = []string{"+", "-", ".", ",", "_", "'", "e", "E", "x", "%", " ", "\t", " ", "\"", "\n", "٣", "３", "0x", "e5", "E-2", "--", "+-", "null", "\x00", "٫", "−"}

func genDigits(t *rapid.T, label string, lo, hi int) string {
	n := rapid.IntRange(lo, hi).Draw(t, label+"_n")
	var sb strings.Builder
	lead := rapid.IntRange(0, 3).Draw(t, label+"_lead")
	for i := 0; i < n; i++ {
		if i < lead && lead < n && rapid.Bool().Draw(t, label+"_z") {
			sb.WriteByte('0')
			continue
		}
		sb.WriteByte(byte('0' + rapid.IntRange(0, 9).Draw(t, label)))
	}
	return sb.String()
}

func genMember(t *rapid.T) string {
	s := ""
	if rapid.Bool().Draw(t, "neg") {
		s = "-"
	}
	s += genDigits(t, "int", 1, 21)
	if rapid.Bool().Draw(t, "hasfrac") {
		s += "." + genDigits(t, "frac", 1, 21)
	}
	return s
}

// boundary: digit strings straddling int64 with a dot anywhere
func genBoundary(t *rapid.T) string {
	base := rapid.SampledFrom([]*big.Int{maxI64, new(big.Int).Neg(minI64), ratref.Pow10(18), ratref.Pow10(19), new(big.Int).Mul(maxI64, big.NewInt(10)), new(big.Int).Lsh(big.NewInt(1), 64), new(big.Int).Lsh(big.NewInt(1), 53)}).Draw(t, "base")
	d := rapid.Int64Range(-3, 3).Draw(t, "delta")
	v := new(big.Int).Add(base, big.NewInt(d))
	digits := v.String()
	digits = strings.Repeat("0", rapid.IntRange(0, 3).Draw(t, "leadz")) + digits
	tz := rapid.IntRange(0, 3).Draw(t, "trailz")
	pos := rapid.IntRange(0, len(digits)).Draw(t, "dot")
	s := digits
	if pos > 0 && pos < len(digits) {
		s = digits[:pos] + "." + digits[pos:] + strings.Repeat("0", tz)
	} else if tz > 0 && rapid.Bool().Draw(t, "fraczeros") {
		s = digits + "." + strings.Repeat("0", tz)
	}
	if rapid.Bool().Draw(t, "neg") {
		s = "-" + s
	}
	return s
}

func mutate(t *rapid.T, s string) string {
	r := []rune(s)
	switch rapid.IntRange(0, 5).Draw(t, "edit") {
	case 0: // insert hostile token
		pos := rapid.IntRange(0, len(r)).Draw(t, "pos")
		tok := rapid.SampledFrom(hostile).Draw(t, "tok")
		return string(r[:pos]) + tok + string(r[pos:])
	case 1: // delete one character
		if len(r) == 0 {
			return s
		}
		pos := rapid.IntRange(0, len(r)-1).Draw(t, "pos")
		return string(r[:pos]) + string(r[pos+1:])
	case 2: // replace one character
		if len(r) == 0 {
			return s
		}
		pos := rapid.IntRange(0, len(r)-1).Draw(t, "pos")
		tok := rapid.SampledFrom(hostile).Draw(t, "tok")
		return string(r[:pos]) + tok + string(r[pos+1:])
	case 3: // sign games at the start of a part
		tok := rapid.SampledFrom([]string{"-", "+", "--", "+-", "-+"}).Draw(t, "sign")
		if i := strings.IndexByte(s, '.'); i >= 0 && rapid.Bool().Draw(t, "atfrac") {
			return s[:i+1] + tok + s[i+1:]
		}
		return tok + s
	case 4: // empty parts
		return rapid.SampledFrom([]string{"", ".", "-", "-.", "." + s, s + ".", "-." + s, "%", "-%", ".%"}).Draw(t, "empty")
	default: // second separator
		return s + "." + genDigits(t, "extra", 1, 3)
	}
}

func genAmountText(t *rapid.T) TextCase {
	switch rapid.IntRange(0, 9).Draw(t, "kind") {
	case 0, 1, 2:
		return TextCase{Text: genMember(t), Kind: "gen-member"}
	case 3, 4, 5:
		return TextCase{Text: mutate(t, genMember(t)), Kind: "gen-near-miss"}
	case 6, 7:
		return TextCase{Text: genBoundary(t), Kind: "gen-boundary"}
	case 8:
		return TextCase{Text: mutate(t, genBoundary(t)), Kind: "gen-boundary-near-miss"}
	default:
		return TextCase{Text: rapid.StringOfN(rapid.RuneFrom([]rune("0123456789.-+%eE _,")), 0, 12, -1).Draw(t, "soup"), Kind: "gen-soup"}
	}
}

func genPercentText(t *rapid.T) TextCase {
	c := genAmountText(t)
	switch rapid.IntRange(0, 5).Draw(t, "pct") {
	case 0:
		// leave without symbol (factor form / non member)
	case 1:
		c.Text += "%%"
	case 2:
		c.Text = "%" + c.Text
	default:
		c.Text += "%"
	}
	return c
}

var fixedTexts = []string{
	"--5", "+5", "1.+5", "1.-5", "-+5", "9.999999999999999999", "1.0000000000000000000", "9223372036854775807", "9223372036854775808",
	"-9223372036854775808", "-9223372036854775809", "92233720368547758.07", "92233720368547758.08", "-92233720368547758.08", "-92233720368547758.09",
	"null", "", " ", "1 ", " 1", "1e5", "1E5", "0x10", "1_000", "1,5", "1.", ".5", "-", "-.5", "1.5.2", "٣", "１２", "1\n", "0", "-0", "-0.0", "007", "0.0000000000000000001", "0.00000000000000000000", "0.0000000000000000000000000000000000000000000000000000000000000000001", "-12.000000000000000000000000000000",
	"18446744073709551616", "1.8446744073709551616", "99999999999999999999", "NaN", "Inf", "-Inf", "true", "\"1\"", "1%", "%",
}

// very long decimal parts whose value still fits (the writer once gave up
// beyond 1000 decimals)
var longTexts = []string{
	"0." + strings.Repeat("0", 999), "0." + strings.Repeat("0", 1000), "0." + strings.Repeat("0", 1001), "-0." + strings.Repeat("0", 1500),
	"0." + strings.Repeat("0", 1000) + "1", "-0." + strings.Repeat("0", 1200) + "123", "12." + strings.Repeat("0", 1001), "0." + strings.Repeat("0", 5000) + "9223372036854775807",
	"0." + strings.Repeat("0", 5000) + "9223372036854775808",
}

func enumFixed(pct bool) func(yield func(TextCase) bool) {
	return func(yield func(TextCase) bool) {
		if vh.Cfg().Shard != 0 {
			return
		}
		for _, s := range append(append([]string{}, fixedTexts...), longTexts...) {
			if !yield(TextCase{Text: s, Kind: "fixed"}) {
				return
			}
			if pct {
				if !yield(TextCase{Text: s + "%", Kind: "fixed"}) {
					return
				}
			}
		}
	}
}

var fuzzAmount, fuzzPercent func(t *testing.T, c TextCase)

func init() {
	amountRe = loadPattern("amount.json", "Amount")
	percentRe = loadPattern("percentage.json", "Percentage")
	vh.Describe(
		"Round trips (the bytes returned for one value are read again after other values were written: they are the caller's): amounts over all of int64 (edges, powers of ten, fewer digits than decimals) x 0-18 decimals; percentages of either sign x 0-16 decimals, including values beyond float64 exactness. Strings: members of the published pattern (1-21 digits per part), near misses by one edit from a hostile alphabet (signs, separators, exponents, spaces, NBSP, non-ASCII digits, empty parts), digit strings straddling int64 with the dot at every position, and a fixed list; each through AmountFromString/UnmarshalText/UnmarshalJSON/encoding-json quoted and bare/YAML. Non-trivial: the string is not a pattern member, or overflows 64 bits, or is within 4 bits of the int64 edge, or the amount is negative with decimals. Reference reader: published regexp AND big-integer range check.",
		"the pattern published in data/schemas/num/*.json is the referee for membership",
		"JSON null (and the literal text null that carries it to UnmarshalText) is a no-op by encoding/json convention",
		"percentages also accept the documented factor form without % (as long as the percentage it stands for can be written in 64 bits) and the empty string (asserted by existing tests)",
		"a text with more than 1000 decimals may be refused: the writer gives up there (TestPercentageString pins \"NA%\"); when such a text is read it must be written back exactly",
	)
	vh.Rapid("amount_roundtrip", 200_000, 6_000_000, genAmountCase, judgeAmountRoundTrip)
	vh.Rapid("percent_roundtrip", 100_000, 3_000_000, genPercentCase, judgePercentRoundTrip)
	vh.Enum("amount_text_fixed", enumFixed(false), judgeAmountText)
	vh.Enum("percent_text_fixed", enumFixed(true), judgePercentText)
	vh.Rapid("amount_text", 200_000, 6_000_000, genAmountText, judgeAmountText)
	vh.Rapid("percent_text", 100_000, 3_000_000, genPercentText, judgePercentText)
	fuzzAmount = vh.FuzzTarget("FuzzAmountText", judgeAmountText)
	fuzzPercent = vh.FuzzTarget("FuzzPercentText", judgePercentText)
}

func FuzzAmountText(f *testing.F) {
	for _, s := range fixedTexts {
		f.Add(s)
	}
	f.Fuzz(func(t *testing.T, s string) { fuzzAmount(t, TextCase{Text: s}) })
}

func FuzzPercentText(f *testing.F) {
	for _, s := range fixedTexts {
		f.Add(s)
		f.Add(s + "%")
	}
	f.Fuzz(func(t *testing.T, s string) { fuzzPercent(t, TextCase{Text: s}) })
}

var _ = fmt.Sprintf
