package c08

import (
	"encoding/json"
	"fmt"
	"regexp"

	gobl "github.com/invopop/gobl"
	"github.com/invopop/gobl/verifharness/internal/jsontree"
	"github.com/invopop/gobl/verifharness/internal/vh"
)

// PairCase: one free-text leaf of an example, rewritten three ways around one
// character that encoders treat specially.
type PairCase struct {
	Doc string `json:"doc"`
	Ptr string `json:"ptr"`
	Sep string `json:"sep"`
}

var freeTextRe = regexp.MustCompile(`/(name|text|description|street|locality|label|notes|alias)$`)

// characters that JSON encoders, canonical forms and their string writers
// treat in a way of their own
var pairSeps = func() []string {
	var out []string
	for _, r := range []rune{0x2028, 0x2029, 0x0a, 0x09, 0x22, 0x5c, 0x7f, 0x85, 0xe9, 0x301, 0x1F600, 0x3c, 0x26, 0xa0, 0x200b, 0xfeff} {
		out = append(out, string(r))
	}
	return out
}()

func enumStringPairs(yield func(PairCase) bool) {
	cfg := vh.Cfg()
	idx := 0
	for _, b := range quickBases() {
		n := 0
		for _, nd := range jsontree.Nodes(b.tree) {
			if nd.Kind != "string" || len(nd.Ptr) < 5 || nd.Ptr[:5] != "/doc/" || !freeTextRe.MatchString(nd.Ptr) {
				continue
			}
			n++
			if n > 6 && !vh.Thorough() {
				break
			}
			for _, sep := range pairSeps {
				idx++
				if idx%cfg.Shards != cfg.Shard {
					continue
				}
				if !yield(PairCase{Doc: b.path, Ptr: nd.Ptr, Sep: sep}) {
					return
				}
			}
		}
	}
}

// judgeStringPair: texts that differ before, after or only in the special
// character are different content; as long as the parser keeps them apart,
// their digests must be pairwise different.
func judgeStringPair(c PairCase, o *vh.Obs) {
	defer func() {
		if r := recover(); r != nil {
			o.Class("panicked-see-C14")
			o.Discard()
		}
	}()
	loadBases()
	b := baseByPath[c.Doc]
	if b == nil {
		o.Discard()
		return
	}
	cur, ok := jsontree.Get(b.tree, c.Ptr)
	t, isStr := cur.(string)
	if !ok || !isStr {
		o.Discard()
		return
	}
	variants := []string{
		t + " A" + c.Sep + "tail",
		t + " B" + c.Sep + "tail", // differs in the run before the character
		t + " A" + c.Sep + "tale", // differs after it
		t + " A" + "tail",         // differs by the character alone
		c.Sep + t,
		t + c.Sep,
	}
	type seen struct {
		text string
		doc  any
		dig  string
	}
	var got []seen
	for _, v := range variants {
		raw, _ := json.Marshal(v)
		edited, err := apply(b.tree, Edit{Doc: c.Doc, Kind: "set", Ptr: c.Ptr, Value: raw})
		if err != nil {
			o.Discard()
			return
		}
		env := new(gobl.Envelope)
		if err := json.Unmarshal(jsontree.Encode(edited), env); err != nil || env.Document == nil {
			o.Class("unparseable")
			continue
		}
		doc, err := docTree(env)
		if err != nil {
			continue
		}
		d, err := env.Digest()
		if err != nil {
			if env.Validate() == nil {
				o.Failf("pairs:undigestable-but-valid", "text %q at %s: digest fails (%v) but the envelope validates", v, c.Ptr, err)
				return
			}
			o.Class("undigestable")
			continue
		}
		got = append(got, seen{v, doc, d.Value})
	}
	where := idxRe.ReplaceAllString(c.Ptr, "/*")
	for i := range got {
		for j := i + 1; j < len(got); j++ {
			if jsontree.Equal(got[i].doc, got[j].doc) {
				o.Class("read-as-same")
				continue
			}
			o.NonTrivial()
			if got[i].dig == got[j].dig {
				o.Failf("pairs:same-digest:"+fmt.Sprintf("U+%04X", []rune(c.Sep)[0])+":"+where, "texts %q and %q at %s are read as different documents with the same digest %s", got[i].text, got[j].text, c.Ptr, got[i].dig)
				return
			}
		}
	}
}

func init() {
	vh.Enum("string_pairs", enumStringPairs, judgeStringPair)
}
