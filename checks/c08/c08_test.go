// Package c08 decides property C08: the header digest makes every change to
// the document evident.
package c08

import (
	"bytes"
	"context"
	"encoding/json"
	"fmt"
	"regexp"
	"sort"
	"strings"
	"testing"

	"github.com/invopop/gobl"
	"github.com/invopop/gobl/dsig"
	"github.com/invopop/gobl/head"
	"github.com/invopop/gobl/internal/cli"
	"github.com/invopop/gobl/verifharness/internal/corpus"
	"github.com/invopop/gobl/verifharness/internal/jsontree"
	"github.com/invopop/gobl/verifharness/internal/pubschema"
	"github.com/invopop/gobl/verifharness/internal/vh"
	"golang.org/x/text/unicode/norm"
	"pgregory.net/rapid"
)

func TestMain(m *testing.M) { vh.Main(m, "C08") }

func TestAll(t *testing.T) { vh.RunAll(t) }

var idxRe = regexp.MustCompile(`/\d+`)

// base is a calculated, valid example envelope.
type base struct {
	schema string
	path   string
	text   []byte // json.Marshal(envelope)
	tree   any
	doc    any // J(orig): tree of marshal(parse(text).doc)
	dig    string
}

var signKey = dsig.NewES256Key()

var bases []*base
var baseByPath map[string]*base

func docTree(env *gobl.Envelope) (any, error) {
	out, err := json.Marshal(env.Document)
	if err != nil {
		return nil, err
	}
	return jsontree.Decode(out)
}

func loadBases() {
	if bases != nil {
		return
	}
	baseByPath = map[string]*base{}
	for _, d := range corpus.MustLoad() {
		env, err := d.Envelope()
		if err != nil || env.Validate() != nil {
			continue
		}
		text, err := json.Marshal(env)
		if err != nil {
			continue
		}
		// work from the parsed form, as a receiver of the serialised envelope would
		e2 := new(gobl.Envelope)
		if err := json.Unmarshal(text, e2); err != nil {
			continue
		}
		tree, err := jsontree.Decode(text)
		if err != nil {
			continue
		}
		dt, err := docTree(e2)
		if err != nil {
			continue
		}
		b := &base{schema: d.ShortSch, path: d.Path, text: text, tree: tree, doc: dt, dig: e2.Head.Digest.Value}
		bases = append(bases, b)
		baseByPath[d.Path] = b
		// a signed and stamped variant of every fifth example: the digest must
		// protect the document just the same once signatures and stamps exist
		if len(bases)%5 == 1 {
			if err := env.Sign(signKey); err == nil {
				env.Head.AddStamp(&head.Stamp{Provider: "verif-provider", Value: "stamp-value"})
				if env.Validate() == nil {
					if text2, err := json.Marshal(env); err == nil {
						if tree2, err := jsontree.Decode(text2); err == nil {
							b2 := &base{schema: d.ShortSch, path: d.Path + "#signed", text: text2, tree: tree2, doc: dt, dig: b.dig}
							bases = append(bases, b2)
							baseByPath[b2.path] = b2
						}
					}
				}
			}
		}
	}
	// the examples carry no JSON numbers other than indexes: add a variant of
	// one invoice whose supplier address has coordinates (non-integer, negative)
	for _, d := range corpus.Invoices() {
		tree, err := jsontree.Decode(d.JSON)
		if err != nil {
			continue
		}
		if _, ok := jsontree.Get(tree, "/supplier/addresses/0"); !ok {
			continue
		}
		coords, _ := jsontree.Decode([]byte(`{"lat":40.4168,"lon":-3.70379}`))
		t2, err := jsontree.Set(tree, "/supplier/addresses/0/coords", coords)
		if err != nil {
			continue
		}
		env, err := corpus.EnvelopeOf(jsontree.Encode(t2), false)
		if err != nil || env.Validate() != nil {
			continue
		}
		text, _ := json.Marshal(env)
		e2 := new(gobl.Envelope)
		if json.Unmarshal(text, e2) != nil {
			continue
		}
		tr, err1 := jsontree.Decode(text)
		dt, err2 := docTree(e2)
		if err1 != nil || err2 != nil {
			continue
		}
		b := &base{schema: d.ShortSch, path: d.Path + "#coords", text: text, tree: tr, doc: dt, dig: e2.Head.Digest.Value}
		bases = append(bases, b)
		baseByPath[b.path] = b
		break
	}
	if len(bases) == 0 {
		panic("c08: no valid example envelopes")
	}
}

// Edit is one change of the serialised envelope's doc.
type Edit struct {
	Doc   string          `json:"doc"`
	Kind  string          `json:"kind"` // set | delete | add | swap | dup | drop
	Ptr   string          `json:"ptr"`
	Value json.RawMessage `json:"value,omitempty"`
	I     int             `json:"i,omitempty"`
	J     int             `json:"j,omitempty"`
}

func apply(tree any, e Edit) (any, error) {
	switch e.Kind {
	case "set", "add":
		v, err := jsontree.Decode(e.Value)
		if err != nil {
			return nil, err
		}
		return jsontree.Set(tree, e.Ptr, v)
	case "delete", "drop":
		return jsontree.Delete(tree, e.Ptr)
	case "swap":
		return jsontree.Swap(tree, e.Ptr, e.I, e.J)
	case "dup":
		v, ok := jsontree.Get(tree, e.Ptr)
		if !ok {
			return nil, fmt.Errorf("no node")
		}
		return jsontree.Insert(tree, e.Ptr, v)
	}
	return nil, fmt.Errorf("unknown edit")
}

// alter gives a different value of the same JSON type (and, for strings, the same rough shape).
func alter(v any) []string {
	switch t := v.(type) {
	case string:
		var out []string
		switch {
		case regexp.MustCompile(`^-?[0-9]+(\.[0-9]+)?$`).MatchString(t):
			// amount: change the last digit, and the precision
			last := t[len(t)-1]
			nd := byte('0' + (last-'0'+1)%10)
			out = append(out, jsonStr(t[:len(t)-1]+string(nd)))
			if strings.Contains(t, ".") {
				out = append(out, jsonStr(t+"0"))
			} else {
				out = append(out, jsonStr(t+".0"))
			}
		case regexp.MustCompile(`^-?[0-9]+(\.[0-9]+)?%$`).MatchString(t):
			out = append(out, jsonStr("1"+t))
		case regexp.MustCompile(`^\d{4}-\d{2}-\d{2}$`).MatchString(t):
			out = append(out, jsonStr(t[:8]+flipDay(t[8:])))
		case regexp.MustCompile(`^\d{4}-\d{2}-\d{2}T\d{2}:\d{2}:\d{2}$`).MatchString(t):
			// another second, and the same reading in other zones (other instants)
			out = append(out, jsonStr(t[:17]+flipDay(t[17:])), jsonStr(t+"Z"), jsonStr(t+"+09:00"), jsonStr(t+".5"))
		case regexp.MustCompile(`^[A-Z]{2}$`).MatchString(t):
			// a country code: other codes, among them the alternative codes under
			// which one regime is registered (GB / XI / XU, EL / GR) - different
			// statements that a reader might fold into one
			for _, c := range []string{"GB", "XI", "XU", "EL", "GR", "ES", "PT"} {
				if c != t {
					out = append(out, jsonStr(c))
				}
			}
			out = append(out, jsonStr(t+"x"))
		default:
			out = append(out, jsonStr(t+"x"), jsonStr(strings.ToUpper(t)+"-"))
		}
		// the same text spelled with other code points (composed / decomposed
		// accents) is other content: a text is its code points
		if d := norm.NFD.String(t); d != t {
			out = append(out, jsonStr(d))
		}
		if c := norm.NFC.String(t); c != t {
			out = append(out, jsonStr(c))
		}
		return out
	case json.Number:
		n := string(t)
		out := []string{n + "1"}
		// sign flip
		if strings.HasPrefix(n, "-") {
			out = append(out, n[1:])
		} else if n != "0" {
			out = append(out, "-"+n)
		}
		return out
	case bool:
		if t {
			return []string{"false"}
		}
		return []string{"true"}
	}
	return nil
}

func flipDay(d string) string {
	if d == "01" {
		return "02"
	}
	return "01"
}

func jsonStr(s string) string {
	out, _ := json.Marshal(s)
	return string(out)
}

// donorKey identifies a position independently of the example: the $schema of
// the nearest enclosing object that declares one (documents and complements
// are polymorphic) plus the index-free pointer below it.
func donorKey(tree any, ptr string) string {
	parts := strings.Split(ptr, "/")
	for n := len(parts); n >= 1; n-- {
		prefix := strings.Join(parts[:n], "/")
		if v, ok := jsontree.Get(tree, prefix); ok {
			if m, ok := v.(map[string]any); ok {
				if sc, ok := m["$schema"].(string); ok {
					return sc + ":" + idxRe.ReplaceAllString(strings.Join(parts[n:], "/"), "/*") + idxSuffix(parts[n:])
				}
			}
		}
	}
	return "?:" + idxRe.ReplaceAllString(ptr, "/*")
}

func idxSuffix(_ []string) string { return "" }

// donors: members seen at the same (index-free) position in other examples
var donors map[string]map[string]any

func loadDonors() {
	if donors != nil {
		return
	}
	loadBases()
	donors = map[string]map[string]any{}
	for _, b := range bases {
		for _, n := range jsontree.Nodes(b.tree) {
			if !strings.HasPrefix(n.Ptr, "/doc") {
				continue
			}
			if m, ok := n.Value.(map[string]any); ok {
				key := donorKey(b.tree, n.Ptr)
				if donors[key] == nil {
					donors[key] = map[string]any{}
				}
				for k, v := range m {
					if _, seen := donors[key][k]; !seen && k != "$schema" {
						donors[key][k] = v
					}
				}
			}
		}
	}
	// members that the published schemas declare at a position and no example
	// carries there: a small instance built from the schema stands in as donor
	s := pubschema.MustLoad()
	envRoot, _ := s.Root(pubschema.FullID("envelope"))
	var walk func(b *base, v any, sch pubschema.Node, ptr string)
	walk = func(b *base, v any, sch pubschema.Node, ptr string) {
		switch t := v.(type) {
		case map[string]any:
			if id, ok := t["$schema"].(string); ok {
				if r, ok := s.Root(id); ok {
					sch = r
				}
			}
			names, nodes := s.Props(sch)
			if strings.HasPrefix(ptr, "/doc") {
				key := donorKey(b.tree, ptr)
				if donors[key] == nil {
					donors[key] = map[string]any{}
				}
				for _, name := range names {
					if s.Kind(nodes[name]) == "map" {
						mapMember[key+"\x00"+name] = true
					}
					if _, seen := donors[key][name]; !seen && !strings.HasPrefix(name, "$") {
						donors[key][name] = schemaSample(s, nodes[name])
						schemaDonors++
					}
				}
			}
			for _, name := range names {
				if child, has := t[name]; has {
					walk(b, child, nodes[name], ptr+"/"+strings.NewReplacer("~", "~0", "/", "~1").Replace(name))
				}
			}
		case []any:
			if it, ok := s.Items(sch); ok {
				for i, e := range t {
					walk(b, e, it, fmt.Sprintf("%s/%d", ptr, i))
				}
			}
		}
	}
	for _, b := range bases {
		walk(b, b.tree, envRoot, "")
	}
}

var schemaDonors int

// mapMember: (position, member) pairs whose published type is a map of texts
var mapMember = map[string]bool{}

// schemaSample is a small instance of a member that survives parse and
// serialise if the member is read at all: lists carry one element, maps one
// entry, objects their required members.
func schemaSample(s *pubschema.Set, n pubschema.Node) any {
	switch s.Kind(n) {
	case "array":
		if it, ok := s.Items(n); ok {
			return []any{schemaSample(s, it)}
		}
		return []any{"x"}
	case "map":
		return map[string]any{"abc": "ABC"}
	case "object":
		if m, ok := s.Sample(n, 0).(map[string]any); ok && len(m) > 0 {
			return m
		}
		// nothing required: give it its first scalar member
		names, nodes := s.Props(n)
		for _, name := range names {
			if k := s.Kind(nodes[name]); k == "scalar" && !strings.HasPrefix(name, "$") {
				return map[string]any{name: s.Sample(nodes[name], 0)}
			}
		}
		return map[string]any{}
	}
	return s.Sample(n, 0)
}

func editsOf(b *base, yield func(Edit) bool) bool {
	loadDonors()
	for _, n := range jsontree.Nodes(b.tree) {
		if !strings.HasPrefix(n.Ptr, "/doc/") {
			continue
		}
		switch n.Kind {
		case "string", "number", "bool":
			for _, v := range alter(n.Value) {
				if !yield(Edit{Doc: b.path, Kind: "set", Ptr: n.Ptr, Value: json.RawMessage(v)}) {
					return false
				}
			}
		case "array":
			a := n.Value.([]any)
			if len(a) >= 2 {
				if !yield(Edit{Doc: b.path, Kind: "swap", Ptr: n.Ptr, I: 0, J: len(a) - 1}) {
					return false
				}
			}
			if len(a) >= 1 {
				if !yield(Edit{Doc: b.path, Kind: "drop", Ptr: fmt.Sprintf("%s/%d", n.Ptr, len(a)-1)}) {
					return false
				}
				if !yield(Edit{Doc: b.path, Kind: "dup", Ptr: n.Ptr + "/0"}) {
					return false
				}
			}
		case "object":
			m := n.Value.(map[string]any)
			// a map of texts (extensions, meta) that is present: an entry whose value
			// is the empty text, added next to the others, is a member added
			if i := strings.LastIndex(n.Ptr, "/"); i > 0 {
				name := strings.NewReplacer("~1", "/", "~0", "~").Replace(n.Ptr[i+1:])
				if mapMember[donorKey(b.tree, n.Ptr[:i])+"\x00"+name] {
					if _, has := m["zz-empty"]; !has {
						if !yield(Edit{Doc: b.path, Kind: "add", Ptr: n.Ptr + "/zz-empty", Value: json.RawMessage(`""`)}) {
							return false
						}
					}
				}
			}
			key := donorKey(b.tree, n.Ptr)
			ks := make([]string, 0)
			for k := range donors[key] {
				if _, has := m[k]; !has {
					ks = append(ks, k)
				}
			}
			sort.Strings(ks)
			for _, k := range ks {
				if !yield(Edit{Doc: b.path, Kind: "add", Ptr: n.Ptr + "/" + k, Value: json.RawMessage(jsontree.Encode(donors[key][k]))}) {
					return false
				}
				// a map may hold an entry whose value is the empty text: present is not absent
				if mapMember[key+"\x00"+k] {
					if !yield(Edit{Doc: b.path, Kind: "add", Ptr: n.Ptr + "/" + k, Value: json.RawMessage(`{"abc":""}`)}) {
						return false
					}
				}
			}
		}
		// every member / element can be removed
		if !yield(Edit{Doc: b.path, Kind: "delete", Ptr: n.Ptr}) {
			return false
		}
	}
	return true
}

// judgeEdit wraps the oracle: a panic while handling an edited document is the
// subject of property C14 (where it is reported with its call site); here the
// case is set aside and counted.
func judgeEdit(e Edit, o *vh.Obs) {
	defer func() {
		if r := recover(); r != nil {
			o.Class("panicked-see-C14")
			o.Discard()
		}
	}()
	judgeEdit2(e, o)
}

func judgeEdit2(e Edit, o *vh.Obs) {
	loadBases()
	b := baseByPath[e.Doc]
	if b == nil {
		o.Discard()
		return
	}
	o.Class("edit-" + e.Kind)
	if string(e.Value) == `{"abc":""}` || string(e.Value) == `""` {
		o.Class("add-map-entry-with-empty-value")
	}
	edited, err := apply(b.tree, e)
	if err != nil {
		o.Class("inapplicable")
		o.Discard()
		return
	}
	text := jsontree.Encode(edited)
	env := new(gobl.Envelope)
	if err := json.Unmarshal(text, env); err != nil {
		o.Class("unparseable")
		o.Discard()
		return
	}
	if env.Document == nil || env.Head == nil || env.Head.Digest == nil {
		o.Discard()
		return
	}
	j2, err := docTree(env)
	if err != nil {
		o.Class("unserialisable")
		o.Discard()
		return
	}
	where := idxRe.ReplaceAllString(e.Ptr, "/*")
	// an envelope value that held the original before (a decoder reading a
	// stream of envelopes into one variable) must read the edited text exactly
	// like a fresh one: what it held is no part of what it reads
	reused := new(gobl.Envelope)
	if err := json.Unmarshal(jsontree.Encode(b.tree), reused); err == nil {
		if err := json.Unmarshal(text, reused); err == nil && reused.Document != nil {
			if jr, err := docTree(reused); err == nil && !jsontree.Equal(jr, j2) {
				o.Failf("parse:depends-on-previous-content:"+e.Kind+":"+where, "edit %s %s: an envelope that held the original before reads the edited text differently from a fresh envelope (what was removed or changed is still there)", e.Kind, e.Ptr)
				return
			}
		}
	}
	if jsontree.Equal(j2, b.doc) {
		// the parser normalised the edit away: nothing changed, so the envelope must still validate
		o.Class("normalised-away")
		o.Class("normalised-away:" + e.Kind + ":" + where)
		if err := env.Validate(); err != nil {
			o.Failf("unchanged:rejected", "edit %s %s leaves the parsed document identical, yet validation fails: %v", e.Kind, e.Ptr, err)
		}
		if e.Kind == "set" {
			// every alteration tried means something else than the value it replaces
			// (another number, precision, day, second, zone, text): a parser that reads
			// both as the same content hides the change from the digest
			o.Failf("blind-spot:alteration-lost:"+where, "the value at %s altered to %s is read back as the same content, so the change can never be evident", e.Ptr, e.Value)
		}
		if e.Kind == "add" {
			// a member that valid examples of the same schema carry at this very
			// position did not survive parse -> marshal: the digest is blind to it
			o.Failf("blind-spot:member-dropped:"+where, "member added at %s (taken from another example of the same schema) vanishes on parse, so changes to it can never be evident", e.Ptr)
		}
		return
	}
	o.NonTrivial()
	o.Class("content-changed")
	d2, err := env.Digest()
	if err != nil {
		// cannot be digested at all: certainly not accepted silently
		if env.Validate() == nil {
			o.Failf("changed:undigestable-but-valid:"+where, "edit %s %s: digest fails (%v) but the envelope validates", e.Kind, e.Ptr, err)
		}
		return
	}
	if d2.Value == b.dig {
		o.Failf("changed:same-digest:"+e.Kind+":"+where, "edit %s %s changes the document but not its digest %s", e.Kind, e.Ptr, b.dig)
		return
	}
	verr := env.Validate()
	if verr == nil {
		o.Failf("changed:validates:"+e.Kind+":"+where, "edit %s %s changes the document, yet the envelope still validates with the old digest", e.Kind, e.Ptr)
		return
	}
	// is the edited document otherwise valid? recalculate a copy and validate it
	c2 := new(gobl.Envelope)
	if err := json.Unmarshal(text, c2); err != nil {
		return
	}
	if err := c2.Calculate(); err != nil {
		o.Class("edit-incalculable")
		return
	}
	j3, err := docTree(c2)
	if err != nil {
		return
	}
	// after recalculating, the digest differs from the previous one iff the content still differs
	if jsontree.Equal(j3, b.doc) {
		o.Class("recalculation-restores")
		if c2.Head.Digest.Value != b.dig {
			o.Failf("recalc:digest-changed-content-same", "edit %s %s is undone by recalculation, yet the digest changed", e.Kind, e.Ptr)
		}
	} else if c2.Head.Digest.Value == b.dig {
		o.Failf("recalc:same-digest:"+where, "edit %s %s: after recalculating, the document differs from the original but the digest is the same", e.Kind, e.Ptr)
		return
	}
	if c2.Validate() == nil {
		o.Class("otherwise-valid")
		ge, ok := verr.(*gobl.Error)
		if !ok || ge.Key() != gobl.ErrDigest.Key() {
			// the stale envelope (before recalculation) may also be structurally invalid
			// because calculated fields no longer agree; only a digest key is required
			// when the un-recalculated edited document itself validates structurally
			if docOnlyValid(env) {
				o.Failf("changed:wrong-error-key:"+where, "edit %s %s of an otherwise valid document fails validation with %v instead of a digest error", e.Kind, e.Ptr, verr)
			}
		}
	}
	o.Note("%s %s %s", e.Doc, e.Kind, e.Ptr)
}

// docOnlyValid reports whether everything but the digest validates.
func docOnlyValid(env *gobl.Envelope) bool {
	if env.Document == nil {
		return false
	}
	if err := env.Document.Validate(); err != nil {
		return false
	}
	if env.Head == nil || env.Head.Validate() != nil {
		return false
	}
	return true
}

func quickBases() []*base {
	loadBases()
	if vh.Thorough() {
		return bases
	}
	// a spread of schemas / regimes: every 7th example plus all non-invoice documents
	var out []*base
	for i, b := range bases {
		if i%7 == 0 || !strings.Contains(b.path, "invoice") || strings.HasSuffix(b.path, "es/invoice-es-es.yaml#signed") || strings.HasSuffix(b.path, "#coords") {
			out = append(out, b)
		}
	}
	return out
}

func enumEdits(yield func(Edit) bool) {
	cfg := vh.Cfg()
	idx := 0
	for _, b := range quickBases() {
		ok := editsOf(b, func(e Edit) bool {
			idx++
			if idx%cfg.Shards != cfg.Shard {
				return true
			}
			return yield(e)
		})
		if !ok {
			return
		}
	}
}

// ---------------------------------------------------------------------------
// content preserving re-encodings

type Reenc struct {
	Doc      string `json:"doc"`
	Seed     uint64 `json:"seed"`
	Escapes  bool   `json:"escapes"`
	Spaces   bool   `json:"spaces"`
	BareNums bool   `json:"bare_numbers"`
	Reversed bool   `json:"reversed"`
	// Astral: the header notes (not part of the digest) hold characters outside
	// the basic plane, which the escaped form writes as surrogate pairs
	Astral    bool `json:"astral,omitempty"`
	rendering []byte
}

func render(v any, r Reenc, rng *uint64, inDoc bool, sb *strings.Builder) {
	next := func() uint64 {
		*rng = *rng*6364136223846793005 + 1442695040888963407
		return *rng >> 33
	}
	sp := func() {
		if r.Spaces {
			sb.WriteString([]string{"", " ", "\n", "\t ", "  "}[next()%5])
		}
	}
	switch t := v.(type) {
	case map[string]any:
		ks := make([]string, 0, len(t))
		for k := range t {
			ks = append(ks, k)
		}
		sort.Strings(ks)
		if r.Reversed {
			for i, j := 0, len(ks)-1; i < j; i, j = i+1, j-1 {
				ks[i], ks[j] = ks[j], ks[i]
			}
		} else {
			// pseudo-random shuffle
			for i := len(ks) - 1; i > 0; i-- {
				j := int(next() % uint64(i+1))
				ks[i], ks[j] = ks[j], ks[i]
			}
		}
		sb.WriteByte('{')
		for i, k := range ks {
			if i > 0 {
				sb.WriteByte(',')
			}
			sp()
			writeString(sb, k, r.Escapes && next()%2 == 0)
			sp()
			sb.WriteByte(':')
			sp()
			render(t[k], r, rng, inDoc || k == "doc", sb)
		}
		sp()
		sb.WriteByte('}')
	case []any:
		sb.WriteByte('[')
		for i, x := range t {
			if i > 0 {
				sb.WriteByte(',')
			}
			sp()
			render(x, r, rng, inDoc, sb)
		}
		sp()
		sb.WriteByte(']')
	case string:
		writeString(sb, t, r.Escapes && next()%2 == 0)
	default:
		out, _ := json.Marshal(t)
		sb.Write(out)
	}
}

func writeString(sb *strings.Builder, s string, escape bool) {
	if !escape {
		out, _ := json.Marshal(s)
		sb.Write(out)
		return
	}
	sb.WriteByte('"')
	short := map[rune]string{'/': `\/`, '"': `\"`, '\\': `\\`, '\b': `\b`, '\f': `\f`, '\n': `\n`, '\r': `\r`, '\t': `\t`}
	for i, r := range s {
		if se, ok := short[r]; ok && (i+len(s))%2 == 0 {
			// the two-character escapes of JSON, among them the solidus that only JSON knows
			sb.WriteString(se)
			continue
		}
		if r < 0x10000 {
			fmt.Fprintf(sb, `\u%04x`, r)
		} else {
			r -= 0x10000
			fmt.Fprintf(sb, `\u%04x\u%04x`, 0xd800+(r>>10), 0xdc00+(r&0x3ff))
		}
	}
	sb.WriteByte('"')
}

func judgeReenc(r Reenc, o *vh.Obs) {
	loadBases()
	b := baseByPath[r.Doc]
	if b == nil {
		o.Discard()
		return
	}
	rng := r.Seed | 1
	var sb strings.Builder
	tree := b.tree
	if root, ok := tree.(map[string]any); ok && r.Astral {
		o.Class("astral-notes")
		cp := map[string]any{}
		for k, v := range root {
			cp[k] = v
		}
		hd := map[string]any{}
		if h, ok := root["head"].(map[string]any); ok {
			for k, v := range h {
				hd[k] = v
			}
		}
		hd["notes"] = "Smile \U0001F600 \U0001D11E"
		cp["head"] = hd
		tree = cp
	}
	render(tree, r, &rng, false, &sb)
	text := []byte(sb.String())
	if !json.Valid(text) {
		o.Failf("harness:invalid-rendering", "renderer produced invalid JSON")
		return
	}
	if r.Escapes || r.Spaces {
		o.NonTrivial()
	}
	o.NonTrivial()
	env := new(gobl.Envelope)
	if err := json.Unmarshal(text, env); err != nil {
		o.Failf("reencoded:unparseable", "re-encoded envelope does not parse: %v", err)
		return
	}
	if err := env.Validate(); err != nil {
		o.Failf("reencoded:rejected", "envelope re-serialised with different member order / whitespace / escapes fails validation: %v", err)
		return
	}
	// the same text through the entry point of the command line, bulk and HTTP
	if err := cli.Validate(context.Background(), bytes.NewReader(text)); err != nil {
		o.Failf("reencoded:rejected-by-cli", "envelope re-serialised with different member order / whitespace / escapes validates in the library and fails cli.Validate: %v", err)
		return
	}
	d, err := env.Digest()
	if err != nil || d.Value != b.dig {
		o.Failf("reencoded:digest", "re-encoded envelope digests to %v (%v), original %s", d, err, b.dig)
		return
	}
	// and recalculating it gives the same digest again
	if err := env.Calculate(); err != nil {
		o.Failf("reencoded:recalculate", "re-encoded envelope fails to recalculate: %v", err)
		return
	}
	if env.Head.Digest.Value != b.dig {
		o.Failf("reencoded:recalculated-digest", "re-encoded envelope recalculates to digest %s, original %s", env.Head.Digest.Value, b.dig)
	}
}

func genReenc(t *rapid.T) Reenc {
	loadBases()
	b := bases[rapid.IntRange(0, len(bases)-1).Draw(t, "doc")]
	return Reenc{
		Doc:      b.path,
		Seed:     rapid.Uint64().Draw(t, "seed"),
		Escapes:  rapid.Bool().Draw(t, "escapes"),
		Spaces:   rapid.Bool().Draw(t, "spaces"),
		Reversed: rapid.IntRange(0, 4).Draw(t, "rev") == 0,
		Astral:   rapid.IntRange(0, 2).Draw(t, "astral") == 0,
	}
}

func genEdit(t *rapid.T) Edit {
	loadBases()
	b := bases[rapid.IntRange(0, len(bases)-1).Draw(t, "doc")]
	var all []Edit
	editsOf(b, func(e Edit) bool { all = append(all, e); return true })
	return all[rapid.IntRange(0, len(all)-1).Draw(t, "edit")]
}

func init() {
	vh.Describe(
		"Bases: every example document, enveloped, calculated and valid (quick: a spread of 1 in 7 plus all non-invoice documents for the exhaustive sweep; thorough: all). Exhaustive single edits of the serialised doc: every leaf altered to another value of its type (amounts: digit and precision; percentages; dates; date-times: second, zone designator, fraction; country codes: other codes including the alternative codes of one regime; strings, also respelled with decomposed / composed accents; booleans) - an alteration that is read back as the same content is a blind spot -, every member and element removed, every member that other examples carry at the same position, or that the published schema declares there (a small instance built from the schema: lists with one element, maps with one entry - also one whose value is the empty text, and such an entry added to every map that is present -, objects with their required members), added, arrays swapped / shortened / duplicated; plus rapid sampling of edits over all bases, and random content-preserving re-encodings (member order, whitespace, \\u escapes and the two-character escapes of JSON, the solidus among them; for a third the header notes hold characters outside the basic plane, escaped as surrogate pairs), which must validate in the library and through cli.Validate, the entry point of the command line, bulk and HTTP. Oracle: J(x) = JSON of marshal(parse(x).doc), the same whether x is read into a fresh envelope or into one that held the original before; J equal => validates with the same digest; J different => Digest() differs from head.dig, Validate() fails (with the digest key when everything else validates), and after Calculate() the digest equals the original iff J does. Non-trivial: the edit changes J (it is not normalised away by the parser).",
		"members the parser does not know are not part of the logical content (they vanish on parse); additions therefore use members other examples carry at the same position or the published schemas declare there",
	)
	vh.Enum("edits", enumEdits, judgeEdit)
	vh.Rapid("edits_sampled", 6_000, 600_000, genEdit, judgeEdit)
	vh.Rapid("reencodings", 3_000, 200_000, genReenc, judgeReenc)
}
