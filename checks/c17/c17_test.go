// Package c17 decides property C17: totals are symmetric under negation,
// independent of row order, and removing included taxes preserves the amount
// to pay.
package c17

import (
	"encoding/json"
	"fmt"
	"math/big"
	"os"
	"path/filepath"
	"regexp"
	"sort"
	"strings"
	"testing"

	"github.com/invopop/gobl/bill"
	"github.com/invopop/gobl/verifharness/internal/billrun"
	"github.com/invopop/gobl/verifharness/internal/docgen"
	"github.com/invopop/gobl/verifharness/internal/ratref"
	"github.com/invopop/gobl/verifharness/internal/refcalc"
	"github.com/invopop/gobl/verifharness/internal/vh"
	"pgregory.net/rapid"
)

func TestMain(m *testing.M) { vh.Main(m, "C17") }

func TestAll(t *testing.T) { vh.RunAll(t) }

var idxRe = regexp.MustCompile(`\[\d+\]`)

// overPrecise is set by classify: the plan supplies a fixed amount finer than
// its presented precision (the recorded C04 finding: such documents do not
// recalculate to the same figures, and Invert recalculates).
func classify(p docgen.Plan, out *billrun.Outcome, o *vh.Obs) bool {
	_, ok := classify2(p, out, o)
	return ok
}

func classify2(p docgen.Plan, out *billrun.Outcome, o *vh.Obs) (over bool, ok bool) {
	ref, err := refcalc.Calculate(p, out.Env, out.Rows)
	if err != nil {
		return false, true
	}
	over = refcalc.OverPreciseFixed(p, out.Env.C, ref.Prices)
	if over {
		o.Class("over-precise-fixed-amount")
	}
	if ref.Stats.OutOfDomain {
		o.Class("outside-2^52-domain")
		o.Discard()
		return over, false
	}
	rows := len(p.Lines) + len(p.Discounts) + len(p.Charges)
	if ref.Stats.Roundings > 0 && rows >= 2 {
		o.NonTrivial()
	}
	if ref.Stats.Roundings > 0 {
		o.Class("rounded")
	}
	if ref.Stats.Ties > 0 {
		o.Class("tie")
	}
	o.Class("rule-" + out.Env.Rule)
	return over, true
}

// numeric reports whether the path holds an amount whose sign flips under negation.
func inScope(path string) bool {
	if strings.HasSuffix(path, "percent") || strings.HasSuffix(path, ".code") || strings.HasSuffix(path, ".retained") ||
		strings.HasSuffix(path, ".country") || strings.HasSuffix(path, ".ext") || strings.HasSuffix(path, ".base") && !strings.Contains(path, "taxes.") {
		return false
	}
	if strings.HasPrefix(path, "totals.") {
		return true
	}
	// line sums and totals
	return regexp.MustCompile(`^lines\[\d+\]\.(sum|total)$`).MatchString(path)
}

func negText(s string) (string, bool) {
	d, err := ratref.ParseDec(s)
	if err != nil {
		return "", false
	}
	return ratref.Dec{Units: new(big.Int).Neg(d.Units), Exp: d.Exp}.String(), true
}

// ---------------------------------------------------------------------------
// inversion

func judgeInvert(p docgen.Plan, o *vh.Obs) {
	obj, err := billrun.Parse(p.JSON())
	if err != nil || obj.Calculate() != nil {
		o.Class("calc-error")
		o.Discard()
		return
	}
	inv, ok := obj.Instance().(*bill.Invoice)
	if !ok {
		o.Discard()
		return
	}
	orig, err := billrun.FiguresOf(p, obj)
	if err != nil {
		o.Discard()
		return
	}
	if inv.Totals == nil {
		// nothing priced: Invert needs totals
		o.Class("no-totals")
		o.Discard()
		return
	}
	over, okc := classify2(p, orig, o)
	if !okc {
		return
	}
	sigOf := func(s string) string {
		if over {
			return "invert:over-precise-fixed-amount"
		}
		return s
	}
	for _, l := range p.Lines {
		for _, a := range append(append([]docgen.LineAdj{}, l.Discounts...), l.Charges...) {
			if a.Base != "" {
				o.Class("explicit-base")
			}
			if a.Quantity != "" {
				o.Class("charge-quantity")
			}
		}
	}
	if p.TotalsRounding != "" {
		o.Class("totals-rounding")
	}
	if err := inv.Invert(); err != nil {
		o.Failf(sigOf("invert:error"), "Invert() failed: %v", err)
		return
	}
	inverted, err := billrun.FiguresOf(p, obj)
	if err != nil {
		o.Failf("invert:unserialisable", "inverted invoice does not serialise: %v", err)
		return
	}
	for path, v := range orig.Figures {
		if !inScope(path) {
			continue
		}
		want, ok := negText(v)
		if !ok {
			continue
		}
		got, present := inverted.Figures[path]
		if !present {
			o.Failf("invert:missing:"+idxRe.ReplaceAllString(path, "[]"), "%s = %s in the original, absent after Invert()", path, v)
			return
		}
		gd, _ := ratref.ParseDec(got)
		wd, _ := ratref.ParseDec(want)
		if gd.Units == nil || gd.Units.Cmp(wd.Units) != 0 || gd.Exp != wd.Exp {
			o.Failf(sigOf("invert:not-negated:"+idxRe.ReplaceAllString(path, "[]")), "%s = %s in the original, %s after Invert() (expected %s)", path, v, got, want)
			return
		}
	}
	for path := range inverted.Figures {
		if inScope(path) {
			if _, ok := orig.Figures[path]; !ok {
				o.Failf("invert:extra:"+idxRe.ReplaceAllString(path, "[]"), "%s appears only after Invert()", path)
				return
			}
		}
	}
	// twice restores the original
	if err := inv.Invert(); err != nil {
		o.Failf(sigOf("invert:second-error"), "second Invert() failed: %v", err)
		return
	}
	twice, err := billrun.FiguresOf(p, obj)
	if err != nil {
		o.Failf("invert:unserialisable", "doubly inverted invoice does not serialise: %v", err)
		return
	}
	for path, v := range orig.Figures {
		if !inScope(path) {
			continue
		}
		got := twice.Figures[path]
		gd, e1 := ratref.ParseDec(got)
		wd, e2 := ratref.ParseDec(v)
		if e1 != nil || e2 != nil || gd.Units.Cmp(wd.Units) != 0 || gd.Exp != wd.Exp {
			o.Failf(sigOf("invert:twice:"+idxRe.ReplaceAllString(path, "[]")), "%s = %s in the original, %s after inverting twice", path, v, got)
			return
		}
	}
	o.Note("payable %s -> %s", orig.Figures["totals.payable"], inverted.Figures["totals.payable"])
}

// ---------------------------------------------------------------------------
// permutation

type PermCase struct {
	Plan      docgen.Plan `json:"plan"`
	Lines     []int       `json:"lines"`     // new order of lines (indices into the original)
	Discounts []int       `json:"discounts"` // likewise
	Charges   []int       `json:"charges"`
	LineAdj   bool        `json:"line_adj"` // also reverse each line's own discounts and charges
}

func permuted(c PermCase) docgen.Plan {
	p := c.Plan
	q := p
	q.Lines = make([]docgen.Line, len(p.Lines))
	for i, j := range c.Lines {
		q.Lines[i] = p.Lines[j]
		if c.LineAdj {
			l := q.Lines[i]
			l.Discounts = reverse(l.Discounts)
			l.Charges = reverse(l.Charges)
			q.Lines[i] = l
		}
	}
	q.Discounts = make([]docgen.DocAdj, len(p.Discounts))
	for i, j := range c.Discounts {
		q.Discounts[i] = p.Discounts[j]
	}
	q.Charges = make([]docgen.DocAdj, len(p.Charges))
	for i, j := range c.Charges {
		q.Charges[i] = p.Charges[j]
	}
	return q
}

func reverse(a []docgen.LineAdj) []docgen.LineAdj {
	out := make([]docgen.LineAdj, len(a))
	for i := range a {
		out[len(a)-1-i] = a[i]
	}
	return out
}

// taxGroups flattens the tax summary into a multiset keyed by what
// distinguishes a group.
func taxGroups(f map[string]string) map[string]string {
	out := map[string]string{}
	for ci := 0; ; ci++ {
		cp := fmt.Sprintf("totals.taxes.categories[%d]", ci)
		code, ok := f[cp+".code"]
		if !ok {
			break
		}
		out["cat:"+code] = f[cp+".amount"] + "|" + f[cp+".surcharge"] + "|" + f[cp+".retained"]
		for ri := 0; ; ri++ {
			rp := fmt.Sprintf("%s.rates[%d]", cp, ri)
			if _, ok := f[rp+".base"]; !ok {
				break
			}
			pct := "exempt"
			if s, ok := f[rp+".percent"]; ok {
				if d, err := refcalc.ParsePercent(s); err == nil {
					pct = d.Rat().RatString()
				}
			}
			sur := ""
			if s, ok := f[rp+".surcharge.percent"]; ok {
				if d, err := refcalc.ParsePercent(s); err == nil {
					sur = d.Rat().RatString()
				}
			}
			key := fmt.Sprintf("rate:%s/%s/%s/%s/%s", code, pct, sur, f[rp+".ext"], f[rp+".country"])
			out[key] = f[rp+".base"] + "|" + f[rp+".amount"] + "|" + f[rp+".surcharge.amount"]
		}
	}
	return out
}

func judgePerm(c PermCase, o *vh.Obs) {
	p := c.Plan
	if len(c.Lines) != len(p.Lines) || len(c.Discounts) != len(p.Discounts) || len(c.Charges) != len(p.Charges) {
		o.Discard()
		return
	}
	a := billrun.Run(p)
	if a.Err != nil {
		o.Class("calc-error")
		o.Discard()
		return
	}
	if !classify(p, a, o) {
		return
	}
	q := permuted(c)
	b := billrun.Run(q)
	if b.Err != nil {
		o.Failf("permute:error", "the reordered document fails to calculate: %v", b.Err)
		return
	}
	moved := false
	for i, j := range c.Lines {
		if i != j {
			moved = true
		}
	}
	for i, j := range c.Discounts {
		if i != j {
			moved = true
		}
	}
	for i, j := range c.Charges {
		if i != j {
			moved = true
		}
	}
	if !moved && !c.LineAdj {
		o.Class("identity-permutation")
	}
	// per-row figures, matched by row identity
	for i, j := range c.Lines {
		for _, k := range []string{".sum", ".total", ".item.price"} {
			x, y := a.Figures[fmt.Sprintf("lines[%d]%s", j, k)], b.Figures[fmt.Sprintf("lines[%d]%s", i, k)]
			if x != y {
				o.Failf("permute:line"+k, "line %d%s = %s, after moving it to position %d it is %s", j, k, x, i, y)
				return
			}
		}
	}
	for i, j := range c.Discounts {
		x, y := a.Figures[fmt.Sprintf("discounts[%d].amount", j)], b.Figures[fmt.Sprintf("discounts[%d].amount", i)]
		if x != y {
			o.Failf("permute:discount-amount", "discount %d amount = %s, after moving it to position %d it is %s", j, x, i, y)
			return
		}
	}
	for i, j := range c.Charges {
		x, y := a.Figures[fmt.Sprintf("charges[%d].amount", j)], b.Figures[fmt.Sprintf("charges[%d].amount", i)]
		if x != y {
			o.Failf("permute:charge-amount", "charge %d amount = %s, after moving it to position %d it is %s", j, x, i, y)
			return
		}
	}
	for _, k := range []string{"sum", "discount", "charge", "tax_included", "total", "tax", "total_with_tax", "payable", "advance", "due"} {
		x, xo := a.Figures["totals."+k]
		y, yo := b.Figures["totals."+k]
		if x != y || xo != yo {
			o.Failf("permute:totals."+k, "totals.%s = %q, after reordering rows %q", k, x, y)
			return
		}
	}
	if x, y := a.Figures["totals.taxes.sum"], b.Figures["totals.taxes.sum"]; x != y {
		o.Failf("permute:taxes.sum", "totals.taxes.sum = %q, after reordering rows %q", x, y)
		return
	}
	ga, gb := taxGroups(a.Figures), taxGroups(b.Figures)
	keys := map[string]bool{}
	for k := range ga {
		keys[k] = true
	}
	for k := range gb {
		keys[k] = true
	}
	ks := make([]string, 0, len(keys))
	for k := range keys {
		ks = append(ks, k)
	}
	sort.Strings(ks)
	for _, k := range ks {
		if ga[k] != gb[k] {
			o.Failf("permute:tax-group", "tax group %s = %q, after reordering rows %q", k, ga[k], gb[k])
			return
		}
	}
	o.Note("lines %v discounts %v charges %v payable %s", c.Lines, c.Discounts, c.Charges, a.Figures["totals.payable"])
}

func genPerm(t *rapid.T) PermCase {
	p := docgen.GenPlan(t, docgen.Opts{MaxLines: 5})
	return PermCase{
		Plan:      p,
		Lines:     rapid.Permutation(seq(len(p.Lines))).Draw(t, "lineorder"),
		Discounts: rapid.Permutation(seq(len(p.Discounts))).Draw(t, "discorder"),
		Charges:   rapid.Permutation(seq(len(p.Charges))).Draw(t, "chrgorder"),
		LineAdj:   rapid.Bool().Draw(t, "lineadj"),
	}
}

func seq(n int) []int {
	out := make([]int, n)
	for i := range out {
		out[i] = i
	}
	return out
}

// ---------------------------------------------------------------------------
// removing included taxes

func judgeRemove(p docgen.Plan, o *vh.Obs) {
	obj, err := billrun.Parse(p.JSON())
	if err != nil || obj.Calculate() != nil {
		o.Class("calc-error")
		o.Discard()
		return
	}
	inv, ok := obj.Instance().(*bill.Invoice)
	if !ok || inv.Totals == nil {
		o.Discard()
		return
	}
	orig, err := billrun.FiguresOf(p, obj)
	if err != nil {
		o.Discard()
		return
	}
	if !classify(p, orig, o) {
		return
	}
	if p.PricesInclude == "" {
		o.Class("no-included-tax")
	}
	twt := orig.Figures["totals.total_with_tax"]
	if err := inv.RemoveIncludedTaxes(); err != nil {
		o.Class("remove-error")
		o.Discard() // the property speaks about the result when one is yielded
		return
	}
	after, err := billrun.FiguresOf(p, obj)
	if err != nil {
		o.Failf("remove:unserialisable", "%v", err)
		return
	}
	if p.PricesInclude == "" {
		// nothing to remove: must be untouched
		if after.Figures["totals.payable"] != orig.Figures["totals.payable"] {
			o.Failf("remove:changed-without-included-tax", "payable changed from %s to %s although no tax was included", orig.Figures["totals.payable"], after.Figures["totals.payable"])
		}
		return
	}
	o.NonTrivial()
	if tx, _ := after.Doc["tax"].(map[string]any); tx != nil {
		if s, _ := tx["prices_include"].(string); s != "" {
			o.Failf("remove:prices-include-kept", "tax.prices_include is still %q", s)
			return
		}
	}
	pay := after.Figures["totals.payable"]
	pd, e1 := ratref.ParseDec(pay)
	td, e2 := ratref.ParseDec(twt)
	if e1 != nil || e2 != nil || pd.Rat().Cmp(td.Rat()) != 0 {
		o.Failf("remove:payable", "payable after removing included taxes is %s, the original total with tax was %s", pay, twt)
		return
	}
	// residue recorded in rounding (absent when zero)
	t2, _ := ratref.ParseDec(after.Figures["totals.total_with_tax"])
	residue := new(big.Rat).Sub(td.Rat(), t2.Rat())
	rnd, has := after.Figures["totals.rounding"]
	if residue.Sign() == 0 {
		if has {
			if rd, err := ratref.ParseDec(rnd); err != nil || rd.Units.Sign() != 0 {
				o.Failf("remove:rounding-without-residue", "rounding = %s although the totals already agree", rnd)
			}
		}
		o.Class("no-residue")
	} else {
		o.Class("residue")
		rd, err := ratref.ParseDec(rnd)
		// the presented total with tax is itself rounded: under the precise rule the
		// recorded residue may differ from the difference of the presented figures
		// by one minor unit (it is exact under the currency rule)
		tol := new(big.Rat)
		if orig.Env.Rule != "currency" {
			tol.SetFrac(big.NewInt(1), ratref.Pow10(orig.Env.C))
		}
		off := new(big.Rat)
		if err == nil {
			off.Sub(rd.Rat(), residue)
			off.Abs(off)
		}
		if !has || err != nil || off.Cmp(tol) > 0 {
			o.Failf("remove:residue", "residue %s between the original total with tax %s and the new one %s is recorded as rounding %q", residue.FloatString(4), twt, after.Figures["totals.total_with_tax"], rnd)
		}
	}
	o.Note("twt %s -> payable %s rounding %q", twt, pay, rnd)
}

func init() {
	vh.Describe(
		"Cases are invoice plans with the input variety of C01 (both rounding rules). (1) Invert(): every line sum/total, tax base/amount/surcharge and document total must be the exact negation (same decimals), and inverting twice restores them. (2) A drawn permutation of lines, document discounts and charges (and reversal of each line's own discounts/charges) must leave every row's figures, every total and every tax group (multiset keyed by category, percent, surcharge, extensions, country) unchanged. (3) RemoveIncludedTaxes(): payable equals the original total with tax, the residue sits in totals.rounding (absent when zero), prices_include is cleared. Non-trivial: the reference calculator saw a rounding remainder and the document has >= 2 rows (for 3: a tax is included).",
		"relations between two runs of the real code; the reference calculator only classifies cases",
	)
	genInv := func(t *rapid.T) docgen.Plan { return docgen.GenPlan(t, docgen.Opts{InvoiceOnly: true, MaxLines: 5}) }
	vh.Rapid("invert", 12_000, 800_000, genInv, judgeInvert)
	vh.Rapid("permute", 10_000, 800_000, genPerm, judgePerm)
	vh.Rapid("remove_included", 10_000, 600_000, genInv, judgeRemove)
	// cases that earlier runs shrank to (kept as plans under testdata/)
	vh.Enum("remove_regressions", func(yield func(docgen.Plan) bool) {
		if vh.Cfg().Shard != 0 {
			return
		}
		files, _ := filepath.Glob(filepath.Join(vh.Cfg().Root, "checks", "c17", "testdata", "remove-*.json"))
		sort.Strings(files)
		for _, f := range files {
			data, err := os.ReadFile(f)
			if err != nil {
				continue
			}
			var p docgen.Plan
			if json.Unmarshal(data, &p) == nil && !yield(p) {
				return
			}
		}
	}, judgeRemove)
}
