package c13

// Reference implementations of the national tax-identity checks.
//
// Every function below is written from the published national / EU VIES
// descriptions of the algorithm (weights, modulus, special remainders, letter
// tables), not from the repository's code. The repository was only consulted
// for the lengths / shapes it intends to accept and for how validation is
// called. Where the national rule is not something that can be settled
// offline with confidence (range restrictions, legacy formats, disputed
// letter/digit conventions ...) the reference answers "unsettled" and the
// oracle asserts nothing for that code; each such place carries a comment.

import (
	"regexp"
	"strings"
)

type verdict int

const (
	vInvalid verdict = iota
	vValid
	vUnsettled
)

// refResult is what a reference says about one normalised code.
type refResult struct {
	V       verdict
	Class   string // histogram class, also part of the failure signature
	Special bool   // the special-remainder branch (10 / 11 / 0 folding) is involved
}

func inv(class string) refResult        { return refResult{V: vInvalid, Class: class} }
func invSpecial(class string) refResult { return refResult{V: vInvalid, Class: class, Special: true} }
func ok(class string, special bool) refResult {
	return refResult{V: vValid, Class: class, Special: special}
}
func unsettled(class string) refResult { return refResult{V: vUnsettled, Class: "unsettled-" + class} }

func allDigits(s string) bool {
	if s == "" {
		return false
	}
	for i := 0; i < len(s); i++ {
		if s[i] < '0' || s[i] > '9' {
			return false
		}
	}
	return true
}

func allZero(s string) bool {
	for i := 0; i < len(s); i++ {
		if s[i] != '0' {
			return false
		}
	}
	return s != ""
}

func dv(b byte) int { return int(b - '0') }

func atoi(s string) int {
	n := 0
	for i := 0; i < len(s); i++ {
		n = n*10 + dv(s[i])
	}
	return n
}

// luhnCheck: check digit of the classic Luhn scheme for a digit string that
// does not yet carry its check digit (rightmost payload digit is doubled).
func luhnCheck(body string) (chk int, special bool) {
	sum := 0
	dbl := true
	for i := len(body) - 1; i >= 0; i-- {
		d := dv(body[i])
		if dbl {
			d *= 2
			if d > 9 {
				d -= 9
			}
		}
		sum += d
		dbl = !dbl
	}
	return (10 - sum%10) % 10, sum%10 == 0
}

// ---------------------------------------------------------------------------
// AT - UID: "U" + 7 digits + check. BMF: C9 = (10 - (R + C2+C4+C6+C8 + 4) mod 10) mod 10,
// R = sum over C3,C5,C7 of digit-sum(2*Ci).

func atCheck(body string) (int, bool) {
	s := 0
	for i := 0; i < 7; i++ {
		d := dv(body[i])
		if i%2 == 1 {
			d *= 2
			s += d/10 + d%10
		} else {
			s += d
		}
	}
	r := (s + 4) % 10
	return (10 - r) % 10, r == 0
}

func atRef(code string) refResult {
	if len(code) != 9 || code[0] != 'U' || !allDigits(code[1:]) {
		return inv("bad-format")
	}
	chk, sp := atCheck(code[1:8])
	if dv(code[8]) != chk {
		if sp {
			return invSpecial("bad-check-special")
		}
		return inv("bad-check")
	}
	return ok("valid", sp)
}

// ---------------------------------------------------------------------------
// BE - enterprise number: 10 digits, check = 97 - (first 8 digits mod 97), 01..97.

func beRef(code string) refResult {
	if !allDigits(code) || (len(code) != 9 && len(code) != 10) {
		return inv("bad-format")
	}
	full := code
	if len(code) == 9 {
		full = "0" + code
	}
	n := atoi(full[:8])
	want := 97 - n%97
	got := atoi(full[8:])
	sp := n%97 == 0
	if got != want {
		if sp && got == 0 {
			return invSpecial("bad-check-special")
		}
		return inv("bad-check")
	}
	switch {
	case len(code) == 9:
		// The pre-2008 nine digit form is a legacy notation; whether it is
		// still "the national format" is a policy question, not an algorithm.
		return unsettled("be-9-digit-legacy")
	case full[0] == '1':
		// Numbers starting with 1 are announced by the KBO/BCE and listed by
		// VIES ("0 or 1"); the repository only takes a leading 0. Probably a
		// gap, but not confirmable offline - not asserted.
		return unsettled("be-leading-1")
	case full[0] != '0':
		return inv("bad-format-leading")
	case full[1] == '0':
		// 00xxxxxxxx: the repository refuses a zero second digit (inherited
		// from jsvat); no national source at hand either way.
		return unsettled("be-00-prefix")
	}
	return ok("valid", sp)
}

// ---------------------------------------------------------------------------
// BR - CNPJ: 12 + 2 check digits, weights 5,4,3,2,9,8,7,6,5,4,3,2 and
// 6,5,4,3,2,9,...,2, mod 11, remainder < 2 gives 0 else 11 - remainder.
// Since July 2026 the first twelve positions may be alphanumeric with value
// = ASCII - 48 and the same weights.

func cnpjDigit(vals []int) (int, bool) {
	w := 2
	sum := 0
	for i := len(vals) - 1; i >= 0; i-- {
		sum += vals[i] * w
		w++
		if w > 9 {
			w = 2
		}
	}
	r := sum % 11
	if r < 2 {
		return 0, true
	}
	return 11 - r, false
}

func brRef(code string) refResult {
	if len(code) != 14 || !allDigits(code[12:]) {
		return inv("bad-format")
	}
	alnum := false
	vals := make([]int, 0, 13)
	for i := 0; i < 12; i++ {
		c := code[i]
		switch {
		case c >= '0' && c <= '9':
		case c >= 'A' && c <= 'Z':
			alnum = true
		default:
			return inv("bad-format")
		}
		vals = append(vals, int(c)-48)
	}
	d1, s1 := cnpjDigit(vals)
	d2, s2 := cnpjDigit(append(vals, d1))
	good := dv(code[12]) == d1 && dv(code[13]) == d2
	sp := s1 || s2
	if !good {
		if sp {
			return invSpecial("bad-check-special")
		}
		return inv("bad-check")
	}
	if alnum {
		// valid under the 2026 alphanumeric CNPJ; the pinned repository
		// predates it. Not asserted.
		return unsettled("br-alphanumeric")
	}
	if allZero(code[:12]) {
		return unsettled("all-zero")
	}
	return ok("valid", sp)
}

// ---------------------------------------------------------------------------
// CH - UID: "E" + 8 digits + check; weights 5,4,3,2,7,6,5,4; check = 11 - (sum mod 11),
// 11 -> 0, 10 -> the number is not issued.

var chWeights = []int{5, 4, 3, 2, 7, 6, 5, 4}

func chCheck(body string) (chk int, exists bool, special bool) {
	s := 0
	for i := 0; i < 8; i++ {
		s += dv(body[i]) * chWeights[i]
	}
	r := s % 11
	switch r {
	case 0:
		return 0, true, true
	case 1:
		return 0, false, true
	}
	return 11 - r, true, false
}

func chRef(code string) refResult {
	if len(code) != 10 || code[0] != 'E' || !allDigits(code[1:]) {
		return inv("bad-format")
	}
	chk, exists, sp := chCheck(code[1:9])
	if !exists || dv(code[9]) != chk {
		if sp {
			return invSpecial("bad-check-special")
		}
		return inv("bad-check")
	}
	if allZero(code[1:]) {
		return unsettled("all-zero")
	}
	return ok("valid", sp)
}

// ---------------------------------------------------------------------------
// CO - NIT: payload + DV; DIAN weights from the right 3,7,13,17,19,23,29,37,41,43,47,53,59,67,71;
// r = sum mod 11; DV = r if r < 2 else 11 - r.

var coPrimes = []int{3, 7, 13, 17, 19, 23, 29, 37, 41, 43, 47, 53, 59, 67, 71}

func coCheck(body string) (int, bool) {
	s := 0
	for i := 0; i < len(body); i++ {
		s += dv(body[len(body)-1-i]) * coPrimes[i]
	}
	r := s % 11
	if r < 2 {
		return r, true
	}
	return 11 - r, false
}

func coRef(code string) refResult {
	if !allDigits(code) || len(code) < 2 || len(code) > 16 {
		return inv("bad-format")
	}
	body := code[:len(code)-1]
	chk, sp := coCheck(body)
	if dv(code[len(code)-1]) != chk {
		if sp {
			return invSpecial("bad-check-special")
		}
		return inv("bad-check")
	}
	if len(code) < 9 || len(code) > 10 {
		// the DIAN scheme is defined for up to 15 payload digits and natural
		// persons carry shorter numbers; the repository takes 9-10 in total.
		// Which lengths are "the national format" is not asserted.
		return unsettled("co-length")
	}
	if allZero(body) {
		return unsettled("all-zero")
	}
	return ok("valid", sp)
}

// ---------------------------------------------------------------------------
// DE - USt-IdNr: 9 digits, C1 > 0, ISO 7064 MOD 11,10.

func deCheck(body string) (int, bool) {
	p := 10
	for i := 0; i < 8; i++ {
		m := (dv(body[i]) + p) % 10
		if m == 0 {
			m = 10
		}
		p = (2 * m) % 11
	}
	c := 11 - p
	if c == 10 {
		return 0, true
	}
	return c, false
}

func deRef(code string) refResult {
	if len(code) != 9 || !allDigits(code) {
		return inv("bad-format")
	}
	chk, sp := deCheck(code[:8])
	if dv(code[8]) != chk {
		if sp {
			return invSpecial("bad-check-special")
		}
		return inv("bad-check")
	}
	if code[0] == '0' {
		return inv("bad-format-leading-zero")
	}
	return ok("valid", sp)
}

// ---------------------------------------------------------------------------
// ES - NIF: DNI (8 digits + letter, n mod 23 into TRWAGMYFPDXBNJZSQVHLCKE),
// NIE (X/Y/Z read as 0/1/2), legal entities (letter + 7 digits + control,
// control from the Luhn-type sum, written as digit or as JABCDEFGHI).

const esLetters = "TRWAGMYFPDXBNJZSQVHLCKE"
const esOrgTypes = "ABCDEFGHJNPQRSUVW"
const esCtrlLetters = "JABCDEFGHI"

func esOrgControl(body string) (int, bool) {
	// odd positions (1st, 3rd, ...) doubled with digit sum, even positions plain
	s := 0
	for i := 0; i < 7; i++ {
		d := dv(body[i])
		if i%2 == 0 {
			d *= 2
			s += d/10 + d%10
		} else {
			s += d
		}
	}
	return (10 - s%10) % 10, s%10 == 0
}

func esRef(code string) refResult {
	if len(code) != 9 {
		return inv("bad-format")
	}
	first, last := code[0], code[8]
	switch {
	case first >= '0' && first <= '9':
		if !allDigits(code[:8]) || last < 'A' || last > 'Z' {
			return inv("bad-format")
		}
		if esLetters[atoi(code[:8])%23] != last {
			return inv("bad-check")
		}
		if allZero(code[:8]) {
			return unsettled("all-zero")
		}
		return ok("valid-dni", false)
	case first == 'X' || first == 'Y' || first == 'Z':
		if !allDigits(code[1:8]) || last < 'A' || last > 'Z' {
			return inv("bad-format")
		}
		n := int(first-'X')*10_000_000 + atoi(code[1:8])
		if esLetters[n%23] != last {
			return inv("bad-check")
		}
		return ok("valid-nie", false)
	case first == 'K' || first == 'L' || first == 'M':
		if !allDigits(code[1:8]) {
			return inv("bad-format")
		}
		// Special natural-person NIFs. Published validators disagree on the
		// control character (DNI letter over the 7 digits vs. the entity
		// scheme); only what both readings agree on is decided.
		c, _ := esOrgControl(code[1:8])
		asOrg := last == byte('0'+c) || last == esCtrlLetters[c]
		asDNI := last == esLetters[atoi(code[1:8])%23]
		if !asOrg && !asDNI {
			return inv("bad-check")
		}
		return unsettled("es-klm")
	case strings.IndexByte(esOrgTypes, first) >= 0:
		if !allDigits(code[1:8]) {
			return inv("bad-format")
		}
		c, sp := esOrgControl(code[1:8])
		isDigit := last == byte('0'+c)
		isLetter := last == esCtrlLetters[c]
		if !isDigit && !isLetter {
			if sp {
				return invSpecial("bad-check-special")
			}
			return inv("bad-check")
		}
		// Official convention: digit for A,B,E,H; letter for N,P,Q,R,S,W;
		// either for the rest. Most validators (and the property design)
		// take either form for every type, so the "wrong" form is not asserted.
		if (strings.IndexByte("ABEH", first) >= 0 && isLetter) || (strings.IndexByte("NPQRSW", first) >= 0 && isDigit) {
			return unsettled("es-org-control-form")
		}
		if allZero(code[1:8]) {
			return unsettled("all-zero")
		}
		return ok("valid-org", sp)
	}
	return inv("bad-format")
}

// ---------------------------------------------------------------------------
// FR - TVA: 2 digit key + SIREN (9 digits, Luhn); key = (12 + 3 * (SIREN mod 97)) mod 97.

func frKey(siren string) int { return (12 + 3*(atoi(siren)%97)) % 97 }

func frRef(code string) refResult {
	if len(code) != 11 {
		return inv("bad-format")
	}
	if !allDigits(code[2:]) {
		return inv("bad-format")
	}
	if !allDigits(code[:2]) {
		for i := 0; i < 2; i++ {
			c := code[i]
			if !(c >= '0' && c <= '9') && !(c >= 'A' && c <= 'Z') {
				return inv("bad-format")
			}
		}
		// "new style" keys with letters exist in the EU description (never
		// issued in practice); not asserted.
		return unsettled("fr-letter-key")
	}
	siren := code[2:]
	if atoi(code[:2]) != frKey(siren) {
		return inv("bad-check")
	}
	lc, _ := luhnCheck(siren[:8])
	if dv(siren[8]) != lc {
		// VIES describes only the key; INSEE requires the SIREN to satisfy
		// Luhn (Monaco numbers excepted). Not asserted.
		return unsettled("fr-siren-luhn")
	}
	if allZero(siren) {
		return unsettled("all-zero")
	}
	return ok("valid", false)
}

// ---------------------------------------------------------------------------
// GB - VAT: 9 digits (+ 3 branch digits), weights 8..2, total + check
// divisible by 97 ("97" scheme) or total + 55 + check divisible by 97
// ("9755" scheme); GD000-499, HA500-999.

func gbRef(code string) refResult {
	if len(code) == 5 && (strings.HasPrefix(code, "GD") || strings.HasPrefix(code, "HA")) && allDigits(code[2:]) {
		n := atoi(code[2:])
		if (code[0] == 'G') == (n < 500) {
			return ok("valid-gov", false)
		}
		return inv("bad-range-gov")
	}
	if !allDigits(code) || (len(code) != 9 && len(code) != 12) {
		return inv("bad-format")
	}
	sum := 0
	for i := 0; i < 7; i++ {
		sum += dv(code[i]) * (8 - i)
	}
	cd := atoi(code[7:9])
	// the two check digits are the canonical value 0..96 of the complement
	// (99 is congruent to 02 but is not what the subtraction produces)
	c97 := (97 - sum%97) % 97
	c9755 := (97 - (sum+55)%97) % 97
	spOld := c97 == 0
	spNew := c9755 == 0
	if (spOld || spNew) && (cd == 0 || cd == 97) {
		// HMRC: "subtract 97 until negative" gives 97 when the total is a
		// multiple of 97, a plain modulus gives 00; published validators
		// differ. Not asserted.
		return unsettled("gb-zero-remainder")
	}
	old := cd == c97
	neu := cd == c9755
	if !old && !neu {
		if spOld || spNew {
			return invSpecial("bad-check-special")
		}
		return inv("bad-check")
	}
	if allZero(code[:9]) {
		return unsettled("all-zero")
	}
	// Registration-range restrictions circulate with the algorithm (not an
	// HMRC publication): codes inside the ranges are certainly fine, codes
	// outside are not asserted.
	num := atoi(code[:7])
	inOld := old && num < 9990001 && (num < 100000 || num > 999999) && (num < 9490001 || num > 9700000)
	inNew := neu && num > 1000000
	if !inOld && !inNew {
		return unsettled("gb-range")
	}
	if old {
		return ok("valid-97", false)
	}
	return ok("valid-9755", false)
}

// ---------------------------------------------------------------------------
// GR - AFM: 9 digits; check = (sum d_i * 2^(9-i), i = 1..8) mod 11 mod 10.

func grCheck(body string) (int, bool) {
	s := 0
	for i := 0; i < 8; i++ {
		s += dv(body[i]) << uint(8-i)
	}
	r := s % 11
	return r % 10, r == 10
}

func grRef(code string) refResult {
	if len(code) != 9 || !allDigits(code) {
		return inv("bad-format")
	}
	chk, sp := grCheck(code[:8])
	if dv(code[8]) != chk {
		if sp {
			return invSpecial("bad-check-special")
		}
		return inv("bad-check")
	}
	if allZero(code) {
		return unsettled("all-zero")
	}
	return ok("valid", sp)
}

// ---------------------------------------------------------------------------
// IN - GSTIN: 2 digit state + PAN (5 letters, 4 digits, letter) + entity
// [1-9A-Z] + 'Z' + check; Luhn mod 36 over the alphabet 0-9A-Z.

var inShape = regexp.MustCompile(`^[0-9]{2}[A-Z]{5}[0-9]{4}[A-Z][0-9A-Z]{3}$`)

func inCheck(body string) (int, bool) {
	sum := 0
	factor := 2
	for i := len(body) - 1; i >= 0; i-- {
		c := body[i]
		v := 0
		if c >= '0' && c <= '9' {
			v = int(c - '0')
		} else {
			v = int(c-'A') + 10
		}
		p := v * factor
		sum += p/36 + p%36
		factor = 3 - factor
	}
	return (36 - sum%36) % 36, sum%36 == 0
}

func inRef(code string) refResult {
	if !inShape.MatchString(code) {
		return inv("bad-format")
	}
	if code[12] == '0' {
		return inv("bad-format-entity-zero")
	}
	chk, sp := inCheck(code[:14])
	want := byte('0' + chk)
	if chk > 9 {
		want = byte('A' + chk - 10)
	}
	if code[14] != want {
		if sp {
			return invSpecial("bad-check-special")
		}
		return inv("bad-check")
	}
	if code[13] != 'Z' {
		// "Z by default": other letters are reserved; not asserted.
		return unsettled("in-14th-not-Z")
	}
	st := atoi(code[:2])
	if !((st >= 1 && st <= 38) || st == 97 || st == 99) {
		// state codes are a closed list the repository does not check
		return unsettled("in-state-code")
	}
	return ok("valid", sp)
}

// ---------------------------------------------------------------------------
// IT - partita IVA: 11 digits, Luhn.

func itRef(code string) refResult {
	if len(code) != 11 || !allDigits(code) {
		return inv("bad-format")
	}
	chk, sp := luhnCheck(code[:10])
	if dv(code[10]) != chk {
		if sp {
			return invSpecial("bad-check-special")
		}
		return inv("bad-check")
	}
	if allZero(code) {
		return unsettled("all-zero")
	}
	return ok("valid", sp)
}

// ---------------------------------------------------------------------------
// NL - btw-id: 9 digits + "B" + 2 digits. Either the 9 digits satisfy the
// 11-proef (9*d1 + 8*d2 + ... + 2*d8 - d9 divisible by 11: the remainder of
// the weighted sum must equal d9, so a remainder of 10 never has a valid
// check digit), or - sole traders since 2020 - "NL" + code read with
// A=10..Z=35 is congruent 1 modulo 97.

func nlElf(d string) (ok bool, r int) {
	s := 0
	for i := 0; i < 8; i++ {
		s += dv(d[i]) * (9 - i)
	}
	r = s % 11
	return r == dv(d[8]), r
}

func nlMod97(code string) int {
	r := 0
	for i := 0; i < len(code); i++ {
		c := code[i]
		if c >= '0' && c <= '9' {
			r = (r*10 + int(c-'0')) % 97
		} else {
			r = (r*100 + int(c-'A') + 10) % 97
		}
	}
	return r
}

func nlRef(code string) refResult {
	if len(code) != 12 || code[9] != 'B' || !allDigits(code[:9]) || !allDigits(code[10:]) {
		return inv("bad-format")
	}
	elf, r := nlElf(code[:9])
	m97 := nlMod97("NL"+code) == 1
	if !elf && !m97 {
		if r == 10 && code[8] == '0' {
			return invSpecial("bad-check-elf-remainder-10")
		}
		if r == 10 {
			return invSpecial("bad-check-special")
		}
		return inv("bad-check")
	}
	if allZero(code[:9]) {
		return unsettled("all-zero")
	}
	if code[10:] == "00" {
		// suffix runs B01..B99 in the descriptions; B00 not asserted
		return unsettled("nl-suffix-00")
	}
	switch {
	case elf && m97:
		return ok("valid-both", false)
	case elf:
		return ok("valid-elf", false)
	}
	return ok("valid-mod97", r == 10)
}

// ---------------------------------------------------------------------------
// PL - NIP: 10 digits, weights 6,5,7,2,3,4,5,6,7, sum mod 11 = last digit
// (remainder 10: number not issued).

var plWeights = []int{6, 5, 7, 2, 3, 4, 5, 6, 7}

func plRef(code string) refResult {
	if len(code) != 10 || !allDigits(code) {
		return inv("bad-format")
	}
	s := 0
	for i := 0; i < 9; i++ {
		s += dv(code[i]) * plWeights[i]
	}
	r := s % 11
	if r != dv(code[9]) {
		if r == 10 {
			return invSpecial("bad-check-special")
		}
		return inv("bad-check")
	}
	// the first three digits were the tax-office code (101..998, no x00);
	// whether numbers outside that are invalid is not asserted.
	p := atoi(code[:3])
	if p < 101 || p > 998 || p%100 == 0 {
		return unsettled("pl-office-prefix")
	}
	return ok("valid", false)
}

// ---------------------------------------------------------------------------
// PT - NIF: 9 digits, weights 9..2, r = sum mod 11, check = 0 if r < 2 else 11 - r.

var ptPrefixes = map[string]bool{"1": true, "2": true, "3": true, "5": true, "6": true, "8": true,
	"45": true, "70": true, "71": true, "72": true, "74": true, "75": true, "77": true, "78": true, "79": true,
	"90": true, "91": true, "98": true, "99": true}

func ptCheck(body string) (int, bool) {
	s := 0
	for i := 0; i < 8; i++ {
		s += dv(body[i]) * (9 - i)
	}
	r := s % 11
	if r < 2 {
		return 0, true
	}
	return 11 - r, false
}

func ptRef(code string) refResult {
	if len(code) != 9 || !allDigits(code) {
		return inv("bad-format")
	}
	chk, sp := ptCheck(code[:8])
	if dv(code[8]) != chk {
		if sp {
			return invSpecial("bad-check-special")
		}
		return inv("bad-check")
	}
	if !ptPrefixes[code[:1]] && !ptPrefixes[code[:2]] {
		// the list of issued leading digits is administrative practice
		// (pt.wikipedia); numbers with other prefixes are not asserted.
		return unsettled("pt-prefix")
	}
	return ok("valid", sp)
}

// ---------------------------------------------------------------------------
// format-only regimes

var aeShape = regexp.MustCompile(`^[0-9]{15}$`)

func aeRef(code string) refResult {
	if aeShape.MatchString(code) {
		return ok("valid", false)
	}
	return inv("bad-format")
}

// MX - RFC: 3 (companies) or 4 (persons) letters incl. Ñ and &, a date
// YYMMDD, two homoclave characters and a check character 0-9 or A (SAT's
// t_RFC pattern). Neither the date nor the check character are verified by the
// repository, so only the clear ends are decided.
var (
	mxStrict = regexp.MustCompile(`^[A-Z&Ñ]{3,4}[0-9]{2}(0[1-9]|1[012])(0[1-9]|[12][0-9]|3[01])[A-Z0-9]{2}[0-9A]$`)
	mxLoose  = regexp.MustCompile(`^[A-Z&Ñ]{3,4}[0-9]{6}[A-Z0-9]{3}$`)
)

func mxRef(code string) refResult {
	if mxStrict.MatchString(code) {
		return ok("valid", false)
	}
	if mxLoose.MatchString(code) {
		return unsettled("mx-date-or-check-char")
	}
	return inv("bad-format")
}
