package c13

import (
	"fmt"
	"strings"

	"pgregory.net/rapid"
)

// src is the only source of choice for the builders below: rapid in the
// randomised checks, a fixed-seed counter generator for the fixed list of base
// codes that the exhaustive single-substitution enumeration works from.
type src interface {
	n(label string, k int) int // uniform in [0, k)
}

type rsrc struct{ t *rapid.T }

func (r rsrc) n(label string, k int) int { return rapid.IntRange(0, k-1).Draw(r.t, label) }

// dsrc is splitmix64 with a constant seed: a fixed, reproducible list.
type dsrc struct{ s uint64 }

func (d *dsrc) n(_ string, k int) int {
	d.s += 0x9E3779B97F4A7C15
	z := d.s
	z = (z ^ (z >> 30)) * 0xBF58476D1CE4E5B9
	z = (z ^ (z >> 27)) * 0x94D049BB133111EB
	z ^= z >> 31
	return int(z % uint64(k))
}

const (
	digits  = "0123456789"
	letters = "ABCDEFGHIJKLMNOPQRSTUVWXYZ"
	alnum   = digits + letters
)

func pick(s src, label, from string) byte { return from[s.n(label, len(from))] }

func strOf(s src, label, from string, n int) string {
	b := make([]byte, n)
	for i := range b {
		b[i] = pick(s, label, from)
	}
	return string(b)
}

func digitsN(s src, n int) string { return strOf(s, "d", digits, n) }

func d1(v int) string { return string(rune('0' + v)) }

// regime describes one national scheme for the generators and the oracle.
type regime struct {
	key       string   // check-name prefix, lower case
	countries []string // values of Identity.Country to validate with
	prefixes  []string // textual prefixes the normaliser is expected to strip
	suffixes  []string // textual suffixes the normaliser is expected to strip (CH: MWST / TVA / IVA)
	// also: alternative tax country codes the published regime file lists and
	// normalisation keeps (XI / XU for GB): identities of those countries are
	// subject to the same rule
	also     []string
	alphabet string // national alphabet (substitutions, random strings)
	ref      func(code string) refResult
	valid    func(s src) string // a code the reference calls valid (constructed)
	shaped   func(s src) string // right shape and length, random check character(s)
	special  func(s src) string // lands on the special remainder branch (may be nil)
	lengths  []int              // national lengths (random strings use these and +-1)
	// law reports whether the single-digit-error law is asserted for position
	// i of the (valid) code: the scheme provably detects every substitution of
	// one decimal digit by another there. nil: never asserted.
	law func(code string, i int) bool
}

func isDigit(b byte) bool { return b >= '0' && b <= '9' }

func lawAllDigits(code string, i int) bool { return isDigit(code[i]) }

// retry draws until the reference calls the result valid (the constructions
// below are valid except for the few unsettled corners: all-zero bodies,
// reserved prefixes); bounded, falls back to the last draw.
func retry(ref func(string) refResult, mk func() string) string {
	var c string
	for i := 0; i < 50; i++ {
		c = mk()
		if ref(c).V == vValid {
			return c
		}
	}
	return c
}

// hitSpecial redraws one digit of body until isSpecial holds (10 candidates
// cover 10 of the 11 / all 10 residues); falls back to the body as drawn.
func hitSpecial(s src, body string, lo int, isSpecial func(string) bool) string {
	if isSpecial(body) {
		return body
	}
	pos := lo + s.n("sp_pos", len(body)-lo)
	if !isDigit(body[pos]) {
		return body
	}
	start := s.n("sp_start", 10)
	for k := 0; k < 10; k++ {
		b := body[:pos] + d1((start+k)%10) + body[pos+1:]
		if isSpecial(b) {
			return b
		}
	}
	return body
}

func checkChoice(s src, natural string) string {
	// the digit a folding implementation would produce, its neighbours, or random
	switch s.n("sp_chk", 4) {
	case 0:
		return natural
	case 1:
		return "0"
	case 2:
		return "1"
	}
	return digitsN(s, 1)
}

var esOrgEither = "CDFGJUV"

func pad(n, width int) string { return fmt.Sprintf("%0*d", width, n) }

var regimeList = []*regime{
	{
		key: "at", countries: []string{"AT"}, prefixes: []string{"AT"}, alphabet: digits + "U", lengths: []int{9},
		ref: atRef, law: lawAllDigits,
		valid:  func(s src) string { b := digitsN(s, 7); c, _ := atCheck(b); return "U" + b + d1(c) },
		shaped: func(s src) string { return "U" + digitsN(s, 8) },
		special: func(s src) string {
			b := hitSpecial(s, digitsN(s, 7), 0, func(b string) bool { _, sp := atCheck(b); return sp })
			return "U" + b + checkChoice(s, "0")
		},
	},
	{
		key: "be", countries: []string{"BE"}, prefixes: []string{"BE"}, alphabet: digits, lengths: []int{9, 10},
		ref: beRef, law: lawAllDigits,
		valid: func(s src) string {
			return retry(beRef, func() string {
				b := "0" + pick1(s, "123456789") + digitsN(s, 6)
				return b + pad(97-atoi(b)%97, 2)
			})
		},
		shaped: func(s src) string {
			switch s.n("be_shape", 4) {
			case 0: // legacy 9 digit form with the right check
				b := "0" + digitsN(s, 7)
				return (b + pad(97-atoi(b)%97, 2))[1:]
			case 1: // leading 1 / other leading digit with the right check
				b := pick1(s, "123") + digitsN(s, 7)
				return b + pad(97-atoi(b)%97, 2)
			}
			return "0" + digitsN(s, 9)
		},
		special: func(s src) string {
			// first eight digits a multiple of 97: check is 97, never 00
			k := 10310 + s.n("be_k", 103092-10310+1) // 97*k in 01000000..09999999
			b := pad(97*k, 8)
			return b + []string{"97", "00", "96", "01"}[s.n("be_chk", 4)]
		},
	},
	{
		key: "br", countries: []string{"BR"}, prefixes: []string{"BR"}, alphabet: digits, lengths: []int{14},
		ref: brRef,
		valid: func(s src) string {
			return retry(brRef, func() string {
				if s.n("br_branch", 2) == 0 {
					return brBuild(digitsN(s, 8) + "000" + pick1(s, "123456789"))
				}
				return brBuild(digitsN(s, 12))
			})
		},
		shaped: func(s src) string {
			if s.n("br_alnum", 6) == 0 { // 2026 alphanumeric form with its check digits
				return brBuild(strOf(s, "a", alnum, 12))
			}
			return digitsN(s, 14)
		},
		special: func(s src) string {
			b := hitSpecial(s, digitsN(s, 12), 0, func(b string) bool { return brRef(brBuild(b)).Special })
			full := brBuild(b)
			switch s.n("br_chk", 3) {
			case 0:
				return full
			case 1:
				return full[:12] + "1" + full[13:]
			}
			return full[:13] + "1"
		},
	},
	{
		key: "ch", countries: []string{"CH"}, prefixes: []string{"CH"}, suffixes: []string{"MWST", "TVA", "IVA"}, alphabet: digits + "E", lengths: []int{10},
		ref: chRef, law: lawAllDigits,
		valid: func(s src) string {
			return retry(chRef, func() string {
				b := digitsN(s, 8)
				c, _, _ := chCheck(b)
				return "E" + b + d1(c)
			})
		},
		shaped: func(s src) string { return "E" + digitsN(s, 9) },
		special: func(s src) string {
			b := hitSpecial(s, digitsN(s, 8), 0, func(b string) bool { _, _, sp := chCheck(b); return sp })
			return "E" + b + checkChoice(s, "0")
		},
	},
	{
		key: "co", countries: []string{"CO"}, prefixes: []string{"CO"}, alphabet: digits, lengths: []int{9, 10},
		ref: coRef,
		valid: func(s src) string {
			return retry(coRef, func() string {
				b := digitsN(s, 8+s.n("co_len", 2))
				c, _ := coCheck(b)
				return b + d1(c)
			})
		},
		shaped: func(s src) string {
			if s.n("co_short", 4) == 0 { // other lengths with the right DV
				b := digitsN(s, 5+s.n("co_len2", 8))
				c, _ := coCheck(b)
				return b + d1(c)
			}
			return digitsN(s, 9+s.n("co_len", 2))
		},
		special: func(s src) string {
			b := hitSpecial(s, digitsN(s, 8+s.n("co_len", 2)), 0, func(b string) bool { _, sp := coCheck(b); return sp })
			c, _ := coCheck(b)
			return b + checkChoice(s, d1(c))
		},
	},
	{
		key: "de", countries: []string{"DE"}, prefixes: []string{"DE"}, alphabet: digits, lengths: []int{9},
		ref: deRef, law: lawAllDigits,
		valid: func(s src) string {
			b := pick1(s, "123456789") + digitsN(s, 7)
			c, _ := deCheck(b)
			return b + d1(c)
		},
		shaped: func(s src) string {
			if s.n("de_zero", 5) == 0 { // leading zero with the right check
				b := "0" + digitsN(s, 7)
				c, _ := deCheck(b)
				return b + d1(c)
			}
			return digitsN(s, 9)
		},
		special: func(s src) string {
			b := hitSpecial(s, pick1(s, "123456789")+digitsN(s, 7), 1, func(b string) bool { _, sp := deCheck(b); return sp })
			return b + checkChoice(s, "0")
		},
	},
	{
		key: "es", countries: []string{"ES"}, prefixes: []string{"ES"}, alphabet: alnum, lengths: []int{9},
		ref: esRef,
		law: func(code string, i int) bool {
			// digit positions of DNI / NIE / entity codes; not K, L, M and not
			// a control written as a letter
			return isDigit(code[i]) && strings.IndexByte("KLM", code[0]) < 0
		},
		valid: func(s src) string {
			return retry(esRef, func() string {
				switch s.n("es_kind", 4) {
				case 0:
					b := digitsN(s, 8)
					return b + string(esLetters[atoi(b)%23])
				case 1:
					t := s.n("es_nie", 3)
					b := digitsN(s, 7)
					return string("XYZ"[t]) + b + string(esLetters[(t*10_000_000+atoi(b))%23])
				}
				t := pick(s, "es_type", esOrgTypes)
				b := digitsN(s, 7)
				c, _ := esOrgControl(b)
				letter := strings.IndexByte("NPQRSW", t) >= 0
				if strings.IndexByte(esOrgEither, t) >= 0 {
					letter = s.n("es_form", 2) == 0
				}
				if letter {
					return string(t) + b + string(esCtrlLetters[c])
				}
				return string(t) + b + d1(c)
			})
		},
		shaped: func(s src) string {
			switch s.n("es_shape", 5) {
			case 0:
				return digitsN(s, 8) + pick1(s, letters)
			case 1:
				return pick1(s, "XYZ") + digitsN(s, 7) + pick1(s, letters)
			case 2: // K, L, M with either control
				b := digitsN(s, 7)
				c, _ := esOrgControl(b)
				ctl := []string{d1(c), string(esCtrlLetters[c]), string(esLetters[atoi(b)%23]), pick1(s, alnum)}[s.n("es_klm", 4)]
				return pick1(s, "KLM") + b + ctl
			case 3: // entity with the control in the other written form
				t := pick(s, "es_type", esOrgTypes)
				b := digitsN(s, 7)
				c, _ := esOrgControl(b)
				if s.n("es_form", 2) == 0 {
					return string(t) + b + string(esCtrlLetters[c])
				}
				return string(t) + b + d1(c)
			}
			return pick1(s, letters) + digitsN(s, 7) + pick1(s, digits+"ABCDEFGHIJK")
		},
		special: func(s src) string {
			b := hitSpecial(s, digitsN(s, 7), 0, func(b string) bool { _, sp := esOrgControl(b); return sp })
			return pick1(s, esOrgEither) + b + pick1(s, "0J1A9I")
		},
	},
	{
		key: "fr", countries: []string{"FR"}, prefixes: []string{"FR"}, alphabet: digits, lengths: []int{11},
		ref: frRef, law: lawAllDigits,
		valid: func(s src) string {
			return retry(frRef, func() string {
				b := digitsN(s, 8)
				c, _ := luhnCheck(b)
				siren := b + d1(c)
				return pad(frKey(siren), 2) + siren
			})
		},
		shaped: func(s src) string {
			if s.n("fr_key", 3) == 0 { // right key over a SIREN that fails Luhn or not
				siren := digitsN(s, 9)
				return pad(frKey(siren), 2) + siren
			}
			return digitsN(s, 11)
		},
	},
	{
		key: "gb", countries: []string{"GB"}, also: []string{"XI", "XU"}, prefixes: []string{"GB", "GB", "XI", "XU"}, alphabet: digits + "GDHA", lengths: []int{9, 12, 5},
		ref: gbRef,
		valid: func(s src) string {
			return retry(gbRef, func() string {
				switch s.n("gb_kind", 8) {
				case 0:
					return "GD" + pad(s.n("gb_gd", 500), 3)
				case 1:
					return "HA" + pad(500+s.n("gb_ha", 500), 3)
				}
				b := digitsN(s, 7)
				if s.n("gb_low", 4) == 0 {
					b = "00" + digitsN(s, 5)
				}
				c := gbBuild(b, s.n("gb_scheme", 2) == 0)
				if s.n("gb_branch", 3) == 0 {
					c += digitsN(s, 3)
				}
				return c
			})
		},
		shaped: func(s src) string {
			switch s.n("gb_shape", 6) {
			case 0:
				return pick1(s, "GH") + pick1(s, "DA") + digitsN(s, 3)
			case 1:
				return gbBuild(digitsN(s, 7), s.n("gb_scheme", 2) == 0) // right check, any range
			case 2:
				return digitsN(s, 12)
			}
			return digitsN(s, 9)
		},
		special: func(s src) string {
			neu := s.n("gb_scheme", 2) == 0
			b := hitSpecial(s, digitsN(s, 7), 0, func(b string) bool {
				sum := 0
				for i := 0; i < 7; i++ {
					sum += dv(b[i]) * (8 - i)
				}
				if neu {
					sum += 55
				}
				return sum%97 == 0
			})
			return b + []string{"00", "97", "42", "55"}[s.n("gb_chk", 4)]
		},
	},
	{
		key: "gr", countries: []string{"EL", "GR"}, prefixes: []string{"EL", "GR"}, alphabet: digits, lengths: []int{9},
		ref: grRef,
		valid: func(s src) string {
			return retry(grRef, func() string { b := digitsN(s, 8); c, _ := grCheck(b); return b + d1(c) })
		},
		shaped: func(s src) string { return digitsN(s, 9) },
		special: func(s src) string {
			b := hitSpecial(s, digitsN(s, 8), 0, func(b string) bool { _, sp := grCheck(b); return sp })
			return b + checkChoice(s, "0")
		},
	},
	{
		key: "in", countries: []string{"IN"}, prefixes: []string{"IN"}, alphabet: alnum, lengths: []int{15},
		ref: inRef, law: lawAllDigits,
		valid: func(s src) string {
			b := pad(1+s.n("in_state", 37), 2) + strOf(s, "l", letters, 3) + pick1(s, "PCHFATBLJG") + pick1(s, letters) +
				digitsN(s, 4) + pick1(s, letters) + pick1(s, "123456789ABCZ") + "Z"
			return inBuild(b)
		},
		shaped: func(s src) string {
			b := digitsN(s, 2) + strOf(s, "l", letters, 5) + digitsN(s, 4) + pick1(s, letters)
			switch s.n("in_shape", 4) {
			case 0: // right check over an unusual 13th/14th character or state code
				return inBuild(b + pick1(s, alnum) + pick1(s, "ZZZAY9"))
			case 1:
				return inBuild(b + pick1(s, "123456789ABCZ") + "Z")[:14] + pick1(s, alnum)
			}
			return b + pick1(s, alnum) + "Z" + pick1(s, alnum)
		},
		special: func(s src) string {
			b := pad(1+s.n("in_state", 37), 2) + strOf(s, "l", letters, 5) + digitsN(s, 4) + pick1(s, letters) + "1Z"
			b = hitSpecial36(s, b)
			return b + pick1(s, "0Z1")
		},
	},
	{
		key: "it", countries: []string{"IT"}, prefixes: []string{"IT"}, alphabet: digits, lengths: []int{11},
		ref: itRef, law: lawAllDigits,
		valid: func(s src) string {
			return retry(itRef, func() string { b := digitsN(s, 10); c, _ := luhnCheck(b); return b + d1(c) })
		},
		shaped: func(s src) string { return digitsN(s, 11) },
		special: func(s src) string {
			b := hitSpecial(s, digitsN(s, 10), 0, func(b string) bool { _, sp := luhnCheck(b); return sp })
			return b + checkChoice(s, "0")
		},
	},
	{
		key: "nl", countries: []string{"NL"}, prefixes: []string{"NL"}, alphabet: digits + "B", lengths: []int{12},
		ref: nlRef,
		valid: func(s src) string {
			return retry(nlRef, func() string {
				if s.n("nl_kind", 2) == 0 { // 11-proef
					b := digitsN(s, 8)
					_, r := nlElf(b + "0")
					if r == 10 {
						return "" // no check digit exists; retry
					}
					return b + d1(r) + "B" + pad(1+s.n("nl_sfx", 99), 2)
				}
				return nlBuild97(digitsN(s, 9))
			})
		},
		shaped: func(s src) string {
			if s.n("nl_b", 5) == 0 {
				return digitsN(s, 9) + pick1(s, "ABC0") + digitsN(s, 2)
			}
			return digitsN(s, 9) + "B" + digitsN(s, 2)
		},
		special: func(s src) string {
			// weighted sum congruent 10 modulo 11: no check digit exists under
			// the 11-proef, whatever the ninth digit
			b := hitSpecial(s, digitsN(s, 8), 0, func(b string) bool { _, r := nlElf(b + "0"); return r == 10 })
			if s.n("nl_97", 6) == 0 {
				return nlBuild97(b + checkChoice(s, "0"))
			}
			return b + checkChoice(s, "0") + "B" + pad(1+s.n("nl_sfx", 99), 2)
		},
	},
	{
		key: "pl", countries: []string{"PL"}, prefixes: []string{"PL"}, alphabet: digits, lengths: []int{10},
		ref: plRef, law: lawAllDigits,
		valid: func(s src) string {
			return retry(plRef, func() string { return plBuild(pad(101+s.n("pl_office", 898), 3) + digitsN(s, 6)) })
		},
		shaped: func(s src) string {
			if s.n("pl_prefix", 4) == 0 { // reserved office prefixes with the right check
				return plBuild(pick1(s, "0129") + pick1(s, "09") + pick1(s, "09") + digitsN(s, 6))
			}
			return digitsN(s, 10)
		},
		special: func(s src) string {
			b := hitSpecial(s, pad(101+s.n("pl_office", 898), 3)+digitsN(s, 6), 3, func(b string) bool { return plRef(b + "0").Special })
			return b + checkChoice(s, "0")
		},
	},
	{
		key: "pt", countries: []string{"PT"}, prefixes: []string{"PT"}, alphabet: digits, lengths: []int{9},
		ref: ptRef,
		valid: func(s src) string {
			return retry(ptRef, func() string {
				pfx := []string{"1", "2", "3", "5", "6", "8", "45", "70", "71", "72", "74", "75", "77", "78", "79", "90", "91", "98", "99"}[s.n("pt_pfx", 19)]
				b := pfx + digitsN(s, 8-len(pfx))
				c, _ := ptCheck(b)
				return b + d1(c)
			})
		},
		shaped: func(s src) string {
			if s.n("pt_pfx", 4) == 0 { // any leading digits with the right check
				b := digitsN(s, 8)
				c, _ := ptCheck(b)
				return b + d1(c)
			}
			return digitsN(s, 9)
		},
		special: func(s src) string {
			b := hitSpecial(s, pick1(s, "123568")+digitsN(s, 7), 1, func(b string) bool { _, sp := ptCheck(b); return sp })
			return b + checkChoice(s, "0")
		},
	},
	{
		key: "ae", countries: []string{"AE"}, prefixes: []string{"AE"}, alphabet: digits, lengths: []int{15},
		ref:    aeRef,
		valid:  func(s src) string { return "100" + digitsN(s, 12) },
		shaped: func(s src) string { return digitsN(s, 15) },
	},
	{
		key: "mx", countries: []string{"MX"}, prefixes: nil, alphabet: alnum + "Ñ&", lengths: []int{12, 13},
		ref: mxRef,
		valid: func(s src) string {
			return mxLetters(s, 3+s.n("mx_person", 2)) + pad(s.n("mx_yy", 100), 2) + pad(1+s.n("mx_mm", 12), 2) + pad(1+s.n("mx_dd", 28), 2) +
				strOf(s, "h", alnum, 2) + pick1(s, digits+"A")
		},
		shaped: func(s src) string {
			return mxLetters(s, 2+s.n("mx_len", 4)) + digitsN(s, 6) + strOf(s, "h", alnum, 3)
		},
	},
}

func pick1(s src, from string) string { return string(pick(s, "c", from)) }

func mxLetters(s src, n int) string {
	var sb strings.Builder
	for i := 0; i < n; i++ {
		switch k := s.n("mx_l", 30); {
		case k == 28:
			sb.WriteString("Ñ")
		case k == 29:
			sb.WriteString("&")
		default:
			sb.WriteByte(letters[k%26])
		}
	}
	return sb.String()
}

func brBuild(body string) string {
	vals := make([]int, 0, 13)
	for i := 0; i < 12; i++ {
		vals = append(vals, int(body[i])-48)
	}
	a, _ := cnpjDigit(vals)
	b, _ := cnpjDigit(append(vals, a))
	return body + d1(a) + d1(b)
}

func gbBuild(body string, neu bool) string {
	sum := 0
	for i := 0; i < 7; i++ {
		sum += dv(body[i]) * (8 - i)
	}
	if neu {
		sum += 55
	}
	return body + pad((97-sum%97)%97, 2)
}

func inBuild(body string) string {
	c, _ := inCheck(body)
	return body + string(alnum[c])
}

func hitSpecial36(s src, body string) string {
	if _, sp := inCheck(body); sp {
		return body
	}
	// vary one PAN letter over the 26 letters: enough residues modulo 36 most of the time
	pos := 2 + s.n("sp_pos", 5)
	for k := 0; k < 26; k++ {
		b := body[:pos] + string(letters[k]) + body[pos+1:]
		if _, sp := inCheck(b); sp {
			return b
		}
	}
	return body
}

func nlBuild97(d9 string) string {
	// choose the two trailing digits so that NL<d9>B<ss> is 1 modulo 97
	base := nlMod97("NL" + d9 + "B00")
	ss := ((1-base)%97 + 97) % 97
	return d9 + "B" + pad(ss, 2)
}

func plBuild(body string) string {
	s := 0
	for i := 0; i < 9; i++ {
		s += dv(body[i]) * plWeights[i]
	}
	r := s % 11
	if r == 10 {
		return body + "0" // no check digit exists; the reference calls this invalid
	}
	return body + d1(r)
}

// ---------------------------------------------------------------------------
// candidate codes

var regimeByKey = func() map[string]*regime {
	m := map[string]*regime{}
	for _, r := range regimeList {
		m[r.key] = r
	}
	return m
}()

// Case is one candidate code for the acceptance oracle.
type Case struct {
	Regime  string `json:"regime"`
	Country string `json:"country"`
	Code    string `json:"code"`
	Kind    string `json:"kind"`
	Base    string `json:"base,omitempty"` // valid code this one was derived from by one substitution
	Pos     int    `json:"pos,omitempty"`
}

func runes(s string) []rune { return []rune(s) }

func substitute(code string, pos int, ch rune) string {
	r := runes(code)
	r[pos] = ch
	return string(r)
}

func genCase(r *regime) func(t *rapid.T) Case {
	alpha := runes(r.alphabet)
	return func(t *rapid.T) Case {
		s := rsrc{t}
		// validation takes the already-normalised identity: the regime's tax country (EL for Greece)
		c := Case{Regime: r.key, Country: r.countries[0]}
		if len(r.also) > 0 && s.n("altcountry", 4) == 0 {
			c.Country = r.also[s.n("altcountryv", len(r.also))]
		}
		k := s.n("kind", 20)
		switch {
		case k < 6:
			c.Kind, c.Code = "valid", r.valid(s)
		case k < 10: // one decimal digit replaced by a different decimal digit
			base := runes(r.valid(s))
			var pos []int
			for i, ch := range base {
				if ch >= '0' && ch <= '9' {
					pos = append(pos, i)
				}
			}
			p := pos[s.n("pos", len(pos))]
			nd := (int(base[p]-'0') + 1 + s.n("delta", 9)) % 10
			c.Kind, c.Base, c.Pos = "digit-sub", string(base), p
			c.Code = substitute(c.Base, p, rune('0'+nd))
		case k < 12: // one character replaced by any other of the national alphabet
			base := runes(r.valid(s))
			p := s.n("pos", len(base))
			ch := alpha[s.n("ch", len(alpha))]
			if ch == base[p] {
				ch = alpha[(s.n("ch2", len(alpha)-1)+1+indexRune(alpha, ch))%len(alpha)]
			}
			c.Kind, c.Base, c.Pos = "char-sub", string(base), p
			c.Code = substitute(c.Base, p, ch)
		case k < 15 && r.special != nil:
			c.Kind, c.Code = "special-remainder", r.special(s)
		case k < 18:
			c.Kind, c.Code = "shaped", r.shaped(s)
		case k < 19: // random string of the national alphabet, national length or one off
			n := r.lengths[s.n("len", len(r.lengths))] + s.n("dlen", 3) - 1
			b := make([]rune, n)
			for i := range b {
				b[i] = alpha[s.n("a", len(alpha))]
			}
			c.Kind, c.Code = "alphabet", string(b)
		default: // a valid code with one character dropped or doubled
			base := runes(r.valid(s))
			p := s.n("pos", len(base))
			if s.n("drop", 2) == 0 {
				c.Code = string(base[:p]) + string(base[p+1:])
			} else {
				c.Code = string(base[:p+1]) + string(base[p:])
			}
			c.Kind = "length-edit"
		}
		return c
	}
}

func indexRune(rs []rune, ch rune) int {
	for i, r := range rs {
		if r == ch {
			return i
		}
	}
	return 0
}

// ---------------------------------------------------------------------------
// formatted variants (normaliser laws)

// NormCase is a canonical code and one written form of it.
type NormCase struct {
	Regime    string `json:"regime"`
	Country   string `json:"country"`
	Code      string `json:"code"`      // upper case, no separators, no prefix
	Formatted string `json:"formatted"` // separators / lower case / country prefix added
	Kind      string `json:"kind"`
	Variant   string `json:"variant"`
}

var separators = []string{" ", ".", "-", "/"}

func formatCode(s src, r *regime, code string) (string, string) {
	var tags []string
	var sb strings.Builder
	sep := s.n("sep", 3) // 0: none, 1: sparse, 2: dense
	lower := s.n("lower", 3)
	rs := runes(code)
	for i, ch := range rs {
		if lower == 1 || (lower == 2 && s.n("lc", 2) == 0) {
			ch = []rune(strings.ToLower(string(ch)))[0]
		}
		sb.WriteRune(ch)
		if sep > 0 && i < len(rs)-1 && s.n("sepat", 5) < sep*2-1 {
			sb.WriteString(separators[s.n("sepch", len(separators))])
		}
	}
	out := sb.String()
	if sep > 0 {
		tags = append(tags, "separators")
		switch s.n("outer", 4) {
		case 0:
			out = " " + out
		case 1:
			out = out + " "
		}
	}
	if lower > 0 && out != strings.ToUpper(out) {
		tags = append(tags, "lowercase")
	}
	if len(r.suffixes) > 0 && s.n("suffix", 2) == 0 {
		sf := r.suffixes[s.n("sfx", len(r.suffixes))]
		switch s.n("sfxcase", 3) {
		case 0:
			sf = strings.ToLower(sf)
		case 1:
			sf = sf[:1] + strings.ToLower(sf[1:2]) + sf[2:]
		}
		if s.n("sfxsep", 2) == 0 {
			sf = separators[s.n("sepch", len(separators))] + sf
		}
		if s.n("sfxtail", 3) == 0 {
			sf += []string{" ", "."}[s.n("sfxtailch", 2)]
		}
		out += sf
		tags = append(tags, "suffix")
	}
	if len(r.prefixes) > 0 && s.n("prefix", 2) == 0 {
		p := r.prefixes[s.n("pfx", len(r.prefixes))]
		if s.n("pfxlower", 3) == 0 {
			p = strings.ToLower(p)
		}
		if s.n("pfxsep", 2) == 0 {
			p += separators[s.n("sepch", len(separators))]
		}
		out = p + out
		tags = append(tags, "prefix")
	}
	if len(tags) == 0 {
		tags = []string{"plain"}
	}
	return out, strings.Join(tags, "+")
}

func genNormCase(r *regime) func(t *rapid.T) NormCase {
	return func(t *rapid.T) NormCase { return drawNormCase(rsrc{t}, r) }
}

func drawNormCase(s src, r *regime) NormCase {
	c := NormCase{Regime: r.key, Country: r.countries[s.n("country", len(r.countries))]}
	switch k := s.n("kind", 10); {
	case k < 6:
		c.Kind, c.Code = "valid", r.valid(s)
	case k < 9:
		c.Kind, c.Code = "shaped", r.shaped(s)
	default:
		n := r.lengths[s.n("len", len(r.lengths))]
		alpha := runes(r.alphabet)
		b := make([]rune, n)
		for i := range b {
			b[i] = alpha[s.n("a", len(alpha))]
		}
		c.Kind, c.Code = "alphabet", string(b)
	}
	// a canonical code that itself begins with the country letters would turn
	// the prefixed variant into a doubled prefix, which is outside the
	// property's variant grammar
	for _, p := range r.prefixes {
		if strings.HasPrefix(c.Code, p) {
			c.Code = "0" + c.Code[1:]
		}
	}
	// France: a valid SIREN written on its own (9 digits) is completed by the
	// normaliser with its two key digits; a third of those start with zeros
	if r.key == "fr" && s.n("bare_siren", 3) == 0 {
		body := digitsN(s, 8)
		switch s.n("leading_zeros", 3) {
		case 0:
			body = "0" + body[1:]
		case 1:
			body = "00" + body[2:]
		}
		chk, _ := luhnCheck(body)
		c.Kind, c.Code = "bare-siren", body+d1(chk)
	}
	c.Formatted, c.Variant = formatCode(s, r, c.Code)
	return c
}
