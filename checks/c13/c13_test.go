// Package c13 decides property C13: tax identity codes are accepted exactly
// when the national check allows, and the normaliser is idempotent,
// insensitive to separators / case / country prefix and keeps the digits.
//
// Files: refs_test.go (independent national algorithms, tri-state verdicts),
// gens_test.go (constructed valid codes, edits, special-remainder strings,
// formatted variants), this file (observation of the real code and oracles).
package c13

import (
	"errors"
	"fmt"
	"hash/fnv"
	"sort"
	"strings"
	"testing"

	_ "github.com/invopop/gobl" // registers the regimes
	"github.com/invopop/gobl/bill"
	"github.com/invopop/gobl/cal"
	"github.com/invopop/gobl/cbc"
	"github.com/invopop/gobl/l10n"
	"github.com/invopop/gobl/num"
	"github.com/invopop/gobl/org"
	"github.com/invopop/gobl/tax"
	"github.com/invopop/gobl/verifharness/internal/vh"
	"github.com/invopop/validation"
)

func TestMain(m *testing.M) { vh.Main(m, "C13") }

func TestAll(t *testing.T) { vh.RunAll(t) }

// ---------------------------------------------------------------------------
// observation of the code under test

// accepted validates tax.Identity{Country, Code} on its own and as the tax_id
// of an org.Party (the path documents take); both must give the same answer.
func accepted(country, code string) (acc bool, errText string, agree bool) {
	id := &tax.Identity{Country: l10n.TaxCountryCode(country), Code: cbc.Code(code)}
	err := id.Validate()
	p := &org.Party{Name: "Party", TaxID: &tax.Identity{Country: l10n.TaxCountryCode(country), Code: cbc.Code(code)}}
	perr := p.Validate()
	if err != nil {
		errText = err.Error()
	} else if perr != nil {
		errText = "party: " + perr.Error()
	}
	return err == nil, errText, (err == nil) == (perr == nil)
}

// normalised runs the normaliser through tax.Identity.Normalize and through
// org.Party.Calculate; both must agree.
func normalised(country, code string) (nc, ncode string, agree bool) {
	id := &tax.Identity{Country: l10n.TaxCountryCode(country), Code: cbc.Code(code)}
	id.Normalize()
	p := &org.Party{TaxID: &tax.Identity{Country: l10n.TaxCountryCode(country), Code: cbc.Code(code)}}
	_ = p.Calculate()
	return string(id.Country), string(id.Code), p.TaxID != nil && p.TaxID.Country == id.Country && p.TaxID.Code == id.Code
}

// ---------------------------------------------------------------------------
// the same identity as the customer of an invoice of another regime: the
// document's regime must leave it to the identity's own rules

var docRegimes []string

func hashOf(s string) uint32 {
	h := fnv.New32a()
	_, _ = h.Write([]byte(s))
	return h.Sum32()
}

// inDocument calculates (and validates) an invoice of a regime chosen by the
// code's hash, other than the identity's own, with the identity as customer.
func inDocument(country, code string, validate bool) (docRegime, nc, ncode string, idErr string, ok bool) {
	if docRegimes == nil {
		for _, r := range tax.AllRegimeDefs() {
			docRegimes = append(docRegimes, string(r.Country))
		}
		sort.Strings(docRegimes)
	}
	own := ""
	if r := tax.RegimeDefFor(l10n.Code(country)); r != nil {
		own = string(r.Country)
	}
	i := int(hashOf(code) % uint32(len(docRegimes)))
	if docRegimes[i] == own {
		i = (i + 1) % len(docRegimes)
	}
	docRegime = docRegimes[i]
	price := num.MakeAmount(1000, 2)
	inv := &bill.Invoice{
		Regime:    tax.WithRegime(l10n.TaxCountryCode(docRegime)),
		Series:    "C13",
		Code:      "1",
		IssueDate: cal.MakeDate(2024, 6, 13),
		Supplier:  &org.Party{Name: "Supplier", TaxID: &tax.Identity{Country: l10n.TaxCountryCode(docRegime)}},
		Customer:  &org.Party{Name: "Customer", TaxID: &tax.Identity{Country: l10n.TaxCountryCode(country), Code: cbc.Code(code)}},
		Lines:     []*bill.Line{{Quantity: num.MakeAmount(1, 0), Item: &org.Item{Name: "x", Price: &price}}},
	}
	if err := inv.Calculate(); err != nil || inv.Customer == nil || inv.Customer.TaxID == nil {
		return docRegime, "", "", "", false
	}
	nc, ncode = string(inv.Customer.TaxID.Country), string(inv.Customer.TaxID.Code)
	if validate {
		if err := inv.Validate(); err != nil {
			var ve validation.Errors
			if errors.As(err, &ve) {
				if ce, ok := ve["customer"].(validation.Errors); ok {
					if te, ok := ce["tax_id"]; ok && te != nil {
						idErr = te.Error()
					}
				}
			}
		}
	}
	return docRegime, nc, ncode, idErr, true
}

// ---------------------------------------------------------------------------
// acceptance oracle

func judgeAccept(c Case, o *vh.Obs) {
	r := regimeByKey[c.Regime]
	if r == nil {
		o.Discard()
		return
	}
	res := r.ref(c.Code)
	o.Class("gen-" + c.Kind)
	o.Class("ref-" + res.Class)
	if res.Special {
		o.Class("special-remainder-branch")
	}
	if res.V == vValid || res.Special || c.Kind == "digit-sub" || c.Kind == "char-sub" {
		o.NonTrivial()
	}
	acc, errText, agree := accepted(c.Country, c.Code)
	o.Note("%s %q ref=%s accepted=%v %s", c.Country, c.Code, res.Class, acc, errText)
	if !agree {
		o.Failf(r.key+":party-identity-disagree", "%s %q: tax.Identity.Validate accepted=%v but org.Party validation says otherwise (%s)", c.Country, c.Code, acc, errText)
		return
	}
	if hashOf(c.Code)%8 == 0 {
		// an already-normalised code: the document must neither change nor judge it differently
		if dr, nc, ncode, idErr, ok := inDocument(c.Country, c.Code, true); ok {
			o.Class("in-document")
			xc, x, _ := normalised(c.Country, c.Code)
			if nc != xc || ncode != x {
				o.Failf(r.key+":document-alters-identity", "%s %q as the customer of a %s invoice becomes %s %q (on its own: %s %q)", c.Country, c.Code, dr, nc, ncode, xc, x)
				return
			}
			if x == c.Code && xc == c.Country && (idErr == "") != acc {
				o.Failf(r.key+":document-verdict-differs", "%s %q: accepted=%v on its own, but as the customer of a %s invoice its validation says %q", c.Country, c.Code, acc, dr, idErr)
				return
			}
		}
	}
	switch res.V {
	case vValid:
		if !acc {
			o.Failf(r.key+":rejected-valid:"+res.Class, "%s %q is valid by the national rule (%s) but rejected: %s", c.Country, c.Code, res.Class, errText)
			return
		}
	case vInvalid:
		if acc {
			o.Failf(r.key+":accepted-invalid:"+res.Class, "%s %q is invalid by the national rule (%s) but accepted", c.Country, c.Code, res.Class)
			return
		}
	}
	// single-digit-error law, only where the scheme provably detects it
	if c.Kind == "digit-sub" && r.law != nil && c.Base != "" && c.Pos >= 0 && c.Pos < len(c.Base) && len(c.Base) == len(c.Code) && r.law(c.Base, c.Pos) {
		if r.ref(c.Base).V != vValid || !isDigit(c.Code[c.Pos]) || c.Code[c.Pos] == c.Base[c.Pos] {
			return
		}
		if bacc, _, _ := accepted(c.Country, c.Base); !bacc {
			return
		}
		o.Class("single-digit-law")
		if acc {
			o.Failf(r.key+":single-digit-undetected", "%s: %q is accepted and so is %q, which differs in the single digit at position %d", c.Country, c.Base, c.Code, c.Pos)
		}
	}
}

// enumEdits: every single-character substitution (whole national alphabet,
// every position) of a fixed list of constructed valid codes per regime.
func enumEdits(r *regime) func(yield func(Case) bool) {
	return func(yield func(Case) bool) {
		per := 30
		if vh.Thorough() {
			per = 600
		}
		idx := 0
		d := &dsrc{s: 0xC13}
		alpha := runes(r.alphabet)
		for b := 0; b < per; b++ {
			base := runes(r.valid(d))
			for p := range base {
				for _, ch := range alpha {
					if ch == base[p] {
						continue
					}
					idx++
					if idx%vh.Cfg().Shards != vh.Cfg().Shard {
						continue
					}
					kind := "char-sub"
					if isDigitRune(ch) && isDigitRune(base[p]) {
						kind = "digit-sub"
					}
					c := Case{Regime: r.key, Country: r.countries[0], Kind: kind, Base: string(base), Pos: byteIndex(base, p)}
					c.Code = string(base[:p]) + string(ch) + string(base[p+1:])
					if !yield(c) {
						return
					}
				}
			}
		}
	}
}

func isDigitRune(r rune) bool { return r >= '0' && r <= '9' }

// byteIndex: positions are reported as byte offsets (only MX has multi-byte
// letters, and the digit law is not asserted there).
func byteIndex(rs []rune, p int) int { return len(string(rs[:p])) }

// ---------------------------------------------------------------------------
// normaliser laws

func digitsOf(s string) string {
	var sb strings.Builder
	for i := 0; i < len(s); i++ {
		if isDigit(s[i]) {
			sb.WriteByte(s[i])
		}
	}
	return sb.String()
}

func judgeNormalise(c NormCase, o *vh.Obs) {
	r := regimeByKey[c.Regime]
	if r == nil {
		o.Discard()
		return
	}
	o.Class("gen-" + c.Kind)
	o.Class(c.Variant)
	if c.Variant != "plain" {
		o.NonTrivial()
	}
	xc, x, ag1 := normalised(c.Country, c.Code)
	yc, y, ag2 := normalised(c.Country, c.Formatted)
	o.Note("%s N(%q)=%s/%q N(%q)=%s/%q", c.Country, c.Code, xc, x, c.Formatted, yc, y)
	if !ag1 || !ag2 {
		o.Failf(r.key+":norm-party-identity-disagree", "%s: Identity.Normalize and Party.Calculate normalise %q / %q differently", c.Country, c.Code, c.Formatted)
		return
	}
	if x != y || xc != yc {
		if y == c.Formatted && yc == c.Country {
			o.Failf(r.key+":norm-no-effect", "%s: the written form %q is left untouched by normalisation (N(%q) = %s %q)", c.Country, c.Formatted, c.Code, xc, x)
			return
		}
		feature := "lowercase"
		if strings.Contains(c.Variant, "prefix") {
			feature = "prefix"
		} else if strings.Contains(c.Variant, "separators") {
			feature = "separators"
		}
		o.Failf(r.key+":norm-format-sensitive:"+feature, "%s: N(%q) = %s %q but the written form %q normalises to %s %q", c.Country, c.Code, xc, x, c.Formatted, yc, y)
		return
	}
	if hashOf(c.Formatted)%2 == 0 {
		if dr, nc, ncode, _, ok := inDocument(c.Country, c.Formatted, false); ok {
			o.Class("in-document")
			if nc != yc || ncode != y {
				o.Failf(r.key+":document-alters-identity", "%s %q as the customer of a %s invoice normalises to %s %q (on its own: %s %q)", c.Country, c.Formatted, dr, nc, ncode, yc, y)
				return
			}
		}
	}
	zc, z, _ := normalised(yc, y)
	if z != y || zc != yc {
		o.Failf(r.key+":norm-not-idempotent", "%s: N(%q) = %s %q, normalising again gives %s %q", c.Country, c.Formatted, yc, y, zc, z)
		return
	}
	want, got := digitsOf(c.Code), digitsOf(y)
	if c.Kind == "bare-siren" {
		o.Class("bare-siren")
		if full := pad(frKey(c.Code), 2) + c.Code; y != full {
			o.Failf(r.key+":norm-bare-siren", "%s: the SIREN %q (written %q) normalises to %q, the VAT number is %q", c.Country, c.Code, c.Formatted, y, full)
			return
		}
	}
	okDigits := got == want
	if r.key == "fr" && !okDigits {
		// a bare SIREN is completed with its two key digits in front
		okDigits = len(got) == len(want)+2 && strings.HasSuffix(got, want)
	}
	if !okDigits {
		o.Failf(r.key+":norm-digits-altered", "%s: digits of %q are %s, after normalisation of %q they are %s (%q)", c.Country, c.Code, want, c.Formatted, got, y)
		return
	}
	// a code that is valid in normal form is what validation is run on: the
	// normaliser must leave it as it is
	if r.ref(c.Code).V == vValid {
		o.Class("valid-fixed-point")
		if x != c.Code {
			o.Failf(r.key+":norm-alters-valid-code", "%s: %q is a valid code in normal form but normalisation turns it into %q", c.Country, c.Code, x)
		}
	}
}

// ---------------------------------------------------------------------------
// self test of the references against publicly documented sample numbers
// (harness integrity: a failure here is an infrastructure error, not a verdict)

var publicSamples = map[string][]string{
	"at": {"U13585627"},
	"be": {"0428759497"},
	"br": {"11222333000181", "00000000000191"},
	"de": {"136695976"},
	"es": {"54362315K", "X2482300W", "J99216582", "A13585625"},
	"fr": {"40303265045", "23334175221"},
	"gb": {"980780684", "GD001", "HA500"},
	"gr": {"094259216", "023456780"},
	"in": {"27AAPFU0939F1ZV"},
	"it": {"00743110157"},
	"nl": {"004495445B01", "002455799B11"},
	"pl": {"8567346215"},
	"pt": {"501964843"},
	"co": {"8001972684"},
	"ch": {"E100155212"},
}

func selfTest() {
	for k, list := range publicSamples {
		for _, code := range list {
			if res := regimeByKey[k].ref(code); res.V != vValid {
				panic(fmt.Sprintf("c13 reference self-test: %s %q judged %s", k, code, res.Class))
			}
		}
	}
	// constructions must be valid by their own reference (apart from the rare fallback)
	for _, r := range regimeList {
		d := &dsrc{s: 1}
		bad := 0
		for i := 0; i < 200; i++ {
			if r.ref(r.valid(d)).V != vValid {
				bad++
			}
		}
		if bad > 2 {
			panic(fmt.Sprintf("c13 generator self-test: %s builds %d/200 codes its reference does not call valid", r.key, bad))
		}
	}
}

func init() {
	selfTest()
	vh.Describe(
		"Per regime with a tax-identity rule (AT BE BR CH CO DE ES FR GB GR/EL IN IT NL PL PT; format-only AE MX) candidate codes are: codes CONSTRUCTED valid with an independent reference implementation of the national algorithm (30%); one decimal digit of such a code replaced by another (20%); one character replaced by any other of the national alphabet (10%); strings constructed to land on the special-remainder branch of the scheme (remainder 10/11/0-1 folding, check 97 vs 00, ...) with the folded, neighbouring and random check characters (15%); right shape with random check characters, legacy lengths and reserved prefixes (15%); random strings of the national alphabet at the national length +-1 (5%); valid codes with one character dropped or doubled (5%); plus an exhaustive enumeration of every single-character substitution (every position x whole national alphabet) of a fixed list of valid codes per regime (checks '<cc>_edits'). A quarter of the GB candidates carry the alternative tax country codes XI / XU that the published regime file lists (same rule). Oracle: accepted(code) <=> reference(code), observed through tax.Identity.Validate and org.Party validation (which must agree) with the regime registered and an already-normalised code; the reference is tri-state and says 'unsettled' (nothing asserted, class unsettled-*) wherever the national rule could not be settled offline. Single-digit law: for AT BE CH DE ES(DNI/NIE/entity, not K/L/M) FR IN IT PL a digit-for-digit substitution in an accepted code must be rejected. Normaliser (checks '<cc>_normalise'): for canonical codes x and written forms y of x (spaces, dots, dashes, slashes between characters, leading/trailing space, lower case, country prefix with optional separator; EL and GR for Greece, either as Identity.Country; for Switzerland the VAT suffixes MWST / TVA / IVA in any letter case, with or without a separator in front and a blank or dot behind) N(y)=N(x), N(N(y))=N(y), digits of N(y) = digits of x (FR: a bare valid SIREN gains its two key digits in front), and a reference-valid code in normal form is a fixed point of N. In a document: for half of the written forms and an eighth of the candidate codes the identity is also placed as the customer of an invoice of another regime (chosen by the code's hash among all registered regimes): calculation must normalise it exactly as on its own and the invoice's validation must judge customer.tax_id exactly as the identity on its own. Non-trivial: reference-valid code, or single-substitution of a valid code, or a code on the special-remainder branch; for the normaliser any variant other than the plain code.",
		"national algorithms as published (EU VIES algorithm descriptions, BMF, KBO, Receita Federal, BFS UID, DIAN, BZSt ISO 7064, AEAT/Orden EHA/451/2008, INSEE, HMRC, AADE, GSTN, Agenzia Entrate, Belastingdienst 11-proef + 2020 mod-97, Polish NIP, Portuguese NIF); references were written from these descriptions, not from the repository",
		"not asserted (unsettled): all-zero bodies; BE 9-digit legacy form, leading 1, 00 prefix; BR alphanumeric CNPJ (2026); CO lengths other than 9-10; ES K/L/M control scheme and digit-vs-letter control convention of entity codes; FR letter keys and SIREN Luhn; GB registration ranges and check 00 vs 97 when the sum is a multiple of 97; IN 14th character other than Z and state codes outside the list; NL suffix B00; PL office prefixes outside 101-998; PT leading digits outside the published list; MX date / check character of the RFC",
		"single-digit law not asserted for GB and NL (two alternative algorithms), GR PT BR CO (remainder folding maps two remainders to one digit), letter positions, AE/MX (no check digit)",
		"MX: the normaliser does not strip a country prefix (an RFC is alphabetic and may itself begin with MX), so prefixed variants are not generated for MX",
		"doubled country prefixes are outside the variant grammar",
	)
	for _, r := range regimeList {
		vh.Rapid(r.key+"_accept", 40_000, 2_400_000, genCase(r), judgeAccept)
	}
	for _, r := range regimeList {
		vh.Enum(r.key+"_edits", enumEdits(r), judgeAccept)
	}
	for _, r := range regimeList {
		vh.Rapid(r.key+"_normalise", 10_000, 500_000, genNormCase(r), judgeNormalise)
	}
}
