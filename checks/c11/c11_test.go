// Package c11 decides property C11: the published JSON Schemas are valid
// Draft 2020-12 schemas with resolvable references, and every envelope or
// document the library calculates and validates serialises to JSON the
// published schema for its type accepts.
//
// The referee is a Draft 2020-12 validator outside Go: tools/schema_oracle.py
// (python3-vt, jsonschema + referencing), started once per test process and
// spoken to line by line.
package c11

import (
	"bufio"
	"encoding"
	"encoding/json"
	"fmt"
	"io"
	"os"
	"os/exec"
	"path/filepath"
	"reflect"
	"regexp"
	"sort"
	"strconv"
	"strings"
	"sync"
	"testing"

	"github.com/invopop/gobl"
	"github.com/invopop/gobl/bill"
	"github.com/invopop/gobl/cbc"
	"github.com/invopop/gobl/currency"
	"github.com/invopop/gobl/l10n"
	"github.com/invopop/gobl/org"
	"github.com/invopop/gobl/pay"
	"github.com/invopop/gobl/schema"
	"github.com/invopop/gobl/tax"
	"github.com/invopop/gobl/verifharness/internal/corpus"
	"github.com/invopop/gobl/verifharness/internal/vh"
	"pgregory.net/rapid"
)

func TestMain(m *testing.M) { vh.Main(m, "C11") }

func TestAll(t *testing.T) {
	// the oracle is infrastructure: without it nothing can be decided
	if _, err := oracle(); err != nil {
		t.Fatalf("C11 needs the schema oracle (python3-vt tools/schema_oracle.py): %v", err)
	}
	defer stopOracle()
	vh.RunAll(t)
	dumpDebug()
}

// ---------------------------------------------------------------------------
// oracle client

type oracleProc struct {
	cmd  *exec.Cmd
	in   io.WriteCloser
	out  *bufio.Reader
	mu   sync.Mutex
	info pingReply
}

type pingReply struct {
	OK         bool     `json:"ok"`
	Error      string   `json:"error"`
	JSONSchema string   `json:"jsonschema"`
	Python     string   `json:"python"`
	Schemas    int      `json:"schemas"`
	IDs        []string `json:"ids"`
}

// SchemaError is one complaint of the validator.
type SchemaError struct {
	Path       string `json:"path"`
	Keyword    string `json:"keyword"`
	Message    string `json:"message"`
	SchemaPath string `json:"schema_path"`
}

type validateReply struct {
	OK     bool          `json:"ok"`
	Error  string        `json:"error"`
	Errors []SchemaError `json:"errors"`
}

type refInfo struct {
	Path  string          `json:"path"`
	Ref   json.RawMessage `json:"ref"`
	OK    bool            `json:"ok"`
	Error string          `json:"error"`
}

type patInfo struct {
	Path    string `json:"path"`
	Pattern string `json:"pattern"`
	Kind    string `json:"kind"`
	OK      bool   `json:"ok"`
	Error   string `json:"error"`
}

type fileReport struct {
	File         string        `json:"file"`
	ID           any           `json:"id"`
	Dialect      any           `json:"dialect"`
	LoadError    string        `json:"load_error"`
	SchemaErrors []SchemaError `json:"schema_errors"`
	Refs         []refInfo     `json:"refs"`
	Patterns     []patInfo     `json:"patterns"`
}

type checkReply struct {
	OK    bool         `json:"ok"`
	Error string       `json:"error"`
	Files []fileReport `json:"files"`
}

var (
	oracleOnce sync.Once
	oracleInst *oracleProc
	oracleErr  error
)

func oracle() (*oracleProc, error) {
	oracleOnce.Do(func() {
		bin, err := exec.LookPath("python3-vt")
		if err != nil {
			oracleErr = fmt.Errorf("python3-vt not found on PATH: %w", err)
			return
		}
		script := filepath.Join(vh.Cfg().Root, "tools", "schema_oracle.py")
		if _, err := os.Stat(script); err != nil {
			oracleErr = err
			return
		}
		cmd := exec.Command(bin, script, vh.Cfg().Repo)
		cmd.Stderr = os.Stderr
		in, err := cmd.StdinPipe()
		if err != nil {
			oracleErr = err
			return
		}
		out, err := cmd.StdoutPipe()
		if err != nil {
			oracleErr = err
			return
		}
		if err := cmd.Start(); err != nil {
			oracleErr = err
			return
		}
		p := &oracleProc{cmd: cmd, in: in, out: bufio.NewReaderSize(out, 1<<20)}
		if err := p.call(map[string]any{"op": "ping"}, &p.info); err != nil {
			oracleErr = fmt.Errorf("oracle does not answer: %w", err)
			return
		}
		if !p.info.OK || p.info.Schemas == 0 {
			oracleErr = fmt.Errorf("oracle not ready: %s (schemas loaded: %d)", p.info.Error, p.info.Schemas)
			return
		}
		oracleInst = p
	})
	return oracleInst, oracleErr
}

func stopOracle() {
	if oracleInst != nil {
		_ = oracleInst.in.Close()
		_ = oracleInst.cmd.Wait()
	}
}

func (p *oracleProc) call(req any, rep any) error {
	data, err := json.Marshal(req)
	if err != nil {
		return err
	}
	p.mu.Lock()
	defer p.mu.Unlock()
	if _, err := p.in.Write(append(data, '\n')); err != nil {
		return err
	}
	line, err := p.out.ReadBytes('\n')
	if err != nil {
		return fmt.Errorf("reading reply: %w", err)
	}
	return json.Unmarshal(line, rep)
}

// infraFatal ends the shard with a status the driver reads as infrastructure
// trouble (exit 2): a dead oracle says nothing about the repository, and a
// panic inside a judge would be recorded as a violation.
func infraFatal(msg string) {
	fmt.Fprintln(os.Stderr, "C11 INFRASTRUCTURE: "+msg)
	os.Exit(3)
}

// mustOracle is used inside judges: the process was checked at start, so a
// failure here is a dead worker.
func mustOracle() *oracleProc {
	p, err := oracle()
	if err != nil {
		infraFatal("schema oracle unavailable: " + err.Error())
	}
	return p
}

// validateAgainst asks the oracle; an oracle-side error (unknown schema id,
// exception) is returned as err.
func validateAgainst(schemaID string, instance json.RawMessage) ([]SchemaError, error) {
	var rep validateReply
	if err := mustOracle().call(map[string]any{"op": "validate", "schema_id": schemaID, "instance": instance}, &rep); err != nil {
		infraFatal("schema oracle died: " + err.Error())
	}
	if !rep.OK {
		return nil, fmt.Errorf("%s", rep.Error)
	}
	return rep.Errors, nil
}

var (
	checkOnce sync.Once
	checkRep  checkReply
)

func schemaReports() map[string]fileReport {
	checkOnce.Do(func() {
		if err := mustOracle().call(map[string]any{"op": "check_schemas"}, &checkRep); err != nil {
			infraFatal("schema oracle died: " + err.Error())
		}
		if !checkRep.OK {
			infraFatal("schema oracle: check_schemas: " + checkRep.Error)
		}
	})
	m := map[string]fileReport{}
	for _, f := range checkRep.Files {
		m[filepath.ToSlash(f.File)] = f
	}
	return m
}

// ---------------------------------------------------------------------------
// debugging aid (C11_DEBUG=1): everything seen, not only the first violation

var (
	dbgMu   sync.Mutex
	dbgSigs = map[string]int{}
	dbgEx   = map[string]string{}
	dbgCnt  = map[string]int{}
)

func dbgSig(sig, example string) {
	dbgMu.Lock()
	dbgSigs[sig]++
	if _, ok := dbgEx[sig]; !ok {
		dbgEx[sig] = example
	}
	dbgMu.Unlock()
}

func dbgCount(k string) {
	dbgMu.Lock()
	dbgCnt[k]++
	dbgMu.Unlock()
}

func dumpDebug() {
	if os.Getenv("C11_DEBUG") == "" {
		return
	}
	for _, k := range vh.SortedKeys(dbgSigs) {
		fmt.Fprintf(os.Stderr, "C11-DEBUG sig %5d %s   e.g. %s\n", dbgSigs[k], k, dbgEx[k])
	}
	for _, k := range vh.SortedKeys(dbgCnt) {
		fmt.Fprintf(os.Stderr, "C11-DEBUG count %6d %s\n", dbgCnt[k], k)
	}
}

// ---------------------------------------------------------------------------
// (A) every published schema file

// SchemaCase is one file under data/schemas.
type SchemaCase struct {
	File string `json:"file"` // relative to data/schemas
}

const goblBase = "https://gobl.org/draft-0/"

func listSchemaFiles() []string {
	root := filepath.Join(vh.Cfg().Repo, "data", "schemas")
	var out []string
	_ = filepath.Walk(root, func(p string, info os.FileInfo, err error) error {
		if err != nil || info.IsDir() {
			return nil
		}
		rel, _ := filepath.Rel(root, p)
		out = append(out, filepath.ToSlash(rel))
		return nil
	})
	sort.Strings(out)
	return out
}

func enumSchemas(yield func(SchemaCase) bool) {
	if vh.Cfg().Shard != 0 {
		return
	}
	files := listSchemaFiles()
	if len(files) == 0 {
		panic("no schema files under " + vh.Cfg().Repo + "/data/schemas")
	}
	for _, f := range files {
		if !yield(SchemaCase{File: f}) {
			return
		}
	}
}

// Constructs that are legal ECMA 262 but that Go's RE2 does not implement: a
// pattern using them is not wrong, a Go consumer merely needs another engine.
var ecmaOnly = regexp.MustCompile(`\(\?=|\(\?!|\(\?<=|\(\?<!|\\[1-9]|\\k<`)

// escapes that an ECMAScript engine in unicode mode (the default of the most
// used JavaScript validator) refuses although they are legal without the flag
var identityEscape = regexp.MustCompile(`\\([^\\^$.*+?()\[\]{}|/dDsSwWbBfnrtv0-9cxukpP\-])`)

func judgeSchema(c SchemaCase, o *vh.Obs) {
	rep, ok := schemaReports()[c.File]
	if !ok {
		o.Discard() // replay of a file that no longer exists
		return
	}
	o.NonTrivial()
	sig := func(kind, detail string) string { return kind + ":" + c.File + ":" + detail }
	if rep.LoadError != "" {
		o.Failf(sig("unloadable-schema", "load"), "data/schemas/%s cannot be loaded into the registry: %s", c.File, rep.LoadError)
		return
	}
	if d, _ := rep.Dialect.(string); d != "https://json-schema.org/draft/2020-12/schema" {
		o.Failf(sig("invalid-schema", "/$schema"), "data/schemas/%s declares dialect %v, not draft 2020-12", c.File, rep.Dialect)
		return
	}
	want := goblBase + strings.TrimSuffix(c.File, ".json")
	if id, _ := rep.ID.(string); id != want {
		o.Failf(sig("invalid-schema", "/$id"), "data/schemas/%s has $id %v; a consumer resolving references by URL expects %s", c.File, rep.ID, want)
		return
	}
	if len(rep.SchemaErrors) > 0 {
		e := rep.SchemaErrors[0]
		o.Failf(sig("invalid-schema", e.Path), "data/schemas/%s is not a valid draft 2020-12 schema: at %s (%s) %s [%d meta-schema errors]", c.File, e.Path, e.Keyword, e.Message, len(rep.SchemaErrors))
		return
	}
	for _, r := range rep.Refs {
		if !r.OK {
			o.Failf(sig("unresolved-ref", string(r.Ref)), "data/schemas/%s: $ref %s at %s does not resolve among the published schemas: %s", c.File, r.Ref, r.Path, r.Error)
			return
		}
	}
	nEcma := 0
	for _, p := range rep.Patterns {
		if !p.OK {
			o.Failf(sig("bad-pattern:python", p.Path), "data/schemas/%s: %s %q at %s does not compile in Python re: %s", c.File, p.Kind, p.Pattern, p.Path, p.Error)
			return
		}
		if _, err := regexp.Compile(p.Pattern); err != nil {
			if ecmaOnly.MatchString(p.Pattern) {
				o.Class("pattern-ecma-only-construct")
				continue
			}
			o.Failf(sig("bad-pattern:go", p.Path), "data/schemas/%s: %s %q at %s does not compile in Go regexp: %v", c.File, p.Kind, p.Pattern, p.Path, err)
			return
		}
		if identityEscape.MatchString(p.Pattern) {
			nEcma++
		}
	}
	if len(rep.Patterns) > 0 {
		o.Class("has-pattern")
	}
	if len(rep.Refs) > 1 {
		o.Class("has-refs")
	}
	if nEcma > 0 {
		// not asserted: legal ECMA 262 (Annex B identity escape) that engines
		// running in unicode mode refuse, e.g. `\:`
		o.Class("pattern-needs-non-unicode-mode")
	}
	o.Note("%s: valid; %d refs resolve; %d patterns compile (python re, go regexp)", c.File, len(rep.Refs), len(rep.Patterns))
}

// ---------------------------------------------------------------------------
// judging an envelope against the published schemas

const envelopeID = goblBase + "envelope"

var indexRe = regexp.MustCompile(`/[0-9]+(/|$)`)

// normPath replaces array indices by `*`.
func normPath(p string) string {
	for {
		q := indexRe.ReplaceAllString(p, "/*$1")
		if q == p {
			return q
		}
		p = q
	}
}

func shortSchema(id string) string {
	s := strings.TrimPrefix(id, goblBase)
	if s == "" {
		return "?"
	}
	return s
}

// rejection is one complaint mapped to its signature.
type rejection struct {
	sig string
	msg string
}

type jsonObj = map[string]json.RawMessage

// nestedObjects lists the members of v (recursively) that carry a `$schema`.
func nestedObjects(raw json.RawMessage, ptr string, out *[]nested) {
	raw = json.RawMessage(strings.TrimSpace(string(raw)))
	if len(raw) == 0 {
		return
	}
	switch raw[0] {
	case '{':
		var m jsonObj
		if json.Unmarshal(raw, &m) != nil {
			return
		}
		if s, ok := m["$schema"]; ok && ptr != "" {
			var id string
			if json.Unmarshal(s, &id) == nil && id != "" {
				*out = append(*out, nested{ptr, id, raw})
			}
		}
		for _, k := range vh.SortedKeys(m) {
			nestedObjects(m[k], ptr+"/"+k, out)
		}
	case '[':
		var l []json.RawMessage
		if json.Unmarshal(raw, &l) != nil {
			return
		}
		for i, e := range l {
			nestedObjects(e, ptr+"/"+strconv.Itoa(i), out)
		}
	}
}

type nested struct {
	ptr, id string
	raw     json.RawMessage
}

// schemaRejections validates the serialised envelope against the envelope
// schema, its doc against the schema named by the doc's $schema, and every
// embedded object carrying a $schema (complements) against its own.
var uriScheme = regexp.MustCompile(`^[A-Za-z][A-Za-z0-9+.\-]*:`)

// uriDefect names why a string the library accepted as a URL is not an RFC
// 3986 URI: the three recorded ways (checked in this order), or "other".
func uriDefect(v string) string {
	if !uriScheme.MatchString(v) {
		return "no-scheme"
	}
	for i := 0; i < len(v); i++ {
		if v[i] >= 0x80 {
			return "non-ascii"
		}
	}
	if strings.ContainsAny(v, "{}|^\"<>\\`[]") || strings.Count(v, "#") > 1 {
		return "disallowed-character"
	}
	return "other"
}

func schemaRejections(envJSON []byte) []rejection {
	var out []rejection
	var instance json.RawMessage
	add := func(short, prefix string, errs []SchemaError, err error) {
		if err != nil {
			out = append(out, rejection{"schema-unusable:" + short, fmt.Sprintf("the validator cannot use schema %s: %v", short, err)})
			return
		}
		for _, e := range errs {
			if e.Keyword == "format" && strings.HasSuffix(e.Message, "is not a 'uri'") {
				// one root cause for every member published with format uri: named by
				// what is wrong with the value, not by where the member sits
				if tree, err := decodeTree(instance); err == nil {
					if v, ok := getAt(tree, e.Path); ok {
						if str, ok := v.(string); ok {
							out = append(out, rejection{
								sig: "schema-rejects:format-uri:" + uriDefect(str),
								msg: fmt.Sprintf("schema %s rejects %s%s (format uri): %q is not an RFC 3986 URI (%s)", short, prefix, e.Path, str, uriDefect(str)),
							})
							continue
						}
					}
				}
			}
			out = append(out, rejection{
				sig: fmt.Sprintf("schema-rejects:%s:%s:%s", short, e.Keyword, normPath(e.Path)),
				msg: fmt.Sprintf("schema %s rejects %s%s (%s, schema path %s): %s", short, prefix, e.Path, e.Keyword, e.SchemaPath, e.Message),
			})
		}
	}
	instance = envJSON
	errs, err := validateAgainst(envelopeID, envJSON)
	add("envelope", "", errs, err)
	var env jsonObj
	if json.Unmarshal(envJSON, &env) != nil {
		return out
	}
	doc := env["doc"]
	var probe struct {
		Schema string `json:"$schema"`
	}
	if json.Unmarshal(doc, &probe) != nil || probe.Schema == "" {
		out = append(out, rejection{"schema-rejects:envelope:doc-without-schema:/doc", "the serialised doc carries no $schema"})
		return out
	}
	instance = doc
	errs, err = validateAgainst(probe.Schema, doc)
	add(shortSchema(probe.Schema), "doc", errs, err)
	var ns []nested
	nestedObjects(doc, "", &ns)
	for _, n := range ns {
		instance = n.raw
		errs, err = validateAgainst(n.id, n.raw)
		add(shortSchema(n.id), "doc"+n.ptr, errs, err)
	}
	return out
}

// report turns rejections into the verdict of the case: the first complaint
// that is not a listed known finding wins, otherwise the first known one (the
// harness then counts the case as excluded).
func report(o *vh.Obs, what string, rej []rejection) {
	if len(rej) == 0 {
		return
	}
	for _, r := range rej {
		dbgSig(r.sig, what+": "+r.msg)
	}
	if os.Getenv("C11_DEBUG_COLLECT") != "" {
		return // development aid only: list every signature (C11_DEBUG=1) instead of stopping at the first
	}
	if skip := os.Getenv("C11_DEBUG_SKIP"); skip != "" {
		// development aid only: look past signatures already understood
		re := regexp.MustCompile(skip)
		var rest []rejection
		for _, r := range rej {
			if !re.MatchString(r.sig) {
				rest = append(rest, r)
			}
		}
		if rej = rest; len(rej) == 0 {
			return
		}
	}
	pick := rej[0]
	for _, r := range rej {
		if !vh.KnownSig(r.sig) {
			pick = r
			break
		}
	}
	o.Failf(pick.sig, "%s passes Calculate and Validate, but %s [%d complaints in all]", what, pick.msg, len(rej))
}

// ---------------------------------------------------------------------------
// (B) the corpus

// CorpusCase is one example source of the repository.
type CorpusCase struct {
	Path string `json:"path"`
}

func corpusDoc(path string) (corpus.Doc, bool) {
	for _, d := range corpus.MustLoad() {
		if d.Path == path {
			return d, true
		}
	}
	return corpus.Doc{}, false
}

func enumCorpus(yield func(CorpusCase) bool) {
	for i, d := range corpus.MustLoad() {
		if i%vh.Cfg().Shards != vh.Cfg().Shard {
			continue
		}
		if !yield(CorpusCase{Path: d.Path}) {
			return
		}
	}
}

// validEnvelope builds, calculates and validates; ok=false when the library
// itself does not accept the document.
func validEnvelope(js []byte, isEnv bool) (env *gobl.Envelope, out []byte, why string) {
	defer func() {
		// a crash of Calculate / Validate is C14's subject; for this property
		// the document simply is not one the library accepted
		if r := recover(); r != nil {
			env, out, why = nil, nil, fmt.Sprintf("panic: %v", r)
		}
	}()
	env, err := corpus.EnvelopeOf(js, isEnv)
	if err != nil {
		return nil, nil, "calculate: " + err.Error()
	}
	if err := env.Validate(); err != nil {
		return nil, nil, "validate: " + err.Error()
	}
	out, err = json.Marshal(env)
	if err != nil {
		return nil, nil, "marshal: " + err.Error()
	}
	return env, out, ""
}

func judgeCorpus(c CorpusCase, o *vh.Obs) {
	d, ok := corpusDoc(c.Path)
	if !ok {
		o.Discard()
		return
	}
	_, out, why := validEnvelope(d.JSON, d.IsEnv)
	if why != "" {
		dbgCount("corpus-not-valid: " + c.Path + ": " + why)
		o.Discard() // outside the domain: the library does not accept it
		return
	}
	o.NonTrivial()
	o.Class("doc:" + d.ShortSch)
	if d.Regime != "" {
		o.Class("regime:" + d.Regime)
	}
	rej := schemaRejections(out)
	report(o, c.Path, rej)
	if len(rej) == 0 {
		o.Note("%s (%s): envelope and doc accepted by the published schemas", c.Path, d.ShortSch)
	}
}

// ---------------------------------------------------------------------------
// sites: every position of a serialised envelope together with the Go type
// that produced it (found by walking the calculated structure by reflection)

type site struct {
	Ptr      string // JSON pointer inside the envelope
	GoType   string // e.g. cbc.Key, *org.Party is reported as org.Party
	Field    string // owner and Go field, e.g. bill.Invoice.Type ("" for elements and entries: see Of)
	Of       string // for slice elements / map entries: the Field of the container
	Kind     string // leaf | struct | slice | map | object
	Present  bool
	Optional bool   // omitempty
	Elem     string // element type of a slice / value type of a map
	KeyType  string // key type of a map
	Keys     []string
	Len      int
	Value    string // present string-like leaves: the current value
	Calc     bool   // tagged calculated=true (or inside something that is)
}

var (
	jsonMarshalerT = reflect.TypeOf((*json.Marshaler)(nil)).Elem()
	textMarshalerT = reflect.TypeOf((*encoding.TextMarshaler)(nil)).Elem()
	objectT        = reflect.TypeOf(schema.Object{})
)

func typeName(t reflect.Type) string {
	for t.Kind() == reflect.Ptr {
		t = t.Elem()
	}
	return t.String()
}

func deref(t reflect.Type) reflect.Type {
	for t.Kind() == reflect.Ptr {
		t = t.Elem()
	}
	return t
}

func isLeafType(t reflect.Type) bool {
	t = deref(t)
	if t == objectT {
		return false
	}
	if t.Implements(jsonMarshalerT) || reflect.PtrTo(t).Implements(jsonMarshalerT) ||
		t.Implements(textMarshalerT) || reflect.PtrTo(t).Implements(textMarshalerT) {
		return true
	}
	switch t.Kind() {
	case reflect.Struct, reflect.Slice, reflect.Map, reflect.Array, reflect.Interface:
		return false
	}
	return true
}

func escPtr(s string) string {
	return strings.ReplaceAll(strings.ReplaceAll(s, "~", "~0"), "/", "~1")
}

func isEmptyValue(v reflect.Value) bool {
	switch v.Kind() {
	case reflect.Array, reflect.Map, reflect.Slice, reflect.String:
		return v.Len() == 0
	case reflect.Bool:
		return !v.Bool()
	case reflect.Int, reflect.Int8, reflect.Int16, reflect.Int32, reflect.Int64:
		return v.Int() == 0
	case reflect.Uint, reflect.Uint8, reflect.Uint16, reflect.Uint32, reflect.Uint64, reflect.Uintptr:
		return v.Uint() == 0
	case reflect.Float32, reflect.Float64:
		return v.Float() == 0
	case reflect.Interface, reflect.Ptr:
		return v.IsNil()
	}
	return false
}

type walker struct {
	sites []site
}

// value walks v (whose static type is t) located at ptr.
func (w *walker) value(v reflect.Value, t reflect.Type, ptr string, s site) {
	s.Ptr = ptr
	s.GoType = typeName(t)
	for v.IsValid() && v.Kind() == reflect.Ptr {
		if v.IsNil() {
			v = reflect.Value{}
			break
		}
		v = v.Elem()
	}
	bt := deref(t)
	switch {
	case bt == objectT:
		s.Kind = "object"
		w.sites = append(w.sites, s)
		if v.IsValid() {
			obj := v.Addr().Interface().(*schema.Object)
			if inst := obj.Instance(); inst != nil {
				iv := reflect.ValueOf(inst)
				w.value(iv, iv.Type(), ptr, site{Present: true, Of: s.Field + s.Of, Calc: s.Calc})
			}
		}
	case isLeafType(bt):
		s.Kind = "leaf"
		if v.IsValid() && s.Present {
			if v.Kind() == reflect.String {
				s.Value = v.String()
			} else if tm, ok := v.Interface().(encoding.TextMarshaler); ok {
				if b, err := tm.MarshalText(); err == nil {
					s.Value = string(b)
				}
			}
		}
		w.sites = append(w.sites, s)
	case bt.Kind() == reflect.Struct:
		s.Kind = "struct"
		w.sites = append(w.sites, s)
		if v.IsValid() && s.Present {
			w.fields(v, bt, ptr, s.Calc)
		}
	case bt.Kind() == reflect.Slice:
		s.Kind = "slice"
		s.Elem = typeName(bt.Elem())
		if v.IsValid() {
			s.Len = v.Len()
		}
		w.sites = append(w.sites, s)
		if v.IsValid() {
			for i := 0; i < v.Len(); i++ {
				w.value(v.Index(i), bt.Elem(), ptr+"/"+strconv.Itoa(i), site{Present: true, Of: s.Field + s.Of, Calc: s.Calc})
			}
		}
	case bt.Kind() == reflect.Map:
		s.Kind = "map"
		s.Elem = typeName(bt.Elem())
		s.KeyType = typeName(bt.Key())
		var keys []string
		if v.IsValid() {
			for _, k := range v.MapKeys() {
				keys = append(keys, fmt.Sprint(k.Interface()))
			}
			sort.Strings(keys)
		}
		s.Keys = keys
		w.sites = append(w.sites, s)
		if v.IsValid() && bt.Key().Kind() == reflect.String {
			for _, k := range keys {
				kv := reflect.ValueOf(k).Convert(bt.Key())
				w.value(v.MapIndex(kv), bt.Elem(), ptr+"/"+escPtr(k), site{Present: true, Of: s.Field + s.Of, Calc: s.Calc})
			}
		}
	default:
		s.Kind = "other"
		w.sites = append(w.sites, s)
	}
}

func (w *walker) fields(v reflect.Value, t reflect.Type, ptr string, calc bool) {
	for i := 0; i < t.NumField(); i++ {
		f := t.Field(i)
		if f.PkgPath != "" && !f.Anonymous {
			continue // unexported
		}
		tag := f.Tag.Get("json")
		if tag == "-" {
			continue
		}
		name, opts, _ := strings.Cut(tag, ",")
		if f.Anonymous && name == "" && deref(f.Type).Kind() == reflect.Struct && !isLeafType(f.Type) {
			fv := v.Field(i)
			for fv.Kind() == reflect.Ptr {
				if fv.IsNil() {
					fv = reflect.Value{}
					break
				}
				fv = fv.Elem()
			}
			if fv.IsValid() {
				w.fields(fv, deref(f.Type), ptr, calc)
			}
			continue
		}
		if f.PkgPath != "" {
			continue
		}
		if name == "" {
			name = f.Name
		}
		optional := strings.Contains(","+opts+",", ",omitempty,")
		fv := v.Field(i)
		present := !optional || !isEmptyValue(fv)
		fc := calc || strings.Contains(f.Tag.Get("jsonschema_extras"), "calculated=true")
		w.value(fv, f.Type, ptr+"/"+escPtr(name), site{Field: t.String() + "." + f.Name, Present: present, Optional: optional, Calc: fc})
	}
}

func sitesOf(env *gobl.Envelope) []site {
	w := &walker{}
	v := reflect.ValueOf(env).Elem()
	w.fields(v, v.Type(), "", false)
	return w.sites
}

// ---------------------------------------------------------------------------
// JSON trees and pointers

func decodeTree(b []byte) (any, error) {
	dec := json.NewDecoder(strings.NewReader(string(b)))
	dec.UseNumber()
	var v any
	if err := dec.Decode(&v); err != nil {
		return nil, err
	}
	return v, nil
}

func ptrTokens(p string) []string {
	if p == "" {
		return nil
	}
	parts := strings.Split(strings.TrimPrefix(p, "/"), "/")
	for i, s := range parts {
		parts[i] = strings.ReplaceAll(strings.ReplaceAll(s, "~1", "/"), "~0", "~")
	}
	return parts
}

func getAt(root any, ptr string) (any, bool) {
	cur := root
	for _, tok := range ptrTokens(ptr) {
		switch n := cur.(type) {
		case map[string]any:
			v, ok := n[tok]
			if !ok {
				return nil, false
			}
			cur = v
		case []any:
			i, err := strconv.Atoi(tok)
			if err != nil || i < 0 || i >= len(n) {
				return nil, false
			}
			cur = n[i]
		default:
			return nil, false
		}
	}
	return cur, true
}

// edit applies fn to the node at the parent of the last token and returns the
// new root. fn receives the parent container and the last token and returns
// the replacement container.
func edit(node any, toks []string, fn func(parent any, last string) (any, error)) (any, error) {
	if len(toks) == 0 {
		return nil, fmt.Errorf("empty pointer")
	}
	if len(toks) == 1 {
		return fn(node, toks[0])
	}
	switch n := node.(type) {
	case map[string]any:
		child, ok := n[toks[0]]
		if !ok {
			return nil, fmt.Errorf("no member %q", toks[0])
		}
		nc, err := edit(child, toks[1:], fn)
		if err != nil {
			return nil, err
		}
		n[toks[0]] = nc
		return n, nil
	case []any:
		i, err := strconv.Atoi(toks[0])
		if err != nil || i < 0 || i >= len(n) {
			return nil, fmt.Errorf("no index %q", toks[0])
		}
		nc, err := edit(n[i], toks[1:], fn)
		if err != nil {
			return nil, err
		}
		n[i] = nc
		return n, nil
	}
	return nil, fmt.Errorf("cannot descend into a scalar at %q", toks[0])
}

// Op is one edit of the serialised envelope.
type Op struct {
	Op    string          `json:"op"`  // set | remove | append
	Ptr   string          `json:"ptr"` // JSON pointer inside the envelope
	Value json.RawMessage `json:"value,omitempty"`
	Kind  string          `json:"kind,omitempty"` // how the value was chosen (statistics only)
}

func applyOp(root any, op Op) (any, error) {
	var val any
	if op.Op != "remove" {
		var err error
		if val, err = decodeTree(op.Value); err != nil {
			return nil, err
		}
	}
	toks := ptrTokens(op.Ptr)
	switch op.Op {
	case "set":
		return edit(root, toks, func(parent any, last string) (any, error) {
			switch n := parent.(type) {
			case map[string]any:
				n[last] = val
				return n, nil
			case []any:
				i, err := strconv.Atoi(last)
				if err != nil || i < 0 || i >= len(n) {
					return nil, fmt.Errorf("no index %q", last)
				}
				n[i] = val
				return n, nil
			}
			return nil, fmt.Errorf("parent of %s is a scalar", op.Ptr)
		})
	case "remove":
		return edit(root, toks, func(parent any, last string) (any, error) {
			switch n := parent.(type) {
			case map[string]any:
				if _, ok := n[last]; !ok {
					return nil, fmt.Errorf("no member %q", last)
				}
				delete(n, last)
				return n, nil
			case []any:
				i, err := strconv.Atoi(last)
				if err != nil || i < 0 || i >= len(n) {
					return nil, fmt.Errorf("no index %q", last)
				}
				return append(append([]any{}, n[:i]...), n[i+1:]...), nil
			}
			return nil, fmt.Errorf("parent of %s is a scalar", op.Ptr)
		})
	case "append":
		return edit(root, toks, func(parent any, last string) (any, error) {
			n, ok := parent.(map[string]any)
			if !ok {
				return nil, fmt.Errorf("append needs an object member")
			}
			switch l := n[last].(type) {
			case nil:
				n[last] = []any{val}
			case []any:
				n[last] = append(l, val)
			default:
				return nil, fmt.Errorf("%s is not an array", op.Ptr)
			}
			return n, nil
		})
	}
	return nil, fmt.Errorf("unknown op %q", op.Op)
}

// ---------------------------------------------------------------------------
// reading the published schemas (as data) to say which constrained keywords
// govern a position: this only feeds the non-triviality rule and the class
// histogram, never a verdict.

type schemaSet struct {
	byID map[string]map[string]any
}

var (
	schemaSetOnce sync.Once
	schemaSetInst *schemaSet
)

func publishedSchemas() *schemaSet {
	schemaSetOnce.Do(func() {
		ss := &schemaSet{byID: map[string]map[string]any{}}
		root := filepath.Join(vh.Cfg().Repo, "data", "schemas")
		for _, f := range listSchemaFiles() {
			data, err := os.ReadFile(filepath.Join(root, filepath.FromSlash(f)))
			if err != nil {
				continue
			}
			var m map[string]any
			if json.Unmarshal(data, &m) != nil {
				continue
			}
			if id, ok := m["$id"].(string); ok {
				ss.byID[id] = m
			}
		}
		schemaSetInst = ss
	})
	return schemaSetInst
}

// snode is a subschema together with the document it lives in.
type snode struct {
	doc  map[string]any
	node map[string]any
}

func (ss *schemaSet) root(id string) []snode {
	if m, ok := ss.byID[id]; ok {
		return ss.expand(snode{m, m}, 0)
	}
	return nil
}

func (ss *schemaSet) resolve(from snode, ref string) (snode, bool) {
	base, frag, _ := strings.Cut(ref, "#")
	doc := from.doc
	if base != "" {
		d, ok := ss.byID[base]
		if !ok {
			return snode{}, false
		}
		doc = d
	}
	var cur any = doc
	if frag != "" {
		v, ok := getAt(doc, frag)
		if !ok {
			return snode{}, false
		}
		cur = v
	}
	m, ok := cur.(map[string]any)
	return snode{doc, m}, ok
}

// expand follows $ref and allOf so that every schema object that applies at
// the same instance position is listed.
func (ss *schemaSet) expand(n snode, depth int) []snode {
	if n.node == nil || depth > 12 {
		return nil
	}
	out := []snode{n}
	if r, ok := n.node["$ref"].(string); ok {
		if t, ok := ss.resolve(n, r); ok {
			out = append(out, ss.expand(t, depth+1)...)
		}
	}
	if l, ok := n.node["allOf"].([]any); ok {
		for _, e := range l {
			if m, ok := e.(map[string]any); ok {
				out = append(out, ss.expand(snode{n.doc, m}, depth+1)...)
			}
		}
	}
	return out
}

func (ss *schemaSet) step(pos []snode, tok string) []snode {
	var out []snode
	for _, n := range pos {
		matched := false
		if props, ok := n.node["properties"].(map[string]any); ok {
			if m, ok := props[tok].(map[string]any); ok {
				out = append(out, ss.expand(snode{n.doc, m}, 0)...)
				matched = true
			}
		}
		if pp, ok := n.node["patternProperties"].(map[string]any); ok {
			for pat, sub := range pp {
				if re, err := regexp.Compile(pat); err == nil && re.MatchString(tok) {
					if m, ok := sub.(map[string]any); ok {
						out = append(out, ss.expand(snode{n.doc, m}, 0)...)
						matched = true
					}
				}
			}
		}
		if !matched {
			if m, ok := n.node["additionalProperties"].(map[string]any); ok {
				out = append(out, ss.expand(snode{n.doc, m}, 0)...)
			}
		}
		if _, err := strconv.Atoi(tok); err == nil {
			if m, ok := n.node["items"].(map[string]any); ok {
				out = append(out, ss.expand(snode{n.doc, m}, 0)...)
			}
		}
	}
	return out
}

var assertedFormats = map[string]bool{"date": true, "uuid": true, "date-time": true}

// keywords lists the constrained keywords at a position and, when deep is
// set, anywhere below it.
func (ss *schemaSet) keywords(pos []snode, deep bool, acc map[string]bool, seen map[string]bool, depth int) {
	for _, n := range pos {
		if _, ok := n.node["pattern"]; ok {
			acc["pattern"] = true
		}
		if f, ok := n.node["format"].(string); ok && assertedFormats[f] {
			acc["format"] = true
		}
		for _, k := range []string{"enum", "const"} {
			if _, ok := n.node[k]; ok {
				acc["enum-const"] = true
			}
		}
		for _, k := range []string{"oneOf", "anyOf"} {
			if l, ok := n.node[k].([]any); ok {
				for _, e := range l {
					if m, ok := e.(map[string]any); ok {
						if _, ok := m["const"]; ok {
							acc["enum-const"] = true
						}
						if _, ok := m["pattern"]; ok {
							acc["pattern"] = true
						}
					}
				}
			}
		}
		if _, ok := n.node["required"]; ok {
			acc["required"] = true
		}
		if _, ok := n.node["maxLength"]; ok {
			acc["length"] = true
		}
		if _, ok := n.node["patternProperties"]; ok {
			acc["pattern"] = true
		}
		if !deep || depth > 6 {
			continue
		}
		id := fmt.Sprintf("%p", n.node)
		if seen[id] {
			continue
		}
		seen[id] = true
		if props, ok := n.node["properties"].(map[string]any); ok {
			for _, sub := range props {
				if m, ok := sub.(map[string]any); ok {
					ss.keywords(ss.expand(snode{n.doc, m}, 0), true, acc, seen, depth+1)
				}
			}
		}
		for _, k := range []string{"items", "additionalProperties"} {
			if m, ok := n.node[k].(map[string]any); ok {
				ss.keywords(ss.expand(snode{n.doc, m}, 0), true, acc, seen, depth+1)
			}
		}
		if pp, ok := n.node["patternProperties"].(map[string]any); ok {
			for _, sub := range pp {
				if m, ok := sub.(map[string]any); ok {
					ss.keywords(ss.expand(snode{n.doc, m}, 0), true, acc, seen, depth+1)
				}
			}
		}
	}
}

// keywordsAt navigates from the envelope schema along ptr, switching to the
// schema named by `$schema` whenever the instance carries one, and reports the
// constrained keywords that govern the position (and the `required` list of
// the parent when a member is added or removed).
func keywordsAt(instance any, ptr string, memberChange bool) map[string]bool {
	ss := publishedSchemas()
	pos := ss.root(envelopeID)
	cur := instance
	toks := ptrTokens(ptr)
	acc := map[string]bool{}
	for i, tok := range toks {
		if i == len(toks)-1 && memberChange {
			for _, n := range pos {
				if _, ok := n.node["required"]; ok {
					acc["required"] = true
				}
			}
		}
		pos = ss.step(pos, tok)
		if cur != nil {
			next, ok := getAt(cur, "/"+escPtr(tok))
			if ok {
				cur = next
			} else {
				cur = nil
			}
		}
		if m, ok := cur.(map[string]any); ok {
			if id, ok := m["$schema"].(string); ok {
				if r := ss.root(id); r != nil {
					pos = append(pos, r...)
				}
			}
		}
	}
	ss.keywords(pos, true, acc, map[string]bool{}, 0)
	return acc
}

// ---------------------------------------------------------------------------
// bases: the calculated, library-valid envelope of every corpus document, its
// sites, and the values harvested from all of them by Go type and by field

type base struct {
	Path    string
	JSON    []byte
	Sites   []site
	Cats    map[string][]int // category -> indexes into Sites
	CatList []string
	Regime  string
	Addons  []string
	Schema  string // short schema of the doc
}

var (
	basesOnce     sync.Once
	bases         []*base
	baseByPath    map[string]*base
	harvestType   map[string][]json.RawMessage
	harvestField  map[string][]string
	allIdentities []json.RawMessage // every distinct tax identity of the corpus (not thinned)
)

func excluded(s site) bool {
	if s.Ptr == "/$schema" || s.Ptr == "/doc/$schema" || s.Ptr == "/sigs" || s.Ptr == "/doc" || s.Ptr == "/head" ||
		strings.HasPrefix(s.Ptr, "/head/dig") || s.Ptr == "/head/uuid" || s.Ptr == "/head/stamps" {
		return true
	}
	if strings.HasSuffix(s.Ptr, "/$schema") {
		return true
	}
	if s.Calc {
		name := s.Field[strings.LastIndex(s.Field, ".")+1:]
		if s.Kind != "leaf" || s.GoType == "int" || name == "Sum" || name == "Total" || name == "Subtotal" || s.Field == "" {
			return true
		}
	}
	return false
}

func category(s site) string {
	if excluded(s) {
		return ""
	}
	switch s.Kind {
	case "leaf":
		switch s.GoType {
		case "cbc.Key":
			return "key"
		case "cbc.Code":
			return "code"
		case "uuid.UUID":
			return "uuid"
		case "cal.Date", "cal.DateTime":
			return "date"
		case "org.Unit", "l10n.TaxCountryCode", "l10n.ISOCountryCode", "currency.Code", "l10n.Code", "i18n.Lang":
			return "enum"
		case "num.Amount", "num.Percentage":
			return "num"
		case "string":
			return "string"
		case "bool", "int":
			return "misc"
		}
		return "misc"
	case "map":
		switch s.GoType {
		case "tax.Extensions":
			return "ext"
		case "cbc.Meta":
			return "meta"
		}
		return "struct"
	case "slice":
		return "slice"
	case "struct", "object":
		return "struct"
	}
	return ""
}

func loadBases() {
	basesOnce.Do(func() {
		baseByPath = map[string]*base{}
		harvestType = map[string][]json.RawMessage{}
		harvestField = map[string][]string{}
		seenT := map[string]map[string]bool{}
		seenF := map[string]map[string]bool{}
		for _, d := range corpus.MustLoad() {
			env, out, why := validEnvelope(d.JSON, d.IsEnv)
			if why != "" {
				continue
			}
			b := &base{Path: d.Path, JSON: out, Sites: sitesOf(env), Cats: map[string][]int{}, Regime: d.Regime, Addons: d.Addons, Schema: d.ShortSch}
			tree, err := decodeTree(out)
			if err != nil {
				continue
			}
			// the calculated document knows its regime and addons best
			if v, ok := getAt(tree, "/doc/$regime"); ok {
				b.Regime, _ = v.(string)
			}
			if v, ok := getAt(tree, "/doc/$addons"); ok {
				if l, ok := v.([]any); ok {
					b.Addons = nil
					for _, a := range l {
						if s, ok := a.(string); ok {
							b.Addons = append(b.Addons, s)
						}
					}
				}
			}
			for i, s := range b.Sites {
				c := category(s)
				if c == "" {
					continue
				}
				b.Cats[c] = append(b.Cats[c], i)
				if !s.Present {
					b.Cats["absent"] = append(b.Cats["absent"], i)
					continue
				}
				v, ok := getAt(tree, s.Ptr)
				if !ok {
					continue
				}
				raw, err := json.Marshal(v)
				if err != nil || len(raw) > 6000 {
					continue
				}
				if seenT[s.GoType] == nil {
					seenT[s.GoType] = map[string]bool{}
				}
				if !seenT[s.GoType][string(raw)] {
					seenT[s.GoType][string(raw)] = true
					harvestType[s.GoType] = append(harvestType[s.GoType], raw)
				}
				if s.Kind == "leaf" && s.Field != "" {
					if str, ok := v.(string); ok {
						if seenF[s.Field] == nil {
							seenF[s.Field] = map[string]bool{}
						}
						if !seenF[s.Field][str] {
							seenF[s.Field][str] = true
							harvestField[s.Field] = append(harvestField[s.Field], str)
						}
					}
				}
			}
			b.CatList = vh.SortedKeys(b.Cats)
			bases = append(bases, b)
			baseByPath[b.Path] = b
		}
		allIdentities = harvestType["tax.Identity"]
		// keep the pools small and spread over the whole corpus
		for k, l := range harvestType {
			harvestType[k] = thin(l, 48)
		}
		for k, l := range harvestField {
			harvestField[k] = thin(l, 48)
		}
	})
}

func thin[T any](l []T, n int) []T {
	if len(l) <= n {
		return l
	}
	out := make([]T, 0, n)
	for i := 0; i < n; i++ {
		out = append(out, l[i*len(l)/n])
	}
	return out
}

// ---------------------------------------------------------------------------
// value pools: what the Go validator accepts (or may accept) for a type.
// Every pool is a deterministic list; the generator only draws an index.

func rep(s string, n int) string { return strings.Repeat(s, n) }

var (
	keyShapes = []string{"a", "z", "ab", "a1", "1a", "00", "9z", "a-b", "a+b", "a-b+c-d", "a--b", "a++b", "a+-b", "x" + rep("y", 62) + "z", rep("k", 64), "vat+exempt", "other"}
	// shapes outside the published key pattern: kept only where Go does not check
	keyEdge = []string{"A", "Ab", "a_b", "a b", "a.b", "-a", "a-", "+a", "a+", "0", "9", rep("k", 65), "ñ", "a/b", "é1", " a"}

	codeShapes = []string{"A", "Z9", "0", "a", "abc", "AB-12", "A.B", "A/B", "A B", "A_B", "A:B", "A-B.C/D E_F:G", rep("X", 32), "0001", "a1-b2", "INV-2024/001", "x.y.z"}
	codeEdge   = []string{"A--B", "-A", "A-", " A", "A ", "A  B", "Ñ", "A&B", "AÑB", rep("X", 33), "A\tB", "A+B", "#1", "(A)", "A,B", "A*", "É", "A.-B", "1/", "Nº1", "A@B", "K&A010301I16", "ÑÑÑ010101AAA"}

	stringShapes = []string{"x", " ", " padded ", rep("a", 300), "ünïcödé ✓ 日本語", "line1\nline2", "<b>&amp;</b>", "0", "null", "\t", "\"quoted\"", "a/b~c"}

	uuidShapes = []string{
		"f47ac10b-58cc-11e8-9bd8-0242ac120002", // v1
		"000003e8-2c1a-21ee-8100-325096b39f47", // v2
		"6fa459ea-ee8a-3ca4-894e-db77e160355e", // v3
		"9b3c2c1e-7a0d-4c55-a1d0-3f5d6d6b8f10", // v4
		"886313e1-3b8a-5372-9b90-0c9aee199e5d", // v5
		"1ee2c1a0-58cc-6f47-9bd8-0242ac120002", // v6
		"018fd5b5-2c9a-7cc1-9f3a-0242ac120002", // v7
		"320c3d4d-cc00-875b-8ec9-32d5f69181c0", // v8
		"00000000-0000-0000-0000-000000000000", // nil
		"ffffffff-ffff-ffff-ffff-ffffffffffff", // max
		"F47AC10B-58CC-11E8-9BD8-0242AC120002", // upper case (normalised on reading)
		"urn:uuid:f47ac10b-58cc-11e8-9bd8-0242ac120002",
		"{f47ac10b-58cc-11e8-9bd8-0242ac120002}",
		"f47ac10b58cc11e89bd80242ac120002",
		"9b3c2c1e-7a0d-0c55-e1d0-3f5d6d6b8f10", // version 0, variant e
	}
	// the zero date "0000-00-00" is left out by construction: known finding
	// zero-date-accepted (witness in findings/)
	dateShapes     = []string{"2024-02-29", "1999-12-31", "2000-01-01", "0001-01-01", "9999-12-31", "2100-02-28", "1600-02-29", "2023-06-30", "2022-01-01", "1970-01-01", "0999-10-10"}
	dateTimeShapes = []string{"2024-02-29T23:59:59", "1999-12-31T00:00:00", "0001-01-01T00:00:00", "9999-12-31T23:59:59", "0000-00-00T00:00:00", "2023-06-30T12:30:45", "2016-12-31T23:59:60", "2023-06-30T12:30:45.5", "2023-06-30T12:30:45.123456789",
		// RFC 3339 forms with a zone, with and without a fraction, other letter cases, a space for the T
		"2023-06-30T12:30:45Z", "2023-06-30T12:30:45+02:00", "2023-06-30T12:30:45.5Z", "2023-06-30T12:30:45.250+02:00", "2023-06-30T12:30:45.000000001-06:00",
		"2023-06-30t12:30:45z", "2023-06-30 12:30:45", "2023-06-30T12:30", "2023-06-30T24:00:00", "2023-06-30"}
	amountShapes   = []string{"0", "1", "-1", "0.00", "-0.00", "10.5", "1234567.89", "0.000001", "123456789012345.12", "-99999.9999", "1.2345678901234567", "007"}
	percentShapes  = []string{"0%", "21%", "-5.5%", "100%", "100.000%", "0.0%", "7.25%", "1000%", "0.001%"}
	l10nCodeShapes = []string{"A", "AB", "01", "CAT", "M", "X9", "ABCDEFGHIJKLMNOP", "a", "a-b", "A B"}
	langShapes     = []string{"en", "es", "zz", "EN", "eng", "e"}
)

var (
	poolOnce sync.Once
	// Go definition lists by field
	fieldKeys map[string][]string
	allKeys   []string
	unitPool  []string
	isoPool   []string
	taxPool   []string
	curPool   []string
	// $regime: codes of the defined regimes plus undefined ones; the alternative
	// codes (GR, XI, XU) are left out by construction: known finding
	// regime-alt-code-accepted (witness in findings/)
	regimePool []string
)

func defKeys(defs []*cbc.Definition) []string {
	var out []string
	for _, d := range defs {
		if d != nil {
			out = append(out, string(d.Key))
		}
	}
	return out
}

func loadPools() {
	poolOnce.Do(func() {
		fieldKeys = map[string][]string{}
		fieldKeys["bill.Invoice.Type"] = defKeys(bill.InvoiceTypes)
		fieldKeys["bill.Order.Type"] = defKeys(bill.OrderTypes)
		fieldKeys["bill.Delivery.Type"] = defKeys(bill.DeliveryTypes)
		fieldKeys["bill.Payment.Type"] = defKeys(bill.PaymentTypes)
		fieldKeys["org.DocumentRef.Type"] = append(append(append(defKeys(bill.InvoiceTypes), defKeys(bill.OrderTypes)...), defKeys(bill.DeliveryTypes)...), defKeys(bill.PaymentTypes)...)
		fieldKeys["bill.Tax.Rounding"] = defKeys(tax.RoundingRules)
		for _, d := range org.NoteKeyDefinitions {
			fieldKeys["org.Note.Key"] = append(fieldKeys["org.Note.Key"], string(d.Key))
		}
		means := defKeys(pay.MeansKeyDefinitions)
		for _, k := range []string{"card+visa", "credit-transfer+swift", "online+paypal", "other+barter", "cash+euro-notes"} {
			means = append(means, k)
		}
		fieldKeys["pay.Instructions.Key"] = means
		fieldKeys["pay.Advance.Key"] = means
		for _, d := range pay.TermKeyDefinitions {
			fieldKeys["pay.Terms.Key"] = append(fieldKeys["pay.Terms.Key"], string(d.Key))
		}
		fieldKeys["org.Identity.Key"] = []string{"sku", "item", "order", "agreement", "contract", "passport", "national", "foreign", "resident", "isbn", "hsn", "gtin", "ean", "upc", "imei", "duns", "other"}
		fieldKeys["org.Item.Key"] = []string{"goods", "services", "goods+resale"}
		fieldKeys["currency.ExchangeRate.Source"] = []string{"ecb", "manual", "bank-of-spain"}
		set := map[string]bool{}
		for _, l := range fieldKeys {
			for _, k := range l {
				set[k] = true
			}
		}
		for _, r := range tax.AllRegimeDefs() {
			for _, l := range [][]*cbc.Definition{r.Identities, r.InboxKeys, r.PaymentMeansKeys} {
				for _, k := range defKeys(l) {
					set[k] = true
				}
			}
			for _, ts := range r.Tags {
				for _, k := range defKeys(ts.List) {
					set[k] = true
				}
			}
			for _, c := range r.Categories {
				for _, rt := range c.Rates {
					set[string(rt.Key)] = true
				}
			}
		}
		for _, a := range tax.AllAddonDefs() {
			for _, l := range [][]*cbc.Definition{a.Identities, a.Inboxes} {
				for _, k := range defKeys(l) {
					set[k] = true
				}
			}
			for _, ts := range a.Tags {
				for _, k := range defKeys(ts.List) {
					set[k] = true
				}
			}
		}
		delete(set, "")
		allKeys = vh.SortedKeys(set)
		for _, u := range org.UnitDefinitions {
			unitPool = append(unitPool, string(u.Unit))
			if u.UNECE != "" {
				unitPool = append(unitPool, string(u.UNECE))
			}
		}
		unitPool = append(unitPool, "C62", "XPK", "1A", "A1", "ZZ", "E48", "99", "Z", "ABCD", "kgm", "h87")
		for _, c := range l10n.Countries().ISO() {
			isoPool = append(isoPool, string(c.Code))
		}
		for _, c := range l10n.Countries().Tax() {
			taxPool = append(taxPool, string(c.Code))
		}
		isoPool = append(isoPool, "EL", "XI", "XX", "es", "ESP", "UK")
		taxPool = append(taxPool, "GR", "XX", "es", "ESP", "UK", "EU")
		for _, d := range currency.Definitions() {
			curPool = append(curPool, string(d.ISOCode))
		}
		curPool = append(curPool, "XXX", "eur", "EURO", "BTC")
		alt := map[string]bool{}
		for _, r := range tax.AllRegimeDefs() {
			regimePool = append(regimePool, string(r.Country))
			for _, a := range r.AltCountryCodes {
				alt[string(a)] = true
			}
		}
		for _, c := range []string{"AF", "AQ", "XX", "es", "ESP", "UK", "EU", "ZZ"} {
			if !alt[c] {
				regimePool = append(regimePool, c)
			}
		}
	})
}

// regimeAndAddons gives the definitions in force for a base.
func regimeAndAddons(b *base) (*tax.RegimeDef, []*tax.AddonDef) {
	var r *tax.RegimeDef
	if b.Regime != "" {
		r = tax.Regimes().For(l10n.Code(b.Regime))
	}
	var as []*tax.AddonDef
	for _, k := range b.Addons {
		if a := tax.AddonForKey(cbc.Key(k)); a != nil {
			as = append(as, a)
		}
	}
	return r, as
}

// contextKeys lists the keys the regime and addons of the document define for
// the field (tags, identity keys, inbox keys, rate keys, payment means).
func contextKeys(b *base, s site) []string {
	r, as := regimeAndAddons(b)
	var out []string
	f := s.Field
	if f == "" {
		f = s.Of
	}
	switch f {
	case "tax.Tags.List":
		short := b.Schema
		if r != nil {
			if ts := tax.TagSetForSchema(r.Tags, short); ts != nil {
				out = append(out, defKeys(ts.List)...)
			}
		}
		for _, a := range as {
			if ts := tax.TagSetForSchema(a.Tags, short); ts != nil {
				out = append(out, defKeys(ts.List)...)
			}
		}
	case "tax.Addons.List":
		for _, a := range tax.AllAddonDefs() {
			out = append(out, string(a.Key))
		}
	case "org.Identity.Key":
		if r != nil {
			out = append(out, defKeys(r.Identities)...)
		}
		for _, a := range as {
			out = append(out, defKeys(a.Identities)...)
		}
	case "org.Inbox.Key":
		if r != nil {
			out = append(out, defKeys(r.InboxKeys)...)
		}
		for _, a := range as {
			out = append(out, defKeys(a.Inboxes)...)
		}
		out = append(out, "peppol", "email", "web")
	case "pay.Instructions.Key", "pay.Advance.Key":
		if r != nil {
			out = append(out, defKeys(r.PaymentMeansKeys)...)
		}
	case "tax.Combo.Rate":
		if r != nil {
			for _, c := range r.Categories {
				for _, rt := range c.Rates {
					out = append(out, string(rt.Key))
				}
			}
		}
	case "org.Note.Src", "tax.Identity.Type":
		out = append(out, "person", "company", "individual", "business")
	}
	return out
}

// extChoices lists (key, value) pairs for an extension map: keys defined by
// the regime, the addons of the document and, less often, anything registered.
type extChoice struct{ Key, Value string }

func extValues(d *cbc.Definition) []string {
	var out []string
	for _, v := range d.Values {
		out = append(out, string(v.Code))
	}
	if len(out) > 12 {
		out = thin(out, 12)
	}
	if len(d.Values) == 0 {
		// pattern or free: digits of several lengths, then shapes a free field takes
		out = append(out, "1", "01", "0001", "12345", "1234567", "12345678", "01010101", "1234.56", "12.34-5/67", "12 34 5 67", "ABC", "a b", "A&B", "Ñ", rep("9", 33), "X-1")
	}
	return out
}

var (
	extOnce sync.Once
	extAll  []*cbc.Definition
)

func allExtDefs() []*cbc.Definition {
	extOnce.Do(func() {
		seen := map[cbc.Key]bool{}
		add := func(l []*cbc.Definition) {
			for _, d := range l {
				if d != nil && !seen[d.Key] {
					seen[d.Key] = true
					extAll = append(extAll, d)
				}
			}
		}
		for _, r := range tax.AllRegimeDefs() {
			add(r.Extensions)
		}
		for _, a := range tax.AllAddonDefs() {
			add(a.Extensions)
		}
		for _, c := range tax.AllCatalogueDefs() {
			add(c.Extensions)
		}
	})
	return extAll
}

func contextExtDefs(b *base) []*cbc.Definition {
	r, as := regimeAndAddons(b)
	var out []*cbc.Definition
	if r != nil {
		out = append(out, r.Extensions...)
	}
	for _, a := range as {
		out = append(out, a.Extensions...)
	}
	return out
}

// ---------------------------------------------------------------------------
// (C) validity-preserving mutations

// MutCase is a corpus document and the edits applied to its calculated,
// serialised envelope.
type MutCase struct {
	Path string `json:"path"`
	Ops  []Op   `json:"ops"`
}

func jstr(s string) json.RawMessage {
	b, _ := json.Marshal(s)
	return b
}

// pick draws an element of a non-empty list.
func pick[T any](t *rapid.T, label string, l []T) T {
	return l[rapid.IntRange(0, len(l)-1).Draw(t, label)]
}

// leafValue draws a replacement for a string-like leaf.
func leafValue(t *rapid.T, b *base, s site) (json.RawMessage, string) {
	loadPools()
	field := s.Field
	if field == "" {
		field = s.Of
	}
	type src struct {
		name string
		w    int
		l    []string
	}
	var srcs []src
	add := func(name string, w int, l []string) {
		if len(l) > 0 {
			srcs = append(srcs, src{name, w, l})
		}
	}
	switch s.GoType {
	case "cbc.Key":
		add("definition", 5, fieldKeys[field])
		add("context", 5, contextKeys(b, s))
		add("harvest", 3, harvestField[field])
		add("shape", 3, keyShapes)
		add("any-key", 1, allKeys)
		add("edge", 2, keyEdge)
	case "cbc.Code":
		add("harvest", 4, harvestField[field])
		add("shape", 5, codeShapes)
		add("edge", 3, codeEdge)
	case "uuid.UUID":
		add("shape", 1, uuidShapes)
	case "cal.Date":
		add("shape", 3, dateShapes)
		add("harvest", 1, harvestField[field])
	case "cal.DateTime":
		add("shape", 1, dateTimeShapes)
	case "org.Unit":
		add("definition", 1, unitPool)
	case "l10n.ISOCountryCode":
		add("definition", 1, isoPool)
	case "l10n.TaxCountryCode":
		if field == "tax.Regime.Country" {
			add("definition", 1, regimePool)
			break
		}
		add("definition", 3, taxPool)
		add("harvest", 1, harvestField[field])
	case "currency.Code":
		add("definition", 1, curPool)
	case "l10n.Code":
		add("shape", 1, l10nCodeShapes)
	case "i18n.Lang":
		add("shape", 1, langShapes)
	case "num.Amount":
		add("shape", 1, amountShapes)
	case "num.Percentage":
		add("shape", 1, percentShapes)
	case "string":
		add("harvest", 2, harvestField[field])
		if strings.HasSuffix(field, ".URL") {
			add("url", 6, urlShapes)
		}
		add("shape", 3, stringShapes)
	case "bool":
		return json.RawMessage(pick(t, "bool", []string{"true", "false"})), "shape"
	case "int":
		return json.RawMessage(pick(t, "int", []string{"0", "1", "2", "7", "-1", "1000000"})), "shape"
	}
	if len(srcs) == 0 {
		return jstr("x"), "shape"
	}
	total := 0
	for _, s := range srcs {
		total += s.w
	}
	n := rapid.IntRange(0, total-1).Draw(t, "source")
	for _, sr := range srcs {
		if n < sr.w {
			return jstr(pick(t, "value", sr.l)), sr.name
		}
		n -= sr.w
	}
	return jstr("x"), "shape"
}

var catWeights = []struct {
	cat string
	w   int
}{
	{"key", 18}, {"code", 18}, {"enum", 10}, {"uuid", 5}, {"date", 8}, {"ext", 10}, {"meta", 4},
	{"slice", 8}, {"struct", 8}, {"string", 5}, {"num", 3}, {"misc", 1}, {"absent", 6},
}

// regimeCodeSets lists, for every regime that has alternative country codes,
// its own code followed by the alternatives.
func regimeCodeSets() [][]string {
	var out [][]string
	for _, r := range tax.AllRegimeDefs() {
		if len(r.AltCountryCodes) == 0 {
			continue
		}
		set := []string{string(r.Country)}
		for _, a := range r.AltCountryCodes {
			set = append(set, string(a))
		}
		out = append(out, set)
	}
	return out
}

// relabel returns the tax identity with another country code.
func relabel(raw json.RawMessage, country string) (json.RawMessage, string) {
	var id map[string]any
	if json.Unmarshal(raw, &id) != nil {
		return raw, ""
	}
	old, _ := id["country"].(string)
	id["country"] = country
	out, _ := json.Marshal(id)
	return out, old
}

func genOp(t *rapid.T, b *base) Op {
	// category first, so that constrained positions are not drowned by the
	// many plain strings and amounts of a document
	total := 0
	for _, cw := range catWeights {
		if len(b.Cats[cw.cat]) > 0 {
			total += cw.w
		}
	}
	n := rapid.IntRange(0, total-1).Draw(t, "category")
	cat := ""
	for _, cw := range catWeights {
		if len(b.Cats[cw.cat]) == 0 {
			continue
		}
		if n < cw.w {
			cat = cw.cat
			break
		}
		n -= cw.w
	}
	s := b.Sites[pick(t, "site", b.Cats[cat])]
	real := category(s)
	switch real {
	case "ext":
		return genExtOp(t, b, s)
	case "meta":
		key := pick(t, "meta-key", append(append([]string{}, keyShapes...), keyEdge...))
		val := pick(t, "meta-value", stringShapes)
		if !s.Present {
			raw, _ := json.Marshal(map[string]string{key: val})
			return Op{Op: "set", Ptr: s.Ptr, Value: raw, Kind: "meta:new"}
		}
		return Op{Op: "set", Ptr: s.Ptr + "/" + escPtr(key), Value: jstr(val), Kind: "meta:entry"}
	case "slice":
		return genSliceOp(t, b, s)
	case "struct":
		if s.Present && s.Optional && rapid.IntRange(0, 3).Draw(t, "drop") == 0 {
			return Op{Op: "remove", Ptr: s.Ptr, Kind: "struct:unset"}
		}
		if s.GoType == "tax.Identity" && len(allIdentities) > 0 && rapid.IntRange(0, 2).Draw(t, "relabel") == 0 {
			// a tax identity of the corpus under another country code (the same
			// regime may answer to several codes)
			loadPools()
			v, _ := relabel(pick(t, "identity", allIdentities), pick(t, "country", taxPool))
			return Op{Op: "set", Ptr: s.Ptr, Value: v, Kind: "struct:relabel:tax.Identity"}
		}
		if h := harvestType[s.GoType]; len(h) > 0 {
			return Op{Op: "set", Ptr: s.Ptr, Value: pick(t, "transplant", h), Kind: "struct:transplant:" + s.GoType}
		}
		if s.Present && s.Optional {
			return Op{Op: "remove", Ptr: s.Ptr, Kind: "struct:unset"}
		}
		return Op{Op: "set", Ptr: s.Ptr, Value: json.RawMessage(`{}`), Kind: "struct:empty"}
	}
	// leaves
	if s.Present && s.Optional && rapid.IntRange(0, 9).Draw(t, "unset") == 0 {
		return Op{Op: "remove", Ptr: s.Ptr, Kind: "leaf:unset:" + s.GoType}
	}
	v, how := leafValue(t, b, s)
	kind := "leaf:" + how + ":" + s.GoType
	if !s.Present {
		kind = "leaf-new:" + how + ":" + s.GoType
	}
	return Op{Op: "set", Ptr: s.Ptr, Value: v, Kind: kind}
}

func genExtOp(t *rapid.T, b *base, s site) Op {
	defs := contextExtDefs(b)
	if len(defs) == 0 || rapid.IntRange(0, 5).Draw(t, "any-ext") == 0 {
		defs = allExtDefs()
	}
	// an existing entry is given another value of its own definition
	if s.Present && len(s.Keys) > 0 && rapid.IntRange(0, 2).Draw(t, "existing") > 0 {
		k := pick(t, "ext-key", s.Keys)
		if d := tax.ExtensionForKey(cbc.Key(k)); d != nil {
			if rapid.IntRange(0, 9).Draw(t, "ext-drop") == 0 {
				return Op{Op: "remove", Ptr: s.Ptr + "/" + escPtr(k), Kind: "ext:unset"}
			}
			return Op{Op: "set", Ptr: s.Ptr + "/" + escPtr(k), Value: jstr(pick(t, "ext-value", extValues(d))), Kind: "ext:value"}
		}
	}
	d := pick(t, "ext-def", defs)
	v := pick(t, "ext-value", extValues(d))
	if !s.Present {
		raw, _ := json.Marshal(map[string]string{string(d.Key): v})
		return Op{Op: "set", Ptr: s.Ptr, Value: raw, Kind: "ext:new"}
	}
	return Op{Op: "set", Ptr: s.Ptr + "/" + escPtr(string(d.Key)), Value: jstr(v), Kind: "ext:entry"}
}

func genSliceOp(t *rapid.T, b *base, s site) Op {
	if s.Present && s.Len > 1 && rapid.IntRange(0, 4).Draw(t, "drop-elem") == 0 {
		return Op{Op: "remove", Ptr: s.Ptr + "/" + strconv.Itoa(rapid.IntRange(0, s.Len-1).Draw(t, "index")), Kind: "slice:remove"}
	}
	if s.Present && s.Optional && rapid.IntRange(0, 7).Draw(t, "drop-all") == 0 {
		return Op{Op: "remove", Ptr: s.Ptr, Kind: "slice:unset"}
	}
	switch s.Elem {
	case "cbc.Key", "cbc.Code", "string":
		es := site{GoType: s.Elem, Of: s.Field, Kind: "leaf", Present: true}
		v, how := leafValue(t, b, es)
		return Op{Op: "append", Ptr: s.Ptr, Value: v, Kind: "slice:append:" + how + ":" + s.Elem}
	case "int":
		return Op{Op: "append", Ptr: s.Ptr, Value: json.RawMessage(pick(t, "int", []string{"1", "2", "0", "99"})), Kind: "slice:append:int"}
	}
	if h := harvestType[s.Elem]; len(h) > 0 {
		return Op{Op: "append", Ptr: s.Ptr, Value: pick(t, "element", h), Kind: "slice:append:" + s.Elem}
	}
	if s.Present && s.Optional {
		return Op{Op: "remove", Ptr: s.Ptr, Kind: "slice:unset"}
	}
	return Op{Op: "append", Ptr: s.Ptr, Value: json.RawMessage(`{}`), Kind: "slice:append-empty"}
}

func genMutation(t *rapid.T) MutCase {
	loadBases()
	if len(bases) == 0 {
		panic("no corpus document validates: nothing to mutate")
	}
	b := pick(t, "doc", bases)
	n := pick(t, "ops", []int{1, 1, 1, 1, 2, 2, 3})
	c := MutCase{Path: b.Path}
	for i := 0; i < n; i++ {
		c.Ops = append(c.Ops, genOp(t, b))
	}
	return c
}

var constrained = []string{"pattern", "enum-const", "format", "required", "length"}

func judgeMutation(c MutCase, o *vh.Obs) {
	loadBases()
	b, ok := baseByPath[c.Path]
	if !ok || len(c.Ops) == 0 {
		o.Discard()
		return
	}
	tree, err := decodeTree(b.JSON)
	if err != nil {
		panic(err)
	}
	for _, op := range c.Ops {
		if tree, err = applyOp(tree, op); err != nil {
			dbgCount("mutation: op does not apply")
			o.Discard() // an earlier edit removed the position
			return
		}
	}
	js, err := json.Marshal(tree)
	if err != nil {
		o.Discard()
		return
	}
	_, out, why := validEnvelope(js, true)
	for _, op := range c.Ops {
		k := op.Kind
		if i := strings.LastIndex(k, ":"); strings.Count(k, ":") >= 2 {
			k = k[:i]
		}
		if why == "" {
			dbgCount("kept     " + k)
		} else {
			dbgCount("rejected " + k)
		}
	}
	if why != "" {
		if os.Getenv("C11_DEBUG_WHY") != "" {
			fmt.Fprintf(os.Stderr, "C11-DEBUG rejected by the library [%s]: %s\n", c.Ops[0].Kind, why)
		}
		for _, op := range c.Ops {
			if strings.HasPrefix(op.Kind, "absent:") {
				o.Class("library-rejects:" + strings.Join(strings.SplitN(op.Kind, ":", 3)[:2], ":"))
			}
		}
		o.Discard() // the library does not accept the mutated document: outside the domain
		return
	}
	o.Class("kept")
	for _, op := range c.Ops {
		if strings.HasPrefix(op.Kind, "absent:") {
			o.Class("library-keeps:" + strings.Join(strings.SplitN(op.Kind, ":", 3)[:2], ":"))
		}
	}
	after, err := decodeTree(out)
	if err != nil {
		panic(err)
	}
	kws := map[string]bool{}
	for _, op := range c.Ops {
		kind, _, _ := strings.Cut(op.Kind, ":")
		o.Class("op:" + kind)
		member := op.Op == "remove" || strings.Contains(op.Kind, "new")
		for k := range keywordsAt(after, op.Ptr, member) {
			kws[k] = true
		}
	}
	for _, k := range constrained {
		if kws[k] {
			o.Class("kw:" + k)
			if k != "length" {
				o.NonTrivial()
			}
		}
	}
	o.Class("doc:" + b.Schema)
	rej := schemaRejections(out)
	what := fmt.Sprintf("%s with %d edit(s) (first: %s %s)", c.Path, len(c.Ops), c.Ops[0].Op, c.Ops[0].Ptr)
	report(o, what, rej)
	if len(rej) == 0 {
		o.Note("%s: accepted by the library and by the published schemas; keywords at the edited positions: %s", what, strings.Join(vh.SortedKeys(kws), ","))
	}
}

// ---------------------------------------------------------------------------
// (C') the same judge driven exhaustively: every Go field of a constrained
// type (key, code, enumerated code, uuid, date) receives every shape of its
// pool once, at the first position of the corpus where the field occurs.

func sweepValues(goType string) []string {
	loadPools()
	switch goType {
	case "cbc.Key":
		return append(append([]string{}, keyShapes...), keyEdge...)
	case "cbc.Code":
		return append(append([]string{}, codeShapes...), codeEdge...)
	case "uuid.UUID":
		return uuidShapes
	case "cal.Date":
		return dateShapes
	case "cal.DateTime":
		return dateTimeShapes
	case "org.Unit":
		return []string{"kg", "h", "KGM", "C62", "1A", "ZZ", "99", "Z", "ABCD", "kgm", "item"}
	case "l10n.ISOCountryCode":
		return []string{"ES", "GB", "EL", "XI", "XX", "es", "ESP", "UK", "AQ"}
	case "l10n.TaxCountryCode":
		return []string{"ES", "GB", "EL", "XI", "GR", "XX", "es", "ESP", "UK", "EU", "AQ"}
	case "currency.Code":
		return []string{"EUR", "USD", "CLF", "XXX", "eur", "EURO", "BTC", "XAU"}
	case "l10n.Code":
		return l10nCodeShapes
	case "i18n.Lang":
		return langShapes
	}
	return nil
}

// enumRequired removes, once per Go field, a member that is serialised
// without omitempty (first corpus position where it is present): where the
// library does not insist on it, the zero value or null it writes back must
// still satisfy the published schema.
func enumRequired(yield func(MutCase) bool) {
	loadBases()
	seen := map[string]bool{}
	idx := 0
	for _, b := range bases {
		for _, s := range b.Sites {
			if !s.Present || s.Optional || s.Calc || excluded(s) {
				continue
			}
			f := s.Field
			if f == "" || seen[f] {
				continue
			}
			seen[f] = true
			idx++
			if idx%vh.Cfg().Shards != vh.Cfg().Shard {
				continue
			}
			if !yield(MutCase{Path: b.Path, Ops: []Op{{Op: "remove", Ptr: s.Ptr, Kind: s.Kind + ":drop-required:" + s.GoType}}}) {
				return
			}
		}
	}
}

// every list (present or not) of every valid example gains a null element,
// once per Go field: the library may refuse it, drop it, or must serialise
// something the schema accepts
func enumNullElements(yield func(MutCase) bool) {
	loadBases()
	seen := map[string]bool{}
	idx := 0
	for _, b := range bases {
		for _, s := range b.Sites {
			if s.Kind != "slice" || s.Calc || excluded(s) {
				continue
			}
			f := s.Field
			if f == "" || seen[f] {
				continue
			}
			seen[f] = true
			idx++
			if idx%vh.Cfg().Shards != vh.Cfg().Shard {
				continue
			}
			if !yield(MutCase{Path: b.Path, Ops: []Op{{Op: "append", Ptr: s.Ptr, Value: json.RawMessage(`null`), Kind: "slice:append-null:" + s.Elem}}}) {
				return
			}
		}
	}
}

var urlShapes = []string{
	"https://example.com", "http://example.com/path?q=1#frag", "example.com", "www.example.com/path", "example.com:8080",
	"//example.com", "http://exämple.com", "https://例え.jp/", "https://example.com/a b", "https://example.com/{id}",
	"https://example.com/%zz", "https://example.com/a%20b", "https://[::1]/", "HTTPS://EXAMPLE.COM", "ftp://example.com/f",
	"mailto:billing@example.com", "urn:isbn:0451450523", "https://user:pw@example.com:8443/x", "http://localhost", "http://127.0.0.1:8080/",
	"https://example.com/\"quoted\"", "https://example.com/<x>", "https://example.com/a|b", "https://example.com/a^b", "https://example.com/`x`",
	"https://example.com/path\\back", "https://example.com/#a#b", "https://example.com/?a=[1]", "http://example.com./", "https://xn--e1afmkfd.xn--p1ai/",
}

// every member published with `format: uri` receives every URL shape once
func enumURLs(yield func(MutCase) bool) {
	loadBases()
	type at struct {
		b *base
		s site
	}
	found := map[string]at{}
	var order []string
	for _, b := range bases {
		for _, s := range b.Sites {
			if s.Kind != "leaf" || s.GoType != "string" || !strings.HasSuffix(s.Field, ".URL") {
				continue
			}
			cur, ok := found[s.Field]
			if !ok {
				order = append(order, s.Field)
			}
			if !ok || (!cur.s.Present && s.Present) {
				found[s.Field] = at{b, s}
			}
		}
	}
	idx := 0
	for _, f := range order {
		a := found[f]
		for _, v := range urlShapes {
			idx++
			if idx%vh.Cfg().Shards != vh.Cfg().Shard {
				continue
			}
			if !yield(MutCase{Path: a.b.Path, Ops: []Op{{Op: "set", Ptr: a.s.Ptr, Value: jstr(v), Kind: "leaf:url:" + f}}}) {
				return
			}
		}
	}
	// lists of things with a URL that the examples seldom carry: a new element
	templates := map[string]string{
		"org.Website":    `{"url":%s}`,
		"org.Attachment": `{"key":"annex","name":"annex.pdf","url":%s}`,
		"head.Link":      `{"key":"portal","url":%s}`,
	}
	done := map[string]bool{}
	for _, b := range bases {
		for _, s := range b.Sites {
			tmpl, ok := templates[s.Elem]
			if s.Kind != "slice" || !ok || done[s.Field] {
				continue
			}
			done[s.Field] = true
			for _, v := range urlShapes {
				idx++
				if idx%vh.Cfg().Shards != vh.Cfg().Shard {
					continue
				}
				el := json.RawMessage(fmt.Sprintf(tmpl, string(jstr(v))))
				if !yield(MutCase{Path: b.Path, Ops: []Op{{Op: "append", Ptr: s.Ptr, Value: el, Kind: "slice:append-url:" + s.Elem}}}) {
					return
				}
			}
		}
	}
}

func enumFields(yield func(MutCase) bool) {
	loadBases()
	type at struct {
		b *base
		s site
	}
	// positions per field: one for keys, codes, uuids and dates; for the short
	// enumerated lists (country, currency, unit) up to three, in documents of
	// different regimes, because what the library accepts there depends on
	// the regime
	found := map[string][]at{}
	var order []string
	for _, b := range bases {
		for _, s := range b.Sites {
			c := category(s)
			if s.Kind != "leaf" || (c != "key" && c != "code" && c != "enum" && c != "uuid" && c != "date") {
				continue
			}
			f := s.Field
			if f == "" {
				f = "[]" + s.Of
			}
			if s.Ptr == "/doc/$regime" {
				continue // changing the regime changes every rule at once; left to the random search
			}
			want := 1
			if c == "enum" {
				want = 3
			}
			cur, ok := found[f]
			if !ok {
				order = append(order, f)
				found[f] = []at{{b, s}}
				continue
			}
			// a position that is present beats an absent one
			if !cur[0].s.Present && s.Present {
				found[f] = []at{{b, s}}
				continue
			}
			if len(cur) < want && s.Present {
				fresh := true
				for _, a := range cur {
					fresh = fresh && a.b.Regime != b.Regime
				}
				if fresh {
					found[f] = append(cur, at{b, s})
				}
			}
		}
	}
	idx := 0
	for _, f := range order {
		for _, a := range found[f] {
			vals := sweepValues(a.s.GoType)
			if f == "tax.Regime.Country" {
				loadPools()
				vals = regimePool
			}
			if a.s.GoType == "cbc.Key" {
				// refinements of keys that are valid at this field: where the library
				// accepts `<defined key>+<sub-key>`, the published enumeration must too
				seen := map[string]bool{}
				cands := append([]string{a.s.Value}, harvestField[f]...)
				vals = append([]string{}, vals...)
				// every value the library itself defines for this field (document
				// types, rounding rules, note / means / terms keys): each must be in
				// the published enumeration too
				loadPools()
				vals = append(vals, fieldKeys[f]...)
				for _, hv := range cands {
					if hv == "" || seen[hv] || len(seen) >= 8 {
						continue
					}
					seen[hv] = true
					vals = append(vals, hv+"+sub", hv+"+x-1")
				}
			}
			for _, v := range vals {
				idx++
				if idx%vh.Cfg().Shards != vh.Cfg().Shard {
					continue
				}
				kind := "leaf:sweep:" + a.s.GoType
				if !a.s.Present {
					kind = "leaf-new:sweep:" + a.s.GoType
				}
				if !yield(MutCase{Path: a.b.Path, Ops: []Op{{Op: "set", Ptr: a.s.Ptr, Value: jstr(v), Kind: kind}}}) {
					return
				}
			}
		}
	}
	// every tax identity of the corpus whose country belongs to a regime with
	// alternative codes, under each of the other codes of that regime, as the
	// customer of the first document that has one
	var target *base
	tptr := ""
	for _, b := range bases {
		for _, s := range b.Sites {
			if target == nil && s.GoType == "tax.Identity" && s.Present && s.Ptr == "/doc/customer/tax_id" && b.Schema == "bill/invoice" {
				target, tptr = b, s.Ptr
			}
		}
	}
	if target == nil {
		return
	}
	for _, set := range regimeCodeSets() {
		for _, raw := range allIdentities {
			for _, c := range set {
				v, old := relabel(raw, c)
				in := false
				for _, x := range set {
					in = in || x == old
				}
				if !in || old == c {
					continue
				}
				idx++
				if idx%vh.Cfg().Shards != vh.Cfg().Shard {
					continue
				}
				if !yield(MutCase{Path: target.Path, Ops: []Op{{Op: "set", Ptr: tptr, Value: v, Kind: "struct:relabel:tax.Identity"}}}) {
					return
				}
			}
		}
	}
}

// ---------------------------------------------------------------------------
// (B') the definitions the library publishes are documents of registered
// types too (tax/regime-def, tax/addon-def, tax/catalogue-def)

// DefCase is one registered regime, addon or catalogue definition.
type DefCase struct {
	Kind string `json:"kind"`
	ID   string `json:"id"`
}

func enumDefs(yield func(DefCase) bool) {
	if vh.Cfg().Shard != vh.Cfg().Shards-1 {
		return
	}
	for _, r := range tax.AllRegimeDefs() {
		if !yield(DefCase{"regime", string(r.Code())}) {
			return
		}
	}
	for _, a := range tax.AllAddonDefs() {
		if !yield(DefCase{"addon", string(a.Key)}) {
			return
		}
	}
	for _, c := range tax.AllCatalogueDefs() {
		if !yield(DefCase{"catalogue", string(c.Key)}) {
			return
		}
	}
}

func judgeDef(c DefCase, o *vh.Obs) {
	var def any
	var verr error
	switch c.Kind {
	case "regime":
		for _, r := range tax.AllRegimeDefs() {
			if string(r.Code()) == c.ID {
				def, verr = r, r.Validate()
			}
		}
	case "addon":
		if a := tax.AddonForKey(cbc.Key(c.ID)); a != nil {
			def, verr = a, a.Validate()
		}
	case "catalogue":
		for _, cd := range tax.AllCatalogueDefs() {
			if string(cd.Key) == c.ID {
				def = cd
			}
		}
	}
	if def == nil || verr != nil {
		o.Discard() // not registered (any more) or not valid for the library itself (C19 reports that)
		return
	}
	obj, err := schema.NewObject(def)
	if err != nil {
		o.Discard()
		return
	}
	raw, err := json.Marshal(obj)
	if err != nil {
		o.Discard()
		return
	}
	o.NonTrivial()
	o.Class("def:" + c.Kind)
	var probe struct {
		Schema string `json:"$schema"`
	}
	_ = json.Unmarshal(raw, &probe)
	errs, err := validateAgainst(probe.Schema, raw)
	short := shortSchema(probe.Schema)
	var rej []rejection
	if err != nil {
		rej = append(rej, rejection{"schema-unusable:" + short, fmt.Sprintf("the validator cannot use schema %s: %v", short, err)})
	}
	for _, e := range errs {
		rej = append(rej, rejection{
			sig: fmt.Sprintf("schema-rejects:%s:%s:%s", short, e.Keyword, normPath(e.Path)),
			msg: fmt.Sprintf("schema %s rejects %s (%s, schema path %s): %s", short, e.Path, e.Keyword, e.SchemaPath, e.Message),
		})
	}
	report(o, c.Kind+" definition "+c.ID, rej)
	if len(rej) == 0 {
		o.Note("%s definition %s (%d bytes) accepted by %s", c.Kind, c.ID, len(raw), short)
	}
}

// ---------------------------------------------------------------------------

func init() {
	vh.Describe(
		"Referee: tools/schema_oracle.py (python3-vt, jsonschema Draft202012Validator + referencing.Registry holding every file of data/schemas by $id; format asserted for date, uuid, date-time and uri - the four formats the published schemas use), one process per shard, spoken to line by line. "+
			"`schemas` (exhaustive, one case per file under data/schemas): the file loads, declares the 2020-12 dialect, its $id is the URL its path implies, it passes the 2020-12 meta-schema (check_schema), every $ref resolves inside the registry, every `pattern` and patternProperties key compiles in Python re and in Go regexp (a Go failure caused only by an ECMA look-around or back-reference is classed, not failed; identity escapes such as `\\:` that ECMAScript unicode mode refuses are classed `pattern-needs-non-unicode-mode`, not failed). "+
			"`corpus` (exhaustive): each of the example sources is enveloped by the harness, calculated, and - only if Envelope.Validate passes - serialised; the envelope is validated against the envelope schema, its doc against the schema named by the doc's $schema, and every embedded object carrying a $schema (complements) against its own. "+
			"`definitions` (exhaustive): every registered regime, addon and catalogue definition that passes its own Validate is serialised with schema.NewObject and validated against tax/regime-def, tax/addon-def, tax/catalogue-def. "+
			"`fields` (exhaustive sweep) and `mutations` (rapid): a case is a corpus path plus 1-3 edits (JSON pointer, set/remove/append, value) of the calculated serialised envelope; positions and their Go types come from walking the calculated Go structure by reflection (calculated members, header uuid/digest and $schema excluded). `fields` gives every Go field of type cbc.Key, cbc.Code, org.Unit, country/currency/l10n code, uuid.UUID, cal.Date/DateTime every shape of its pool once (valid shapes and shapes outside the published pattern / list), at the first corpus position of that field. `mutations` first draws a category (key, code, enumerated code, uuid, date, extension map, meta map, slice, struct, string, number, absent optional member) then a position and a value: keys from the Go definition lists (invoice/order/delivery/payment types, note keys, payment means, term keys, rounding rules, units, identity/inbox/rate/tag keys of the document's regime and addons), codes, values harvested from the same field elsewhere in the corpus, whole sub-structures of the same Go type transplanted from other corpus documents, extension keys and values from the regime/addon/catalogue definitions, meta entries, tags offered by the regime/addons, UUID versions 1-8 and other spellings google/uuid reads, dates, long/short/unicode strings, optional members set and unset, array elements appended and removed. The edited envelope is parsed, calculated and validated by the library; cases the library rejects are discarded (counted: kept-rate = 1 - discarded/evaluations); for kept cases the published schemas must accept the serialised result. "+
			"`required_with_siblings` (exhaustive): every member serialised without omitempty is removed (once per Go field) while one absent optional sibling the schema declares is added - for each such sibling in turn (rules of the kind 'required unless ...'). `null_elements` (exhaustive): every list of the Go structure, present or not, gains a null element once per Go field. `urls` (exhaustive): every member published with format uri receives 30 URL shapes (with and without scheme, internationalised, unusual schemes, userinfo, ports, IP literals, characters outside RFC 3986, bad escapes), in place and as new website / attachment / header link elements. `absent_members` (exhaustive, once per published type and member): every member the schemas declare and a valid example does not carry is added with a small instance the schema accepts (required members only; hand-written instances for eight types whose rules go beyond their schema) and then with each constrained scalar within two member names inside it replaced by a text no pattern, format or enumeration admits - a member the library forgets to validate is written back and refused by the schema. `standalone_types` (exhaustive): for every published object type (68, most of which have no example of their own) a document of that type built from its schema (hand-written instances where the rules go beyond the schema), then with each optional member added and with each constrained scalar within two member names invalidated. "+
			"`absent_members` / `standalone_types`: every member a schema declares and no example carries is added with a valid instance, with that instance in which one text is written in the other letter case (what the library reads in both cases the schema must accept in both), and with each constrained scalar invalidated; documents of every published object type likewise. "+
			"`empty_extensions`: every published extension key (those of the document's addons and regime, and every key that has neither value list nor pattern) put with an empty value into every extension map of every example and at the root of the document, its parties and its tax block: an empty value is cleaned away or refused, never written out. "+
			"Violation signature: schema-rejects:<schema short name>:<keyword>:<instance path with indices as *>; a value that fails format uri is named by what is wrong with it instead (schema-rejects:format-uri:no-scheme | non-ascii | disallowed-character | other), because the five members share one validator. "+
			"Non-trivial (`mutations`, `fields`): the case was kept and, according to the published schema files read as data (following $ref, allOf, properties, patternProperties, items and the $schema of embedded objects), at least one edited position is governed by pattern, enum/const (incl. oneOf/anyOf of consts), an asserted format, or - for members added or removed - the parent's `required`. `corpus` / `definitions`: the document passed the library's validation and was put to the validator; `schemas`: the file exists.",
		"format is asserted for date, uuid, date-time and uri (RFC 3339 / RFC 4122 / RFC 3986 appendix A syntax, own implementations; an IP literal is only checked for its brackets)",
		"URLs the library accepts that are not URIs because they lack a scheme, contain non-ASCII characters or one of { } | ^ \" < > \\ ` [ ] / a second # are three recorded findings (witnesses in findings/); any other reason is reported",
		"Python re semantics are used for `pattern`; the published patterns consist of literal character classes, anchors and quantifiers only, on which Python re, Go regexp and ECMA 262 agree (Python's `$` also matches before a final newline, which can only make the referee more lenient)",
		"a crash of Calculate/Validate on a mutated document is C14's subject and is counted as a discarded case here",
		"by construction the generators do not produce the zero date 0000-00-00 nor the alternative regime codes GR/XI/XU as $regime (known findings with witnesses in findings/)",
	)
	vh.Enum("schemas", enumSchemas, judgeSchema)
	vh.Enum("corpus", enumCorpus, judgeCorpus)
	vh.Enum("definitions", enumDefs, judgeDef)
	vh.Enum("required", enumRequired, judgeMutation)
	vh.Enum("required_with_siblings", enumRequiredWithSiblings, judgeMutation)
	vh.Enum("fields", enumFields, judgeMutation)
	vh.Enum("null_elements", enumNullElements, judgeMutation)
	vh.Enum("urls", enumURLs, judgeMutation)
	vh.Enum("absent_members", enumAbsentMembers, judgeMutation)
	vh.Enum("empty_extensions", enumEmptyExt, judgeMutation)
	vh.Enum("standalone_types", enumStandalone, judgeStandalone)
	vh.Rapid("mutations", 1800, 96000, genMutation, judgeMutation)
}
