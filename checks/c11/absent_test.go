package c11

// Members that the published schemas declare and no valid example carries:
// each is added once (per schema type and member) to a valid example, first
// with a small instance the schema accepts, then with one constrained scalar
// inside it replaced by a value the schema refuses. Whatever the library still
// accepts must satisfy the schemas when written back - a member the library
// forgets to validate shows up here.

import (
	"encoding/json"
	"fmt"
	"os"
	"sort"
	"strconv"
	"strings"

	"github.com/invopop/gobl/verifharness/internal/pubdata"
	"github.com/invopop/gobl/verifharness/internal/pubschema"
	"github.com/invopop/gobl/verifharness/internal/vh"
)

const badValue = "!! bad value !!"

// instances of types whose rules go beyond what their schema says (a schema
// sample would be refused by the library and teach nothing)
var typeSamples = map[string]string{
	"org/attachment": `{"name":"annex.pdf","url":"https://example.com/annex.pdf"}`,
	"org/email":      `{"addr":"billing@example.com"}`,
	"org/telephone":  `{"num":"+34911234567"}`,
	"org/person":     `{"name":{"given":"Ana"}}`,
	"org/inbox":      `{"key":"peppol","code":"0088:1234567890128"}`,
	"org/website":    `{"url":"https://example.com"}`,
	"head/link":      `{"key":"portal","url":"https://example.com/doc"}`,
	"cbc/source":     `{"url":"https://example.com/source"}`,
	"dsig/digest":    `{"alg":"sha256","val":"9f86d081884c7d659a2feaa0c55ad015a3bf4f1b2b0b822cd15d6c15b0f00a08"}`,
}

// otherCase writes the letters of a text in the other case (lower case
// becomes upper case; a text without lower case letters becomes lower case).
// ok is false when nothing changes.
func otherCase(v string) (string, bool) {
	out := strings.ToUpper(v)
	if out == v {
		out = strings.ToLower(v)
	}
	return out, out != v
}

// stringLeaves lists the paths of the string leaves of an instance.
func stringLeaves(v any, prefix []string, out *[][]string) {
	switch t := v.(type) {
	case map[string]any:
		keys := make([]string, 0, len(t))
		for k := range t {
			keys = append(keys, k)
		}
		sort.Strings(keys)
		for _, k := range keys {
			stringLeaves(t[k], append(append([]string{}, prefix...), k), out)
		}
	case []any:
		if len(t) > 0 {
			stringLeaves(t[0], append(append([]string{}, prefix...), "[]"), out)
		}
	case string:
		*out = append(*out, prefix)
	}
}

func leafAt(v any, path []string) (string, bool) {
	for _, p := range path {
		switch t := v.(type) {
		case map[string]any:
			v = t[p]
		case []any:
			if p != "[]" || len(t) == 0 {
				return "", false
			}
			v = t[0]
		default:
			return "", false
		}
	}
	s, ok := v.(string)
	return s, ok
}

type scalarPath struct {
	path []string
}

// constrainedScalars lists the member paths (at most depth names) below an
// object node that end in a constrained scalar; array members are entered
// through one element.
func constrainedScalars(s *pubschema.Set, n pubschema.Node, depth int, prefix []string, out *[]scalarPath) {
	if depth == 0 {
		return
	}
	names, nodes := s.Props(n)
	for _, name := range names {
		if strings.HasPrefix(name, "$") {
			continue
		}
		p := append(append([]string{}, prefix...), name)
		c := nodes[name]
		switch s.Kind(c) {
		case "scalar", "any":
			if s.Constrained(c) {
				*out = append(*out, scalarPath{p})
			}
		case "object":
			constrainedScalars(s, c, depth-1, p, out)
		case "array":
			if it, ok := s.Items(c); ok {
				pp := append(p, "[]")
				switch s.Kind(it) {
				case "scalar", "any":
					if s.Constrained(it) {
						*out = append(*out, scalarPath{pp})
					}
				case "object":
					constrainedScalars(s, it, depth-1, pp, out)
				}
			}
		}
	}
}

// requiredDrops lists, for the object members (at most depth names deep) of an
// object node, instances of that member from which one member its own schema
// requires is missing (the empty object when it requires one only): a nested
// object the library forgets to validate shows up as accepted although the
// schema refuses it.
func requiredDrops(s *pubschema.Set, n pubschema.Node, depth int, prefix []string, out *[]struct {
	path []string
	inst any
}) {
	if depth == 0 {
		return
	}
	names, nodes := s.Props(n)
	for _, name := range names {
		if strings.HasPrefix(name, "$") {
			continue
		}
		c := nodes[name]
		p := append(append([]string{}, prefix...), name)
		target := c
		if s.Kind(c) == "array" {
			it, ok := s.Items(c)
			if !ok {
				continue
			}
			target = it
			p = append(p, "[]")
		}
		if s.Kind(target) != "object" {
			continue
		}
		rs := s.Resolve(target)
		if req, ok := rs.S["required"].([]any); ok && len(req) > 0 {
			full, _ := s.Sample(target, 0).(map[string]any)
			for _, r := range req {
				rn, _ := r.(string)
				inst := map[string]any{}
				for k, v := range full {
					if k != rn {
						inst[k] = v
					}
				}
				*out = append(*out, struct {
					path []string
					inst any
				}{append(append([]string{}, p...), "-"+rn), inst})
			}
		}
		requiredDrops(s, target, depth-1, p, out)
	}
}

// withPath returns a copy of inst (a sample of node n) in which path exists
// and ends in leaf; intermediate objects are sampled from the schema.
func withPath(s *pubschema.Set, n pubschema.Node, inst any, path []string, leaf any) any {
	if len(path) == 0 {
		return leaf
	}
	if path[0] == "[]" {
		it, _ := s.Items(n)
		var first any
		if l, ok := inst.([]any); ok && len(l) > 0 {
			first = l[0]
		} else {
			first = s.Sample(it, 0)
		}
		return []any{withPath(s, it, first, path[1:], leaf)}
	}
	m, _ := inst.(map[string]any)
	out := map[string]any{}
	for k, v := range m {
		out[k] = v
	}
	_, nodes := s.Props(n)
	child := nodes[path[0]]
	cur, has := out[path[0]]
	if !has {
		cur = s.Sample(child, 0)
	}
	out[path[0]] = withPath(s, child, cur, path[1:], leaf)
	return out
}

func enumAbsentMembers(yield func(MutCase) bool) {
	loadBases()
	s := pubschema.MustLoad()
	envRoot, _ := s.Root(pubschema.FullID("envelope"))
	seen := map[string]bool{}
	idx := 0
	emit := func(b *base, ptr, kind string, v any) bool {
		idx++
		if idx%vh.Cfg().Shards != vh.Cfg().Shard {
			return true
		}
		raw, err := json.Marshal(v)
		if err != nil {
			return true
		}
		return yield(MutCase{Path: b.Path, Ops: []Op{{Op: "set", Ptr: ptr, Value: raw, Kind: kind}}})
	}
	var walk func(b *base, v any, sch pubschema.Node, ptr string) bool
	walk = func(b *base, v any, sch pubschema.Node, ptr string) bool {
		switch t := v.(type) {
		case map[string]any:
			if id, ok := t["$schema"].(string); ok {
				if r, ok := s.Root(id); ok {
					sch = r
				}
			}
			rs := s.Resolve(sch)
			names, nodes := s.Props(rs)
			for _, name := range names {
				child, has := t[name]
				cptr := ptr + "/" + escPtr(name)
				if has {
					if !walk(b, child, nodes[name], cptr) {
						return false
					}
					continue
				}
				key := fmt.Sprintf("%p.%s", rs.S, name)
				if seen[key] || strings.HasPrefix(name, "$") {
					continue
				}
				seen[key] = true
				target, wrap := nodes[name], func(x any) any { return x }
				if s.Kind(target) == "array" {
					if it, ok := s.Items(target); ok {
						target, wrap = it, func(x any) any { return []any{x} }
					}
				}
				valid := s.Sample(target, 0)
				if tmpl, ok := typeSamples[s.TypeID(target)]; ok {
					var v any
					if json.Unmarshal([]byte(tmpl), &v) == nil {
						valid = v
					}
				}
				if !emit(b, cptr, "absent:valid:"+name, wrap(valid)) {
					return false
				}
				// the same instance with one text written in the other letter case:
				// where the library reads both, the schema must as well
				var leaves [][]string
				stringLeaves(valid, nil, &leaves)
				for _, lp := range leaves {
					cur, ok := leafAt(valid, lp)
					if !ok {
						continue
					}
					flipped, changed := otherCase(cur)
					if !changed {
						continue
					}
					var inst any = flipped
					if len(lp) > 0 {
						inst = withPath(s, target, valid, lp, flipped)
					}
					if !emit(b, cptr, "absent:case:"+name+"/"+strings.Join(lp, "/"), wrap(inst)) {
						return false
					}
				}
				switch s.Kind(target) {
				case "scalar", "any":
					if s.Constrained(target) {
						if !emit(b, cptr, "absent:bad:"+name, wrap(badValue)) {
							return false
						}
					}
				case "object":
					var paths []scalarPath
					constrainedScalars(s, target, 2, nil, &paths)
					for _, sp := range paths {
						inst := withPath(s, target, valid, sp.path, badValue)
						if !emit(b, cptr, "absent:bad:"+name+"/"+strings.Join(sp.path, "/"), wrap(inst)) {
							return false
						}
					}
					var drops []struct {
						path []string
						inst any
					}
					requiredDrops(s, target, 2, nil, &drops)
					for _, d := range drops {
						inst := withPath(s, target, valid, d.path[:len(d.path)-1], d.inst)
						if !emit(b, cptr, "absent:incomplete:"+name+"/"+strings.Join(d.path, "/"), wrap(inst)) {
							return false
						}
					}
				}
			}
		case []any:
			it, ok := s.Items(sch)
			if !ok {
				return true
			}
			for i, e := range t {
				if i >= 2 {
					break
				}
				if !walk(b, e, it, ptr+"/"+strconv.Itoa(i)) {
					return false
				}
			}
		}
		return true
	}
	for _, b := range bases {
		tree, err := decodeTree(b.JSON)
		if err != nil {
			continue
		}
		if !walk(b, tree, envRoot, "") {
			return
		}
	}
}

// ---------------------------------------------------------------------------
// documents of every published type: most types have no example of their own,
// yet any registered type can be the document of an envelope

// StandaloneCase is a document built from the published schema of its type.
type StandaloneCase struct {
	Type string          `json:"type"` // short schema id
	What string          `json:"what"`
	Doc  json.RawMessage `json:"doc"`
}

// document-level instances for types whose rules go beyond their schema
var docSamples = map[string]string{
	"org/party":              `{"name":"Provide One S.L.","tax_id":{"country":"ES","code":"B98602642"}}`,
	"org/item":               `{"name":"Item","price":"10.00"}`,
	"org/person":             `{"name":{"given":"Ana"}}`,
	"org/name":               `{"given":"Ana"}`,
	"org/address":            `{"locality":"Madrid","country":"ES"}`,
	"org/identity":           `{"code":"ABC123"}`,
	"org/note":               `{"text":"a note"}`,
	"note/message":           `{"content":"a message"}`,
	"org/image":              `{"url":"https://example.com/logo.png"}`,
	"org/registration":       `{"label":"Registro"}`,
	"tax/identity":           `{"country":"ES","code":"B98602642"}`,
	"pay/terms":              `{"key":"instant"}`,
	"pay/instructions":       `{"key":"credit-transfer"}`,
	"pay/advance":            `{"description":"deposit","amount":"10.00"}`,
	"bill/line":              `{"quantity":"1","item":{"name":"Item","price":"10.00"}}`,
	"bill/discount":          `{"amount":"1.00"}`,
	"bill/charge":            `{"amount":"1.00"}`,
	"cal/period":             `{"start":"2024-01-01","end":"2024-01-31"}`,
	"currency/exchange-rate": `{"from":"USD","to":"EUR","amount":"0.9"}`,
	"org/document-ref":       `{"code":"INV-1"}`,
	"head/stamp":             `{"prv":"abc","val":"x"}`,
	"dsig/digest":            `{"alg":"sha256","val":"9f86d081884c7d659a2feaa0c55ad015a3bf4f1b2b0b822cd15d6c15b0f00a08"}`,
}

func enumStandalone(yield func(StandaloneCase) bool) {
	s := pubschema.MustLoad()
	cfg := vh.Cfg()
	idx := 0
	emit := func(short, what string, doc map[string]any) bool {
		idx++
		if idx%cfg.Shards != cfg.Shard {
			return true
		}
		d := map[string]any{}
		for k, v := range doc {
			d[k] = v
		}
		d["$schema"] = pubschema.FullID(short)
		raw, err := json.Marshal(d)
		if err != nil {
			return true
		}
		return yield(StandaloneCase{Type: short, What: what, Doc: raw})
	}
	for _, id := range s.IDs {
		short := pubschema.ShortID(id)
		root, ok := s.Root(id)
		if !ok || s.Kind(root) != "object" || short == "envelope" || short == "schema/object" {
			continue
		}
		base, _ := s.Sample(root, 0).(map[string]any)
		if tmpl, ok := docSamples[short]; ok {
			var v map[string]any
			if json.Unmarshal([]byte(tmpl), &v) == nil {
				base = v
			}
		} else if tmpl, ok := typeSamples[short]; ok {
			var v map[string]any
			if json.Unmarshal([]byte(tmpl), &v) == nil {
				base = v
			}
		}
		if base == nil {
			base = map[string]any{}
		}
		if !emit(short, "sample", base) {
			return
		}
		// every member of the sample removed in turn (required ones included)
		for _, name := range sortedKeys(base) {
			inst := map[string]any{}
			for k, x := range base {
				if k != name {
					inst[k] = x
				}
			}
			if !emit(short, "without:"+name, inst) {
				return
			}
		}
		names, nodes := s.Props(root)
		for _, name := range names {
			if _, has := base[name]; has || strings.HasPrefix(name, "$") {
				continue
			}
			target, wrap := nodes[name], func(x any) any { return x }
			if s.Kind(target) == "array" {
				if it, ok := s.Items(target); ok {
					target, wrap = it, func(x any) any { return []any{x} }
				}
			}
			v := s.Sample(target, 0)
			if tmpl, ok := typeSamples[s.TypeID(target)]; ok {
				var tv any
				if json.Unmarshal([]byte(tmpl), &tv) == nil {
					v = tv
				}
			}
			inst := map[string]any{}
			for k, x := range base {
				inst[k] = x
			}
			inst[name] = wrap(v)
			if !emit(short, "with:"+name, inst) {
				return
			}
			// and with one text of the added member in the other letter case
			var leaves [][]string
			stringLeaves(wrap(v), nil, &leaves)
			for _, lp := range leaves {
				cur, ok := leafAt(wrap(v), lp)
				if !ok {
					continue
				}
				flipped, changed := otherCase(cur)
				if !changed {
					continue
				}
				ci, ok := withPath(s, root, inst, append([]string{name}, lp...), flipped).(map[string]any)
				if !ok {
					continue
				}
				if !emit(short, "case:"+name+"/"+strings.Join(lp, "/"), ci) {
					return
				}
			}
		}
		// the sample itself with one text in the other letter case
		var baseLeaves [][]string
		stringLeaves(base, nil, &baseLeaves)
		for _, lp := range baseLeaves {
			cur, ok := leafAt(base, lp)
			if !ok {
				continue
			}
			flipped, changed := otherCase(cur)
			if !changed {
				continue
			}
			ci, ok := withPath(s, root, base, lp, flipped).(map[string]any)
			if !ok {
				continue
			}
			if !emit(short, "case:"+strings.Join(lp, "/"), ci) {
				return
			}
		}
		var paths []scalarPath
		constrainedScalars(s, root, 2, nil, &paths)
		for _, sp := range paths {
			inst, ok := withPath(s, root, base, sp.path, badValue).(map[string]any)
			if !ok {
				continue
			}
			if !emit(short, "bad:"+strings.Join(sp.path, "/"), inst) {
				return
			}
		}
	}
}

func judgeStandalone(c StandaloneCase, o *vh.Obs) {
	kind, _, _ := strings.Cut(c.What, ":")
	_, out, why := validEnvelope(c.Doc, false)
	if why != "" {
		if os.Getenv("C11_DEBUG_WHY") != "" {
			fmt.Fprintf(os.Stderr, "C11-DEBUG standalone %s %s rejected: %s\n", c.Type, c.What, why)
		}
		o.Discard()
		return
	}
	o.Class("kept")
	o.Class("kept-" + kind)
	o.Class("doc:" + c.Type)
	o.NonTrivial()
	rej := schemaRejections(out)
	what := fmt.Sprintf("a %s document (%s)", c.Type, c.What)
	report(o, what, rej)
	if len(rej) == 0 {
		o.Note("%s: accepted by the library and by the published schemas", what)
	}
}

// schemaAt walks the published schemas along a JSON pointer of an envelope
// tree (switching type at every object that carries a $schema).
func schemaAt(s *pubschema.Set, tree any, ptr string) (pubschema.Node, any, bool) {
	sch, _ := s.Root(pubschema.FullID("envelope"))
	cur := tree
	for _, tok := range ptrTokens(ptr) {
		switch t := cur.(type) {
		case map[string]any:
			if id, ok := t["$schema"].(string); ok {
				if r, ok := s.Root(id); ok {
					sch = r
				}
			}
			_, nodes := s.Props(sch)
			next, ok := t[tok]
			if !ok {
				return pubschema.Node{}, nil, false
			}
			sch, cur = nodes[tok], next
		case []any:
			i, err := strconv.Atoi(tok)
			if err != nil || i < 0 || i >= len(t) {
				return pubschema.Node{}, nil, false
			}
			it, ok := s.Items(sch)
			if !ok {
				return pubschema.Node{}, nil, false
			}
			sch, cur = it, t[i]
		default:
			return pubschema.Node{}, nil, false
		}
	}
	if m, ok := cur.(map[string]any); ok {
		if id, ok := m["$schema"].(string); ok {
			if r, ok := s.Root(id); ok {
				sch = r
			}
		}
	}
	return sch, cur, true
}

// enumRequiredWithSiblings: a member serialised without omitempty is removed
// while one absent optional sibling is present - rules of the kind "required
// unless ..." only show in such pairs.
func enumRequiredWithSiblings(yield func(MutCase) bool) {
	loadBases()
	s := pubschema.MustLoad()
	seen := map[string]bool{}
	idx := 0
	for _, b := range bases {
		tree, err := decodeTree(b.JSON)
		if err != nil {
			continue
		}
		for _, st := range b.Sites {
			if !st.Present || st.Optional || st.Calc || excluded(st) || st.Field == "" || seen[st.Field] {
				continue
			}
			i := strings.LastIndex(st.Ptr, "/")
			if i <= 0 {
				continue
			}
			parentPtr, member := st.Ptr[:i], st.Ptr[i+1:]
			psch, pval, ok := schemaAt(s, tree, parentPtr)
			pm, isObj := pval.(map[string]any)
			if !ok || !isObj {
				continue
			}
			seen[st.Field] = true
			names, nodes := s.Props(psch)
			for _, name := range names {
				if _, has := pm[name]; has || name == member || strings.HasPrefix(name, "$") {
					continue
				}
				target, wrap := nodes[name], func(x any) any { return x }
				if s.Kind(target) == "array" {
					if it, ok := s.Items(target); ok {
						target, wrap = it, func(x any) any { return []any{x} }
					}
				}
				v := s.Sample(target, 0)
				if tmpl, ok := typeSamples[s.TypeID(target)]; ok {
					var tv any
					if json.Unmarshal([]byte(tmpl), &tv) == nil {
						v = tv
					}
				}
				raw, err := json.Marshal(wrap(v))
				if err != nil {
					continue
				}
				idx++
				if idx%vh.Cfg().Shards != vh.Cfg().Shard {
					continue
				}
				c := MutCase{Path: b.Path, Ops: []Op{
					{Op: "set", Ptr: parentPtr + "/" + escPtr(name), Value: raw, Kind: "absent:valid:" + name},
					{Op: "remove", Ptr: st.Ptr, Kind: st.Kind + ":drop-required:" + st.GoType},
				}}
				if !yield(c) {
					return
				}
			}
		}
	}
}

func sortedKeys(m map[string]any) []string {
	out := make([]string, 0, len(m))
	for k := range m {
		out = append(out, k)
	}
	sort.Strings(out)
	return out
}

// enumEmptyExt: every published extension key, put with an EMPTY value into
// every extension map of every example (calculated envelope) and at the root of
// the document and its parties when they have none. An empty value is either
// cleaned away or refused; written out as it is, it breaks the schema of
// extension values (a code is never empty).
func enumEmptyExt(yield func(MutCase) bool) {
	loadBases()
	d0 := pubdata.MustPublished()
	cfg := vh.Cfg()
	idx := 0
	for _, b := range bases {
		var keys []string
		for _, a := range b.Addons {
			if ad := d0.Addons[a]; ad != nil {
				for _, e := range ad.Extensions {
					keys = append(keys, e.Key)
				}
			}
		}
		if r := d0.Regimes[b.Regime]; r != nil {
			for _, e := range r.Extensions {
				keys = append(keys, e.Key)
			}
		}
		// keys without list or pattern are the ones an empty value can slip through
		for _, k := range d0.ExtKeys {
			for _, def := range d0.Ext[k] {
				if len(def.Codes) == 0 && def.Pattern == "" {
					keys = append(keys, k)
				}
			}
		}
		sort.Strings(keys)
		tree, err := decodeTree(b.JSON)
		if err != nil {
			continue
		}
		var ptrs []string
		var walk func(v any, ptr string)
		walk = func(v any, ptr string) {
			switch t := v.(type) {
			case map[string]any:
				for _, k := range sortedKeys(t) {
					cp := ptr + "/" + escPtr(k)
					if _, isMap := t[k].(map[string]any); isMap && k == "ext" {
						ptrs = append(ptrs, cp)
						continue
					}
					walk(t[k], cp)
				}
			case []any:
				for i, e := range t {
					if i < 2 {
						walk(e, ptr+"/"+strconv.Itoa(i))
					}
				}
			}
		}
		walk(tree, "")
		root, _ := tree.(map[string]any)
		doc, _ := root["doc"].(map[string]any)
		for _, p := range []string{"", "/supplier", "/customer", "/tax"} {
			holder := any(doc)
			if p != "" {
				holder = doc[p[1:]]
			}
			if hm, ok := holder.(map[string]any); ok {
				if _, has := hm["ext"]; !has {
					ptrs = append(ptrs, "/doc"+p+"/ext")
				}
			}
		}
		seen := map[string]bool{}
		for _, p := range ptrs {
			for _, k := range keys {
				if seen[p+"\x00"+k] {
					continue
				}
				seen[p+"\x00"+k] = true
				idx++
				if idx%cfg.Shards != cfg.Shard {
					continue
				}
				op := Op{Op: "set", Ptr: p + "/" + escPtr(k), Value: jstr(""), Kind: "empty-ext-value"}
				if !yield(MutCase{Path: b.Path, Ops: []Op{op}}) {
					return
				}
			}
		}
	}
}
