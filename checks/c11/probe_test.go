package c11

import (
	"fmt"
	"os"
	"testing"

	"github.com/invopop/gobl/cbc"
	"github.com/invopop/gobl/tax"
)

func TestProbe(t *testing.T) {
	if os.Getenv("C11_PROBE") == "" {
		t.Skip()
	}
	seen := map[cbc.Key]bool{}
	visit := func(owner string, defs []*cbc.Definition) {
		for _, d := range defs {
			if seen[d.Key] {
				continue
			}
			seen[d.Key] = true
			if len(d.Values) == 0 {
				fmt.Printf("FREE %s %s pattern=%q\n", owner, d.Key, d.Pattern)
			}
			for _, v := range d.Values {
				if err := v.Code.Validate(); err != nil {
					fmt.Printf("BADCODE %s %s %q: %v\n", owner, d.Key, v.Code, err)
				}
			}
			if err := d.Key.Validate(); err != nil {
				fmt.Printf("BADKEY %s %s\n", owner, d.Key)
			}
		}
	}
	for _, r := range tax.AllRegimeDefs() {
		visit("regime "+string(r.Country), r.Extensions)
	}
	for _, a := range tax.AllAddonDefs() {
		visit("addon "+string(a.Key), a.Extensions)
	}
	for _, c := range tax.AllCatalogueDefs() {
		visit("cat "+string(c.Key), c.Extensions)
	}
}
