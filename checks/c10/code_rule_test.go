package c10

// "Only valid envelopes can be signed": a bill document (invoice, order,
// delivery, payment) without a code is a draft - valid, and not valid for
// signing - whatever its type. For every example of these kinds and every
// type its schema publishes, the document without its code must be refused by
// Sign, which leaves no signature behind.

import (
	"encoding/json"
	"sort"

	"github.com/invopop/gobl/verifharness/internal/corpus"
	"github.com/invopop/gobl/verifharness/internal/jsontree"
	"github.com/invopop/gobl/verifharness/internal/pubschema"
	"github.com/invopop/gobl/verifharness/internal/vh"
)

// CodeRuleCase: an example, the type it is given, and whether it keeps its code.
type CodeRuleCase struct {
	Doc  string `json:"doc"`
	Type string `json:"type"`
}

func typesOf(short string) []string {
	s := pubschema.MustLoad()
	root, ok := s.Root(pubschema.FullID(short))
	if !ok {
		return nil
	}
	_, nodes := s.Props(root)
	// the member carries its values next to the reference to the key type
	var out []string
	for _, n := range []pubschema.Node{nodes["type"], s.Resolve(nodes["type"])} {
		if n.S == nil || len(out) > 0 {
			continue
		}
		for _, k := range []string{"oneOf", "anyOf"} {
			l, ok := n.S[k].([]any)
			if !ok {
				continue
			}
			for _, e := range l {
				if m, ok := e.(map[string]any); ok {
					if c, ok := m["const"].(string); ok {
						out = append(out, c)
					}
				}
			}
		}
	}
	sort.Strings(out)
	return out
}

func enumCodeRule(yield func(CodeRuleCase) bool) {
	if vh.Cfg().Shard != 0 {
		return
	}
	seen := map[string]int{}
	for _, d := range corpus.MustLoad() {
		switch d.ShortSch {
		case "bill/invoice", "bill/order", "bill/delivery", "bill/payment":
		default:
			continue
		}
		if d.IsEnv || seen[d.ShortSch+d.Regime] >= 1 {
			continue
		}
		seen[d.ShortSch+d.Regime]++
		for _, t := range append([]string{""}, typesOf(d.ShortSch)...) {
			if !yield(CodeRuleCase{Doc: d.Path, Type: t}) {
				return
			}
		}
	}
}

func judgeCodeRule(c CodeRuleCase, o *vh.Obs) {
	var d *corpus.Doc
	for _, x := range corpus.MustLoad() {
		if x.Path == c.Doc {
			x := x
			d = &x
		}
	}
	if d == nil {
		o.Discard()
		return
	}
	tree, err := jsontree.Decode(d.JSON)
	if err != nil {
		o.Discard()
		return
	}
	m, _ := tree.(map[string]any)
	if m == nil {
		o.Discard()
		return
	}
	delete(m, "code")
	if c.Type != "" {
		m["type"] = c.Type
	}
	raw, _ := json.Marshal(m)
	env, err := corpus.EnvelopeOf(raw, false)
	if err != nil || env.Validate() != nil {
		// this type asks for more than the example has (a preceding document ...):
		// not a draft to begin with
		o.Class("not-a-valid-draft")
		o.Discard()
		return
	}
	o.NonTrivial()
	o.Class(d.ShortSch)
	if err := env.Sign(keys[0]); err == nil {
		o.Failf("sign:accepted-without-code:"+d.ShortSch+":"+c.Type, "%s given type %q and no code is a valid draft, and Sign accepts it: a document without code is not valid for signing", c.Doc, c.Type)
		return
	}
	if len(env.Signatures) != 0 {
		o.Failf("sign:failed-but-signed", "%s (type %q, no code): Sign failed and left %d signatures", c.Doc, c.Type, len(env.Signatures))
	}
}
