// Package c10 decides property C10: envelope lifecycle outcomes follow its
// abstract state over any history.
package c10

import (
	"encoding/json"
	"fmt"
	"strings"
	"testing"

	"github.com/invopop/gobl"
	"github.com/invopop/gobl/bill"
	"github.com/invopop/gobl/cbc"
	"github.com/invopop/gobl/dsig"
	"github.com/invopop/gobl/head"
	"github.com/invopop/gobl/org"
	"github.com/invopop/gobl/schema"
	"github.com/invopop/gobl/verifharness/internal/corpus"
	"github.com/invopop/gobl/verifharness/internal/jsontree"
	"github.com/invopop/gobl/verifharness/internal/vh"
	"pgregory.net/rapid"
)

func TestMain(m *testing.M) { vh.Main(m, "C10") }

func TestAll(t *testing.T) { vh.RunAll(t) }

var keys = []*dsig.PrivateKey{dsig.NewES256Key(), dsig.NewES256Key()}

// the operation alphabet
var alphabet = []string{
	"insertA", "insertB", "calculate", "edit", "dropcode", "addcode", "sign1", "sign2", "unsign",
	"stamp", "stamp2", "dupstamp", "link", "duplink", "validate", "verify1", "reparse", "oddsigs-empty", "oddsigs-null",
}

// Case is a base document and a history.
type Case struct {
	Base int      `json:"base"`
	Ops  []string `json:"ops"`
}

var bases []corpus.Doc

func loadBases() {
	if bases != nil {
		return
	}
	seenRegime := map[string]bool{}
	for _, d := range corpus.Invoices() {
		env, err := d.Envelope()
		if err != nil || env.Validate() != nil {
			continue
		}
		inv, ok := env.Extract().(*bill.Invoice)
		if !ok || inv.Code == "" {
			continue
		}
		// must also be valid once signed (some regimes ask for more when signed)
		if env.Sign(keys[0]) != nil {
			continue
		}
		reg := string(inv.GetRegime())
		if seenRegime[reg] {
			continue
		}
		seenRegime[reg] = true
		bases = append(bases, d)
		if len(bases) == 4 {
			break
		}
	}
	if len(bases) < 3 {
		panic("c10: not enough signable example invoices")
	}
}

// model is the abstract state: the four facts plus the header details they depend on.
type model struct {
	digestOK bool
	hasCode  bool
	// what the digest depends on in these histories: the document's code and
	// the number of notes appended, now and when the digest was last computed
	code, dCode   string
	notes, dNotes int
	sigs          []snap
	stamps        [][2]string
	links         [][2]string
}

type snap struct {
	key  int
	head map[string]any
}

func (m *model) dup() bool {
	seen := map[string]bool{}
	for _, s := range m.stamps {
		if seen["s:"+s[0]] {
			return true
		}
		seen["s:"+s[0]] = true
	}
	for _, l := range m.links {
		if seen["l:"+l[0]] {
			return true
		}
		seen["l:"+l[0]] = true
	}
	return false
}

// validatePrediction gives (ok, key) for Validate with `signed` signatures present.
func (m *model) validatePrediction(signed bool) (bool, string) {
	if m.dup() || (len(m.stamps) > 0 && !signed) || (signed && !m.hasCode) {
		return false, "validation"
	}
	if !m.digestOK {
		return false, "digest"
	}
	return true, ""
}

func headerJSON(h *head.Header) map[string]any {
	data, _ := json.Marshal(h)
	var m map[string]any
	_ = json.Unmarshal(data, &m)
	return m
}

func asList(v any) []any { a, _ := v.([]any); return a }
func asMap(v any) map[string]any {
	m, _ := v.(map[string]any)
	return m
}

func contains(cur, signed map[string]any) bool {
	if fmt.Sprint(cur["uuid"]) != fmt.Sprint(signed["uuid"]) {
		return false
	}
	a, _ := json.Marshal(cur["dig"])
	b, _ := json.Marshal(signed["dig"])
	if signed["dig"] != nil && string(a) != string(b) {
		return false
	}
	for _, s := range asList(signed["stamps"]) {
		found := false
		for _, c := range asList(cur["stamps"]) {
			if asMap(c)["prv"] == asMap(s)["prv"] && asMap(c)["val"] == asMap(s)["val"] {
				found = true
			}
		}
		if !found {
			return false
		}
	}
	for _, s := range asList(signed["links"]) {
		found := false
		for _, c := range asList(cur["links"]) {
			if asMap(c)["key"] == asMap(s)["key"] && asMap(c)["url"] == asMap(s)["url"] {
				found = true
			}
		}
		if !found {
			return false
		}
	}
	return true
}

func errKey(err error) string {
	if err == nil {
		return ""
	}
	if ge, ok := err.(*gobl.Error); ok {
		return ge.Key().String()
	}
	return "unkeyed"
}

func invoiceOf(env *gobl.Envelope) *bill.Invoice {
	inv, _ := env.Extract().(*bill.Invoice)
	return inv
}

func judge(c Case, o *vh.Obs) {
	loadBases()
	if c.Base < 0 || c.Base >= len(bases) {
		o.Discard()
		return
	}
	env, err := bases[c.Base].Envelope()
	if err != nil {
		o.Discard()
		return
	}
	m := &model{digestOK: true, hasCode: true, code: "base", dCode: "base"}
	sync := func() { m.digestOK = m.code == m.dCode && m.notes == m.dNotes }
	digested := func() { m.dCode, m.dNotes = m.code, m.notes; sync() }
	counter := 0
	// held: the pointer to the document obtained when it was put in place (at
	// the start, after an insert, after parsing) and kept by the caller: the
	// "edit" step writes through it without asking the envelope again, which is
	// how an application edits the struct it handed over
	held := invoiceOf(env)
	history := func(i int) string { return strings.Join(c.Ops[:i+1], ",") }
	for i, op := range c.Ops {
		switch op {
		case "insertA", "insertB":
			idx := (c.Base + 1) % len(bases)
			if op == "insertB" {
				idx = (c.Base + 2) % len(bases)
			}
			obj := new(schema.Object)
			if err := json.Unmarshal(bases[idx].JSON, obj); err != nil {
				o.Discard()
				return
			}
			if err := env.Insert(obj); err != nil {
				o.Failf("insert:error", "step %d (%s): inserting a valid document failed: %v", i, history(i), err)
				return
			}
			m.hasCode = true
			m.code, m.notes = "inserted", 0
			digested()
			held = invoiceOf(env)
		case "calculate":
			if err := env.Calculate(); err != nil {
				o.Failf("calculate:error", "step %d (%s): %v", i, history(i), err)
				return
			}
			digested()
		case "edit":
			counter++
			inv := held
			if inv == nil {
				o.Discard()
				return
			}
			inv.Notes = append(inv.Notes, &org.Note{Text: fmt.Sprintf("edit %d", counter)})
			m.notes++
			sync()
		case "dropcode":
			inv := invoiceOf(env)
			inv.Code = ""
			m.code = ""
			m.hasCode = false
			sync()
		case "addcode":
			counter++
			inv := invoiceOf(env)
			inv.Code = cbc.Code(fmt.Sprintf("NEW-%d", counter))
			m.code = string(inv.Code)
			m.hasCode = true
			sync()
		case "sign1", "sign2":
			k := 0
			if op == "sign2" {
				k = 1
			}
			snapshot := headerJSON(env.Head)
			wantOK, wantKey := m.validatePrediction(true)
			err := env.Sign(keys[k])
			if (err == nil) != wantOK {
				o.Failf("sign:outcome", "step %d (%s): Sign returned %v, the abstract state (digest ok=%v, code=%v, duplicate=%v) predicts ok=%v", i, history(i), err, m.digestOK, m.hasCode, m.dup(), wantOK)
				return
			}
			if err != nil {
				if k := errKey(err); k != wantKey {
					o.Failf("sign:error-key", "step %d (%s): Sign failed with key %q, expected %q", i, history(i), k, wantKey)
					return
				}
				if len(env.Signatures) != 0 {
					o.Failf("sign:failed-but-signed", "step %d (%s): Sign failed (%v) yet %d signatures remain", i, history(i), err, len(env.Signatures))
					return
				}
				m.sigs = nil
				o.Class("sign-refused")
			} else {
				m.sigs = append(m.sigs, snap{key: k, head: snapshot})
				o.Class("sign-ok")
			}
		case "unsign":
			env.Unsign()
			m.sigs = nil
		case "stamp", "stamp2":
			prv, val := "prov-a", fmt.Sprintf("v%d", counter)
			if op == "stamp2" {
				prv = "prov-b"
			}
			counter++
			env.Head.AddStamp(&head.Stamp{Provider: cbc.Key(prv), Value: val})
			replaced := false
			for j := range m.stamps {
				if m.stamps[j][0] == prv {
					m.stamps[j][1] = val
					replaced = true
					break
				}
			}
			if !replaced {
				m.stamps = append(m.stamps, [2]string{prv, val})
			}
		case "dupstamp":
			// two entries of one provider, bypassing AddStamp
			env.Head.Stamps = append(env.Head.Stamps, &head.Stamp{Provider: "prov-d", Value: "1"}, &head.Stamp{Provider: "prov-d", Value: "2"})
			m.stamps = append(m.stamps, [2]string{"prov-d", "1"}, [2]string{"prov-d", "2"})
		case "link":
			counter++
			url := fmt.Sprintf("https://example.com/%d", counter)
			env.Head.AddLink(&head.Link{Key: "pdf", URL: url})
			replaced := false
			for j := range m.links {
				if m.links[j][0] == "pdf" {
					m.links[j][1] = url
					replaced = true
					break
				}
			}
			if !replaced {
				m.links = append(m.links, [2]string{"pdf", url})
			}
		case "duplink":
			env.Head.Links = append(env.Head.Links, &head.Link{Key: "dup", URL: "https://example.com/a"}, &head.Link{Key: "dup", URL: "https://example.com/b"})
			m.links = append(m.links, [2]string{"dup", "https://example.com/a"}, [2]string{"dup", "https://example.com/b"})
		case "validate":
			before, _ := json.Marshal(env)
			wantOK, wantKey := m.validatePrediction(len(m.sigs) > 0)
			err := env.Validate()
			if (err == nil) != wantOK {
				o.Failf("validate:outcome", "step %d (%s): Validate returned %v, the abstract state (digest ok=%v, code=%v, signed=%v, stamps=%d, duplicate=%v) predicts ok=%v", i, history(i), err, m.digestOK, m.hasCode, len(m.sigs) > 0, len(m.stamps), m.dup(), wantOK)
				return
			}
			if k := errKey(err); k != wantKey {
				o.Failf("validate:error-key", "step %d (%s): Validate failed with key %q, expected %q", i, history(i), k, wantKey)
				return
			}
			after, _ := json.Marshal(env)
			if string(before) != string(after) {
				o.Failf("validate:mutates", "step %d (%s): Validate changed the envelope", i, history(i))
				return
			}
			if err == nil && len(m.stamps) > 0 && len(env.Signatures) == 0 {
				o.Failf("validate:stamps-unsigned", "step %d (%s): an unsigned envelope with stamps validates", i, history(i))
				return
			}
		case "verify1":
			want := len(m.sigs) > 0
			cur := headerJSON(env.Head)
			for _, s := range m.sigs {
				if s.key != 0 || !contains(cur, s.head) {
					want = false
				}
			}
			err := env.Verify(keys[0].Public())
			if (err == nil) != want {
				o.Failf("verify:outcome", "step %d (%s): Verify returned %v, expected ok=%v", i, history(i), err, want)
				return
			}
			// and without any key: the contents alone decide
			want0 := len(m.sigs) > 0
			for _, s := range m.sigs {
				if !contains(cur, s.head) {
					want0 = false
				}
			}
			if err := env.Verify(); (err == nil) != want0 {
				o.Failf("verify:keyless-outcome", "step %d (%s): Verify() without keys returned %v, expected ok=%v", i, history(i), err, want0)
				return
			}
		case "reparse":
			data, err := json.Marshal(env)
			if err != nil {
				o.Failf("reparse:marshal", "step %d (%s): %v", i, history(i), err)
				return
			}
			e2 := new(gobl.Envelope)
			if err := json.Unmarshal(data, e2); err != nil {
				o.Failf("reparse:unmarshal", "step %d (%s): the serialised envelope does not parse: %v", i, history(i), err)
				return
			}
			again, _ := json.Marshal(e2)
			if string(again) != string(data) {
				o.Failf("reparse:lossy", "step %d (%s): serialise / parse changed the envelope", i, history(i))
				return
			}
			env = e2
			held = invoiceOf(env)
		case "oddsigs-empty", "oddsigs-null":
			data, _ := json.Marshal(env)
			tree, err := jsontree.Decode(data)
			if err != nil {
				o.Discard()
				return
			}
			var entry any = ""
			if op == "oddsigs-null" {
				entry = nil
			}
			tree, _ = jsontree.Set(tree, "/sigs", []any{entry})
			e2 := new(gobl.Envelope)
			if err := json.Unmarshal(jsontree.Encode(tree), e2); err == nil {
				// accepted by the parser: it must not pass for a signed envelope
				if e2.Validate() == nil {
					o.Failf("oddsigs:accepted", "step %d (%s): an envelope whose signature list is [%v] parses and validates", i, history(i), entry)
					return
				}
			}
			if op == "oddsigs-null" && len(env.Signatures) > 0 {
				// an entry holding the JSON serialisation of a JWS with two signatures
				// (twice the envelope's own): whatever is read and validates must be a
				// signature the envelope can write again
				parts := strings.Split(env.Signatures[0].String(), ".")
				if len(parts) == 3 {
					one := map[string]any{"protected": parts[0], "signature": parts[2]}
					general, _ := json.Marshal(map[string]any{"payload": parts[1], "signatures": []any{one, one}})
					t3, _ := jsontree.Set(tree, "/sigs", []any{string(general)})
					e4 := new(gobl.Envelope)
					if err := json.Unmarshal(jsontree.Encode(t3), e4); err == nil && e4.Validate() == nil {
						for j, sg := range e4.Signatures {
							if sg == nil || sg.String() == "" {
								o.Failf("oddsigs:unwritable-accepted", "step %d (%s): a signature entry holding a JSON-serialised JWS with two signatures parses and validates, but signature %d cannot be written again (it serialises as \"\")", i, history(i), j)
								return
							}
						}
					}
				}
			}
			if op == "oddsigs-empty" {
				// the same entry built in memory: a signature that holds nothing
				e3 := new(gobl.Envelope)
				if err := json.Unmarshal(data, e3); err == nil {
					e3.Signatures = []*dsig.Signature{new(dsig.Signature)}
					if e3.Validate() == nil {
						o.Failf("oddsigs:zero-accepted", "step %d (%s): an envelope whose signature list holds a signature without content validates (it serialises as [\"\"], which cannot be read back)", i, history(i))
						return
					}
				}
			}
			o.Class("odd-sigs")
			// the history continues on the untouched envelope
		default:
			o.Discard()
			return
		}
		// invariants after every step
		if len(env.Signatures) != len(m.sigs) {
			o.Failf("invariant:signature-count", "step %d (%s): %d signatures, the history implies %d", i, history(i), len(env.Signatures), len(m.sigs))
			return
		}
		for j, s := range env.Signatures {
			if s == nil || s.String() == "" {
				o.Failf("invariant:unreal-signature", "step %d (%s): signature %d is not a real signature", i, history(i), j)
				return
			}
			if _, err := dsig.ParseSignature(s.String()); err != nil {
				o.Failf("invariant:unparseable-signature", "step %d (%s): signature %d does not parse back: %v", i, history(i), j, err)
				return
			}
		}
	}
	// interaction pairs make a history non-trivial
	h := "," + strings.Join(c.Ops, ",") + ","
	pairs := [][2]string{{"edit", "sign"}, {"unsign", "stamp"}, {"stamp", "sign"}, {"dropcode", "sign"}, {"sign", "insert"}, {"sign", "edit"}, {"dup", "validate"}, {"sign1", "sign2"}, {"stamp", "unsign"}}
	for _, p := range pairs {
		a := strings.Index(h, ","+p[0])
		b := strings.LastIndex(h, ","+p[1])
		if a >= 0 && b > a {
			o.NonTrivial()
			o.Class("pair-" + p[0] + ">" + p[1])
		}
	}
	if strings.Contains(h, "oddsigs") {
		o.NonTrivial()
	}
	o.Note("base %d: %s => signed=%d digest ok=%v", c.Base, strings.Join(c.Ops, ","), len(m.sigs), m.digestOK)
}

func depth() int {
	if vh.Thorough() {
		return 5
	}
	return 3
}

// enumAll yields every operation sequence up to the depth bound, for every base.
func enumAll(yield func(Case) bool) {
	loadBases()
	cfg := vh.Cfg()
	idx := 0
	nb := 3
	var rec func(base int, ops []string, d int) bool
	rec = func(base int, ops []string, d int) bool {
		if len(ops) > 0 {
			idx++
			if idx%cfg.Shards == cfg.Shard {
				cp := append([]string{}, ops...)
				if !yield(Case{Base: base, Ops: cp}) {
					return false
				}
			}
		}
		if d == 0 {
			return true
		}
		for _, op := range alphabet {
			if !rec(base, append(ops, op), d-1) {
				return false
			}
		}
		return true
	}
	for b := 0; b < nb; b++ {
		// the thorough depth is only affordable for one base; the others go one level less deep
		d := depth()
		if vh.Thorough() && b > 0 {
			d--
		}
		if !rec(b, nil, d) {
			return
		}
	}
}

func genCase(t *rapid.T) Case {
	loadBases()
	c := Case{Base: rapid.IntRange(0, len(bases)-1).Draw(t, "base")}
	n := rapid.IntRange(4, 30).Draw(t, "n")
	for i := 0; i < n; i++ {
		c.Ops = append(c.Ops, rapid.SampledFrom(alphabet).Draw(t, "op"))
	}
	return c
}

func init() {
	vh.Describe(
		"Operation alphabet (19): insert another document (2), calculate, edit the document (through the pointer obtained when the document was put in place and kept since - the envelope is not asked again), drop / set its code (through a fresh Extract), sign with key 1 / key 2, unsign, add stamp (2 providers, replacing), add two stamps of one provider, add / alter a link, add two links of one key, validate, verify with key 1 and without any key, serialise+parse, and parsing the envelope with a signature list of [\"\"] or [null] (the first also built in memory: a signature that holds nothing must not validate). Every sequence up to length 3 (thorough: 5 for the first base, 4 for the others) from three example invoices of different regimes is enumerated exhaustively; rapid draws sequences of length 4-30. Reference machine over the four facts (digest matches; document valid for signing = carries a code and no duplicate header entries; signatures present; header still contains each signed header): it predicts ok / error key of sign and validate, the verdict of verify and the signature count after every step; invariants: a failed Sign leaves zero signatures, a validating envelope with stamps is signed, every signature entry is real (non-empty, parses back), validate and serialise+parse do not change the envelope. `code_rule`: one example of every regime for invoices, orders, deliveries and payments, given every type its schema publishes and stripped of its code: a valid draft that Sign must refuse, leaving no signature. Non-trivial: the history contains an interaction pair (e.g. sign after edit, stamp after unsign, second signature after a header change) or an odd signature list.",
		"the base documents are valid examples; edits keep them structurally valid",
	)
	vh.Enum("exhaustive", enumAll, judge)
	vh.Rapid("long_histories", 3_000, 160_000, genCase, judge)
	vh.Enum("code_rule", enumCodeRule, judgeCodeRule)
}
