package tmpx

import (
	"fmt"
	"testing"

	"github.com/invopop/gobl/currency"
	"github.com/invopop/gobl/num"
)

func TestX(t *testing.T) {
	for _, c := range []struct{ from, to currency.Code; amt, rate string }{
		{"KWD", "EUR", "1.000", "3.0445"},
		{"KWD", "EUR", "1.001", "2.9995"},
		{"USD", "JPY", "1.05", "100.4286"},
		{"EUR", "USD", "10.01", "1.0005"},
	} {
		a, _ := num.AmountFromString(c.amt)
		r, _ := num.AmountFromString(c.rate)
		er := &currency.ExchangeRate{From: c.from, To: c.to, Amount: r}
		fmt.Println(c.from, c.to, c.amt, c.rate, "=>", er.Convert(a).String())
	}
}
