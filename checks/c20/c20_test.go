// Package c20 decides property C20: tax summaries combine component-wise
// (Merge / Negate / Clone of tax.Total) and payment totals add up.
//
// Two checks:
//
//   - "totals":   2-6 tax.Total operands at one currency precision, built through
//     the real TotalCalculator (ES regime: VAT, IGIC, IPSI and the retained IRPF),
//     through a JSON round trip of such a total, or as hand-written JSON. The
//     oracle is an independent component-wise model in exact decimals keyed by
//     (category, country, ext, percent-or-exempt, surcharge %).
//   - "payments": bill.Payment documents written as JSON and calculated by gobl.
//     The oracle recomputes every line total (debit - credit, converted with the
//     declared rate), the payment total and the merged tax summary.
package c20

import (
	"encoding/json"
	"fmt"
	"math/big"
	"os"
	"path/filepath"
	"sort"
	"strings"
	"sync"
	"testing"

	_ "github.com/invopop/gobl" // registers regimes, schemas
	"github.com/invopop/gobl/cal"
	"github.com/invopop/gobl/cbc"
	"github.com/invopop/gobl/currency"
	"github.com/invopop/gobl/l10n"
	"github.com/invopop/gobl/num"
	"github.com/invopop/gobl/schema"
	"github.com/invopop/gobl/tax"
	"github.com/invopop/gobl/verifharness/internal/ratref"
	"github.com/invopop/gobl/verifharness/internal/vh"
	"pgregory.net/rapid"
)

func TestMain(m *testing.M) { vh.Main(m, "C20") }

func TestAll(t *testing.T) { vh.RunAll(t) }

// ---------------------------------------------------------------------------
// exact decimals

type dec = ratref.Dec

func parseDec(s string) (dec, error) { return ratref.ParseDec(s) }

func zeroDec(exp int) dec { return ratref.NewDec(0, exp) }

func addDec(a, b dec) dec {
	e := a.Exp
	if b.Exp > e {
		e = b.Exp
	}
	x, y := a.Rescale(e), b.Rescale(e) // raising only: exact
	return dec{Units: new(big.Int).Add(x.Units, y.Units), Exp: e}
}

func negDec(a dec) dec { return dec{Units: new(big.Int).Neg(a.Units), Exp: a.Exp} }

// eqDec is strict: same value and same number of decimals.
// valueOnly: the case at hand merges summaries of different precisions; the
// statement fixes the sums, not the number of decimals they are written with,
// so figures are compared by value there (0 and 0.00 are the same sum).
var valueOnly bool

func eqDec(a, b dec) bool {
	if valueOnly && a.Exp != b.Exp {
		e := a.Exp
		if b.Exp > e {
			e = b.Exp
		}
		x, y := a.Rescale(e), b.Rescale(e)
		return x.Units.Cmp(y.Units) == 0
	}
	return a.Exp == b.Exp && a.Units.Cmp(b.Units) == 0
}

// sameValue compares the rational values only.
func sameValue(a, b dec) bool { return a.Rat().Cmp(b.Rat()) == 0 }

// parsePct reads "21.0%" into the fraction 0.210.
func parsePct(s string) (dec, error) {
	if !strings.HasSuffix(s, "%") {
		return dec{}, fmt.Errorf("percentage %q without %%", s)
	}
	d, err := parseDec(strings.TrimSuffix(s, "%"))
	if err != nil {
		return dec{}, err
	}
	d.Exp += 2
	return d, nil
}

// currency decimals come from the published table data/currency/iso.json
var (
	curOnce sync.Once
	curExps map[string]int
)

func curExp(code string) (int, bool) {
	curOnce.Do(func() {
		curExps = map[string]int{}
		data, err := os.ReadFile(filepath.Join(vh.Cfg().Repo, "data", "currency", "iso.json"))
		if err != nil {
			panic(err)
		}
		var rows []struct {
			Code     string `json:"iso_code"`
			Subunits int    `json:"subunits"`
		}
		if err := json.Unmarshal(data, &rows); err != nil {
			panic(err)
		}
		for _, r := range rows {
			curExps[r.Code] = r.Subunits
		}
	})
	e, ok := curExps[code]
	return e, ok
}

// ---------------------------------------------------------------------------
// the model of a tax summary: its JSON form, read without gobl

type mSur struct {
	Percent string `json:"percent"`
	Amount  string `json:"amount,omitempty"`
}

type mRate struct {
	Key       string            `json:"key,omitempty"`
	Country   string            `json:"country,omitempty"`
	Ext       map[string]string `json:"ext,omitempty"`
	Base      string            `json:"base"`
	Percent   *string           `json:"percent,omitempty"`
	Surcharge *mSur             `json:"surcharge,omitempty"`
	Amount    string            `json:"amount,omitempty"`
}

type mCat struct {
	Code      string  `json:"code"`
	Retained  bool    `json:"retained,omitempty"`
	Rates     []mRate `json:"rates"`
	Amount    string  `json:"amount,omitempty"`
	Surcharge *string `json:"surcharge,omitempty"`
}

type mTotal struct {
	Categories []mCat `json:"categories,omitempty"`
	Sum        string `json:"sum,omitempty"`
}

func mustJSON(v any) []byte {
	b, err := json.Marshal(v)
	if err != nil {
		panic(err)
	}
	return b
}

func modelOf(t *tax.Total) (mTotal, []byte, error) {
	var m mTotal
	b, err := json.Marshal(t)
	if err != nil {
		return m, nil, err
	}
	err = json.Unmarshal(b, &m)
	return m, b, err
}

// groupKey is the identity of a rate group inside a category.
func groupKey(r mRate) (string, error) {
	var sb strings.Builder
	sb.WriteString(r.Country)
	sb.WriteString("|")
	ks := make([]string, 0, len(r.Ext))
	for k := range r.Ext {
		ks = append(ks, k)
	}
	sort.Strings(ks)
	for _, k := range ks {
		sb.WriteString(k + "=" + r.Ext[k] + ";")
	}
	sb.WriteString("|")
	if r.Percent == nil {
		sb.WriteString("exempt|")
		// an exempt group carries no surcharge (combo validation: "required with percent")
		return sb.String(), nil
	}
	p, err := parsePct(*r.Percent)
	if err != nil {
		return "", err
	}
	sb.WriteString(p.Rat().RatString() + "|")
	if r.Surcharge != nil {
		s, err := parsePct(r.Surcharge.Percent)
		if err != nil {
			return "", err
		}
		sb.WriteString(s.Rat().RatString())
	} else {
		sb.WriteString("-")
	}
	return sb.String(), nil
}

type aRow struct {
	labels map[string]bool
	base   dec
	amount dec
	sur    *dec
	n      int
}

type aCat struct {
	retained     bool
	retainedSeen map[bool]bool
	amount       dec
	sur          *dec
	rows         map[string]*aRow
	n            int
}

type aTot struct {
	cats map[string]*aCat
	sum  dec
	minE int
	maxE int
}

func (a *aTot) see(d dec) {
	if d.Exp < a.minE {
		a.minE = d.Exp
	}
	if d.Exp > a.maxE {
		a.maxE = d.Exp
	}
}

// aggregate adds any number of summaries component-wise. For one summary it is
// simply its order-free form (n counts how many rows fell on the same group).
func aggregate(ts ...mTotal) (*aTot, error) {
	a := &aTot{cats: map[string]*aCat{}, minE: 99, maxE: -1}
	first := true
	for _, t := range ts {
		s, err := parseDec(t.Sum)
		if err != nil {
			return nil, fmt.Errorf("sum: %w", err)
		}
		a.see(s)
		if first {
			a.sum = s
			first = false
		} else {
			a.sum = addDec(a.sum, s)
		}
		for _, c := range t.Categories {
			am, err := parseDec(c.Amount)
			if err != nil {
				return nil, fmt.Errorf("category %s amount: %w", c.Code, err)
			}
			a.see(am)
			ac := a.cats[c.Code]
			if ac == nil {
				ac = &aCat{retained: c.Retained, retainedSeen: map[bool]bool{}, amount: am, rows: map[string]*aRow{}}
				a.cats[c.Code] = ac
			} else {
				ac.amount = addDec(ac.amount, am)
			}
			ac.n++
			ac.retainedSeen[c.Retained] = true
			if c.Surcharge != nil {
				sd, err := parseDec(*c.Surcharge)
				if err != nil {
					return nil, fmt.Errorf("category %s surcharge: %w", c.Code, err)
				}
				a.see(sd)
				if ac.sur == nil {
					ac.sur = &sd
				} else {
					x := addDec(*ac.sur, sd)
					ac.sur = &x
				}
			}
			for _, r := range c.Rates {
				k, err := groupKey(r)
				if err != nil {
					return nil, err
				}
				b, err := parseDec(r.Base)
				if err != nil {
					return nil, fmt.Errorf("base: %w", err)
				}
				ra, err := parseDec(r.Amount)
				if err != nil {
					return nil, fmt.Errorf("amount: %w", err)
				}
				a.see(b)
				a.see(ra)
				var rs *dec
				if r.Surcharge != nil && r.Percent != nil {
					x, err := parseDec(r.Surcharge.Amount)
					if err != nil {
						return nil, fmt.Errorf("surcharge amount: %w", err)
					}
					a.see(x)
					rs = &x
				}
				ar := ac.rows[k]
				if ar == nil {
					ar = &aRow{labels: map[string]bool{}, base: b, amount: ra, sur: rs}
					ac.rows[k] = ar
				} else {
					ar.base = addDec(ar.base, b)
					ar.amount = addDec(ar.amount, ra)
					if rs != nil {
						if ar.sur == nil {
							ar.sur = rs
						} else {
							x := addDec(*ar.sur, *rs)
							ar.sur = &x
						}
					}
				}
				ar.labels[r.Key] = true
				ar.n++
			}
		}
	}
	return a, nil
}

// mapAmounts returns a copy with f applied to every amount.
func (a *aTot) mapAmounts(f func(dec) dec) *aTot {
	out := &aTot{cats: map[string]*aCat{}, sum: f(a.sum), minE: a.minE, maxE: a.maxE}
	for code, c := range a.cats {
		nc := &aCat{retained: c.retained, retainedSeen: c.retainedSeen, amount: f(c.amount), rows: map[string]*aRow{}, n: c.n}
		if c.sur != nil {
			x := f(*c.sur)
			nc.sur = &x
		}
		for k, r := range c.rows {
			nr := &aRow{labels: r.labels, base: f(r.base), amount: f(r.amount), n: r.n}
			if r.sur != nil {
				x := f(*r.sur)
				nr.sur = &x
			}
			nc.rows[k] = nr
		}
		out.cats[code] = nc
	}
	return out
}

func zeroOf(d dec) dec { return zeroDec(d.Exp) }

func keysOf[V any](m map[string]V) []string { return vh.SortedKeys(m) }

// diff names the first component in which got departs from want ("" = none).
func diff(want, got *aTot) (string, string) {
	wc, gc := keysOf(want.cats), keysOf(got.cats)
	if strings.Join(wc, ",") != strings.Join(gc, ",") {
		return "categories", fmt.Sprintf("categories %v, expected %v", gc, wc)
	}
	for _, code := range wc {
		w, g := want.cats[code], got.cats[code]
		if g.n != 1 {
			return "category-duplicated", fmt.Sprintf("category %s appears %d times", code, g.n)
		}
		if g.retained != w.retained {
			return "retained", fmt.Sprintf("category %s retained=%v, expected %v", code, g.retained, w.retained)
		}
		wk, gk := keysOf(w.rows), keysOf(g.rows)
		if strings.Join(wk, "\n") != strings.Join(gk, "\n") {
			return "groups", fmt.Sprintf("category %s has groups %q, expected %q", code, gk, wk)
		}
		for _, k := range wk {
			wr, gr := w.rows[k], g.rows[k]
			if gr.n != 1 {
				return "group-duplicated", fmt.Sprintf("category %s group %q appears in %d rows", code, k, gr.n)
			}
			if !eqDec(wr.base, gr.base) {
				return "base", fmt.Sprintf("category %s group %q base %s, expected %s", code, k, gr.base, wr.base)
			}
			if !eqDec(wr.amount, gr.amount) {
				return "amount", fmt.Sprintf("category %s group %q amount %s, expected %s", code, k, gr.amount, wr.amount)
			}
			if (wr.sur == nil) != (gr.sur == nil) {
				return "rate-surcharge-presence", fmt.Sprintf("category %s group %q surcharge present=%v, expected %v", code, k, gr.sur != nil, wr.sur != nil)
			}
			if wr.sur != nil && !eqDec(*wr.sur, *gr.sur) {
				return "rate-surcharge", fmt.Sprintf("category %s group %q surcharge amount %s, expected %s", code, k, *gr.sur, *wr.sur)
			}
			for l := range gr.labels {
				if !wr.labels[l] {
					return "key-label", fmt.Sprintf("category %s group %q labelled %q, operands use %v", code, k, l, keysOf(wr.labels))
				}
			}
		}
		if !eqDec(w.amount, g.amount) {
			return "cat-amount", fmt.Sprintf("category %s amount %s, expected %s", code, g.amount, w.amount)
		}
		switch {
		case w.sur != nil && g.sur == nil:
			return "cat-surcharge-dropped", fmt.Sprintf("category %s surcharge missing, expected %s", code, *w.sur)
		case w.sur == nil && g.sur != nil:
			return "cat-surcharge-spurious", fmt.Sprintf("category %s surcharge %s, expected none", code, *g.sur)
		case w.sur != nil && !eqDec(*w.sur, *g.sur):
			return "cat-surcharge", fmt.Sprintf("category %s surcharge %s, expected %s", code, *g.sur, *w.sur)
		}
	}
	if !eqDec(want.sum, got.sum) {
		return "sum", fmt.Sprintf("sum %s, expected %s", got.sum, want.sum)
	}
	return "", ""
}

// ---------------------------------------------------------------------------
// case types for the "totals" check

// Combo is one tax combination of a calculator line.
type Combo struct {
	Cat       string            `json:"cat"`
	Country   string            `json:"country,omitempty"`
	Rate      string            `json:"rate,omitempty"`
	Percent   string            `json:"percent,omitempty"`
	Surcharge string            `json:"surcharge,omitempty"`
	Ext       map[string]string `json:"ext,omitempty"`
}

// Line is one taxable line handed to the TotalCalculator.
type Line struct {
	Total string  `json:"total"`
	Taxes []Combo `json:"taxes,omitempty"`
}

// Operand describes how one tax.Total is built.
type Operand struct {
	Via      string `json:"via"`                // calc | calc-json | free
	Rounding string `json:"rounding,omitempty"` // precise | currency (calc)
	Date     string `json:"date,omitempty"`     // calc
	Lines    []Line `json:"lines,omitempty"`    // calc
	JSON     string `json:"json,omitempty"`     // free: the summary as JSON text
}

// Case is a sequence of operands at one currency precision.
type Case struct {
	Currency string    `json:"currency"`
	Ops      []Operand `json:"operands"`
	Perm     []int     `json:"perm"` // second evaluation order
}

type calcLine struct {
	total num.Amount
	taxes tax.Set
}

func (l *calcLine) GetTaxes() tax.Set    { return l.taxes }
func (l *calcLine) GetTotal() num.Amount { return l.total }

func buildOperand(op Operand, cur currency.Code) (*tax.Total, error) {
	switch op.Via {
	case "free":
		t := new(tax.Total)
		if err := json.Unmarshal([]byte(op.JSON), t); err != nil {
			return nil, err
		}
		return t, nil
	case "calc", "calc-json":
		var d cal.Date
		if err := json.Unmarshal([]byte(`"`+op.Date+`"`), &d); err != nil {
			return nil, err
		}
		tc := &tax.TotalCalculator{
			Country:  l10n.TaxCountryCode("ES"),
			Rounding: cbc.Key(op.Rounding),
			Currency: cur,
			Date:     d,
		}
		for _, l := range op.Lines {
			a, err := num.AmountFromString(l.Total)
			if err != nil {
				return nil, err
			}
			cl := &calcLine{total: a}
			for _, c := range l.Taxes {
				combo := &tax.Combo{
					Category: cbc.Code(c.Cat),
					Country:  l10n.TaxCountryCode(c.Country),
					Rate:     cbc.Key(c.Rate),
				}
				if c.Percent != "" {
					p, err := num.PercentageFromString(c.Percent)
					if err != nil {
						return nil, err
					}
					combo.Percent = &p
				}
				if c.Surcharge != "" {
					p, err := num.PercentageFromString(c.Surcharge)
					if err != nil {
						return nil, err
					}
					combo.Surcharge = &p
				}
				if len(c.Ext) > 0 {
					combo.Ext = tax.Extensions{}
					for k, v := range c.Ext {
						combo.Ext[cbc.Key(k)] = cbc.Code(v)
					}
				}
				cl.taxes = append(cl.taxes, combo)
			}
			tc.Lines = append(tc.Lines, cl)
		}
		t := new(tax.Total)
		if err := tc.Calculate(t); err != nil {
			return nil, err
		}
		if op.Via == "calc-json" {
			b, err := json.Marshal(t)
			if err != nil {
				return nil, err
			}
			t = new(tax.Total)
			if err := json.Unmarshal(b, t); err != nil {
				return nil, err
			}
		}
		return t, nil
	}
	return nil, fmt.Errorf("unknown operand kind %q", op.Via)
}

// snapshot is everything observable about an operand.
type snapshot struct {
	js    string
	psum  string
	pamts string
}

func snap(t *tax.Total) snapshot {
	s := snapshot{js: string(mustJSON(t)), psum: amt(t.PreciseSum())}
	var sb strings.Builder
	for _, ct := range t.Categories {
		sb.WriteString(string(ct.Code) + "=" + amt(ct.PreciseAmount()) + ";")
	}
	s.pamts = sb.String()
	return s
}

// amt prints an amount with its exponent made explicit ("0" and "0.00" differ).
func amt(a num.Amount) string { return fmt.Sprintf("%d/%d", a.Value(), a.Exp()) }

func amtDec(a num.Amount) dec { return ratref.NewDec(a.Value(), int(a.Exp())) }

// scribble overwrites every amount reachable from t.
func scribble(t *tax.Total, s num.Amount) {
	for _, ct := range t.Categories {
		ct.Amount = s
		if ct.Surcharge != nil {
			*ct.Surcharge = s
		}
		for _, rt := range ct.Rates {
			rt.Base = s
			rt.Amount = s
			if rt.Surcharge != nil {
				rt.Surcharge.Amount = s
			}
		}
	}
	t.Sum = s
}

func isPerm(p []int, n int) bool {
	if len(p) != n {
		return false
	}
	seen := make([]bool, n)
	for _, i := range p {
		if i < 0 || i >= n || seen[i] {
			return false
		}
		seen[i] = true
	}
	return true
}

// judgeTotals is the oracle of the "totals" check.
func judgeTotals(c Case, o *vh.Obs) {
	valueOnly = false
	defer func() { valueOnly = false }()
	n := len(c.Ops)
	exp, ok := curExp(c.Currency)
	if n < 2 || n > 6 || !isPerm(c.Perm, n) || !ok {
		o.Discard()
		return
	}
	cur := currency.Code(c.Currency)
	ops := make([]*tax.Total, n)
	for i, op := range c.Ops {
		t, err := buildOperand(op, cur)
		if err != nil {
			o.Discard()
			o.Note("operand %d cannot be built: %v", i, err)
			return
		}
		ops[i] = t
	}
	snaps := make([]snapshot, n)
	models := make([]mTotal, n)
	aggs := make([]*aTot, n)
	for i, t := range ops {
		snaps[i] = snap(t)
		if err := json.Unmarshal([]byte(snaps[i].js), &models[i]); err != nil {
			o.Failf("model:unreadable", "operand %d JSON cannot be read back: %v", i, err)
			return
		}
		a, err := aggregate(models[i])
		if err != nil {
			o.Failf("model:unreadable", "operand %d: %v", i, err)
			return
		}
		if a.minE != a.maxE {
			// an operand whose own figures differ in precision is outside this check
			o.Discard()
			o.Note("operand %d mixes precisions", i)
			return
		}
		if a.minE != exp {
			// a summary of a document in a currency with other decimals: the sums
			// keep the finer precision, whichever operand comes first
			o.Class("operand-of-other-precision")
			valueOnly = true
		}
		for _, ac := range a.cats {
			if ac.n != 1 || len(ac.retainedSeen) != 1 {
				o.Discard()
				return
			}
			for _, r := range ac.rows {
				if r.n != 1 {
					o.Discard() // one row per group inside an operand
					return
				}
			}
		}
		aggs[i] = a
	}
	// consistent retained flag per category across operands
	ret := map[string]bool{}
	for _, a := range aggs {
		for code, ac := range a.cats {
			if v, ok := ret[code]; ok && v != ac.retained {
				o.Discard()
				return
			}
			ret[code] = ac.retained
		}
	}
	classifyTotals(c, aggs, o)

	want, err := aggregate(models...)
	if err != nil {
		o.Failf("model:unreadable", "%v", err)
		return
	}

	read := func(sigPrefix, what string, t *tax.Total) *aTot {
		m, _, err := modelOf(t)
		if err != nil {
			o.Failf(sigPrefix+":unreadable", "%s: %v", what, err)
			return nil
		}
		a, err := aggregate(m)
		if err != nil {
			o.Failf(sigPrefix+":unreadable", "%s: %v", what, err)
			return nil
		}
		return a
	}
	expect := func(sigPrefix, what string, want *aTot, t *tax.Total) bool {
		g := read(sigPrefix, what, t)
		if g == nil {
			return false
		}
		if comp, detail := diff(want, g); comp != "" {
			o.Failf(sigPrefix+":"+comp, "%s: %s; result %s", what, detail, mustJSON(t))
			return false
		}
		return true
	}
	// unchanged compares every operand with its snapshot.
	unchanged := func(sigPrefix, what string) bool {
		for i, t := range ops {
			now := snap(t)
			if now == snaps[i] {
				continue
			}
			comp := "precise"
			detail := fmt.Sprintf("precise sum %s -> %s, precise amounts %s -> %s", snaps[i].psum, now.psum, snaps[i].pamts, now.pamts)
			if now.js != snaps[i].js {
				comp, detail = "json", "JSON differs"
				var m mTotal
				if err := json.Unmarshal([]byte(now.js), &m); err == nil {
					if a, err := aggregate(m); err == nil {
						if c2, d2 := diff(aggs[i], a); c2 != "" {
							comp, detail = c2, d2
						}
					}
				}
			}
			o.Failf(sigPrefix+":"+comp, "%s changed operand %d: %s; before %s after %s", what, i, detail, snaps[i].js, now.js)
			return false
		}
		return true
	}

	// ---- Merge: three evaluation orders against the component-wise sums
	ident := make([]int, n)
	for i := range ident {
		ident[i] = i
	}
	foldLeft := func(order []int) *tax.Total {
		r := ops[order[0]]
		for _, i := range order[1:] {
			r = r.Merge(ops[i])
		}
		return r
	}
	r1 := foldLeft(ident)
	if !expect("merge", fmt.Sprintf("left fold in order %v", ident), want, r1) {
		return
	}
	r2 := foldLeft(c.Perm)
	if !expect("merge", fmt.Sprintf("left fold in order %v", c.Perm), want, r2) {
		return
	}
	r3 := ops[n-1]
	for i := n - 2; i >= 0; i-- {
		r3 = ops[i].Merge(r3)
	}
	if !expect("merge", "right-nested merge t0.Merge(t1.Merge(...))", want, r3) {
		return
	}
	if !unchanged("merge-alters-operand", "Merge") {
		return
	}
	// ---- Negate, double negation, zero law, Clone
	negs := make([]*tax.Total, n)
	zeros := make([]*tax.Total, n)
	clones := make([]*tax.Total, n)
	for i, t := range ops {
		ng := t.Negate()
		negs[i] = ng
		if !expect("negate", fmt.Sprintf("operand %d negated", i), aggs[i].mapAmounts(negDec), ng) {
			return
		}
		if got, w := amtDec(ng.PreciseSum()), negDec(amtDec(t.PreciseSum())); !sameValue(got, w) {
			o.Failf("negate:precise-sum", "operand %d negated: PreciseSum() = %s, expected %s", i, got, w)
			return
		}
		for j, ct := range ng.Categories {
			if j < len(t.Categories) {
				if got, w := amtDec(ct.PreciseAmount()), negDec(amtDec(t.Categories[j].PreciseAmount())); !sameValue(got, w) {
					o.Failf("negate:precise-amount", "operand %d negated: category %s PreciseAmount() = %s, expected %s", i, ct.Code, got, w)
					return
				}
			}
		}
		if !expect("negate-twice", fmt.Sprintf("operand %d negated twice", i), aggs[i], ng.Negate()) {
			return
		}
		z := t.Merge(ng)
		zeros[i] = z
		if !expect("zero", fmt.Sprintf("operand %d merged with its negation", i), aggs[i].mapAmounts(zeroOf), z) {
			return
		}
		if got := amtDec(z.PreciseSum()); got.Units.Sign() != 0 {
			o.Failf("zero:precise-sum", "operand %d merged with its negation: PreciseSum() = %s", i, got)
			return
		}
		cl := t.Clone()
		clones[i] = cl
		if !expect("clone", fmt.Sprintf("operand %d cloned", i), aggs[i], cl) {
			return
		}
		if s := snap(cl); s != snaps[i] {
			o.Failf("clone:differs", "operand %d: clone differs from the original: %s vs %s", i, s.js, snaps[i].js)
			return
		}
	}
	// negation distributes over the merge
	if !expect("negate", "merged summary negated", want.mapAmounts(negDec), r1.Negate()) {
		return
	}
	if !unchanged("negate-alters-operand", "Negate / Merge with negation / Clone") {
		return
	}

	// ---- aliasing: later changes to a result must not reach the operands
	sentinel := num.MakeAmount(777777, uint32(exp))
	for _, t := range clones {
		scribble(t, sentinel)
	}
	if !unchanged("alias-clone", "overwriting the amounts of a Clone()") {
		return
	}
	for _, t := range []*tax.Total{r1, r3} {
		scribble(t, sentinel)
	}
	for _, t := range zeros {
		scribble(t, sentinel)
	}
	if !unchanged("alias-merge", "overwriting the amounts of a Merge() result") {
		return
	}
	for _, t := range negs {
		scribble(t, sentinel)
	}
	if !unchanged("alias-negate", "overwriting the amounts of a Negate() result") {
		return
	}
	// the realistic mutation: recalculating a result
	r2.Calculate(cur, tax.RoundingRulePrecise)
	for i := 0; i+1 < n; i++ {
		ops[i].Merge(ops[i+1]).Calculate(cur, tax.RoundingRulePrecise)
		ops[i].Negate().Calculate(cur, tax.RoundingRuleCurrency)
		ops[i].Clone().Calculate(cur, tax.RoundingRulePrecise)
	}
	if !unchanged("alias-recalculate", "recalculating a Merge() / Negate() / Clone() result") {
		return
	}
	o.Note("merged %d operands: %s", n, mustJSON(foldLeft(ident)))
}

func classifyTotals(c Case, aggs []*aTot, o *vh.Obs) {
	n := len(aggs)
	o.Class(fmt.Sprintf("operands=%d", n))
	vias := map[string]bool{}
	for _, op := range c.Ops {
		if op.Via == "calc" {
			vias["calc"] = true
		} else {
			vias["json"] = true
		}
	}
	switch {
	case len(vias) == 2:
		o.Class("via:mixed")
	case vias["calc"]:
		o.Class("via:calculator")
	default:
		o.Class("via:json")
	}
	sharedGroup, sharedCat, surDiffers, surBoth, retained, exempt, ext, country, empty := false, false, false, false, false, false, false, false, false
	for i, a := range aggs {
		if len(a.cats) == 0 {
			empty = true
		}
		for code, ac := range a.cats {
			if ac.retained {
				retained = true
			}
			for k := range ac.rows {
				parts := strings.Split(k, "|")
				if parts[0] != "" {
					country = true
				}
				if parts[1] != "" {
					ext = true
				}
				if parts[2] == "exempt" {
					exempt = true
				}
			}
			for j := i + 1; j < n; j++ {
				bc := aggs[j].cats[code]
				if bc == nil {
					continue
				}
				sharedCat = true
				if (ac.sur == nil) != (bc.sur == nil) {
					surDiffers = true
				}
				if ac.sur != nil && bc.sur != nil {
					surBoth = true
				}
				for k := range ac.rows {
					if bc.rows[k] != nil {
						sharedGroup = true
					}
				}
			}
		}
	}
	if sharedGroup {
		o.Class("shared-group")
	}
	if sharedCat && !sharedGroup {
		o.Class("shared-category-only")
	}
	if surDiffers {
		o.Class("surcharge:one-side")
	}
	if surBoth {
		o.Class("surcharge:both-sides")
	}
	if !surDiffers && !surBoth {
		o.Class("surcharge:none-shared")
	}
	if retained {
		o.Class("retained")
	}
	if exempt {
		o.Class("exempt-group")
	}
	if ext {
		o.Class("ext")
	}
	if country {
		o.Class("country")
	}
	if empty {
		o.Class("empty-operand")
	}
	if c.Currency != "EUR" {
		o.Class("precision:" + c.Currency)
	}
	if (sharedGroup && surDiffers) || retained {
		o.NonTrivial()
	}
}

// ---------------------------------------------------------------------------
// generator for the "totals" check

// menuEntry is a tax combination of the ES regime; pct / sur are what a keyed
// entry resolves to on 2024-06-01 (used when the summary is written by hand).
type menuEntry struct {
	c   Combo
	pct string // "" = exempt
	sur string
}

func ent(cat, rate, pct, sur string) menuEntry {
	e := menuEntry{c: Combo{Cat: cat, Rate: rate}, pct: pct, sur: sur}
	if rate == "" {
		e.c.Percent, e.c.Surcharge = pct, sur
	}
	return e
}

func (e menuEntry) with(country string, ext map[string]string) menuEntry {
	e.c.Country = country
	e.c.Ext = ext
	return e
}

var menu = map[string][]menuEntry{
	"VAT": {
		ent("VAT", "standard", "21.0%", ""),
		ent("VAT", "standard+eqs", "21.0%", "5.2%"),
		ent("VAT", "reduced", "10.0%", ""),
		ent("VAT", "reduced+eqs", "10.0%", "1.4%"),
		ent("VAT", "super-reduced", "4.0%", ""),
		ent("VAT", "super-reduced+eqs", "4.0%", "0.5%"),
		ent("VAT", "zero", "0.0%", ""),
		ent("VAT", "exempt", "", ""),
		ent("VAT", "", "21.0%", ""),
		ent("VAT", "", "21%", ""),
		ent("VAT", "", "21.0%", "5.2%"),
		ent("VAT", "", "21.0%", "1.4%"),
		ent("VAT", "", "18.0%", "4.0%"),
		ent("VAT", "", "33.33%", ""),
		ent("VAT", "exempt", "", "").with("", map[string]string{"es-tbai-exemption": "E1"}),
		ent("VAT", "exempt", "", "").with("", map[string]string{"es-tbai-exemption": "E2"}),
		ent("VAT", "", "21.0%", "").with("", map[string]string{"es-tbai-product": "services"}),
		ent("VAT", "", "21.0%", "5.2%").with("", map[string]string{"es-tbai-product": "services"}),
		// nested extension sets at one percentage: a set and a superset of it are different groups
		ent("VAT", "", "21.0%", "").with("", map[string]string{"es-tbai-product": "services", "es-tbai-exemption": "E1"}),
		ent("VAT", "", "21.0%", "").with("", map[string]string{"es-tbai-product": "goods"}),
		ent("VAT", "exempt", "", "").with("", map[string]string{"es-tbai-exemption": "E1", "es-tbai-product": "services"}),
		ent("VAT", "", "21.0%", "5.2%").with("", map[string]string{"es-tbai-product": "services", "es-tbai-exemption": "E2"}),
		// percentages written with different precision that round to each other: different groups
		ent("VAT", "", "8%", ""),
		ent("VAT", "", "8.1%", ""),
		ent("VAT", "", "8.14%", ""),
		ent("VAT", "", "21.4%", ""),
		ent("VAT", "", "8%", "5%"),
		ent("VAT", "", "8%", "5.2%"),
		ent("VAT", "", "23.0%", "").with("PT", nil),
		ent("VAT", "", "21.0%", "").with("PT", nil),
		ent("VAT", "", "20.0%", "").with("FR", nil),
		ent("VAT", "", "21.0%", "5.2%").with("PT", nil),
	},
	"IGIC": {
		ent("IGIC", "standard", "7.0%", ""),
		ent("IGIC", "reduced", "3.0%", ""),
		ent("IGIC", "zero", "0.0%", ""),
		ent("IGIC", "", "7.0%", ""),
		ent("IGIC", "", "9.5%", ""),
	},
	"IPSI": {
		ent("IPSI", "", "4.0%", ""),
		ent("IPSI", "", "10.0%", ""),
		ent("IPSI", "", "0.5%", ""),
		ent("IPSI", "", "", ""), // no rate, no percent: exempt
	},
	"IRPF": {
		ent("IRPF", "pro", "15.0%", ""),
		ent("IRPF", "pro-start", "7.0%", ""),
		ent("IRPF", "capital", "19.0%", ""),
		ent("IRPF", "modules", "1.0%", ""),
		ent("IRPF", "", "15.0%", ""),
		ent("IRPF", "", "7.0%", ""),
		ent("IRPF", "", "15.0%", "1.0%"),
	},
}

var catOrder = []string{"VAT", "IRPF", "IGIC", "IPSI"}

func pow10(e int) int64 { return ratref.Pow10(e).Int64() }

// genUnits draws a non-negative unit count with at most digits digits.
func genUnits(t *rapid.T, label string, digits int) int64 {
	if digits < 1 {
		digits = 1
	}
	switch m := rapid.IntRange(0, 9).Draw(t, label+"_mode"); {
	case m == 0:
		return 0
	case m <= 3:
		return int64(rapid.IntRange(1, 999).Draw(t, label+"_small"))
	case m <= 5 && digits >= 2:
		return rapid.Int64Range(0, pow10(digits-1)-1).Draw(t, label+"_head")*10 + 5
	default:
		return rapid.Int64Range(1, pow10(digits)-1).Draw(t, label)
	}
}

func genSigned(t *rapid.T, label string, digits, negPct int) int64 {
	v := genUnits(t, label, digits)
	if rapid.IntRange(0, 99).Draw(t, label+"_neg") < negPct {
		v = -v
	}
	return v
}

func fmtUnits(v int64, exp int) string { return ratref.FormatUnits(big.NewInt(v), exp) }

type palette map[string][]menuEntry

// genPalette narrows the menu so that operands of one case often meet in the
// same groups and often differ only in the surcharge.
func genPalette(t *rapid.T) palette {
	p := palette{}
	for _, cat := range catOrder {
		all := menu[cat]
		k := rapid.IntRange(1, 4).Draw(t, "pal_"+cat)
		idx := rapid.Permutation(indices(len(all))).Draw(t, "pal_"+cat+"_pick")
		for _, i := range idx[:min(k, len(all))] {
			p[cat] = append(p[cat], all[i])
		}
	}
	if rapid.Bool().Draw(t, "pal_eqs") {
		// a surcharge-bearing and a plain VAT group
		pairs := [][2]int{{0, 1}, {2, 3}, {4, 5}, {8, 10}, {0, 10}, {16, 17}, {19, 21}}
		pr := rapid.SampledFrom(pairs).Draw(t, "pal_pair")
		p["VAT"] = append([]menuEntry{menu["VAT"][pr[0]], menu["VAT"][pr[1]]}, p["VAT"]...)
	}
	return p
}

func indices(n int) []int {
	out := make([]int, n)
	for i := range out {
		out[i] = i
	}
	return out
}

func genCats(t *rapid.T, label string) []string {
	var out []string
	probs := map[string]int{"VAT": 75, "IRPF": 40, "IGIC": 25, "IPSI": 25}
	for _, cat := range catOrder {
		if rapid.IntRange(0, 99).Draw(t, label+"_"+cat) < probs[cat] {
			out = append(out, cat)
		}
	}
	return out
}

func genCalcOperand(t *rapid.T, label string, pal palette, exp int) Operand {
	op := Operand{
		Via:      rapid.SampledFrom([]string{"calc", "calc", "calc-json"}).Draw(t, label+"_via"),
		Rounding: rapid.SampledFrom([]string{"precise", "precise", "currency"}).Draw(t, label+"_rounding"),
		Date:     rapid.SampledFrom([]string{"2024-06-01", "2024-06-01", "2024-06-01", "2011-03-01"}).Draw(t, label+"_date"),
	}
	nl := rapid.SampledFrom([]int{1, 2, 1, 3, 2, 0, 4, 5, 3}).Draw(t, label+"_lines")
	for i := 0; i < nl; i++ {
		ll := fmt.Sprintf("%s_l%d", label, i)
		le := rapid.IntRange(0, exp+2).Draw(t, ll+"_exp")
		l := Line{Total: fmtUnits(genSigned(t, ll+"_total", 6+le, 15), le)}
		for _, cat := range genCats(t, ll) {
			e := rapid.SampledFrom(pal[cat]).Draw(t, ll+"_"+cat)
			l.Taxes = append(l.Taxes, e.c)
		}
		op.Lines = append(op.Lines, l)
	}
	return op
}

// genSummaryJSON writes a summary by hand. minimal leaves out every calculated
// figure (what a payment line's document needs at least).
func genSummaryJSON(t *rapid.T, label string, pal palette, exp int, minimal bool) string {
	arbitrary := rapid.IntRange(0, 4).Draw(t, label+"_arbitrary") == 0
	var tot mTotal
	sum := big.NewInt(0)
	for _, cat := range genCats(t, label) {
		mc := mCat{Code: cat, Retained: cat == "IRPF", Rates: []mRate{}}
		seen := map[string]bool{}
		catAmt, catSur := big.NewInt(0), big.NewInt(0)
		hasSur := false
		k := rapid.IntRange(1, 3).Draw(t, label+"_"+cat+"_rows")
		for j := 0; j < k; j++ {
			rl := fmt.Sprintf("%s_%s_r%d", label, cat, j)
			e := rapid.SampledFrom(pal[cat]).Draw(t, rl)
			r := mRate{Key: e.c.Rate, Country: e.c.Country, Ext: e.c.Ext}
			if e.pct != "" {
				p := e.pct
				r.Percent = &p
				if e.sur != "" {
					r.Surcharge = &mSur{Percent: e.sur}
				}
			}
			gk, err := groupKey(r)
			if err != nil {
				panic(err)
			}
			if seen[gk] {
				continue
			}
			seen[gk] = true
			base := genSigned(t, rl+"_base", 6+exp, 15)
			r.Base = fmtUnits(base, exp)
			amount, surAmt := int64(0), int64(0)
			if r.Percent != nil {
				if arbitrary {
					amount = genSigned(t, rl+"_amount", 5+exp, 15)
				} else {
					amount = pctOf(base, e.pct)
				}
				if r.Surcharge != nil {
					hasSur = true
					if arbitrary {
						surAmt = genSigned(t, rl+"_sur", 4+exp, 15)
					} else {
						surAmt = pctOf(base, e.sur)
					}
					if !minimal {
						r.Surcharge.Amount = fmtUnits(surAmt, exp)
					}
				}
			}
			if !minimal {
				r.Amount = fmtUnits(amount, exp)
			}
			catAmt.Add(catAmt, big.NewInt(amount))
			catSur.Add(catSur, big.NewInt(surAmt))
			mc.Rates = append(mc.Rates, r)
		}
		if !minimal {
			mc.Amount = ratref.FormatUnits(catAmt, exp)
			if hasSur {
				s := ratref.FormatUnits(catSur, exp)
				mc.Surcharge = &s
			}
		}
		if mc.Retained {
			sum.Sub(sum, catAmt)
			sum.Sub(sum, catSur)
		} else {
			sum.Add(sum, catAmt)
			sum.Add(sum, catSur)
		}
		tot.Categories = append(tot.Categories, mc)
	}
	if !minimal {
		tot.Sum = ratref.FormatUnits(sum, exp)
	}
	return string(mustJSON(tot))
}

// pctOf is base * pct rounded half away from zero at the base's precision.
func pctOf(base int64, pct string) int64 {
	p, err := parsePct(pct)
	if err != nil {
		panic(err)
	}
	return ratref.RoundDiv(new(big.Int).Mul(big.NewInt(base), p.Units), ratref.Pow10(p.Exp)).Int64()
}

func genCase(t *rapid.T) Case {
	c := Case{Currency: rapid.SampledFrom([]string{"EUR", "EUR", "EUR", "EUR", "JPY", "KWD"}).Draw(t, "currency")}
	exp := map[string]int{"EUR": 2, "JPY": 0, "KWD": 3}[c.Currency]
	pal := genPalette(t)
	n := rapid.SampledFrom([]int{2, 2, 2, 3, 3, 4, 5, 6}).Draw(t, "operands")
	for i := 0; i < n; i++ {
		label := fmt.Sprintf("op%d", i)
		if rapid.IntRange(0, 2).Draw(t, label+"_free") == 0 {
			oe := exp
			if rapid.IntRange(0, 3).Draw(t, label+"_other_precision") == 0 {
				oe = rapid.SampledFrom([]int{0, 2, 3}).Draw(t, label+"_precision")
			}
			c.Ops = append(c.Ops, Operand{Via: "free", JSON: genSummaryJSON(t, label, pal, oe, false)})
		} else {
			c.Ops = append(c.Ops, genCalcOperand(t, label, pal, exp))
		}
	}
	c.Perm = rapid.Permutation(indices(n)).Draw(t, "perm")
	if n == 2 {
		c.Perm = []int{1, 0}
	}
	return c
}

// ---------------------------------------------------------------------------
// payments

// Rate is one declared exchange rate.
type Rate struct {
	From   string `json:"from"`
	To     string `json:"to"`
	Amount string `json:"amount"`
}

// PayLine is one payment line.
type PayLine struct {
	Currency    string `json:"currency,omitempty"`
	Debit       string `json:"debit,omitempty"`
	Credit      string `json:"credit,omitempty"`
	Doc         bool   `json:"document"`
	DocCurrency string `json:"document_currency,omitempty"`
	Tax         string `json:"tax,omitempty"` // the document's tax summary as JSON text
}

// PayCase is one payment document.
type PayCase struct {
	Regime   string    `json:"regime"`
	Currency string    `json:"currency,omitempty"`
	Rates    []Rate    `json:"exchange_rates,omitempty"`
	Lines    []PayLine `json:"lines"`
}

func (c PayCase) document() []byte {
	doc := map[string]any{
		"$schema":    "https://gobl.org/draft-0/bill/payment",
		"$regime":    c.Regime,
		"uuid":       "0194ad4c-3462-7695-a40c-66a30ccc1405",
		"type":       "receipt",
		"method":     map[string]any{"key": "credit-transfer"},
		"series":     "RCT",
		"code":       "0001",
		"issue_date": "2025-01-28",
		"supplier": map[string]any{
			"name":   "Provide One S.L.",
			"tax_id": map[string]any{"country": "ES", "code": "B98602642"},
		},
		"customer": map[string]any{
			"name":   "Sample Consumer",
			"tax_id": map[string]any{"country": "ES", "code": "54387763P"},
		},
	}
	if c.Currency != "" {
		doc["currency"] = c.Currency
	}
	if len(c.Rates) > 0 {
		doc["exchange_rates"] = c.Rates
	}
	var lines []any
	for i, l := range c.Lines {
		m := map[string]any{}
		if l.Currency != "" {
			m["currency"] = l.Currency
		}
		if l.Debit != "" {
			m["debit"] = l.Debit
		}
		if l.Credit != "" {
			m["credit"] = l.Credit
		}
		if l.Doc {
			d := map[string]any{"code": fmt.Sprintf("%03d", i+1), "series": "SAMPLE", "issue_date": "2025-01-10"}
			if l.DocCurrency != "" {
				d["currency"] = l.DocCurrency
			}
			if l.Tax != "" {
				d["tax"] = json.RawMessage(l.Tax)
			}
			m["document"] = d
		}
		lines = append(lines, m)
	}
	doc["lines"] = lines
	return mustJSON(doc)
}

type outLine struct {
	Index    int    `json:"i"`
	Total    string `json:"total"`
	Document *struct {
		Tax *mTotal `json:"tax"`
	} `json:"document"`
}

type outPayment struct {
	Currency string    `json:"currency"`
	Lines    []outLine `json:"lines"`
	Tax      *mTotal   `json:"tax"`
	Total    string    `json:"total"`
}

// conversions gives the result of converting x with rate r into a currency of
// pexp decimals: amount times rate ("how much is 1 of the from currency worth
// in the to currency"), rounded once, half away from zero, to the destination
// precision. twice reports whether rounding first to the amount's own (finer)
// decimals and then again would have given something else - the class in
// which an intermediate rounding shows.
func conversions(x, r dec, pexp int) (vals []dec, twice bool) {
	prod := new(big.Rat).Mul(x.Rat(), r.Rat())
	single := dec{Units: ratref.RoundRat(prod, pexp), Exp: pexp}
	vals = append(vals, single)
	if x.Exp > pexp {
		step := dec{Units: ratref.RoundRat(prod, x.Exp), Exp: x.Exp}.Rescale(pexp)
		twice = !eqDec(step, single)
	}
	return vals, twice
}

var limit52 = new(big.Int).Lsh(big.NewInt(1), 52)

func dedupe(ds []dec) []dec {
	seen := map[string]bool{}
	out := ds[:0]
	for _, d := range ds {
		k := d.String()
		if !seen[k] {
			seen[k] = true
			out = append(out, d)
		}
	}
	return out
}

func judgePayment(c PayCase, o *vh.Obs) {
	if len(c.Lines) < 1 || len(c.Lines) > 8 {
		o.Discard()
		return
	}
	regimeCur := map[string]string{"ES": "EUR", "EL": "EUR", "MX": "MXN"}[c.Regime]
	if regimeCur == "" {
		o.Discard()
		return
	}
	pcur := c.Currency
	if pcur == "" {
		pcur = regimeCur
	}
	pexp, ok := curExp(pcur)
	if !ok {
		o.Discard()
		return
	}
	// declared rates, first match wins; duplicates are outside the generated domain
	rates := map[string]dec{}
	for _, r := range c.Rates {
		k := r.From + ">" + r.To
		if _, dup := rates[k]; dup {
			o.Discard()
			return
		}
		d, err := parseDec(r.Amount)
		if err != nil || d.Units.Sign() <= 0 {
			o.Discard()
			return
		}
		rates[k] = d
	}

	// ---- the oracle's line totals
	type lineWant struct {
		cands []dec // acceptable exact values of the line total
	}
	wants := make([]lineWant, len(c.Lines))
	converted, convUp, convDown, twiceAny, excess, both := false, false, false, false, false, false
	for i, l := range c.Lines {
		if l.Debit == "" && l.Credit == "" {
			o.Discard() // "must have either debit or credit"
			return
		}
		if l.Debit != "" && l.Credit != "" {
			both = true
		}
		conv := func(s string) ([]dec, bool) {
			x, err := parseDec(s)
			if err != nil {
				return nil, false
			}
			if l.Currency == "" || l.Currency == pcur {
				if x.Exp > pexp {
					excess = true
				}
				return []dec{x}, true
			}
			r, ok := rates[l.Currency+">"+pcur]
			if !ok {
				return nil, false
			}
			// stay inside the exact domain of the decimal arithmetic (C05)
			xs := x
			if xs.Exp < pexp {
				xs = xs.Rescale(pexp)
			}
			if new(big.Int).Abs(new(big.Int).Mul(xs.Units, r.Units)).Cmp(limit52) >= 0 {
				return nil, false
			}
			converted = true
			if x.Exp < pexp {
				convUp = true
			}
			if x.Exp > pexp {
				convDown = true
			}
			vals, twice := conversions(x, r, pexp)
			if twice {
				twiceAny = true
			}
			return vals, true
		}
		ds := []dec{zeroDec(pexp)}
		cs := []dec{zeroDec(pexp)}
		if l.Debit != "" {
			if ds, ok = conv(l.Debit); !ok {
				o.Discard()
				return
			}
		}
		if l.Credit != "" {
			if cs, ok = conv(l.Credit); !ok {
				o.Discard()
				return
			}
		}
		for _, d := range ds {
			for _, cr := range cs {
				wants[i].cands = append(wants[i].cands, addDec(zeroDec(pexp), addDec(d, negDec(cr))))
			}
		}
	}

	// ---- run gobl
	obj := new(schema.Object)
	if err := json.Unmarshal(c.document(), obj); err != nil {
		o.Failf("payment:parse-error", "generated payment rejected by the parser: %v", err)
		return
	}
	if err := obj.Calculate(); err != nil {
		o.Failf("payment:calculate-error", "Calculate: %v", err)
		return
	}
	outJSON, err := json.Marshal(obj)
	if err != nil {
		o.Failf("payment:marshal-error", "%v", err)
		return
	}
	var out outPayment
	if err := json.Unmarshal(outJSON, &out); err != nil {
		o.Failf("payment:unreadable", "%v", err)
		return
	}
	if out.Currency != pcur {
		o.Failf("payment:currency", "payment currency %q, expected %q", out.Currency, pcur)
		return
	}
	if len(out.Lines) != len(c.Lines) {
		o.Failf("payment:lines", "%d lines out, %d in", len(out.Lines), len(c.Lines))
		return
	}

	// accepts reports whether got presents one of the exact candidate values:
	// exactly (with at least the currency's decimals), or rounded half away
	// from zero to the currency's decimals.
	accepts := func(got dec, cands []dec) bool {
		if got.Exp < pexp {
			return false
		}
		for _, w := range cands {
			if sameValue(got, w) {
				return true
			}
			if got.Exp == pexp && eqDec(got, w.Rescale(pexp)) {
				return true
			}
		}
		return false
	}

	sumCands := []dec{zeroDec(pexp)}
	var operands []mTotal
	for i, ol := range out.Lines {
		got, err := parseDec(ol.Total)
		if err != nil {
			o.Failf("payment:unreadable", "line %d total %q: %v", i, ol.Total, err)
			return
		}
		if !accepts(got, wants[i].cands) {
			l := c.Lines[i]
			sig := "line-total:same-currency"
			if l.Currency != "" && l.Currency != pcur {
				sig = "line-total:conversion"
				for _, s := range []string{l.Debit, l.Credit} {
					if s == "" {
						continue
					}
					if x, _ := parseDec(s); x.Exp < pexp {
						sig = "line-total:conversion-of-amount-with-fewer-decimals"
					}
				}
			} else if excess {
				sig = "line-total:excess-precision"
			}
			rate := "none"
			if r, ok := rates[l.Currency+">"+pcur]; ok {
				rate = r.String()
			}
			o.Failf(sig, "line %d: debit %q credit %q in %q, rate into %s %s -> total %s %s, debit - credit gives %v",
				i, l.Debit, l.Credit, l.Currency, pcur, rate, ol.Total, pcur, wants[i].cands)
			return
		}
		// candidates for the grand total: every combination of exact line values
		var next []dec
		for _, s := range sumCands {
			for _, w := range wants[i].cands {
				next = append(next, addDec(s, w))
			}
		}
		sumCands = dedupe(next)
		if ol.Document != nil && ol.Document.Tax != nil {
			operands = append(operands, *ol.Document.Tax)
		}
	}
	gotTotal, err := parseDec(out.Total)
	if err != nil {
		o.Failf("payment:unreadable", "total %q: %v", out.Total, err)
		return
	}
	if !accepts(gotTotal, sumCands) {
		// also accept the sum of the presented line totals
		lineSum := zeroDec(pexp)
		for _, ol := range out.Lines {
			d, _ := parseDec(ol.Total)
			lineSum = addDec(lineSum, d)
		}
		if !accepts(gotTotal, []dec{lineSum}) {
			sig := "payment-total:sum"
			if excess {
				sig = "payment-total:excess-precision"
			}
			o.Failf(sig, "payment total %s, lines add to %s (exact %v)", out.Total, lineSum, sumCands[0])
			return
		}
	}

	// ---- tax summary: merge of the lines' (recalculated) document summaries
	retained, sharedGroup, surDiffers := false, false, false
	if len(operands) == 0 {
		if out.Tax != nil {
			o.Failf("payment-tax:spurious", "payment carries a tax summary although no line document has one: %s", mustJSON(out.Tax))
			return
		}
		o.Class("no-tax")
	} else {
		o.Class("with-tax")
		if out.Tax == nil {
			o.Failf("payment-tax:missing", "%d line documents carry tax summaries, the payment has none", len(operands))
			return
		}
		var aggs []*aTot
		mixedPrecision := false
		for _, m := range operands {
			a, err := aggregate(m)
			if err != nil {
				o.Failf("payment:unreadable", "line document summary: %v", err)
				return
			}
			if a.minE != pexp || a.maxE != pexp {
				mixedPrecision = true
			}
			aggs = append(aggs, a)
		}
		if mixedPrecision {
			o.Class("mixed-precision-summaries")
		} else {
			want, err := aggregate(operands...)
			if err != nil {
				o.Failf("payment:unreadable", "%v", err)
				return
			}
			got, err := aggregate(*out.Tax)
			if err != nil {
				o.Failf("payment:unreadable", "payment summary: %v", err)
				return
			}
			if comp, detail := diff(want, got); comp != "" {
				o.Failf("payment-tax:"+comp, "payment tax summary is not the merge of its %d line summaries: %s; payment %s", len(operands), detail, outJSON)
				return
			}
		}
		for i, a := range aggs {
			for code, ac := range a.cats {
				if ac.retained {
					retained = true
				}
				for j := i + 1; j < len(aggs); j++ {
					bc := aggs[j].cats[code]
					if bc == nil {
						continue
					}
					if (ac.sur == nil) != (bc.sur == nil) {
						surDiffers = true
					}
					for k := range ac.rows {
						if bc.rows[k] != nil {
							sharedGroup = true
						}
					}
				}
			}
		}
		if len(operands) > 1 {
			o.Class("tax-merged")
		}
	}
	o.Class(fmt.Sprintf("lines=%d", len(c.Lines)))
	if converted {
		o.Class("converted")
	}
	if convUp {
		o.Class("converted:fewer-decimals")
	}
	if convDown {
		o.Class("converted:more-decimals")
	}
	if twiceAny {
		o.Class("converted:double-rounding-differs")
	}
	if excess {
		o.Class("excess-precision")
	}
	if both {
		o.Class("debit-and-credit")
	}
	if retained {
		o.Class("retained")
	}
	if sharedGroup {
		o.Class("shared-group")
	}
	if surDiffers {
		o.Class("surcharge:one-side")
	}
	if converted || retained || (sharedGroup && surDiffers) {
		o.NonTrivial()
	}
	o.Note("total %s %s, tax %s", out.Total, pcur, mustJSON(out.Tax))
}

var payCurrencies = []string{"EUR", "USD", "GBP", "JPY", "CLP", "KWD", "BHD", "MXN"}

func genAmountText(t *rapid.T, label string, curExp int) string {
	// decimals: the currency's (most), fewer ("100"), or more (rare)
	e := curExp
	switch m := rapid.IntRange(0, 19).Draw(t, label+"_decimals"); {
	case m < 5 && curExp > 0:
		e = rapid.IntRange(0, curExp-1).Draw(t, label+"_fewer")
	case m == 5:
		e = curExp + rapid.IntRange(1, 2).Draw(t, label+"_more")
	}
	return fmtUnits(genSigned(t, label, 6+e, 6), e)
}

func genRateAmount(t *rapid.T, label string) string {
	e := rapid.IntRange(2, 6).Draw(t, label+"_exp")
	return fmtUnits(rapid.Int64Range(1, 1_999_999).Draw(t, label), e)
}

func genPayment(t *rapid.T) PayCase {
	c := PayCase{Regime: rapid.SampledFrom([]string{"ES", "ES", "ES", "EL"}).Draw(t, "regime")}
	c.Currency = rapid.SampledFrom([]string{"", "", "EUR", "USD", "JPY", "KWD", "MXN"}).Draw(t, "currency")
	pcur := c.Currency
	if pcur == "" {
		pcur = "EUR"
	}
	pexp := map[string]int{"EUR": 2, "USD": 2, "GBP": 2, "JPY": 0, "CLP": 0, "KWD": 3, "BHD": 3, "MXN": 2}
	pal := genPalette(t)
	n := rapid.IntRange(1, 8).Draw(t, "lines")
	multi := rapid.IntRange(0, 9).Draw(t, "multi_currency") < 6
	need := map[string]bool{}
	for i := 0; i < n; i++ {
		ll := fmt.Sprintf("l%d", i)
		l := PayLine{}
		lcur := pcur
		if multi {
			switch rapid.IntRange(0, 3).Draw(t, ll+"_cur") {
			case 0:
				l.Currency = pcur
			case 1, 2:
				l.Currency = rapid.SampledFrom(payCurrencies).Draw(t, ll+"_currency")
				lcur = l.Currency
			}
		}
		if lcur != pcur {
			need[lcur] = true
		}
		switch rapid.IntRange(0, 5).Draw(t, ll+"_kind") {
		case 0:
			l.Credit = genAmountText(t, ll+"_credit", pexp[lcur])
		case 1, 2:
			l.Debit = genAmountText(t, ll+"_debit", pexp[lcur])
			l.Credit = genAmountText(t, ll+"_credit", pexp[lcur])
		default:
			l.Debit = genAmountText(t, ll+"_debit", pexp[lcur])
		}
		if rapid.IntRange(0, 9).Draw(t, ll+"_doc") < 8 {
			l.Doc = true
			if rapid.IntRange(0, 9).Draw(t, ll+"_tax") < 7 {
				minimal := rapid.Bool().Draw(t, ll+"_minimal")
				l.Tax = genSummaryJSON(t, ll+"_tax", pal, pexp[pcur], minimal)
			}
			if rapid.IntRange(0, 19).Draw(t, ll+"_doccur") == 0 {
				// another currency of the same precision
				for _, alt := range payCurrencies {
					if alt != pcur && pexp[alt] == pexp[pcur] {
						l.DocCurrency = alt
						break
					}
				}
			}
		}
		c.Lines = append(c.Lines, l)
	}
	// the needed rates, often their reverse, and unrelated pairs, in drawn order
	pairs := map[string]bool{}
	add := func(from, to, label string) {
		if from == to || pairs[from+">"+to] {
			return
		}
		pairs[from+">"+to] = true
		c.Rates = append(c.Rates, Rate{From: from, To: to, Amount: genRateAmount(t, label)})
	}
	for _, cur := range payCurrencies {
		if !need[cur] {
			continue
		}
		add(cur, pcur, "rate_"+cur)
		if rapid.IntRange(0, 9).Draw(t, "reverse_"+cur) < 7 {
			add(pcur, cur, "rate_rev_"+cur)
		}
	}
	if pcur != "EUR" {
		add(pcur, "EUR", "rate_regime")
	}
	for i, k := 0, rapid.IntRange(0, 3).Draw(t, "extra_rates"); i < k; i++ {
		add(rapid.SampledFrom(payCurrencies).Draw(t, fmt.Sprintf("xf%d", i)), rapid.SampledFrom(payCurrencies).Draw(t, fmt.Sprintf("xt%d", i)), fmt.Sprintf("xr%d", i))
	}
	if len(c.Rates) > 1 {
		order := rapid.Permutation(indices(len(c.Rates))).Draw(t, "rate_order")
		shuffled := make([]Rate, len(c.Rates))
		for i, j := range order {
			shuffled[i] = c.Rates[j]
		}
		c.Rates = shuffled
	}
	return c
}

func init() {
	vh.Describe(
		"totals: 2-6 tax.Total operands at one currency precision (EUR 2, JPY 0, KWD 3 decimals), each built by the real TotalCalculator (ES regime on 2024-06-01 or 2011-03-01, precise or currency rounding, 0-5 lines with amounts of either sign and 0-4 extra decimals, combinations drawn from VAT / IGIC / IPSI and the retained IRPF: keyed, keyed with equivalence surcharge, explicit percent with and without surcharge, exempt, with extensions, with a country override), by a JSON round trip of such a total, or written by hand as JSON (amounts consistent or arbitrary); a per-case palette makes operands meet in the same groups and differ in surcharges. Checked against a component-wise model in exact decimals keyed by (category, country, ext, percent-or-exempt, surcharge %): Merge in the given order, a permuted order and right-nested; Negate, double negation, t.Merge(t.Negate()) all zero, Clone; operands (JSON, PreciseSum, PreciseAmount) unchanged after every call, after overwriting every amount of every result, and after recalculating results. "+
			"payments: bill.Payment JSON documents (ES / EL regime, payment currency EUR / USD / JPY / KWD / MXN) with 1-8 lines, debit and/or credit written with the currency's decimals, fewer, or (rarely) more, line currencies different from the payment currency with declared exchange rates (plus reverse and unrelated rates in drawn order), documents with full, minimal or no tax summaries; calculated through schema.Object.Calculate and read back from the output JSON. Oracle: line total = debit x rate - credit x rate at the payment currency's decimals, total = sum of lines, tax = component-wise merge of the lines' document summaries as they appear in the output. "+
			"Non-trivial: two operands (line summaries) share at least one rate group and differ in whether a shared category carries a surcharge, or a retained category is present, or a line amount is converted between currencies.",
		"currency decimals are read from the published data/currency/iso.json",
		"a currency conversion is amount x rate (rate = value of 1 unit of the line currency in the payment currency) rounded once, half away from zero, to the payment currency's decimals; cases in which rounding first to the amount's own finer decimals would give another result are counted as converted:double-rounding-differs",
		"a line or payment total may be presented exactly or rounded half away from zero to the payment currency's decimals",
		"operands of different currency precision are not generated (the receiver's precision would win); products beyond 2^52 units are discarded (C05 domain)",
		"row order and the key label of a merged group are free (any operand's label is accepted); percent pointers and extension maps shared between a result and its operands are not written through",
		"the payment tax summary is compared with the line summaries of the same output, so recalculation of a line summary itself (C02/C04) is not judged here",
		"PreciseSum() / PreciseAmount() are judged on operands (unchanged), on negations and on t.Merge(t.Negate()); those of other merged summaries are not (nothing in the JSON shows them, and a zero precise figure is indistinguishable from an unset one)",
	)
	vh.Rapid("totals", 30_000, 2_400_000, genCase, judgeTotals)
	vh.Rapid("payments", 30_000, 1_600_000, genPayment, judgePayment)
}
