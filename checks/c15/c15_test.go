// Package c15 decides property C15: concurrent use is race-free and
// result-equivalent, and bulk replies pair up with their requests. The test
// binary is built with -race by the driver.
package c15

import (
	"bytes"
	"context"
	"encoding/json"
	"fmt"
	"hash/fnv"
	"os"
	"path/filepath"
	"reflect"
	"regexp"
	"runtime"
	"sort"
	"strings"
	"sync"
	"testing"
	"time"

	"github.com/invopop/gobl"
	"github.com/invopop/gobl/bill"
	"github.com/invopop/gobl/cbc"
	"github.com/invopop/gobl/currency"
	"github.com/invopop/gobl/dsig"
	"github.com/invopop/gobl/head"
	"github.com/invopop/gobl/internal/cli"
	"github.com/invopop/gobl/schema"
	"github.com/invopop/gobl/tax"
	"github.com/invopop/gobl/verifharness/internal/corpus"
	"github.com/invopop/gobl/verifharness/internal/goblexec"
	"github.com/invopop/gobl/verifharness/internal/jsontree"
	"github.com/invopop/gobl/verifharness/internal/pubschema"
	"github.com/invopop/gobl/verifharness/internal/vh"
	"pgregory.net/rapid"
)

func TestMain(m *testing.M) { vh.Main(m, "C15") }

func TestAll(t *testing.T) { vh.RunAll(t) }

var signKey = dsig.NewES256Key()

// ---------------------------------------------------------------------------
// read-only monitor: a deep fingerprint of every registered definition,
// including the spare capacity of slices (an append into a shared backing
// array does not change len, only what lies between len and cap).

type fp struct {
	h       interface{ Write([]byte) (int, error) }
	visited map[uintptr]bool
}

func (f *fp) str(s string) { _, _ = f.h.Write([]byte(s)); _, _ = f.h.Write([]byte{0}) }

func (f *fp) walk(v reflect.Value, depth int) {
	if depth > 60 {
		return
	}
	switch v.Kind() {
	case reflect.Ptr:
		if v.IsNil() {
			f.str("nil")
			return
		}
		if f.visited[v.Pointer()] {
			f.str("seen")
			return
		}
		f.visited[v.Pointer()] = true
		f.walk(v.Elem(), depth+1)
	case reflect.Interface:
		if v.IsNil() {
			f.str("nil")
			return
		}
		f.walk(v.Elem(), depth+1)
	case reflect.Struct:
		f.str(v.Type().String())
		for i := 0; i < v.NumField(); i++ {
			f.walk(v.Field(i), depth+1)
		}
	case reflect.Slice:
		if v.IsNil() {
			f.str("nilslice")
			return
		}
		f.str(fmt.Sprintf("len=%d", v.Len()))
		full := v.Slice(0, v.Cap()) // up to the capacity
		for i := 0; i < full.Len(); i++ {
			f.walk(full.Index(i), depth+1)
		}
	case reflect.Array:
		for i := 0; i < v.Len(); i++ {
			f.walk(v.Index(i), depth+1)
		}
	case reflect.Map:
		if v.IsNil() {
			f.str("nilmap")
			return
		}
		keys := v.MapKeys()
		sort.Slice(keys, func(i, j int) bool { return fmt.Sprint(keys[i]) < fmt.Sprint(keys[j]) })
		for _, k := range keys {
			f.str(fmt.Sprint(k))
			f.walk(v.MapIndex(k), depth+1)
		}
	case reflect.String:
		f.str(v.String())
	case reflect.Bool:
		f.str(fmt.Sprint(v.Bool()))
	case reflect.Int, reflect.Int8, reflect.Int16, reflect.Int32, reflect.Int64:
		f.str(fmt.Sprint(v.Int()))
	case reflect.Uint, reflect.Uint8, reflect.Uint16, reflect.Uint32, reflect.Uint64, reflect.Uintptr:
		f.str(fmt.Sprint(v.Uint()))
	case reflect.Float32, reflect.Float64:
		f.str(fmt.Sprint(v.Float()))
	case reflect.Func, reflect.Chan, reflect.UnsafePointer:
		// not data
	}
}

// snapshot fingerprints each registered definition separately.
func snapshot() map[string]uint64 {
	out := map[string]uint64{}
	one := func(name string, v any) {
		h := fnv.New64a()
		f := &fp{h: h, visited: map[uintptr]bool{}}
		f.walk(reflect.ValueOf(v), 0)
		out[name] = h.Sum64()
	}
	for _, r := range tax.AllRegimeDefs() {
		one("regime:"+r.Country.String(), r)
	}
	for _, a := range tax.AllAddonDefs() {
		one("addon:"+a.Key.String(), a)
	}
	for _, c := range tax.AllCatalogueDefs() {
		one("catalogue:"+c.Key.String(), c)
	}
	// extension definitions are reachable through the regimes, addons and catalogues that declare them
	one("currencies", currency.Definitions())
	return out
}

// ---------------------------------------------------------------------------
// documents: every example, plus cross pairs (a regime's invoice listing
// another regime's addon) - validation may refuse them, but refusing is also
// an operation that must not write to shared definitions

type docSrc struct {
	name string
	json []byte
}

var (
	srcOnce sync.Once
	sources []docSrc
)

func loadSources() {
	srcOnce.Do(func() {
		var addons []string
		for _, a := range tax.AllAddonDefs() {
			addons = append(addons, a.Key.String())
		}
		sort.Strings(addons)
		// legacy shapes run through the migration code, twice each so that
		// goroutines meet on them
		for _, d := range corpus.Legacy() {
			sources = append(sources, docSrc{name: d.Path, json: d.JSON})
		}
		// one all-members document per published object type (definitions with
		// patterns among them): types no example covers, first seen concurrently
		// by the cold start
		ps := pubschema.MustLoad()
		for i, id := range ps.IDs {
			root, ok := ps.Root(id)
			if !ok || ps.Kind(root) != "object" {
				continue
			}
			doc, _ := ps.AllMembers(root, 3).(map[string]any)
			if doc == nil {
				continue
			}
			doc["$schema"] = id
			if _, has := doc["pattern"]; has {
				doc["pattern"] = fmt.Sprintf("^[A-Z]{1,%d}$", i+1)
			}
			if raw, err := json.Marshal(doc); err == nil {
				sources = append(sources, docSrc{name: "type:" + pubschema.ShortID(id), json: raw})
			}
		}
		// a document larger than any buffer an entry point reads its input with
		// (about 400 lines, well over 64 KB): built from the first Spanish invoice
		for _, d := range corpus.MustLoad() {
			if d.IsEnv || d.ShortSch != "bill/invoice" || d.Regime != "ES" && !strings.Contains(d.Path, "/es/") {
				continue
			}
			tree, err := jsontree.Decode(d.JSON)
			if err != nil {
				continue
			}
			lines, ok := jsontree.Get(tree, "/lines")
			arr, isArr := lines.([]any)
			if !ok || !isArr || len(arr) == 0 {
				continue
			}
			var many []any
			for i := 0; i < 400; i++ {
				many = append(many, jsontree.Clone(arr[i%len(arr)]))
			}
			if t2, err := jsontree.Set(tree, "/lines", many); err == nil {
				big := jsontree.Encode(t2)
				if len(big) > 70_000 {
					// kept apart from the pool the random workloads draw from (it is
					// slow to handle): used by large_inputs only
					largeSources = append(largeSources, docSrc{name: d.Path + "+400-lines", json: big})
					break
				}
			}
		}
		seenRegime := map[string]bool{}
		for _, d := range corpus.MustLoad() {
			if d.IsEnv {
				continue
			}
			sources = append(sources, docSrc{name: d.Path, json: d.JSON})
			if d.ShortSch != "bill/invoice" {
				continue
			}
			tree, err := jsontree.Decode(d.JSON)
			if err != nil {
				continue
			}
			reg := d.Regime
			if reg == "" {
				if sup, ok := jsontree.Get(tree, "/supplier/tax_id/country"); ok {
					reg, _ = sup.(string)
				}
			}
			if seenRegime[reg] {
				continue
			}
			seenRegime[reg] = true
			// numbers that are not integral (coordinates of the supplier's address):
			// their canonical form, and so the digest, takes a path no example uses
			if _, ok := jsontree.Get(tree, "/supplier/addresses/0"); ok {
				n := len(seenRegime)
				coords := map[string]any{"lat": json.Number(fmt.Sprintf("40.41%02d", n)), "lon": json.Number(fmt.Sprintf("-3.70%02d", n))}
				if t2, err := jsontree.Set(tree, "/supplier/addresses/0/coords", coords); err == nil {
					sources = append(sources, docSrc{name: d.Path + "+coords", json: jsontree.Encode(t2)})
				}
			}
			for _, a := range addons {
				t2, err := jsontree.Set(tree, "/$addons", []any{a})
				if err != nil {
					continue
				}
				sources = append(sources, docSrc{name: d.Path + "+" + a, json: jsontree.Encode(t2)})
			}
		}
	})
}

var ops = []string{"parse", "calculate", "validate", "sign+verify", "correct", "correct-stamped", "replicate", "options-schema"}

var sharedCorrectOpts = func() []schema.Option {
	s := make([]schema.Option, 0, 6)
	return append(s, bill.Credit, bill.WithReason("r"))
}()

var volatileRe = regexp.MustCompile(`"(uuid|dig|issue_date|value_date|op_date|sigs|val)":("[^"]*"|\{[^}]*\}|\[[^\]]*\])`)

func stable(b []byte) string { return volatileRe.ReplaceAllString(string(b), `"$1":"*"`) }

// runTask executes one operation on a fresh envelope and returns a stable text of its outcome.
func runTask(src docSrc, op string) string {
	obj := new(schema.Object)
	if err := json.Unmarshal(src.json, obj); err != nil {
		return "parse-error: " + err.Error()
	}
	if op == "parse" {
		out, err := json.Marshal(obj)
		if err != nil {
			return "marshal-error: " + err.Error()
		}
		return stable(out)
	}
	env, err := gobl.Envelop(obj)
	if err != nil {
		return "envelop-error: " + stable([]byte(err.Error()))
	}
	switch op {
	case "calculate":
		out, _ := json.Marshal(env)
		return stable(out)
	case "validate":
		if err := env.Validate(); err != nil {
			return "invalid: " + err.Error()
		}
		return "valid"
	case "sign+verify":
		if err := env.Sign(signKey); err != nil {
			return "sign-error: " + err.Error()
		}
		if err := env.Verify(signKey.Public()); err != nil {
			return "verify-error: " + err.Error()
		}
		return "signed+verified"
	case "correct-stamped":
		// a signed and stamped envelope corrected with option values that every
		// goroutine shares (a slice with spare capacity, as append leaves them)
		if err := env.Sign(signKey); err != nil {
			return "sign-error: " + err.Error()
		}
		env.Head.AddStamp(&head.Stamp{Provider: cbc.Key("verif-stamp"), Value: src.name})
		ne, err := env.Correct(sharedCorrectOpts...)
		for i, sp := range sharedCorrectOpts[:cap(sharedCorrectOpts)][len(sharedCorrectOpts):] {
			if sp != nil {
				return fmt.Sprintf("shared-options-written: Envelope.Correct wrote to slot %d of the spare capacity of the caller's option slice", len(sharedCorrectOpts)+i)
			}
		}
		if err != nil {
			return "correct-error: " + stable([]byte(err.Error()))
		}
		out, _ := json.Marshal(ne)
		return stable(out)
	case "correct":
		ne, err := env.Correct(bill.Credit, bill.WithReason("r"))
		if err != nil {
			return "correct-error: " + stable([]byte(err.Error()))
		}
		out, _ := json.Marshal(ne)
		return stable(out)
	case "replicate":
		ne, err := env.Replicate()
		if err != nil {
			return "replicate-error: " + stable([]byte(err.Error()))
		}
		out, _ := json.Marshal(ne)
		return stable(out)
	case "options-schema":
		s, err := env.CorrectionOptionsSchema()
		if err != nil {
			return "schema-error: " + err.Error()
		}
		out, _ := json.Marshal(s)
		return string(out)
	}
	return "?"
}

// Plan is a concurrent workload.
type Plan struct {
	Tasks      []Task `json:"tasks"`
	Goroutines int    `json:"goroutines"`
	MaxProcs   int    `json:"gomaxprocs"`
	Yield      int    `json:"yield_every"` // call Gosched after every n-th task (0: never)
}

// Task is one operation on one document.
type Task struct {
	Doc string `json:"doc"`
	Op  string `json:"op"`
}

var largeSources []docSrc

func srcByName(n string) *docSrc {
	loadSources()
	for i := range sources {
		if sources[i].name == n {
			return &sources[i]
		}
	}
	for i := range largeSources {
		if largeSources[i].name == n {
			return &largeSources[i]
		}
	}
	return nil
}

func raceLogs() string {
	dir := os.Getenv("VERIF_RACE_LOG")
	if dir == "" {
		return ""
	}
	files, _ := filepath.Glob(dir + "*")
	var sb strings.Builder
	for _, f := range files {
		data, err := os.ReadFile(f)
		if err == nil && len(data) > 0 {
			sb.Write(data)
			_ = os.Remove(f)
		}
	}
	return sb.String()
}

var raceFnRe = regexp.MustCompile(`(?m)^  (github\.com/invopop/gobl[^\s(]*)\(\)`)

func raceSite(report string) string {
	for _, m := range raceFnRe.FindAllStringSubmatch(report, -1) {
		if !strings.Contains(m[1], "verifharness") {
			return strings.TrimPrefix(m[1], "github.com/invopop/gobl/")
		}
	}
	return "unknown"
}

func judgePlan(p Plan, o *vh.Obs) {
	if len(p.Tasks) == 0 || p.Goroutines < 1 {
		o.Discard()
		return
	}
	var srcs []*docSrc
	for _, t := range p.Tasks {
		s := srcByName(t.Doc)
		if s == nil {
			o.Discard()
			return
		}
		srcs = append(srcs, s)
	}
	before := snapshot()
	// sequential baseline
	want := make([]string, len(p.Tasks))
	for i, t := range p.Tasks {
		want[i] = runTask(*srcs[i], t.Op)
	}
	mid := snapshot()
	for name, h := range before {
		if mid[name] != h {
			o.Failf("shared-definition-written:"+name, "running %d operations sequentially changed the registered definition %s (including the spare capacity of its slices)", len(p.Tasks), name)
			return
		}
	}
	// concurrent run
	old := runtime.GOMAXPROCS(p.MaxProcs)
	defer runtime.GOMAXPROCS(old)
	got := make([]string, len(p.Tasks))
	var wg sync.WaitGroup
	start := make(chan struct{})
	for g := 0; g < p.Goroutines; g++ {
		wg.Add(1)
		go func(g int) {
			defer wg.Done()
			<-start
			n := 0
			for i := g; i < len(p.Tasks); i += p.Goroutines {
				got[i] = runTask(*srcs[i], p.Tasks[i].Op)
				n++
				if p.Yield > 0 && n%p.Yield == 0 {
					runtime.Gosched()
				}
			}
		}(g)
	}
	close(start)
	wg.Wait()
	if p.Goroutines >= 2 {
		o.NonTrivial()
	}
	o.Class(fmt.Sprintf("gomaxprocs-%d", p.MaxProcs))
	for i := range want {
		if got[i] != want[i] {
			o.Failf("result-differs:"+p.Tasks[i].Op, "task %d (%s on %s) gives a different result concurrently than sequentially: %.300s vs %.300s", i, p.Tasks[i].Op, p.Tasks[i].Doc, got[i], want[i])
			return
		}
	}
	after := snapshot()
	for name, h := range before {
		if after[name] != h {
			o.Failf("shared-definition-written:"+name, "the concurrent workload changed the registered definition %s", name)
			return
		}
	}
	if rep := raceLogs(); rep != "" {
		o.Failf("race:"+raceSite(rep), "the race detector reported:\n%.1500s", rep)
		return
	}
	cross := 0
	for _, t := range p.Tasks {
		if strings.Contains(t.Doc, "+") {
			cross++
		}
	}
	if cross > 0 {
		o.Class("cross-regime-addon")
	}
	o.Note("%d tasks on %d goroutines, GOMAXPROCS %d, %d cross pairs", len(p.Tasks), p.Goroutines, p.MaxProcs, cross)
}

func genPlan(t *rapid.T) Plan {
	loadSources()
	p := Plan{
		Goroutines: rapid.SampledFrom([]int{2, 4, 8, 16}).Draw(t, "goroutines"),
		MaxProcs:   rapid.SampledFrom([]int{1, 2, 4, 16}).Draw(t, "gomaxprocs"),
		Yield:      rapid.SampledFrom([]int{0, 1, 3}).Draw(t, "yield"),
	}
	n := rapid.IntRange(8, 60).Draw(t, "ntasks")
	// a handful of documents used many times, so that goroutines meet on the same definitions
	k := rapid.IntRange(1, 6).Draw(t, "ndocs")
	var pool []string
	for i := 0; i < k; i++ {
		pool = append(pool, sources[rapid.IntRange(0, len(sources)-1).Draw(t, "doc")].name)
	}
	for i := 0; i < n; i++ {
		p.Tasks = append(p.Tasks, Task{Doc: rapid.SampledFrom(pool).Draw(t, "task_doc"), Op: rapid.SampledFrom(ops).Draw(t, "task_op")})
	}
	return p
}

// every document x every operation once, in 16 goroutines: the monitor sees
// every definition write the examples can trigger
func enumSweep(yield func(Plan) bool) {
	loadSources()
	cfg := vh.Cfg()
	const chunk = 24
	idx := 0
	for i := 0; i < len(sources); i += chunk {
		idx++
		if idx%cfg.Shards != cfg.Shard {
			continue
		}
		p := Plan{Goroutines: 8, MaxProcs: 8, Yield: 1}
		for j := i; j < i+chunk && j < len(sources); j++ {
			for _, op := range []string{"calculate", "validate", "correct", "options-schema"} {
				p.Tasks = append(p.Tasks, Task{Doc: sources[j].name, Op: op})
			}
		}
		if !yield(p) {
			return
		}
	}
}

// ---------------------------------------------------------------------------
// bulk streams

// BulkCase is a request stream.
type BulkCase struct {
	Reqs   []BulkReq `json:"requests"`
	Broken string    `json:"broken,omitempty"` // text appended after the last request
	HTTP   bool      `json:"http"`
}

// BulkReq is one request.
type BulkReq struct {
	Action string `json:"action"`
	ReqID  string `json:"req_id"`
	Doc    string `json:"doc,omitempty"`
	Sleep  string `json:"sleep,omitempty"`
	Raw    string `json:"raw,omitempty"` // raw payload text for malformed payloads
	// Key selects the key of sign / verify requests: 0 none (the stream's
	// default private key; no public key), 1 the default key, 2 another key
	Key int `json:"key,omitempty"`
	// Built sends the calculated envelope of the example instead of its source
	Built bool `json:"built,omitempty"`
	// Template (build, sign): the source is sent as the request's template and
	// the data only sets the alias of one party ("supplier" or "customer") to a
	// text of its own: requests of one stream share the template text
	Template string `json:"template,omitempty"`
}

var builtEnv = map[string][]byte{}

// builtOf gives the calculated (unsigned) envelope of the example.
func builtOf(name string) []byte {
	signedMu.Lock()
	defer signedMu.Unlock()
	if b, ok := builtEnv[name]; ok {
		return b
	}
	var out []byte
	if s := srcByName(name); s != nil {
		if env, err := corpus.EnvelopeOf(s.json, false); err == nil {
			out, _ = json.Marshal(env)
		}
	}
	builtEnv[name] = out
	return out
}

var otherKey = dsig.NewES256Key()

var (
	signedMu  sync.Mutex
	signedEnv = map[string][]byte{}
)

// signedOf gives the example built and signed with the default key (made once
// per process: signatures are random, the verdict on them is not).
func signedOf(name string) []byte {
	signedMu.Lock()
	defer signedMu.Unlock()
	if b, ok := signedEnv[name]; ok {
		return b
	}
	var out []byte
	if s := srcByName(name); s != nil {
		if env, err := corpus.EnvelopeOf(s.json, false); err == nil {
			if env.Sign(signKey) == nil {
				out, _ = json.Marshal(env)
			}
		}
	}
	signedEnv[name] = out
	return out
}

func (r BulkReq) payload() json.RawMessage {
	if r.Raw != "" {
		return json.RawMessage(r.Raw)
	}
	switch r.Action {
	case "sleep":
		out, _ := json.Marshal(r.Sleep)
		return out
	case "build", "validate", "replicate":
		data := srcByName(r.Doc).json
		if r.Built {
			data = builtOf(r.Doc)
		}
		if r.Action == "build" && r.Template != "" {
			own, _ := json.Marshal(map[string]any{r.Template: map[string]any{"alias": "alias of " + r.ReqID}})
			out, _ := json.Marshal(map[string]any{"template": data, "data": own})
			return out
		}
		out, _ := json.Marshal(map[string]any{"data": data})
		return out
	case "correct":
		data := srcByName(r.Doc).json
		if r.Built {
			data = builtOf(r.Doc)
		}
		out, _ := json.Marshal(map[string]any{"data": data, "options": []byte(`{"type":"credit-note","reason":"r"}`)})
		return out
	case "sign":
		s := srcByName(r.Doc)
		m := map[string]any{"data": s.json}
		switch r.Key {
		case 1:
			m["privatekey"] = signKey
		case 2:
			m["privatekey"] = otherKey
		}
		out, _ := json.Marshal(m)
		return out
	case "verify":
		m := map[string]any{"data": signedOf(r.Doc)}
		switch r.Key {
		case 1:
			m["publickey"] = signKey.Public()
		case 2:
			m["publickey"] = otherKey.Public()
		}
		out, _ := json.Marshal(m)
		return out
	case "schema":
		return json.RawMessage(`{"path":"bill/invoice"}`)
	case "regime":
		return json.RawMessage(`{"code":"es"}`)
	}
	return nil
}

func (c BulkCase) stream() []byte {
	var sb bytes.Buffer
	for _, r := range c.Reqs {
		m := map[string]any{"action": r.Action, "req_id": r.ReqID}
		if p := r.payload(); p != nil {
			m["payload"] = p
		}
		out, _ := json.Marshal(m)
		sb.Write(out)
		sb.WriteByte('\n')
	}
	sb.WriteString(c.Broken)
	return sb.Bytes()
}

// response mirrors cli.BulkResponse for decoding (its error fields do not unmarshal)
type response struct {
	ReqID   string          `json:"req_id"`
	SeqID   int64           `json:"seq_id"`
	Payload json.RawMessage `json:"payload"`
	Error   json.RawMessage `json:"error"`
	IsFinal bool            `json:"is_final"`
}

func (r *response) failed() bool { return len(r.Error) > 0 && string(r.Error) != "null" }

func toResponse(res *cli.BulkResponse) *response {
	out := &response{ReqID: res.ReqID, SeqID: res.SeqID, Payload: res.Payload, IsFinal: res.IsFinal}
	if res.Error != nil {
		out.Error, _ = json.Marshal(res.Error)
	}
	return out
}

func compact(b []byte) []byte {
	var buf bytes.Buffer
	if err := json.Compact(&buf, b); err != nil {
		return b
	}
	return buf.Bytes()
}

// standalone gives the stable outcome of the request processed on its own.
func standalone(r BulkReq) (payload string, isErr bool) {
	one := BulkCase{Reqs: []BulkReq{r}}
	for res := range cli.Bulk(context.Background(), &cli.BulkOptions{In: bytes.NewReader(one.stream()), DefaultPrivateKey: signKey}) {
		if res.IsFinal {
			continue
		}
		r := toResponse(res)
		if r.failed() {
			return stable(compact(r.Error)), true
		}
		return stable(compact(r.Payload)), false
	}
	return "", true
}

func judgeBulk(c BulkCase, o *vh.Obs) {
	for _, r := range c.Reqs {
		if r.Doc != "" && srcByName(r.Doc) == nil {
			o.Discard()
			return
		}
	}
	var responses []*response
	if c.HTTP && goblexec.Available() {
		o.Class("http")
		srv, err := goblexec.Serve(signKey)
		if err != nil {
			o.Failf("harness:serve", "cannot start gobl serve: %v", err)
			return
		}
		status, out, err := srv.Post("/bulk", c.stream())
		if err != nil || status != 200 {
			o.Failf("bulk:http", "POST /bulk: %v (status %d)", err, status)
			return
		}
		dec := json.NewDecoder(bytes.NewReader(out))
		for dec.More() {
			r := new(response)
			if err := dec.Decode(r); err != nil {
				o.Failf("bulk:http-undecodable", "response stream is not a sequence of JSON objects: %v", err)
				return
			}
			responses = append(responses, r)
		}
	} else {
		ctx, cancel := context.WithTimeout(context.Background(), 60*time.Second)
		defer cancel()
		for res := range cli.Bulk(ctx, &cli.BulkOptions{In: bytes.NewReader(c.stream()), DefaultPrivateKey: signKey}) {
			responses = append(responses, toResponse(res))
		}
	}
	n := len(c.Reqs)
	if len(responses) != n+1 {
		o.Failf("bulk:response-count", "%d requests produced %d responses (expected one each plus the final marker)", n, len(responses))
		return
	}
	last := responses[n]
	if !last.IsFinal || last.SeqID != int64(n+1) {
		o.Failf("bulk:final-marker", "the last response is final=%v seq_id=%d (expected the final marker with seq_id %d)", last.IsFinal, last.SeqID, n+1)
		return
	}
	if (strings.TrimSpace(c.Broken) != "") != last.failed() {
		// a stream ending in garbage reports it on the final marker; a clean stream does not
		o.Failf("bulk:final-error", "final marker error=%s for a stream ending in %q", last.Error, c.Broken)
		return
	}
	seen := map[int64]bool{}
	inverted := false
	var prev int64
	for i, res := range responses[:n] {
		if res.IsFinal {
			o.Failf("bulk:early-final", "response %d is marked final before all requests were answered", i)
			return
		}
		if res.SeqID < 1 || res.SeqID > int64(n) || seen[res.SeqID] {
			o.Failf("bulk:seq-id", "response %d carries seq_id %d (duplicate or out of 1..%d)", i, res.SeqID, n)
			return
		}
		seen[res.SeqID] = true
		if res.SeqID < prev {
			inverted = true
		}
		prev = res.SeqID
		req := c.Reqs[res.SeqID-1]
		if res.ReqID != req.ReqID {
			o.Failf("bulk:req-id", "the response with seq_id %d carries req_id %q, request %d had %q", res.SeqID, res.ReqID, res.SeqID, req.ReqID)
			return
		}
		o.Class(req.Action + "-" + okText(!res.failed()))
		wantPayload, wantErr := standalone(req)
		if wantErr != res.failed() {
			o.Failf("bulk:outcome", "request %d (%s) %s on its own but %s in the stream", res.SeqID, req.Action, okText(!wantErr), okText(!res.failed()))
			return
		}
		got := ""
		if res.failed() {
			got = stable(compact(res.Error))
		} else {
			got = stable(compact(res.Payload))
		}
		if req.Action == "build" && !res.failed() && req.Raw == "" && !req.Built && req.Template == "" {
			// what the library builds from the same source, without any entry point in between
			if lib, ok := libBuild(srcByName(req.Doc)); ok && lib != got {
				o.Failf("bulk:payload-differs-from-library:build", "request %d (build of %s): the payload differs from what the library builds from the same source: %.200s vs %.200s", res.SeqID, req.Doc, got, lib)
				return
			}
		}
		if req.Action != "keygen" && got != wantPayload {
			o.Failf("bulk:payload:"+req.Action, "request %d (%s): payload in the stream differs from the standalone operation: %.200s vs %.200s", res.SeqID, req.Action, got, wantPayload)
			return
		}
	}
	if inverted {
		o.Class("inverted-completion-order")
		o.NonTrivial()
	}
	if n >= 2 {
		o.NonTrivial()
	}
	if rep := raceLogs(); rep != "" {
		o.Failf("race:"+raceSite(rep), "the race detector reported:\n%.1500s", rep)
	}
	o.Note("%d requests, inverted=%v", n, inverted)
}

// libBuild envelops and calculates a source through the library alone.
func libBuild(src *docSrc) (string, bool) {
	if src == nil {
		return "", false
	}
	env, err := corpus.EnvelopeOf(src.json, false)
	if err != nil {
		return "", false
	}
	if env.Validate() != nil {
		return "", false
	}
	// a bare document comes back as a document, an envelope as an envelope
	var out []byte
	if bytes.Contains(src.json[:min(len(src.json), 200)], []byte(`draft-0/envelope"`)) {
		out, err = json.Marshal(env)
	} else {
		out, err = json.Marshal(env.Document)
	}
	if err != nil {
		return "", false
	}
	return stable(compact(out)), true
}

func okText(ok bool) string {
	if ok {
		return "succeeds"
	}
	return "fails"
}

func genBulk(t *rapid.T) BulkCase {
	loadSources()
	c := BulkCase{HTTP: rapid.IntRange(0, 7).Draw(t, "http") == 0}
	n := rapid.IntRange(1, 14).Draw(t, "n")
	actions := []string{"ping", "sleep", "sleep", "build", "validate", "correct", "replicate", "sign", "verify", "verify", "schema", "regime", "schemas", "nope", "malformed", "keygen"}
	for i := 0; i < n; i++ {
		r := BulkReq{Action: rapid.SampledFrom(actions).Draw(t, "action")}
		switch rapid.IntRange(0, 5).Draw(t, "idkind") {
		case 0:
			r.ReqID = ""
		case 1:
			r.ReqID = "dup"
		default:
			r.ReqID = fmt.Sprintf("r%d", i)
		}
		switch r.Action {
		case "sleep":
			r.Sleep = rapid.SampledFrom([]string{"0ms", "1ms", "5ms", "20ms", "40ms", "bogus"}).Draw(t, "sleep")
		case "build", "validate", "correct", "replicate":
			r.Doc = sources[rapid.IntRange(0, len(sources)-1).Draw(t, "doc")].name
			r.Built = r.Action != "build" && rapid.IntRange(0, 3).Draw(t, "built") > 0
			if r.Action == "build" && rapid.IntRange(0, 2).Draw(t, "template") == 0 {
				r.Template = rapid.SampledFrom([]string{"supplier", "customer"}).Draw(t, "tparty")
				// the same few templates come back within a stream
				r.Doc = sources[rapid.IntRange(0, 2).Draw(t, "tdoc")%len(sources)].name
			}
		case "sign", "verify":
			r.Doc = sources[rapid.IntRange(0, len(sources)-1).Draw(t, "doc")].name
			r.Key = rapid.IntRange(0, 2).Draw(t, "key")
		case "malformed":
			r.Action = rapid.SampledFrom([]string{"build", "verify", "sleep", "schema"}).Draw(t, "malaction")
			r.Raw = rapid.SampledFrom([]string{`"x"`, `[]`, `{"data":5}`, `null`, `{"data":"!!"}`}).Draw(t, "raw")
		}
		c.Reqs = append(c.Reqs, r)
	}
	if rapid.IntRange(0, 4).Draw(t, "broken") == 0 {
		c.Broken = rapid.SampledFrom([]string{`{"action":`, `[`, `nonsense`, `{"action":"ping"`}).Draw(t, "brokentext")
	}
	return c
}

func init() {
	vh.OnExit(goblexec.Stop)
	vh.Describe(
		"Workload plans: 8-60 tasks (operation in {parse, calculate, validate, sign+verify, correct, correct of the signed and stamped envelope with option values shared by all goroutines, replicate, options-schema} on a document) over a small pool of documents drawn from every example, legacy variants of the examples (shapes migrated on load), one all-members document per published object type, plus cross pairs (one invoice per regime listing each registered addon), run by 2-16 goroutines behind a start barrier with GOMAXPROCS in {1,2,4,16} and optional yields; plus a sweep running every document x {calculate, validate, correct, options-schema}; plus, for every ordered pair of registered addons (on an example invoice of either addon's home regime and of ES), the sequence probes - pair - probes, where the probes are the base invoice and the invoice with either addon alone (calculate / validate / correct) and the pair is the invoice listing both addons (five operations): the probes must give the same results before and after (state outside the registries: package-level tables, caches). Cold start: a fresh child process of the same -race binary handles every source document for the first time from 8 goroutines at once (calculate / correct / validate / options-schema twice each), with no sequential pass before it - this is when lazily built and migration tables are written; the goroutines must agree and the detector must stay silent (on a failure the document list is halved until it no longer fails). Oracles: (1) the race detector (binary built with -race; reports are read from the detector's log), (2) every task's result equals the sequential baseline (identifiers, digests, dates and signatures masked), (3) a deep fingerprint of every registered regime / addon / catalogue / extension / currency definition - including the spare capacity of slices - is identical before and after. Bulk streams: 1-14 mixed requests (ping, sleep with skewed latencies, build from the source (a third of them with the source as the request's template and data that only sets one party's alias - requests of a stream share template texts), validate / correct / replicate of the source or of the calculated envelope, sign with the default or an explicit private key, verify of a pre-signed envelope with the right, another or no public key, schema, regime, schemas, unknown action, malformed payloads, duplicate and empty req_ids, streams ending in garbage) through cli.Bulk in process and POST /bulk of a -race build of gobl serve: one response per request with its req_id and 1-based seq_id, payload equal to the standalone operation, exactly one final marker, last, with seq_id n+1. Non-trivial: >= 2 goroutines, or >= 2 requests in flight. type_terms: every way of naming every published type (complete identifier, short path, last segment, Go type name with and without package, lower case) is resolved 64 times by cli.FindType and must name the same type each time (a complete identifier itself); a bulk stream of six build requests naming their type that way must be answered exactly like the request on its own. Non-trivial: the term fits several published types. large_inputs: a source of about 400 lines (over 64 KB, more than the entry points read at once) in bulk streams next to small ones and through cli.Build from four goroutines; bulk build payloads are also compared with what the library builds from the same source. shared_context: one invoice per regime validated from as many goroutines under one caller's context that already carries 1-5 validators (RegimeDef.WithContext / AddonDef.WithContext): outcomes equal the sequential ones, no race.",
		"schedule exploration is randomised stress: the race detector can miss a race; the definition fingerprint cannot miss a write the workload triggers",
		"identifiers, digests, dates and signatures are masked when comparing results",
	)
	vh.Custom("cold_start", runCold, func(raw json.RawMessage, o *vh.Obs) {
		var c ColdCase
		if json.Unmarshal(raw, &c) == nil {
			judgeCold(c, o)
		}
	})
	vh.Enum("sweep", enumSweep, judgePlan)
	vh.Enum("order_dependence", enumOrder, judgeOrder)
	vh.Enum("type_terms", enumTerms, judgeTerm)
	vh.Enum("large_inputs", enumLarge, judgeLarge)
	vh.Enum("shared_context", enumContexts, judgeContext)
	vh.Rapid("plans", 60, 2_400, genPlan, judgePlan)
	vh.Rapid("bulk", 120, 6_000, genBulk, judgeBulk)
}
