package c15

// A caller's context that already carries validators (RegimeDef.WithContext,
// AddonDef.WithContext are public) is shared by the goroutines that validate
// independent documents under it. What each validation adds to the context is
// its own: the outcome equals the sequential one and nothing is written to
// memory the contexts share.

import (
	"context"
	"sort"
	"strings"
	"sync"

	"github.com/invopop/gobl"
	"github.com/invopop/gobl/cbc"
	"github.com/invopop/gobl/l10n"
	"github.com/invopop/gobl/tax"
	"github.com/invopop/gobl/verifharness/internal/corpus"
	"github.com/invopop/gobl/verifharness/internal/vh"
)

// ContextCase: how many definitions the shared context carries.
type ContextCase struct {
	Defs int `json:"defs"` // 1..5 validators in the caller's context
}

func enumContexts(yield func(ContextCase) bool) {
	if vh.Cfg().Shard != 0 {
		return
	}
	for n := 1; n <= 5; n++ {
		if !yield(ContextCase{Defs: n}) {
			return
		}
	}
}

func judgeContext(c ContextCase, o *vh.Obs) {
	ctx := context.Background()
	added := 0
	if r := tax.RegimeDefFor(l10n.Code("ES")); r != nil && r.Validator != nil {
		ctx = r.WithContext(ctx)
		added++
	}
	var keys []string
	for _, a := range tax.AllAddonDefs() {
		if a.Validator != nil {
			keys = append(keys, a.Key.String())
		}
	}
	sort.Strings(keys)
	for _, k := range keys {
		if added >= c.Defs {
			break
		}
		ctx = tax.AddonForKey(cbc.Key(k)).WithContext(ctx)
		added++
	}
	if added < c.Defs {
		o.Discard()
		return
	}
	o.NonTrivial()
	// one invoice per regime
	var envs []*gobl.Envelope
	var names []string
	seen := map[string]bool{}
	for _, d := range corpus.MustLoad() {
		if d.IsEnv || d.ShortSch != "bill/invoice" || seen[d.Regime] {
			continue
		}
		env, err := d.Envelope()
		if err != nil {
			continue
		}
		seen[d.Regime] = true
		envs = append(envs, env)
		names = append(names, d.Path)
	}
	text := func(err error) string {
		if err == nil {
			return "ok"
		}
		return err.Error()
	}
	want := make([]string, len(envs))
	for i, e := range envs {
		want[i] = text(e.ValidateWithContext(ctx))
	}
	for round := 0; round < 4; round++ {
		got := make([]string, len(envs))
		var wg sync.WaitGroup
		start := make(chan struct{})
		for i := range envs {
			wg.Add(1)
			go func(i int) {
				defer wg.Done()
				<-start
				got[i] = text(envs[i].ValidateWithContext(ctx))
			}(i)
		}
		close(start)
		wg.Wait()
		for i := range envs {
			if got[i] != want[i] {
				o.Failf("shared-context:result", "%s validated under a shared context carrying %d validators, next to %d other documents: %.200s; on its own: %.200s", names[i], c.Defs, len(envs)-1, got[i], want[i])
				return
			}
		}
	}
	if rep := raceLogs(); rep != "" {
		o.Failf("race:"+raceSite(rep), "validation under a shared context carrying %d validators; the race detector reported:\n%.1500s", c.Defs, rep)
		return
	}
	o.Note("%d validators in the shared context, %d documents (%s ...)", c.Defs, len(envs), strings.Join(names[:1], ""))
}
