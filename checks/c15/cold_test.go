package c15

// Cold start: the first time a process handles a kind of document is when
// lazily built tables, migration tables and caches are written. A fresh child
// process (same -race binary) handles every source document for the first
// time from several goroutines at once, with no sequential pass before it.

import (
	"encoding/json"
	"fmt"
	"os"
	"os/exec"
	"path/filepath"
	"sort"
	"sync"
	"testing"

	"github.com/invopop/gobl/verifharness/internal/vh"
)

// ColdCase is a list of documents handled by one fresh process.
type ColdCase struct {
	Docs       []string `json:"docs"`
	Goroutines int      `json:"goroutines"`
}

// TestChildCold is the child: VERIF_C15_COLD_IN names a ColdCase file.
func TestChildCold(t *testing.T) {
	in := os.Getenv("VERIF_C15_COLD_IN")
	if in == "" {
		t.Skip("helper")
	}
	data, err := os.ReadFile(in)
	if err != nil {
		t.Fatal(err)
	}
	var c ColdCase
	if err := json.Unmarshal(data, &c); err != nil {
		t.Fatal(err)
	}
	out := map[string]string{}
	for _, name := range c.Docs {
		src := srcByName(name)
		if src == nil {
			continue
		}
		res := make([]string, c.Goroutines)
		var wg sync.WaitGroup
		start := make(chan struct{})
		for g := 0; g < c.Goroutines; g++ {
			wg.Add(1)
			go func(g int) {
				defer wg.Done()
				<-start
				res[g] = runTask(*src, []string{"calculate", "correct", "validate", "options-schema"}[g%4])
			}(g)
		}
		close(start)
		wg.Wait()
		// the same operation must agree with itself across goroutines (g and g+4)
		for g := 4; g < c.Goroutines; g++ {
			if res[g] != res[g-4] {
				out[name] = fmt.Sprintf("goroutines %d and %d disagree: %.200s vs %.200s", g-4, g, res[g-4], res[g])
			}
		}
	}
	raw, _ := json.Marshal(out)
	if err := os.WriteFile(os.Getenv("VERIF_C15_COLD_OUT"), raw, 0o644); err != nil {
		t.Fatal(err)
	}
}

// coldChild runs one child; it returns the disagreements and the race report.
func coldChild(c ColdCase) (map[string]string, string, error) {
	dir, err := os.MkdirTemp("", "c15-cold-")
	if err != nil {
		return nil, "", err
	}
	defer os.RemoveAll(dir)
	data, _ := json.Marshal(c)
	inFile, outFile := filepath.Join(dir, "in.json"), filepath.Join(dir, "out.json")
	if err := os.WriteFile(inFile, data, 0o644); err != nil {
		return nil, "", err
	}
	_ = raceLogs() // whatever was there belongs to someone else
	cmd := exec.Command(os.Args[0], "-test.run", "^TestChildCold$")
	cmd.Env = append(os.Environ(), "VERIF_C15_COLD_IN="+inFile, "VERIF_C15_COLD_OUT="+outFile, "VERIF_FUZZ=1")
	if out, err := cmd.CombinedOutput(); err != nil {
		rep := raceLogs()
		if rep != "" {
			return nil, rep, nil
		}
		return nil, "", fmt.Errorf("child failed: %v\n%.2000s", err, out)
	}
	res := map[string]string{}
	if raw, err := os.ReadFile(outFile); err == nil {
		_ = json.Unmarshal(raw, &res)
	}
	return res, raceLogs(), nil
}

func judgeCold(c ColdCase, o *vh.Obs) {
	if len(c.Docs) == 0 {
		o.Discard()
		return
	}
	res, rep, err := coldChild(c)
	if err != nil {
		o.Failf("cold:child-died", "the fresh process did not finish: %v", err)
		return
	}
	names := make([]string, 0, len(res))
	for n := range res {
		names = append(names, n)
	}
	sort.Strings(names)
	if len(names) > 0 {
		o.Failf("cold:result-differs", "first handling of %s in a fresh process: %s", names[0], res[names[0]])
		return
	}
	if rep != "" {
		o.Failf("race:"+raceSite(rep), "first handling of %d documents from %d goroutines in a fresh process; the race detector reported:\n%.1500s", len(c.Docs), c.Goroutines, rep)
		return
	}
	o.NonTrivial()
	o.Note("%d documents, %d goroutines each, fresh process", len(c.Docs), c.Goroutines)
}

func runCold(t *testing.T, r *vh.Runner) {
	loadSources()
	cfg := vh.Cfg()
	r.DistinctByConstruction()
	var mine []string
	for i, s := range sources {
		if i%cfg.Shards == cfg.Shard {
			mine = append(mine, s.name)
		}
	}
	// rotate the order with the seed: what a document finds warm depends on its predecessors
	if n := len(mine); n > 0 {
		k := int(cfg.Seed % uint64(n))
		mine = append(append([]string{}, mine[k:]...), mine[:k]...)
	}
	c := ColdCase{Docs: mine, Goroutines: 8}
	o := &vh.Obs{}
	judgeCold(c, o)
	if o.Failed() {
		// narrow the list down to one half at a time while the failure persists
		for len(c.Docs) > 1 {
			half := len(c.Docs) / 2
			first := ColdCase{Docs: c.Docs[:half], Goroutines: c.Goroutines}
			fo := &vh.Obs{}
			judgeCold(first, fo)
			if fo.Failed() {
				c, o = first, fo
				continue
			}
			second := ColdCase{Docs: c.Docs[half:], Goroutines: c.Goroutines}
			so := &vh.Obs{}
			judgeCold(second, so)
			if so.Failed() {
				c, o = second, so
				continue
			}
			break // needs documents of both halves
		}
	}
	r.Observe(t, c, o)
}
