package c15

// Order dependence through state that is not a registered definition (package
// level tables, caches): the result of an operation on one document must not
// depend on which other documents the process has handled before. Probe
// documents are calculated, a document listing two addons is processed, and
// the probes are calculated again.

import (
	"fmt"
	"sort"
	"strings"

	"github.com/invopop/gobl/tax"
	"github.com/invopop/gobl/verifharness/internal/jsontree"
	"github.com/invopop/gobl/verifharness/internal/vh"
)

// OrderCase names a base invoice and the two addons of the document in the middle.
type OrderCase struct {
	Base string `json:"base"` // source name of an example invoice
	A    string `json:"a"`
	B    string `json:"b"`
}

func withAddons(base *docSrc, addons ...string) (docSrc, bool) {
	tree, err := jsontree.Decode(base.json)
	if err != nil {
		return docSrc{}, false
	}
	list := make([]any, len(addons))
	for i, a := range addons {
		list[i] = a
	}
	t2, err := jsontree.Set(tree, "/$addons", list)
	if err != nil {
		return docSrc{}, false
	}
	return docSrc{name: base.name + "+" + strings.Join(addons, "+"), json: jsontree.Encode(t2)}, true
}

// baseFor: an example invoice of the regime an addon key is named after.
func baseFor(addon string) string {
	loadSources()
	prefix := strings.ToUpper(strings.SplitN(addon, "-", 2)[0])
	if prefix == "GR" {
		prefix = "EL"
	}
	for _, s := range sources {
		if !strings.Contains(s.name, "+") && strings.Contains(s.name, "/"+strings.ToLower(prefix)+"/") && strings.Contains(s.name, "invoice") {
			return s.name
		}
	}
	return ""
}

func enumOrder(yield func(OrderCase) bool) {
	loadSources()
	cfg := vh.Cfg()
	var addons []string
	for _, a := range tax.AllAddonDefs() {
		addons = append(addons, a.Key.String())
	}
	sort.Strings(addons)
	fallback := baseFor("es-x")
	idx := 0
	for _, a := range addons {
		for _, b := range addons {
			if a == b {
				continue
			}
			bases := map[string]bool{}
			for _, x := range []string{baseFor(a), baseFor(b), fallback} {
				if x != "" {
					bases[x] = true
				}
			}
			names := make([]string, 0, len(bases))
			for n := range bases {
				names = append(names, n)
			}
			sort.Strings(names)
			for _, base := range names {
				idx++
				if idx%cfg.Shards != cfg.Shard {
					continue
				}
				if !yield(OrderCase{Base: base, A: a, B: b}) {
					return
				}
			}
		}
	}
}

func judgeOrder(c OrderCase, o *vh.Obs) {
	base := srcByName(c.Base)
	if base == nil {
		o.Discard()
		return
	}
	pa, ok1 := withAddons(base, c.A)
	pb, ok2 := withAddons(base, c.B)
	pair, ok3 := withAddons(base, c.A, c.B)
	if !ok1 || !ok2 || !ok3 {
		o.Discard()
		return
	}
	probes := []docSrc{*base, pa, pb}
	probeOps := []string{"calculate", "validate", "correct"}
	run := func() []string {
		var out []string
		for _, p := range probes {
			for _, op := range probeOps {
				out = append(out, runTask(p, op))
			}
		}
		return out
	}
	before := snapshot()
	first := run()
	mid := []string{}
	for _, op := range []string{"calculate", "validate", "correct", "replicate", "options-schema"} {
		mid = append(mid, runTask(pair, op))
	}
	second := run()
	for i := range first {
		if first[i] != second[i] {
			p, op := probes[i/len(probeOps)], probeOps[i%len(probeOps)]
			o.Failf("order-dependent:"+op, "%s on %s gives a different result after a document with addons [%s, %s] was processed: %.300s vs %.300s", op, p.name, c.A, c.B, second[i], first[i])
			return
		}
	}
	// and the pair itself is repeatable
	for i, op := range []string{"calculate", "validate", "correct", "replicate", "options-schema"} {
		if again := runTask(pair, op); again != mid[i] {
			o.Failf("order-dependent:"+op, "%s on the document with addons [%s, %s] is not repeatable: %.300s vs %.300s", op, c.A, c.B, again, mid[i])
			return
		}
	}
	after := snapshot()
	for name, h := range before {
		if after[name] != h {
			o.Failf("shared-definition-written:"+name, "processing a document with addons [%s, %s] changed the registered definition %s", c.A, c.B, name)
			return
		}
	}
	if rep := raceLogs(); rep != "" {
		o.Failf("race:"+raceSite(rep), "the race detector reported:\n%.1500s", rep)
		return
	}
	if strings.HasPrefix(mid[0], "{") || strings.HasPrefix(mid[0], "[") {
		o.Class("pair-calculates")
	}
	o.NonTrivial()
	o.Note("%s with [%s, %s]", c.Base, c.A, c.B)
	_ = fmt.Sprint
}
