package c15

// A document type may be named by a short term (`"type": "identity"` in a
// bulk build request, --type on the command line). A term that fits several
// published types must still name the same one every time: otherwise the
// payload of a bulk response differs from the output of the same request on
// its own, from run to run.

import (
	"bytes"
	"context"
	"encoding/json"
	"path"
	"sort"
	"strings"

	"github.com/invopop/gobl/internal/cli"
	"github.com/invopop/gobl/schema"
	"github.com/invopop/gobl/verifharness/internal/vh"
)

// TermCase is one way of naming a published type.
type TermCase struct {
	Term string `json:"term"`
	Full string `json:"full,omitempty"` // set when the term is the complete identifier
}

func enumTerms(yield func(TermCase) bool) {
	cfg := vh.Cfg()
	seen := map[string]bool{}
	var terms []TermCase
	add := func(t, full string) {
		if t == "" || seen[t] {
			return
		}
		seen[t] = true
		terms = append(terms, TermCase{Term: t, Full: full})
	}
	for typ, id := range schema.Types() {
		s := string(id)
		add(s, s)
		short := strings.TrimPrefix(s, string(schema.GOBL)+"/")
		short = strings.TrimPrefix(short, "/")
		add(short, "")
		add(path.Base(short), "")
		add(typ.Name(), "")
		add(path.Base(typ.PkgPath())+"."+typ.Name(), "")
		add(strings.ToLower(typ.Name()), "")
	}
	sort.Slice(terms, func(i, j int) bool { return terms[i].Term < terms[j].Term })
	for i, t := range terms {
		if i%cfg.Shards != cfg.Shard {
			continue
		}
		if !yield(t) {
			return
		}
	}
}

func judgeTerm(c TermCase, o *vh.Obs) {
	first := cli.FindType(c.Term)
	if c.Full != "" {
		o.Class("complete-identifier")
		if string(first) != c.Full {
			o.Failf("type-term:identifier-not-itself", "FindType(%q) = %q", c.Term, first)
			return
		}
	} else {
		o.Class("short-term")
	}
	if first == "" {
		o.Class("names-nothing")
	}
	// how many published types the term fits (suffix of the identifier, type name)
	fits := 0
	for typ, id := range schema.Types() {
		if strings.HasSuffix(string(id), "/"+strings.ToLower(c.Term)) || typ.Name() == c.Term || string(id) == c.Term {
			fits++
		}
	}
	if fits > 1 {
		o.Class("fits-several-types")
		o.NonTrivial()
	}
	for i := 0; i < 64; i++ {
		if got := cli.FindType(c.Term); got != first {
			o.Failf("type-term:unstable", "FindType(%q) gave %q and then %q: a bulk request naming its type this way is answered differently from run to run", c.Term, first, got)
			return
		}
	}
	// the same build request six times in one stream, and on its own
	raw, _ := json.Marshal(map[string]any{"data": json.RawMessage(`{}`), "type": c.Term})
	bc := BulkCase{}
	for i := 0; i < 6; i++ {
		bc.Reqs = append(bc.Reqs, BulkReq{Action: "build", ReqID: string(rune('a' + i)), Raw: string(raw)})
	}
	want, _ := standalone(bc.Reqs[0])
	n := 0
	for res := range cli.Bulk(context.Background(), &cli.BulkOptions{In: bytes.NewReader(bc.stream()), DefaultPrivateKey: signKey}) {
		if res.IsFinal {
			continue
		}
		n++
		r := toResponse(res)
		got := stable(compact(r.Payload))
		if r.failed() {
			got = stable(compact(r.Error))
		}
		if got != want {
			o.Failf("type-term:bulk-differs-from-standalone", "build with \"type\": %q answered %.200s in the stream and %.200s on its own", c.Term, got, want)
			return
		}
	}
	if n != 6 {
		o.Failf("bulk:response-count", "6 requests, %d responses", n)
	}
	o.Note("%q -> %q (fits %d)", c.Term, first, fits)
}
