package c15

// Inputs larger than the buffers the entry points read with (the streams of
// the command line, bulk and HTTP are read in chunks by a helper of their
// own): a document of some 400 lines goes through bulk streams next to small
// ones, and through cli.Build from several goroutines; what comes back equals
// what the library builds from the same source.

import (
	"bytes"
	"context"
	"encoding/json"
	"strings"
	"sync"

	"github.com/invopop/gobl/internal/cli"
	"github.com/invopop/gobl/verifharness/internal/vh"
)

// LargeCase is a bulk stream over the large source and a small one.
type LargeCase struct {
	Big   string   `json:"big"`
	Small string   `json:"small"`
	Order []string `json:"order"` // "big:build", "small:validate", ...
	HTTP  bool     `json:"http,omitempty"`
}

func bigSource() string {
	loadSources()
	for _, s := range largeSources {
		return s.name
	}
	return ""
}

func enumLarge(yield func(LargeCase) bool) {
	if vh.Cfg().Shard != 0 {
		return
	}
	big := bigSource()
	if big == "" {
		return
	}
	small := strings.TrimSuffix(big, "+400-lines")
	// two builds from one template, each setting another party's alias
	tmpl := BulkCase{Reqs: []BulkReq{
		{Action: "build", ReqID: "t1", Doc: small, Template: "supplier"},
		{Action: "build", ReqID: "t2", Doc: small, Template: "customer"},
		{Action: "build", ReqID: "t3", Doc: small, Template: "supplier"},
		{Action: "build", ReqID: "t4", Doc: small},
	}}
	templateCases = append(templateCases, tmpl)
	orders := [][]string{
		{"big:build"},
		{"small:build", "big:build", "small:build"},
		{"big:build", "big:build", "big:validate", "small:build"},
		{"big:validate", "small:validate", "big:build", "big:replicate"},
	}
	if !vh.Thorough() {
		orders = orders[1:3]
	}
	for _, ord := range orders {
		if !yield(LargeCase{Big: big, Small: small, Order: ord}) {
			return
		}
	}
}

var templateCases []BulkCase

func judgeLarge(c LargeCase, o *vh.Obs) {
	for _, tc := range templateCases {
		judgeBulk(tc, o)
		if o.Failed() {
			return
		}
	}
	templateCases = nil
	bigSrc, smallSrc := srcByName(c.Big), srcByName(c.Small)
	if bigSrc == nil || smallSrc == nil {
		o.Discard()
		return
	}
	o.NonTrivial()
	o.Class("source-bytes>64K")
	bc := BulkCase{HTTP: c.HTTP}
	for i, step := range c.Order {
		which, action, _ := strings.Cut(step, ":")
		doc := c.Small
		if which == "big" {
			doc = c.Big
		}
		bc.Reqs = append(bc.Reqs, BulkReq{Action: action, ReqID: string(rune('a' + i)), Doc: doc})
	}
	judgeBulk(bc, o)
	if o.Failed() {
		return
	}
	// the same source through cli.Build from four goroutines, against the library
	want, ok := libBuild(bigSrc)
	if !ok {
		o.Failf("harness:large-source-invalid", "the large source does not build through the library")
		return
	}
	var wg sync.WaitGroup
	results := make([]string, 4)
	for i := range results {
		wg.Add(1)
		go func(i int) {
			defer wg.Done()
			defer func() {
				if r := recover(); r != nil {
					results[i] = "panic"
				}
			}()
			out, err := cli.Build(context.Background(), &cli.BuildOptions{ParseOptions: &cli.ParseOptions{Input: bytes.NewReader(bigSrc.json)}})
			if err != nil {
				results[i] = "error: " + err.Error()
				return
			}
			raw, _ := json.Marshal(out)
			results[i] = stable(compact(raw))
		}(i)
	}
	wg.Wait()
	for i, r := range results {
		if r != want {
			o.Failf("large:cli-build-differs-from-library", "cli.Build of the %d byte source (goroutine %d) gives %.160s, the library %.160s", len(bigSrc.json), i, r, want)
			return
		}
	}
	if rep := raceLogs(); rep != "" {
		o.Failf("race:"+raceSite(rep), "the race detector reported:\n%.1500s", rep)
	}
}
