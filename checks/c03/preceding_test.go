package c03

// The tax summaries carried by preceding document references are presented
// figures too: each is recalculated with the reference's own currency (or the
// document's) and must re-add at that currency's precision.

import (
	"encoding/json"
	"fmt"
	"math/big"

	"github.com/invopop/gobl/verifharness/internal/billrun"
	"github.com/invopop/gobl/verifharness/internal/corpus"
	"github.com/invopop/gobl/verifharness/internal/docgen"
	"github.com/invopop/gobl/verifharness/internal/ratref"
	"github.com/invopop/gobl/verifharness/internal/vh"
	"pgregory.net/rapid"
)

type PrecRate struct {
	Base      string `json:"base"`
	Percent   string `json:"percent,omitempty"`
	Surcharge string `json:"surcharge,omitempty"`
}

type PrecCat struct {
	Code     string     `json:"code"`
	Retained bool       `json:"retained,omitempty"`
	Rates    []PrecRate `json:"rates"`
}

type PrecRef struct {
	Currency string    `json:"currency,omitempty"`
	Cats     []PrecCat `json:"cats"`
}

type PrecCase struct {
	Kind     string    `json:"kind"` // invoice | order | delivery
	Currency string    `json:"currency"`
	Rule     string    `json:"rule"`
	Refs     []PrecRef `json:"refs"`
}

func (c PrecCase) doc() []byte {
	var refs []any
	for i, r := range c.Refs {
		var cats []any
		for _, ct := range r.Cats {
			var rates []any
			for _, rt := range ct.Rates {
				m := map[string]any{"base": rt.Base, "amount": "0"}
				if rt.Percent != "" {
					m["percent"] = rt.Percent
				}
				if rt.Surcharge != "" {
					m["surcharge"] = map[string]any{"percent": rt.Surcharge, "amount": "0"}
				}
				rates = append(rates, m)
			}
			cm := map[string]any{"code": ct.Code, "rates": rates, "amount": "0"}
			if ct.Retained {
				cm["retained"] = true
			}
			cats = append(cats, cm)
		}
		ref := map[string]any{"code": fmt.Sprintf("PRE-%d", i+1), "issue_date": "2024-01-15", "tax": map[string]any{"categories": cats, "sum": "0"}}
		if r.Currency != "" {
			ref["currency"] = r.Currency
		}
		refs = append(refs, ref)
	}
	d := map[string]any{
		"$schema":    "https://gobl.org/draft-0/bill/" + c.Kind,
		"$regime":    "ES",
		"uuid":       "0190f3a1-7c2b-7000-8000-000000000001",
		"code":       "X-1",
		"issue_date": "2024-06-13",
		"currency":   c.Currency,
		"supplier":   map[string]any{"name": "Supplier Ltd."},
		"customer":   map[string]any{"name": "Customer Ltd."},
		"lines":      []any{map[string]any{"quantity": "1", "item": map[string]any{"name": "item", "price": "10"}}},
		"preceding":  refs,
	}
	if c.Rule != "" {
		d["tax"] = map[string]any{"rounding": c.Rule}
	}
	out, _ := json.Marshal(d)
	return out
}

func genPrec(t *rapid.T) PrecCase {
	curs := []string{"EUR", "JPY", "KWD", "USD", "CLP"}
	c := PrecCase{
		Kind:     rapid.SampledFrom([]string{"invoice", "invoice", "order", "delivery"}).Draw(t, "kind"),
		Currency: rapid.SampledFrom(curs).Draw(t, "currency"),
		Rule:     rapid.SampledFrom([]string{"currency", "currency", "precise"}).Draw(t, "rule"),
	}
	for i, n := 0, rapid.IntRange(1, 3).Draw(t, "nrefs"); i < n; i++ {
		r := PrecRef{}
		if rapid.IntRange(0, 2).Draw(t, fmt.Sprintf("r%d_hascur", i)) > 0 {
			r.Currency = rapid.SampledFrom(curs).Draw(t, fmt.Sprintf("r%d_cur", i))
		}
		cur := r.Currency
		if cur == "" {
			cur = c.Currency
		}
		e := docgen.CurDecimals(cur)
		for j, m := 0, rapid.IntRange(1, 2).Draw(t, fmt.Sprintf("r%d_ncats", i)); j < m; j++ {
			ct := PrecCat{Code: []string{"VAT", "IRPF"}[j], Retained: j == 1}
			for k, q := 0, rapid.IntRange(1, 3).Draw(t, fmt.Sprintf("r%d_c%d_nrates", i, j)); k < q; k++ {
				label := fmt.Sprintf("r%d_c%d_k%d", i, j, k)
				units := rapid.IntRange(-99999, 9999999).Draw(t, label+"_base")
				// written with the currency's decimals, with fewer (whole numbers, one
				// decimal) or with more: the summary is presented at the currency's
				// precision and its amounts are worked out from the presented bases
				be := e
				switch rapid.IntRange(0, 5).Draw(t, label+"_bexp") {
				case 0:
					be = 0
				case 1:
					be = rapid.IntRange(0, e+2).Draw(t, label+"_bexpv")
				case 2:
					be = e + rapid.IntRange(1, 2).Draw(t, label+"_bfine")
				}
				rt := PrecRate{Base: ratref.NewDec(int64(units), be).String()}
				if rapid.IntRange(0, 5).Draw(t, label+"_exempt") > 0 {
					rt.Percent = rapid.SampledFrom([]string{"21%", "10%", "4%", "19.5%", "7.75%", "0%", "15%", "33.33%"}).Draw(t, label+"_pct")
					if rapid.IntRange(0, 3).Draw(t, label+"_sur") == 0 {
						rt.Surcharge = rapid.SampledFrom([]string{"5.2%", "1.4%", "0.5%"}).Draw(t, label+"_surv")
					}
				}
				ct.Rates = append(ct.Rates, rt)
			}
			r.Cats = append(r.Cats, ct)
		}
		c.Refs = append(c.Refs, r)
	}
	return c
}

func judgePrec(c PrecCase, o *vh.Obs) {
	env, err := corpus.EnvelopeOf(c.doc(), false)
	if err != nil {
		o.Class("calc-error")
		o.Discard()
		return
	}
	raw, err := json.Marshal(env.Document)
	if err != nil {
		o.Discard()
		return
	}
	var doc map[string]any
	if json.Unmarshal(raw, &doc) != nil {
		o.Discard()
		return
	}
	refs, _ := doc["preceding"].([]any)
	if len(refs) != len(c.Refs) {
		o.Failf("preceding:count", "%d references in, %d out", len(c.Refs), len(refs))
		return
	}
	o.Class("rule-" + c.Rule)
	mixed := false
	for i, r := range c.Refs {
		cur := r.Currency
		if cur == "" {
			cur = c.Currency
			if i > 0 && c.Refs[i-1].Currency != "" && c.Refs[i-1].Currency != c.Currency {
				mixed = true
			}
		}
		e := docgen.CurDecimals(cur)
		rm, _ := refs[i].(map[string]any)
		tx, _ := rm["tax"].(map[string]any)
		if tx == nil {
			o.Failf("preceding:tax-lost", "preceding[%d].tax disappeared", i)
			return
		}
		f := map[string]string{}
		billrun.FlattenTaxes(f, "tax", tx)
		fg := figs(f)
		// every figure at the precision of the reference's currency
		if c.Rule == "currency" {
			for path, v := range f {
				if d, err := ratref.ParseDec(v); err == nil && !isPercentPath(path) && d.Exp != e {
					o.Failf("preceding:decimals", "preceding[%d] (%s, %d decimals): %s = %s", i, cur, e, path, v)
					return
				}
			}
		}
		unit := new(big.Rat).SetFrac(big.NewInt(1), ratref.Pow10(e))
		sum := new(big.Rat)
		for ci, ct := range r.Cats {
			cp := fmt.Sprintf("tax.categories[%d]", ci)
			camt, csur := new(big.Rat), new(big.Rat)
			for ri, rt := range ct.Rates {
				rp := fmt.Sprintf("%s.rates[%d]", cp, ri)
				base, ok := fg.dec(rp + ".base")
				if !ok {
					o.Failf("preceding:base-lost", "%s.base missing in preceding[%d]", rp, i)
					return
				}
				want := new(big.Rat)
				if rt.Percent != "" {
					pct, _ := ratref.ParseDec(rt.Percent[:len(rt.Percent)-1])
					want.Mul(base.Rat(), pct.Rat())
					want.Quo(want, big.NewRat(100, 1))
				}
				got := fg.rat(rp + ".amount")
				if c.Rule == "currency" {
					if roundRat(want, e).Cmp(got) != 0 {
						o.Failf("preceding:rate-amount", "preceding[%d] %s: amount %s is not %s of the presented base %s rounded to %d decimals", i, rp, f[rp+".amount"], rt.Percent, f[rp+".base"], e)
						return
					}
				} else if d := new(big.Rat).Sub(want, got); d.Abs(d).Cmp(unit) >= 0 {
					o.Failf("preceding:rate-amount", "preceding[%d] %s: amount %s is a full unit away from %s of %s", i, rp, f[rp+".amount"], rt.Percent, f[rp+".base"])
					return
				}
				camt.Add(camt, got)
				if rt.Surcharge != "" {
					sp, _ := ratref.ParseDec(rt.Surcharge[:len(rt.Surcharge)-1])
					sw := new(big.Rat).Mul(base.Rat(), sp.Rat())
					sw.Quo(sw, big.NewRat(100, 1))
					sg := fg.rat(rp + ".surcharge.amount")
					if c.Rule == "currency" && roundRat(sw, e).Cmp(sg) != 0 {
						o.Failf("preceding:surcharge-amount", "preceding[%d] %s: surcharge %s is not %s of %s", i, rp, f[rp+".surcharge.amount"], rt.Surcharge, f[rp+".base"])
						return
					}
					csur.Add(csur, sg)
				}
			}
			if c.Rule == "currency" {
				if camt.Cmp(fg.rat(cp+".amount")) != 0 {
					o.Failf("preceding:category-amount", "preceding[%d] %s.amount = %s, its rates add up to %s", i, cp, f[cp+".amount"], camt.FloatString(e))
					return
				}
				if has(fg, cp+".surcharge") && csur.Cmp(fg.rat(cp+".surcharge")) != 0 {
					o.Failf("preceding:category-surcharge", "preceding[%d] %s.surcharge = %s, its rates add up to %s", i, cp, f[cp+".surcharge"], csur.FloatString(e))
					return
				}
			}
			tot := new(big.Rat).Add(fg.rat(cp+".amount"), fg.rat(cp+".surcharge"))
			if ct.Retained {
				sum.Sub(sum, tot)
			} else {
				sum.Add(sum, tot)
			}
		}
		if c.Rule == "currency" && sum.Cmp(fg.rat("tax.sum")) != 0 {
			o.Failf("preceding:sum", "preceding[%d].tax.sum = %s, its categories give %s", i, f["tax.sum"], sum.FloatString(e))
			return
		}
	}
	o.NonTrivial()
	if mixed {
		o.Class("own-currency-after-foreign")
	}
	o.Note("%s %s, %d references", c.Kind, c.Currency, len(c.Refs))
}

func isPercentPath(p string) bool {
	return len(p) > 7 && p[len(p)-7:] == "percent"
}

// roundRat rounds half away from zero at e decimals.
func roundRat(x *big.Rat, e int) *big.Rat {
	scaled := new(big.Rat).Mul(x, new(big.Rat).SetInt(ratref.Pow10(e)))
	n := ratref.RoundDiv(scaled.Num(), scaled.Denom())
	return new(big.Rat).SetFrac(n, ratref.Pow10(e))
}
