// Package c03 decides property C03: under the 'currency' rounding rule every
// presented amount can be recomputed exactly from the other presented
// figures. The checker looks at the calculated JSON only.
package c03

import (
	"fmt"
	"math/big"
	"strings"
	"testing"

	"github.com/invopop/gobl/verifharness/internal/billrun"
	"github.com/invopop/gobl/verifharness/internal/docgen"
	"github.com/invopop/gobl/verifharness/internal/ratref"
	"github.com/invopop/gobl/verifharness/internal/refcalc"
	"github.com/invopop/gobl/verifharness/internal/vh"
	"pgregory.net/rapid"
)

func TestMain(m *testing.M) { vh.Main(m, "C03") }

func TestAll(t *testing.T) { vh.RunAll(t) }

type figs map[string]string

func (f figs) dec(path string) (ratref.Dec, bool) {
	s, ok := f[path]
	if !ok {
		return ratref.Dec{}, false
	}
	d, err := ratref.ParseDec(s)
	if err != nil {
		return ratref.Dec{}, false
	}
	return d, true
}

func (f figs) rat(path string) *big.Rat {
	d, ok := f.dec(path)
	if !ok {
		return new(big.Rat)
	}
	return d.Rat()
}

func has(f figs, path string) bool { _, ok := f[path]; return ok }

func judge(p docgen.Plan, o *vh.Obs) {
	out := billrun.Run(p)
	if p.CustomerRates != "" {
		o.Class("customer-rates")
	}
	if out.Err != nil {
		o.Class("calc-error")
		o.Discard()
		return
	}
	if out.Env.Rule != "currency" {
		o.Class("not-currency-rule")
		o.Discard()
		return
	}
	c := out.Env.C
	f := figs(out.Figures)
	// classification only: did any hidden intermediate differ from its presented rounding?
	if ref, err := refcalc.Calculate(p, out.Env, out.Rows); err == nil {
		if ref.Stats.OutOfDomain {
			o.Class("outside-2^52-domain")
			o.Discard()
			return
		}
		if ref.Stats.Roundings > 0 {
			o.NonTrivial()
			o.Class("rounded")
		}
		if ref.Stats.Ties > 0 {
			o.Class("tie")
		}
	}
	if p.PricesInclude != "" {
		o.Class("tax-included")
	}
	if p.Rounding == "" {
		o.Class("regime-default-rule")
	}
	eq := func(sig, what string, got, want *big.Rat) bool {
		if got.Cmp(want) != 0 {
			o.Failf("readd:"+sig, "%s: presented %s, recomputed from the presented figures %s (currency %s/%d)", what, got.FloatString(c+4), want.FloatString(c+4), out.Env.Currency, c)
			return false
		}
		return true
	}
	sumLines := new(big.Rat)
	anyLine := false
	for i := range p.Lines {
		lp := fmt.Sprintf("lines[%d]", i)
		if !has(f, lp+".total") {
			continue
		}
		anyLine = true
		priceDec := 0
		if d, ok := f.dec(lp + ".item.price"); ok {
			priceDec = d.Exp
			if d.Exp > c {
				o.Class("price-finer-than-currency")
			}
		}
		maxDec := c
		if priceDec > maxDec {
			maxDec = priceDec
		}
		want := f.rat(lp + ".sum")
		for j := 0; has(f, fmt.Sprintf("%s.discounts[%d].amount", lp, j)); j++ {
			path := fmt.Sprintf("%s.discounts[%d].amount", lp, j)
			want.Sub(want, f.rat(path))
			if d, _ := f.dec(path); d.Exp > maxDec {
				o.Failf("decimals:line-discount", "%s = %s carries more decimals than the currency (%d) and the item price (%d)", path, f[path], c, priceDec)
				return
			}
		}
		for j := 0; has(f, fmt.Sprintf("%s.charges[%d].amount", lp, j)); j++ {
			path := fmt.Sprintf("%s.charges[%d].amount", lp, j)
			want.Add(want, f.rat(path))
			if d, _ := f.dec(path); d.Exp > maxDec {
				o.Failf("decimals:line-charge", "%s = %s carries more decimals than the currency (%d) and the item price (%d)", path, f[path], c, priceDec)
				return
			}
		}
		if !eq("line-total", lp+".total = sum - discounts + charges", f.rat(lp+".total"), want) {
			return
		}
		for _, k := range []string{".sum", ".total"} {
			if d, _ := f.dec(lp + k); d.Exp > maxDec {
				o.Failf("decimals:line", "%s%s = %s carries more decimals than the currency (%d) and the item price (%d)", lp, k, f[lp+k], c, priceDec)
				return
			}
		}
		sumLines.Add(sumLines, f.rat(lp+".total"))
		// breakdown and substituted rows are lines of their own: the same identity,
		// and no more decimals than the currency, their own price or the line's
		for _, kind := range []string{"breakdown", "substituted"} {
			for j := 0; has(f, fmt.Sprintf("%s.%s[%d].total", lp, kind, j)); j++ {
				sp := fmt.Sprintf("%s.%s[%d]", lp, kind, j)
				o.Class("sub-line")
				subMax := maxDec
				if d, ok := f.dec(sp + ".item.price"); ok && d.Exp > subMax {
					subMax = d.Exp
				}
				sw := f.rat(sp + ".sum")
				for k := 0; has(f, fmt.Sprintf("%s.discounts[%d].amount", sp, k)); k++ {
					path := fmt.Sprintf("%s.discounts[%d].amount", sp, k)
					sw.Sub(sw, f.rat(path))
					if d, _ := f.dec(path); d.Exp > subMax {
						o.Failf("decimals:sub-line-discount", "%s = %s carries more decimals than the currency (%d) and the prices allow (%d)", path, f[path], c, subMax)
						return
					}
				}
				for k := 0; has(f, fmt.Sprintf("%s.charges[%d].amount", sp, k)); k++ {
					path := fmt.Sprintf("%s.charges[%d].amount", sp, k)
					sw.Add(sw, f.rat(path))
					if d, _ := f.dec(path); d.Exp > subMax {
						o.Failf("decimals:sub-line-charge", "%s = %s carries more decimals than the currency (%d) and the prices allow (%d)", path, f[path], c, subMax)
						return
					}
				}
				if !eq("sub-line-total", sp+".total = sum - discounts + charges", f.rat(sp+".total"), sw) {
					return
				}
				for _, k := range []string{".sum", ".total"} {
					if d, _ := f.dec(sp + k); d.Exp > subMax {
						o.Failf("decimals:sub-line", "%s%s = %s carries more decimals than the currency (%d) and the prices allow (%d)", sp, k, f[sp+k], c, subMax)
						return
					}
				}
			}
		}
	}
	if !has(f, "totals.sum") {
		if anyLine {
			o.Failf("readd:no-totals", "lines carry totals but the document has none")
		}
		o.Class("no-totals")
		return
	}
	if !eq("sum", "totals.sum = sum of line totals", f.rat("totals.sum"), sumLines) {
		return
	}
	// document discounts / charges
	for _, kind := range []string{"discount", "charge"} {
		acc := new(big.Rat)
		n := 0
		for i := 0; has(f, fmt.Sprintf("%ss[%d].amount", kind, i)); i++ {
			path := fmt.Sprintf("%ss[%d].amount", kind, i)
			acc.Add(acc, f.rat(path))
			n++
			if d, _ := f.dec(path); d.Exp > c {
				o.Failf("decimals:doc-"+kind, "%s = %s carries more decimals than the currency (%d)", path, f[path], c)
				return
			}
		}
		if n > 0 || has(f, "totals."+kind) {
			if !eq("totals-"+kind, "totals."+kind+" = sum of the document "+kind+"s", f.rat("totals."+kind), acc) {
				return
			}
		}
	}
	total := new(big.Rat).Set(f.rat("totals.sum"))
	total.Sub(total, f.rat("totals.discount"))
	total.Add(total, f.rat("totals.charge"))
	total.Sub(total, f.rat("totals.tax_included"))
	if !eq("total", "totals.total = sum - discount + charge - tax_included", f.rat("totals.total"), total) {
		return
	}
	// taxes
	taxSum := new(big.Rat)
	for ci := 0; has(f, fmt.Sprintf("totals.taxes.categories[%d].code", ci)); ci++ {
		cp := fmt.Sprintf("totals.taxes.categories[%d]", ci)
		catAmt, catSur := new(big.Rat), new(big.Rat)
		anySur := false
		for ri := 0; has(f, fmt.Sprintf("%s.rates[%d].base", cp, ri)); ri++ {
			rp := fmt.Sprintf("%s.rates[%d]", cp, ri)
			base := f.rat(rp + ".base")
			if pc, ok := f[rp+".percent"]; ok {
				pd, err := refcalc.ParsePercent(pc)
				if err != nil {
					o.Failf("readd:percent-text", "%s.percent = %q", rp, pc)
					return
				}
				want := new(big.Rat).SetFrac(ratref.RoundRat(new(big.Rat).Mul(base, pd.Rat()), c), ratref.Pow10(c))
				if !eq("rate-amount", rp+".amount = percent of the presented base, rounded to the currency", f.rat(rp+".amount"), want) {
					return
				}
				if sp, ok := f[rp+".surcharge.percent"]; ok {
					sd, err := refcalc.ParsePercent(sp)
					if err != nil {
						o.Failf("readd:percent-text", "%s.surcharge.percent = %q", rp, sp)
						return
					}
					want := new(big.Rat).SetFrac(ratref.RoundRat(new(big.Rat).Mul(base, sd.Rat()), c), ratref.Pow10(c))
					if !eq("rate-surcharge", rp+".surcharge.amount = surcharge percent of the presented base, rounded", f.rat(rp+".surcharge.amount"), want) {
						return
					}
					catSur.Add(catSur, f.rat(rp+".surcharge.amount"))
					anySur = true
				}
			} else if f.rat(rp+".amount").Sign() != 0 {
				o.Failf("readd:exempt-amount", "%s has no percentage but an amount %s", rp, f[rp+".amount"])
				return
			}
			catAmt.Add(catAmt, f.rat(rp+".amount"))
		}
		if !eq("category-amount", cp+".amount = sum of its rates", f.rat(cp+".amount"), catAmt) {
			return
		}
		if anySur || has(f, cp+".surcharge") {
			if !eq("category-surcharge", cp+".surcharge = sum of its rates' surcharges", f.rat(cp+".surcharge"), catSur) {
				return
			}
		}
		part := new(big.Rat).Add(f.rat(cp+".amount"), f.rat(cp+".surcharge"))
		if f[cp+".retained"] == "true" {
			o.Class("retained")
			taxSum.Sub(taxSum, part)
		} else {
			taxSum.Add(taxSum, part)
		}
	}
	if has(f, "totals.taxes.sum") {
		if !eq("taxes-sum", "totals.taxes.sum = ordinary categories - retained categories", f.rat("totals.taxes.sum"), taxSum) {
			return
		}
	}
	if !eq("tax", "totals.tax = totals.taxes.sum", f.rat("totals.tax"), taxSum) {
		return
	}
	twt := new(big.Rat).Add(f.rat("totals.total"), f.rat("totals.tax"))
	if !eq("total-with-tax", "totals.total_with_tax = total + tax", f.rat("totals.total_with_tax"), twt) {
		return
	}
	pay := new(big.Rat).Add(f.rat("totals.total_with_tax"), f.rat("totals.rounding"))
	if !eq("payable", "totals.payable = total_with_tax + rounding", f.rat("totals.payable"), pay) {
		return
	}
	if has(f, "totals.advance") || has(f, "payment.advances[0].amount") {
		adv := new(big.Rat)
		for i := 0; has(f, fmt.Sprintf("payment.advances[%d].amount", i)); i++ {
			adv.Add(adv, f.rat(fmt.Sprintf("payment.advances[%d].amount", i)))
		}
		o.Class("advances")
		if !eq("advance", "totals.advance = sum of the advances", f.rat("totals.advance"), adv) {
			return
		}
		due := new(big.Rat).Sub(f.rat("totals.payable"), f.rat("totals.advance"))
		if !eq("due", "totals.due = payable - advance", f.rat("totals.due"), due) {
			return
		}
	}
	for path, v := range f {
		if !strings.HasPrefix(path, "totals.") || strings.HasSuffix(path, "percent") || strings.HasSuffix(path, ".code") || strings.HasSuffix(path, ".retained") ||
			strings.HasSuffix(path, ".country") || strings.HasSuffix(path, ".ext") {
			continue
		}
		if d, err := ratref.ParseDec(v); err == nil && d.Exp > c {
			o.Failf("decimals:totals", "%s = %s carries more decimals than the currency (%d)", path, v, c)
			return
		}
	}
	o.Note("cur=%s lines=%d payable=%s", out.Env.Currency, len(p.Lines), f["totals.payable"])
}

func init() {
	vh.Describe(
		"Cases are document plans as in C01 restricted to the 'currency' rounding rule (requested explicitly, or the regime default of Greece), including tax-included prices and prices finer than the currency; fixed discount / charge / advance amounts and charge rates are supplied at the currency's precision as the property states. The checker sees only the calculated JSON and re-adds every identity the statement lists in exact rationals. Non-trivial: the reference calculator (used for classification only) saw at least one intermediate that differs from its presented rounding. `preceding`: invoices / orders / deliveries in five currencies (0, 2 and 3 decimals) with 1-3 preceding references, each with or without a currency of its own and a tax summary of 1-2 categories (one retained) x 1-3 rate rows (bases written with the reference currency's decimals, with fewer and with more; percentages, exempt rows, surcharges): after calculation every figure of each summary has the decimals of the reference's currency (else the document's), each amount and surcharge is its percentage of the presented base rounded to that precision, categories and the sum add up (precise rule: amounts within one unit).",
		"only the identities the statement enumerates are asserted (nothing about rate bases summing to the total)",
	)
	gen := func(t *rapid.T) docgen.Plan {
		max := 6
		if vh.Thorough() {
			max = 24
		}
		return docgen.GenPlan(t, docgen.Opts{Rule: "currency", FixedAtCur: true, MaxLines: max})
	}
	vh.Rapid("readd", 30_000, 2_000_000, gen, judge)
	vh.Rapid("preceding", 6_000, 400_000, genPrec, judgePrec)
}
