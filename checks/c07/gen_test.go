package c07

// Generators: logical values, their renderings, malformed texts, one-leaf edits.
// Everything is drawn from rapid; the judges never draw.

import (
	"bytes"
	"fmt"
	"math"
	"strconv"
	"strings"

	"pgregory.net/rapid"
)

var keyPool = []string{
	"", "a", "b", "c", "A", "B", "aa", "ab", "a b", "0", "1", "10", "9", "_", "z", "~", "\x7f", "\u0080", "\u00e9", "\u00df", "\u00ff", "\u07ff", "\u0800", "\u4e2d", "\ud7ff", "\ue000", "\uff5e", "\ufffc", "\ufffe", "\uffff",
	"\U00010000", "\U0001f600", "\U0010ffff", "\"", "\\", "/", "\n", "\t", "\x00", "\x1f", "\b", "\f", "\r", " ", "$id", "\u00e9a", "e\u0301", "a\U00010000", "a\uffff", "a\x00", "null", "true", "\uffffa", "\U00010000a", "key", "id", "name",
}

var boundaryRunes = []rune{0, 1, 0x1f, 0x20, '"', '\\', '/', 0x7e, 0x7f, 0x80, 0xa0, 0xff, 0x7ff, 0x800, 0x2028, 0x2029, 0xd7ff, 0xe000, 0xfeff, 0xfffc, 0xfffe, 0xffff, 0x10000, 0x1f600, 0x10fffe, 0x10ffff, 8, 9, 10, 12, 13}

func genRune(t *rapid.T) rune {
	switch rapid.IntRange(0, 9).Draw(t, "rclass") {
	case 0, 1, 2, 3:
		return rune(rapid.IntRange(0x20, 0x7e).Draw(t, "ascii"))
	case 4:
		return rune(rapid.IntRange(0, 0x1f).Draw(t, "ctl"))
	case 5:
		return rapid.SampledFrom([]rune{'"', '\\', '/', 0x7f, '<', '>', '&', '\''}).Draw(t, "special")
	case 6:
		for {
			r := rune(rapid.IntRange(0x80, 0xffff).Draw(t, "bmp"))
			if (r >= 0xd800 && r < 0xe000) || r == 0xfffd {
				r = 0xe9 // surrogates are not characters; U+FFFD is a recorded finding
			}
			return r
		}
	case 7:
		return rune(rapid.IntRange(0x10000, 0x10ffff).Draw(t, "astral"))
	default:
		return rapid.SampledFrom(boundaryRunes).Draw(t, "boundary")
	}
}

func genStr(t *rapid.T) string {
	n := rapid.IntRange(0, 6).Draw(t, "slen")
	var sb strings.Builder
	for i := 0; i < n; i++ {
		sb.WriteRune(genRune(t))
	}
	return sb.String()
}

func genKey(t *rapid.T) string {
	if rapid.IntRange(0, 3).Draw(t, "keysrc") == 0 {
		return genStr(t)
	}
	return rapid.SampledFrom(keyPool).Draw(t, "key")
}

var intEdges = []int64{0, 1, -1, 9, 10, -10, math.MaxInt64, math.MinInt64, math.MaxInt64 - 1, math.MinInt64 + 1, 1 << 53, 1<<53 + 1, -(1 << 53) - 1, 1e15, 1e15 + 1, 999999999999999999, -1e18, 123456789012345678, 4294967296, -2147483649}

func genInt(t *rapid.T) Val {
	switch rapid.IntRange(0, 3).Draw(t, "ikind") {
	case 0:
		return Val{K: "int", I: rapid.SampledFrom(intEdges).Draw(t, "iedge")}
	case 1:
		return Val{K: "int", I: rapid.Int64().Draw(t, "i64")}
	default:
		return Val{K: "int", I: rapid.Int64Range(-1000, 1000).Draw(t, "ismall")}
	}
}

// genDec draws a decimal; beyond=true allows values outside the float64 model.
func genDec(t *rapid.T, beyond bool) Val {
	v := Val{K: "dec", Neg: rapid.Bool().Draw(t, "neg")}
	if rapid.IntRange(0, 19).Draw(t, "zero") == 0 {
		return v // zero in a non-integer spelling
	}
	if beyond && rapid.IntRange(0, 5).Draw(t, "bigint") == 0 {
		// a plain integer literal that does not fit int64: 19 digits above the
		// largest int64 (where a hand-written reader wraps around), or more
		n := rapid.IntRange(19, 23).Draw(t, "bigdigits")
		var sb strings.Builder
		switch rapid.IntRange(0, 3).Draw(t, "bigkind") {
		case 0: // just beyond the edge
			sb.WriteString([]string{"9223372036854775808", "9223372036854775809", "9223372036854775817", "9223372036854775900", "9300000000000000000", "9999999999999999999", "10000000000000000000", "18446744073709551615", "18446744073709551616", "18446744073709551617"}[rapid.IntRange(0, 9).Draw(t, "bigedge")])
		default:
			for i := 0; i < n; i++ {
				lo := 0
				if i == 0 {
					lo = 1
				}
				sb.WriteByte(byte('0' + rapid.IntRange(lo, 9).Draw(t, "digit")))
			}
		}
		lit := sb.String()
		if _, err := strconv.ParseInt(lit, 10, 64); err == nil {
			lit = "1" + lit // 20 digits never fit
		}
		// the edge literals fit int64 when negated only at -9223372036854775808
		if v.Neg && lit == "9223372036854775808" {
			lit = "9223372036854775809"
		}
		d := strings.TrimRight(lit, "0")
		v.D, v.E, v.Big = d, len(lit)-len(d), true
		return v
	}
	maxDigits := 15
	if beyond && rapid.IntRange(0, 2).Draw(t, "long") == 0 {
		maxDigits = 25
	}
	n := rapid.IntRange(1, maxDigits).Draw(t, "ndigits")
	var sb strings.Builder
	for i := 0; i < n; i++ {
		lo := 0
		if i == 0 || i == n-1 {
			lo = 1
		}
		sb.WriteByte(byte('0' + rapid.IntRange(lo, 9).Draw(t, "digit")))
	}
	v.D = sb.String()
	var sci int
	switch rapid.IntRange(0, 5).Draw(t, "ekind") {
	case 0, 1, 2:
		sci = rapid.IntRange(-8, 20).Draw(t, "sci")
	case 3:
		sci = rapid.IntRange(-300, 300).Draw(t, "sciw")
	case 4:
		sci = rapid.SampledFrom([]int{-300, -299, -100, -99, -10, -9, -7, -1, 0, 1, 9, 10, 14, 15, 16, 17, 18, 19, 20, 21, 22, 99, 100, 299, 300}).Draw(t, "scie")
	default:
		if beyond {
			sci = rapid.SampledFrom([]int{-400, -330, -324, -323, -310, -308, -307, -301, 301, 307, 308, 309, 310, 400, 1000}).Draw(t, "scib")
		} else {
			sci = rapid.IntRange(-3, 3).Draw(t, "scis")
		}
	}
	v.E = sci - len(v.D) + 1
	return v
}

type genState struct {
	budget int
	beyond bool
}

func genVal(t *rapid.T, depth int, st *genState) Val {
	st.budget--
	k := rapid.IntRange(0, 13).Draw(t, "kind")
	if depth >= 6 || st.budget <= 0 {
		k %= 9
	}
	switch k {
	case 0:
		return Val{K: "null"}
	case 1:
		if rapid.Bool().Draw(t, "b") {
			return Val{K: "true"}
		}
		return Val{K: "false"}
	case 2, 3:
		return genInt(t)
	case 4, 5:
		return genDec(t, st.beyond)
	case 6, 7, 8:
		return Val{K: "str", S: genStr(t)}
	case 9, 10:
		n := rapid.IntRange(0, 4).Draw(t, "alen")
		v := Val{K: "arr"}
		for i := 0; i < n; i++ {
			v.A = append(v.A, genVal(t, depth+1, st))
		}
		return v
	default:
		n := rapid.IntRange(0, 5).Draw(t, "olen")
		v := Val{K: "obj"}
		seen := map[string]bool{}
		for i := 0; i < n; i++ {
			key := genKey(t)
			if seen[key] {
				continue
			}
			seen[key] = true
			var mv Val
			if rapid.IntRange(0, 5).Draw(t, "nullmember") == 0 {
				mv = Val{K: "null"}
				st.budget--
			} else {
				mv = genVal(t, depth+1, st)
			}
			v.M = append(v.M, Member{Key: key, V: mv})
		}
		return v
	}
}

func genTop(t *rapid.T, beyond bool) Val {
	st := &genState{budget: rapid.IntRange(1, 40).Draw(t, "budget"), beyond: beyond}
	switch rapid.IntRange(0, 7).Draw(t, "shape") {
	case 0:
		// a chain of single-child containers down to depth 3..6
		d := rapid.IntRange(3, 6).Draw(t, "chain")
		v := genVal(t, d, st)
		for i := d - 1; i >= 0; i-- {
			if rapid.Bool().Draw(t, "chainobj") {
				v = Val{K: "obj", M: []Member{{Key: genKey(t), V: v}}}
			} else {
				v = Val{K: "arr", A: []Val{v}}
			}
		}
		return v
	case 1, 2, 3, 4:
		// an object at the top, like every real document
		v := Val{K: "obj"}
		n := rapid.IntRange(1, 6).Draw(t, "toplen")
		seen := map[string]bool{}
		for i := 0; i < n; i++ {
			key := genKey(t)
			if seen[key] {
				continue
			}
			seen[key] = true
			v.M = append(v.M, Member{Key: key, V: genVal(t, 1, st)})
		}
		return v
	default:
		return genVal(t, 0, st)
	}
}

// ---------------------------------------------------------------------------
// rendering

var wsTable = []string{"", "", " ", "\n", "\t", "\r\n", "  ", " \t\n "}

type rend struct {
	t       *rapid.T
	sb      bytes.Buffer
	ws      bool
	shuffle bool
	esc     bool
	nums    bool
	nulls   int // 0 as given, 1 null members removed, 2 null members added
}

func (r *rend) gap() {
	if r.ws {
		r.sb.WriteString(rapid.SampledFrom(wsTable).Draw(r.t, "ws"))
	}
}

func hex4(n int, style int) string {
	s := fmt.Sprintf("%04x", n)
	switch style {
	case 0:
		return strings.ToUpper(s)
	case 1:
		return s
	}
	b := []byte(s)
	for i := range b {
		if i%2 == 0 {
			b[i] = strings.ToUpper(string(b[i]))[0]
		}
	}
	return string(b)
}

func (r *rend) str(s string) {
	r.sb.WriteByte('"')
	for _, c := range s {
		mustEscape := c < 0x20 || c == '"' || c == '\\'
		form := 0
		if r.esc {
			form = rapid.IntRange(0, 5).Draw(r.t, "escform")
		}
		if form <= 1 && !mustEscape {
			r.sb.WriteString(string(c))
			continue
		}
		if sh, ok := shortEsc[c]; ok && form <= 2 {
			r.sb.WriteString(sh)
			continue
		}
		style := 0
		if form >= 4 {
			style = form - 3
		}
		if c < 0x10000 {
			r.sb.WriteString(`\u` + hex4(int(c), style))
		} else {
			hi, lo := 0xD800+int(c-0x10000)>>10, 0xDC00+int(c-0x10000)&0x3FF
			r.sb.WriteString(`\u` + hex4(hi, style) + `\u` + hex4(lo, (style+form)%3))
		}
	}
	r.sb.WriteByte('"')
}

func zeros(n int) string { return strings.Repeat("0", n) }

// dec writes one of the many spellings of a decimal that is not an integer literal.
func (r *rend) dec(v Val) {
	if v.Neg {
		r.sb.WriteByte('-')
	}
	if !r.nums {
		if v.D == "" {
			r.sb.WriteString("0.0")
			return
		}
		frac := v.D[1:]
		if frac == "" {
			frac = "0"
		}
		r.sb.WriteString(v.D[:1] + "." + frac + "e" + strconv.Itoa(v.sci()))
		return
	}
	t := r.t
	d := v.D
	nd := len(d)
	var mant string
	x := 0 // exponent still to be written
	hasPoint := false
	if nd == 0 {
		mant = "0"
		if rapid.Bool().Draw(t, "zpoint") {
			mant += "." + zeros(rapid.IntRange(1, 3).Draw(t, "zfrac"))
			hasPoint = true
		}
		x = rapid.IntRange(-5, 5).Draw(t, "zexp")
	} else {
		k := rapid.IntRange(-2, nd+2).Draw(t, "point") // digits in front of the point
		switch {
		case k <= 0:
			mant = "0." + zeros(-k) + d
			hasPoint = true
		case k < nd:
			mant = d[:k] + "." + d[k:]
			hasPoint = true
		default:
			mant = d + zeros(k-nd)
			if rapid.Bool().Draw(t, "dot0") {
				mant += ".0"
				hasPoint = true
			}
		}
		x = nd + v.E - k
		if hasPoint {
			mant += zeros(rapid.IntRange(0, 2).Draw(t, "tz"))
		}
	}
	r.sb.WriteString(mant)
	if x == 0 && hasPoint && rapid.Bool().Draw(t, "noexp") {
		return
	}
	r.sb.WriteString(rapid.SampledFrom([]string{"e", "E"}).Draw(t, "emark"))
	switch {
	case x < 0:
		r.sb.WriteByte('-')
		x = -x
	case rapid.Bool().Draw(t, "eplus"):
		r.sb.WriteByte('+')
	case x == 0 && rapid.Bool().Draw(t, "eminus0"):
		r.sb.WriteByte('-')
	}
	r.sb.WriteString(zeros(rapid.IntRange(0, 2).Draw(t, "ezeros")) + strconv.Itoa(x))
}

func (r *rend) val(v Val) {
	switch v.K {
	case "null", "true", "false":
		r.sb.WriteString(v.K)
	case "int":
		if v.I == 0 && r.nums && rapid.Bool().Draw(r.t, "negzero") {
			r.sb.WriteString("-0")
			return
		}
		r.sb.WriteString(strconv.FormatInt(v.I, 10))
	case "dec":
		if v.Big {
			// one spelling only: any other would not be an integer literal
			if v.Neg {
				r.sb.WriteByte('-')
			}
			r.sb.WriteString(v.D)
			r.sb.WriteString(strings.Repeat("0", v.E))
			return
		}
		r.dec(v)
	case "str":
		r.str(v.S)
	case "arr":
		r.sb.WriteByte('[')
		r.gap()
		for i, e := range v.A {
			if i > 0 {
				r.sb.WriteByte(',')
				r.gap()
			}
			r.val(e)
			r.gap()
		}
		r.sb.WriteByte(']')
	case "obj":
		ms := make([]Member, 0, len(v.M)+2)
		seen := map[string]bool{}
		for _, m := range v.M {
			seen[m.Key] = true
			if r.nulls == 1 && m.V.K == "null" {
				continue
			}
			ms = append(ms, m)
		}
		if r.nulls == 2 {
			for n := rapid.IntRange(0, 2).Draw(r.t, "extranulls"); n > 0; n-- {
				k := genKey(r.t)
				if seen[k] {
					continue
				}
				seen[k] = true
				ms = append(ms, Member{Key: k, V: Val{K: "null"}})
			}
		}
		if r.shuffle && len(ms) > 1 {
			ms = rapid.Permutation(ms).Draw(r.t, "order")
		}
		r.sb.WriteByte('{')
		r.gap()
		for i, m := range ms {
			if i > 0 {
				r.sb.WriteByte(',')
				r.gap()
			}
			r.str(m.Key)
			r.gap()
			r.sb.WriteByte(':')
			r.gap()
			r.val(m.V)
			r.gap()
		}
		r.sb.WriteByte('}')
	}
}

// render writes v. style 0 is the plain compact text; other styles draw.
func render(t *rapid.T, v Val, style int) []byte {
	r := &rend{t: t}
	if style > 0 {
		mask := rapid.IntRange(0, 15).Draw(t, "style")
		r.ws, r.shuffle, r.esc, r.nums = mask&1 != 0, mask&2 != 0, mask&4 != 0, mask&8 != 0
		if mask == 0 {
			r.shuffle = true
		}
		r.nulls = style // 1: null members removed, 2: added
		if style > 2 {
			r.nulls = rapid.IntRange(0, 2).Draw(t, "nullstyle")
		}
		if r.ws {
			r.gap()
		}
	}
	r.val(v)
	if r.ws {
		r.gap()
	}
	return r.sb.Bytes()
}

func genValueCase(t *rapid.T) ValueCase {
	v := genTop(t, rapid.IntRange(0, 9).Draw(t, "beyond") == 0)
	c := ValueCase{V: v}
	for style := 0; style < 3; style++ {
		c.Texts = append(c.Texts, q(render(t, v, style)))
	}
	return c
}

// ---------------------------------------------------------------------------
// malformed texts

var badUTF8 = []string{"\xff", "\xc0\xaf", "\xe2\x82", "\x80", "\xed\xa0\x80", "\xf4\x90\x80\x80", "\xc3", "\xf0\x9f\x98", "\xfe", "\xed\xbf\xbf"}
var loneEscapes = []string{`\ud800`, `\udc00`, `\udbff`, `\udfff`, `\uD800`, `\uDFFF`, `\ud83d`, `\ude00`, `\ud800A`, `\ud800\ud800`, `\udc00\ud800`, `\ud800\\udc00`, `\ud800\n`}
var structural = []string{"[", "]", "{", "}", ",", ":", "\"", "\\", "0", "1", "-", ".", "e", "n", "t", "null", " ", "\x00", "\x0b", "/", "'", "+"}

// insideString picks a position that is (mostly) inside a string literal.
func insideString(t *rapid.T, text []byte) int {
	var quotes []int
	for i, b := range text {
		if b == '"' {
			quotes = append(quotes, i)
		}
	}
	if len(quotes) == 0 || rapid.IntRange(0, 4).Draw(t, "anywhere") == 0 {
		return rapid.IntRange(0, len(text)).Draw(t, "pos")
	}
	i := rapid.SampledFrom(quotes).Draw(t, "quote")
	if rapid.Bool().Draw(t, "after") {
		return i + 1
	}
	return i
}

func splice(text []byte, pos int, ins string) []byte {
	out := make([]byte, 0, len(text)+len(ins))
	out = append(out, text[:pos]...)
	out = append(out, ins...)
	return append(out, text[pos:]...)
}

func genMalformed(t *rapid.T) TextCase {
	st := &genState{budget: rapid.IntRange(1, 12).Draw(t, "budget")}
	var v Val
	if rapid.Bool().Draw(t, "topobj") {
		v = genTop(t, false)
	} else {
		v = genVal(t, 3, st)
	}
	text := render(t, v, 3)
	kind := ""
	switch rapid.IntRange(0, 9).Draw(t, "damage") {
	case 0, 1:
		kind = "gen-prefix"
		text = text[:rapid.IntRange(0, len(text)-1).Draw(t, "cut")]
	case 2:
		kind = "gen-trailing-token"
		text = append(append(append([]byte{}, text...), rapid.SampledFrom(wsTable).Draw(t, "sep")...), rapid.SampledFrom(trailers).Draw(t, "trailer")...)
	case 3:
		kind = "gen-inserted-token"
		text = splice(text, rapid.IntRange(0, len(text)).Draw(t, "pos"), rapid.SampledFrom(structural).Draw(t, "tok"))
	case 4:
		kind = "gen-deleted-byte"
		p := rapid.IntRange(0, len(text)-1).Draw(t, "pos")
		text = append(append([]byte{}, text[:p]...), text[p+1:]...)
	case 5:
		kind = "gen-replaced-byte"
		p := rapid.IntRange(0, len(text)-1).Draw(t, "pos")
		text = append(append(append([]byte{}, text[:p]...), rapid.SampledFrom(structural).Draw(t, "tok")...), text[p+1:]...)
	case 6, 7:
		kind = "gen-invalid-utf8"
		text = splice(text, insideString(t, text), rapid.SampledFrom(badUTF8).Draw(t, "bad"))
	case 8:
		kind = "gen-lone-surrogate"
		text = splice(text, insideString(t, text), rapid.SampledFrom(loneEscapes).Draw(t, "lone"))
	default:
		kind = "gen-blank"
		text = []byte(strings.Repeat(rapid.SampledFrom([]string{"", " ", "\n", "\t", "\r"}).Draw(t, "blank"), rapid.IntRange(0, 3).Draw(t, "blanks")))
	}
	return TextCase{TextQ: q(text), Kind: kind}
}

// ---------------------------------------------------------------------------
// one-leaf edits

func countNodes(v Val) int {
	n := 1
	for _, e := range v.A {
		n += countNodes(e)
	}
	for _, m := range v.M {
		n += countNodes(m.V)
	}
	return n
}

func editString(t *rapid.T, s string) string {
	rs := []rune(s)
	switch rapid.IntRange(0, 3).Draw(t, "sedit") {
	case 0:
		p := rapid.IntRange(0, len(rs)).Draw(t, "spos")
		return string(rs[:p]) + string(genRune(t)) + string(rs[p:])
	case 1:
		if len(rs) > 0 {
			p := rapid.IntRange(0, len(rs)-1).Draw(t, "spos")
			return string(rs[:p]) + string(rs[p+1:])
		}
		return " "
	case 2:
		if len(rs) > 0 {
			p := rapid.IntRange(0, len(rs)-1).Draw(t, "spos")
			rs[p] = genRune(t)
			return string(rs)
		}
		return "\x00"
	default:
		if len(rs) > 1 {
			rs[0], rs[len(rs)-1] = rs[len(rs)-1], rs[0]
			return string(rs)
		}
		return s + "\u0301"
	}
}

// scalarText is the JSON text of a scalar, used for type-confusion edits.
func scalarText(v Val) string {
	switch v.K {
	case "int":
		return strconv.FormatInt(v.I, 10)
	case "dec":
		return floatRef(v.Neg, v.D, v.E)
	case "str":
		return escapeRef(v.S)
	}
	return v.K
}

func editNode(t *rapid.T, v Val) (Val, string) {
	switch v.K {
	case "null":
		return rapid.SampledFrom([]Val{{K: "false"}, {K: "int"}, {K: "str"}, {K: "str", S: "null"}, {K: "arr"}, {K: "obj"}}).Draw(t, "nulledit"), "null-to-value"
	case "true":
		return rapid.SampledFrom([]Val{{K: "false"}, {K: "str", S: "true"}, {K: "int", I: 1}}).Draw(t, "trueedit"), "bool"
	case "false":
		return rapid.SampledFrom([]Val{{K: "true"}, {K: "str", S: "false"}, {K: "int"}, {K: "null"}}).Draw(t, "falseedit"), "bool"
	case "int":
		switch rapid.IntRange(0, 3).Draw(t, "iedit") {
		case 0:
			if v.I < math.MaxInt64 {
				return Val{K: "int", I: v.I + 1}, "int+1"
			}
			return Val{K: "int", I: v.I - 1}, "int-1"
		case 1:
			if v.I != 0 && v.I != math.MinInt64 {
				return Val{K: "int", I: -v.I}, "int-negated"
			}
			return Val{K: "int", I: 7}, "int"
		case 2:
			return Val{K: "str", S: scalarText(v)}, "number-to-string"
		default:
			return Val{K: "int", I: v.I / 10}, "int/10"
		}
	case "dec":
		switch rapid.IntRange(0, 3).Draw(t, "dedit") {
		case 0:
			w := v
			w.Neg = !v.Neg
			return w, "dec-negated"
		case 1:
			w := v
			w.E += rapid.SampledFrom([]int{-1, 1}).Draw(t, "eshift")
			return w, "dec-exponent"
		case 2:
			return Val{K: "str", S: scalarText(v)}, "number-to-string"
		default:
			w := v
			if len(w.D) > 0 {
				b := []byte(w.D)
				p := rapid.IntRange(0, len(b)-1).Draw(t, "dpos")
				nd := byte('1' + rapid.IntRange(0, 8).Draw(t, "ddigit"))
				b[p] = nd
				w.D = string(b)
			} else {
				w.D, w.E = "1", -3
			}
			return w, "dec-digit"
		}
	case "str":
		if rapid.IntRange(0, 5).Draw(t, "sconf") == 0 {
			return rapid.SampledFrom([]Val{{K: "null"}, {K: "arr", A: []Val{v}}}).Draw(t, "sto"), "string-to-other"
		}
		return Val{K: "str", S: editString(t, v.S)}, "string"
	case "arr":
		w := Val{K: "arr", A: append([]Val{}, v.A...)}
		switch rapid.IntRange(0, 4).Draw(t, "aedit") {
		case 0:
			p := rapid.IntRange(0, len(w.A)).Draw(t, "apos")
			w.A = append(w.A[:p:p], append([]Val{{K: "null"}}, w.A[p:]...)...)
			return w, "array-null-inserted"
		case 1:
			if len(w.A) > 0 {
				p := rapid.IntRange(0, len(w.A)-1).Draw(t, "apos")
				w.A = append(w.A[:p:p], w.A[p+1:]...)
				return w, "array-element-dropped"
			}
			return Val{K: "obj"}, "empty-array-to-object"
		case 2:
			if len(w.A) > 1 {
				p := rapid.IntRange(0, len(w.A)-2).Draw(t, "apos")
				w.A[p], w.A[p+1] = w.A[p+1], w.A[p]
				return w, "array-elements-swapped"
			}
			return Val{K: "arr", A: []Val{w}}, "array-wrapped"
		case 3:
			if len(w.A) == 1 {
				return w.A[0], "array-unwrapped"
			}
			return Val{K: "arr", A: []Val{w}}, "array-wrapped"
		default:
			w.A = append(w.A, Val{K: "arr"})
			return w, "array-element-added"
		}
	default: // obj
		w := Val{K: "obj", M: append([]Member{}, v.M...)}
		has := func(k string) bool {
			for _, m := range w.M {
				if m.Key == k {
					return true
				}
			}
			return false
		}
		switch rapid.IntRange(0, 3).Draw(t, "oedit") {
		case 0:
			if len(w.M) > 0 {
				p := rapid.IntRange(0, len(w.M)-1).Draw(t, "opos")
				nk := editString(t, w.M[p].Key)
				if !has(nk) {
					w.M[p].Key = nk
					return w, "key-renamed"
				}
			}
			return Val{K: "arr"}, "object-to-array"
		case 1:
			if len(w.M) > 0 {
				p := rapid.IntRange(0, len(w.M)-1).Draw(t, "opos")
				w.M = append(w.M[:p:p], w.M[p+1:]...)
				return w, "member-dropped"
			}
			return Val{K: "arr"}, "empty-object-to-array"
		case 2:
			k := genKey(t)
			if !has(k) {
				w.M = append(w.M, Member{Key: k, V: Val{K: "int"}})
				return w, "member-added"
			}
			return Val{K: "null"}, "object-to-null"
		default:
			if len(w.M) > 1 {
				p := rapid.IntRange(0, len(w.M)-2).Draw(t, "opos")
				w.M[p].V, w.M[p+1].V = w.M[p+1].V, w.M[p].V
				return w, "member-values-swapped"
			}
			return Val{K: "arr", A: []Val{w}}, "object-wrapped"
		}
	}
}

// editAt rewrites the n-th node (preorder) of v.
func editAt(t *rapid.T, v Val, n *int, what *string) Val {
	if *n == 0 {
		*n = -1
		w, k := editNode(t, v)
		*what = k
		return w
	}
	*n--
	out := v
	if len(v.A) > 0 {
		out.A = make([]Val, len(v.A))
		for i, e := range v.A {
			if *n >= 0 {
				out.A[i] = editAt(t, e, n, what)
			} else {
				out.A[i] = e
			}
		}
	}
	if len(v.M) > 0 {
		out.M = make([]Member, len(v.M))
		for i, m := range v.M {
			out.M[i] = m
			if *n >= 0 {
				out.M[i].V = editAt(t, m.V, n, what)
			}
		}
	}
	return out
}

func genPairCase(t *rapid.T) PairCase {
	a := genTop(t, false)
	n := rapid.IntRange(0, countNodes(a)-1).Draw(t, "node")
	what := ""
	b := editAt(t, a, &n, &what)
	sa, sb := 0, 0
	if rapid.Bool().Draw(t, "varied") {
		sa, sb = 3, 3
	}
	return PairCase{A: a, B: b, TA: q(render(t, a, sa)), TB: q(render(t, b, sb)), Edit: what}
}
