package c07

// Reference model for C07, written from c14n/README.md only: a logical JSON
// value (Val), a strict RFC 8259 reader that keeps number literals exact and
// notices lone surrogate escapes (refParse), and the canonical writer
// (refCanon). Nothing in this file calls the code under test or encoding/json.

import (
	"errors"
	"fmt"
	"sort"
	"strconv"
	"strings"
	"unicode/utf8"
)

// Val is a logical JSON value. Numbers keep the class of their literal: an
// "int" is a literal without fraction / exponent that fits int64; everything
// else is a "dec" with exact decimal digits (value = D x 10^E, sign Neg).
type Val struct {
	K   string   `json:"k"` // null | true | false | int | dec | str | arr | obj
	I   int64    `json:"i,omitempty"`
	Neg bool     `json:"neg,omitempty"`
	D   string   `json:"d,omitempty"`   // significant digits without leading / trailing zeros; "" is zero
	E   int      `json:"e,omitempty"`   // power of ten of the last digit of D
	Big bool     `json:"big,omitempty"` // integer literal that does not fit int64
	S   string   `json:"s,omitempty"`
	A   []Val    `json:"a,omitempty"`
	M   []Member `json:"m,omitempty"`
}

// Member is one object member (objects keep the order they were written in).
type Member struct {
	Key string `json:"key"`
	V   Val    `json:"v"`
}

func (v Val) isNum() bool { return v.K == "int" || v.K == "dec" }

// sci is the exponent of the first significant digit.
func (v Val) sci() int { return v.E + len(v.D) - 1 }

// decimal form (neg, digits, exp) of any number
func (v Val) decimal() (bool, string, int) {
	if v.K == "dec" {
		if v.D == "" {
			return false, "", 0
		}
		return v.Neg, v.D, v.E
	}
	if v.I == 0 {
		return false, "", 0
	}
	s := strconv.FormatInt(v.I, 10)
	neg := s[0] == '-'
	if neg {
		s = s[1:]
	}
	t := strings.TrimRight(s, "0")
	return neg, t, len(s) - len(t)
}

// float is the float64 nearest to the number (0 and +-Inf beyond its range).
func (v Val) float() float64 {
	neg, d, e := v.decimal()
	if d == "" {
		return 0
	}
	f, _ := strconv.ParseFloat(d+"e"+strconv.Itoa(e), 64)
	if neg {
		f = -f
	}
	return f
}

// inModel: the documented number model (models.go: floats are float64) is
// exact for at most 15 significant digits within the normal range.
func (v Val) inModel() bool {
	if v.K != "dec" {
		return true
	}
	if v.Big || len(v.D) > 15 {
		return false
	}
	return v.D == "" || (v.sci() >= -300 && v.sci() <= 300)
}

// beyond float64 altogether (1E400): cannot be written, rejection is fine
func (v Val) outOfRange() bool { return v.K == "dec" && v.D != "" && v.sci() >= 308 }

func walk(v Val, fn func(v Val, depth int, key *string), depth int) {
	fn(v, depth, nil)
	for _, e := range v.A {
		walk(e, fn, depth+1)
	}
	for i := range v.M {
		k := v.M[i].Key
		fn(Val{}, depth+1, &k)
		walk(v.M[i].V, fn, depth+1)
	}
}

func allInModel(v Val) bool {
	ok := true
	walk(v, func(x Val, _ int, key *string) {
		if key == nil && !x.inModel() {
			ok = false
		}
	}, 0)
	return ok
}

func anyOutOfRange(v Val) bool {
	r := false
	walk(v, func(x Val, _ int, key *string) {
		if key == nil && x.outOfRange() {
			r = true
		}
	}, 0)
	return r
}

func hasFFFD(v Val) bool {
	r := false
	walk(v, func(x Val, _ int, key *string) {
		if key != nil && strings.ContainsRune(*key, 0xFFFD) {
			r = true
		}
		if key == nil && x.K == "str" && strings.ContainsRune(x.S, 0xFFFD) {
			r = true
		}
	}, 0)
	return r
}

// stripNulls removes object members whose value is null (array nulls stay).
func stripNulls(v Val) Val {
	switch v.K {
	case "arr":
		out := v
		out.A = make([]Val, len(v.A))
		for i, e := range v.A {
			out.A[i] = stripNulls(e)
		}
		return out
	case "obj":
		out := v
		out.M = make([]Member, 0, len(v.M))
		for _, m := range v.M {
			if m.V.K == "null" {
				continue
			}
			out.M = append(out.M, Member{Key: m.Key, V: stripNulls(m.V)})
		}
		return out
	}
	return v
}

// lessCP orders strings by the code points of their characters (README rule 3).
func lessCP(a, b string) bool {
	ra, rb := []rune(a), []rune(b)
	for i := 0; i < len(ra) && i < len(rb); i++ {
		if ra[i] != rb[i] {
			return ra[i] < rb[i]
		}
	}
	return len(ra) < len(rb)
}

// sameContent compares logical content: objects as key -> value maps, numbers
// by exact value (lenient when one side is beyond the float64 model).
func sameContent(a, b Val) (bool, string) {
	if a.isNum() && b.isNum() {
		if !a.inModel() || !b.inModel() {
			// outside the exact domain the documented model is float64: the
			// nearest float64 of both spellings must be the same number
			if a.float() != b.float() {
				return false, "number-beyond-model-not-nearest-float64"
			}
			return true, ""
		}
		an, ad, ae := a.decimal()
		bn, bd, be := b.decimal()
		if an != bn || ad != bd || ae != be {
			return false, "number"
		}
		return true, ""
	}
	if a.K != b.K {
		if a.isNum() && b.K == "null" {
			return false, "number-became-null"
		}
		return false, a.K + "-became-" + b.K
	}
	switch a.K {
	case "str":
		if a.S != b.S {
			return false, "string"
		}
	case "arr":
		if len(a.A) != len(b.A) {
			return false, "array-length"
		}
		for i := range a.A {
			if ok, why := sameContent(a.A[i], b.A[i]); !ok {
				return false, why
			}
		}
	case "obj":
		if len(a.M) != len(b.M) {
			return false, "member-set"
		}
		idx := map[string]Val{}
		for _, m := range b.M {
			idx[m.Key] = m.V
		}
		for _, m := range a.M {
			bv, ok := idx[m.Key]
			if !ok {
				return false, "member-set"
			}
			if ok, why := sameContent(m.V, bv); !ok {
				return false, why
			}
		}
	}
	return true, ""
}

// sameLiteralClass is the strict comparison used to check that a rendering
// denotes the value it was rendered from (number classes must agree too).
func sameValue(a, b Val) bool {
	if a.isNum() && b.isNum() {
		if a.K != b.K || a.Big != b.Big {
			return false
		}
		an, ad, ae := a.decimal()
		bn, bd, be := b.decimal()
		return an == bn && ad == bd && ae == be
	}
	if a.K != b.K {
		return false
	}
	switch a.K {
	case "str":
		return a.S == b.S
	case "arr":
		if len(a.A) != len(b.A) {
			return false
		}
		for i := range a.A {
			if !sameValue(a.A[i], b.A[i]) {
				return false
			}
		}
	case "obj":
		if len(a.M) != len(b.M) {
			return false
		}
		idx := map[string]Val{}
		for _, m := range b.M {
			idx[m.Key] = m.V
		}
		for _, m := range a.M {
			bv, ok := idx[m.Key]
			if !ok || !sameValue(m.V, bv) {
				return false
			}
		}
	}
	return true
}

// ---------------------------------------------------------------------------
// canonical writer (README "JSON in canonical form", rules 1-8)

type canonOut struct {
	b    []byte
	kind []byte // per output byte: m(ember) a(rray) s(tring) i(nteger) f(loat) l(iteral)
}

func (o *canonOut) put(kind byte, s string) {
	o.b = append(o.b, s...)
	for range len(s) {
		o.kind = append(o.kind, kind)
	}
}

var kindNames = map[byte]string{'m': "member", 'a': "array", 's': "string", 'i': "integer", 'f': "float", 'l': "literal"}

// kindAt names the kind of token at the first byte where got leaves want.
func (o *canonOut) kindAt(got []byte) string {
	i := 0
	for i < len(got) && i < len(o.b) && got[i] == o.b[i] {
		i++
	}
	if i >= len(o.kind) {
		i = len(o.kind) - 1
	}
	if i < 0 {
		return "unknown"
	}
	return kindNames[o.kind[i]]
}

// escapeRef: rule 8 - two-character escapes where they exist, \u00XX upper
// case for the other control characters, everything else literally.
func escapeRef(s string) string {
	var sb strings.Builder
	sb.WriteByte('"')
	for _, r := range s {
		switch {
		case r == '"':
			sb.WriteString(`\"`)
		case r == '\\':
			sb.WriteString(`\\`)
		case r == 0x08:
			sb.WriteString(`\b`)
		case r == 0x09:
			sb.WriteString(`\t`)
		case r == 0x0A:
			sb.WriteString(`\n`)
		case r == 0x0C:
			sb.WriteString(`\f`)
		case r == 0x0D:
			sb.WriteString(`\r`)
		case r < 0x20:
			sb.WriteString(`\u00`)
			sb.WriteByte("0123456789ABCDEF"[r>>4])
			sb.WriteByte("0123456789ABCDEF"[r&15])
		default:
			sb.WriteRune(r)
		}
	}
	sb.WriteByte('"')
	return sb.String()
}

// floatRef: rule 7 - one non-zero digit, a non-empty fraction without trailing
// zeros, capital E, no plus signs, no leading zeros in the exponent. Zero is
// written 0.0E0 (README example) without a minus sign (rule 6.1).
func floatRef(neg bool, d string, e int) string {
	if d == "" {
		return "0.0E0"
	}
	frac := d[1:]
	if frac == "" {
		frac = "0"
	}
	s := d[:1] + "." + frac + "E" + strconv.Itoa(e+len(d)-1)
	if neg {
		s = "-" + s
	}
	return s
}

func refCanonInto(o *canonOut, v Val) {
	switch v.K {
	case "null", "true", "false":
		o.put('l', v.K)
	case "int":
		o.put('i', strconv.FormatInt(v.I, 10))
	case "dec":
		o.put('f', floatRef(v.Neg, v.D, v.E))
	case "str":
		o.put('s', escapeRef(v.S))
	case "arr":
		o.put('a', "[")
		for i, e := range v.A {
			if i > 0 {
				o.put('a', ",")
			}
			refCanonInto(o, e)
		}
		o.put('a', "]")
	case "obj":
		ms := make([]Member, 0, len(v.M))
		for _, m := range v.M {
			if m.V.K != "null" {
				ms = append(ms, m)
			}
		}
		sort.SliceStable(ms, func(i, j int) bool { return lessCP(ms[i].Key, ms[j].Key) })
		o.put('m', "{")
		for i, m := range ms {
			if i > 0 {
				o.put('m', ",")
			}
			o.put('m', escapeRef(m.Key))
			o.put('m', ":")
			refCanonInto(o, m.V)
		}
		o.put('m', "}")
	default:
		panic("refCanon: bad kind " + v.K)
	}
}

func refCanon(v Val) *canonOut {
	o := &canonOut{}
	refCanonInto(o, v)
	return o
}

// ---------------------------------------------------------------------------
// strict reader

var (
	errEmpty    = errors.New("no value")
	errEOF      = errors.New("input ends inside a value")
	errSyntax   = errors.New("syntax error")
	errTrailing = errors.New("data after the value")
)

const maxDepth = 10000 // encoding/json refuses deeper nesting; so does the reference

type refReader struct {
	b     []byte
	i     int
	lone  bool // a \uD800-\uDFFF escape that is not half of a pair
	dup   bool // an object repeats a key
	depth int
}

type refInfo struct {
	Lone, Dup bool
}

func refParse(b []byte) (Val, refInfo, error) {
	p := &refReader{b: b}
	p.ws()
	if p.i >= len(b) {
		return Val{}, refInfo{}, errEmpty
	}
	v, err := p.value()
	if err != nil {
		return Val{}, refInfo{p.lone, p.dup}, err
	}
	p.ws()
	if p.i < len(b) {
		return Val{}, refInfo{p.lone, p.dup}, errTrailing
	}
	return v, refInfo{p.lone, p.dup}, nil
}

func (p *refReader) ws() {
	for p.i < len(p.b) {
		switch p.b[p.i] {
		case ' ', '\t', '\n', '\r':
			p.i++
		default:
			return
		}
	}
}

func (p *refReader) lit(word string, k string) (Val, error) {
	for j := 0; j < len(word); j++ {
		if p.i+j >= len(p.b) {
			return Val{}, errEOF
		}
		if p.b[p.i+j] != word[j] {
			return Val{}, errSyntax
		}
	}
	p.i += len(word)
	return Val{K: k}, nil
}

func (p *refReader) value() (Val, error) {
	if p.i >= len(p.b) {
		return Val{}, errEOF
	}
	switch c := p.b[p.i]; {
	case c == 'n':
		return p.lit("null", "null")
	case c == 't':
		return p.lit("true", "true")
	case c == 'f':
		return p.lit("false", "false")
	case c == '"':
		s, err := p.str()
		return Val{K: "str", S: s}, err
	case c == '-' || (c >= '0' && c <= '9'):
		return p.num()
	case c == '[':
		p.depth++
		defer func() { p.depth-- }()
		if p.depth > maxDepth {
			return Val{}, errSyntax
		}
		p.i++
		v := Val{K: "arr"}
		p.ws()
		if p.i < len(p.b) && p.b[p.i] == ']' {
			p.i++
			return v, nil
		}
		for {
			p.ws()
			e, err := p.value()
			if err != nil {
				return Val{}, err
			}
			v.A = append(v.A, e)
			p.ws()
			if p.i >= len(p.b) {
				return Val{}, errEOF
			}
			if p.b[p.i] == ',' {
				p.i++
				continue
			}
			if p.b[p.i] == ']' {
				p.i++
				return v, nil
			}
			return Val{}, errSyntax
		}
	case c == '{':
		p.depth++
		defer func() { p.depth-- }()
		if p.depth > maxDepth {
			return Val{}, errSyntax
		}
		p.i++
		v := Val{K: "obj"}
		seen := map[string]bool{}
		p.ws()
		if p.i < len(p.b) && p.b[p.i] == '}' {
			p.i++
			return v, nil
		}
		for {
			p.ws()
			if p.i >= len(p.b) {
				return Val{}, errEOF
			}
			if p.b[p.i] != '"' {
				return Val{}, errSyntax
			}
			k, err := p.str()
			if err != nil {
				return Val{}, err
			}
			p.ws()
			if p.i >= len(p.b) {
				return Val{}, errEOF
			}
			if p.b[p.i] != ':' {
				return Val{}, errSyntax
			}
			p.i++
			p.ws()
			e, err := p.value()
			if err != nil {
				return Val{}, err
			}
			if seen[k] {
				p.dup = true
			}
			seen[k] = true
			v.M = append(v.M, Member{Key: k, V: e})
			p.ws()
			if p.i >= len(p.b) {
				return Val{}, errEOF
			}
			if p.b[p.i] == ',' {
				p.i++
				continue
			}
			if p.b[p.i] == '}' {
				p.i++
				return v, nil
			}
			return Val{}, errSyntax
		}
	}
	return Val{}, errSyntax
}

func hexVal(c byte) int {
	switch {
	case c >= '0' && c <= '9':
		return int(c - '0')
	case c >= 'a' && c <= 'f':
		return int(c-'a') + 10
	case c >= 'A' && c <= 'F':
		return int(c-'A') + 10
	}
	return -1
}

// u4 reads the XXXX of a \uXXXX escape starting at p.i.
func (p *refReader) u4() (int, error) {
	r := 0
	for j := 0; j < 4; j++ {
		if p.i+j >= len(p.b) {
			return 0, errEOF
		}
		h := hexVal(p.b[p.i+j])
		if h < 0 {
			return 0, errSyntax
		}
		r = r<<4 | h
	}
	p.i += 4
	return r, nil
}

func (p *refReader) str() (string, error) {
	p.i++ // opening quote
	var sb []byte
	for {
		if p.i >= len(p.b) {
			return "", errEOF
		}
		c := p.b[p.i]
		switch {
		case c == '"':
			p.i++
			return string(sb), nil
		case c < 0x20:
			return "", errSyntax
		case c != '\\':
			sb = append(sb, c)
			p.i++
		default:
			p.i++
			if p.i >= len(p.b) {
				return "", errEOF
			}
			e := p.b[p.i]
			p.i++
			switch e {
			case '"', '\\', '/':
				sb = append(sb, e)
			case 'b':
				sb = append(sb, 8)
			case 'f':
				sb = append(sb, 12)
			case 'n':
				sb = append(sb, 10)
			case 'r':
				sb = append(sb, 13)
			case 't':
				sb = append(sb, 9)
			case 'u':
				r, err := p.u4()
				if err != nil {
					return "", err
				}
				switch {
				case r >= 0xD800 && r < 0xDC00:
					// needs \uDC00-\uDFFF right behind it
					save := p.i
					if p.i+1 < len(p.b) && p.b[p.i] == '\\' && p.b[p.i+1] == 'u' {
						p.i += 2
						r2, err := p.u4()
						if err == nil && r2 >= 0xDC00 && r2 < 0xE000 {
							sb = utf8.AppendRune(sb, rune(0x10000+(r-0xD800)<<10+(r2-0xDC00)))
							continue
						}
					}
					p.i = save
					p.lone = true
					sb = utf8.AppendRune(sb, 0xFFFD)
				case r >= 0xDC00 && r < 0xE000:
					p.lone = true
					sb = utf8.AppendRune(sb, 0xFFFD)
				default:
					sb = utf8.AppendRune(sb, rune(r))
				}
			default:
				return "", errSyntax
			}
		}
	}
}

func isDigit(c byte) bool { return c >= '0' && c <= '9' }

func (p *refReader) digits() (string, error) {
	if p.i >= len(p.b) {
		return "", errEOF
	}
	if !isDigit(p.b[p.i]) {
		return "", errSyntax
	}
	st := p.i
	for p.i < len(p.b) && isDigit(p.b[p.i]) {
		p.i++
	}
	return string(p.b[st:p.i]), nil
}

func (p *refReader) num() (Val, error) {
	st := p.i
	neg := false
	if p.b[p.i] == '-' {
		neg = true
		p.i++
	}
	ip, err := p.digits()
	if err != nil {
		return Val{}, err
	}
	if len(ip) > 1 && ip[0] == '0' {
		// a leading zero ends the integer part: "01" is 0 followed by junk
		p.i -= len(ip) - 1
		ip = "0"
	}
	frac, exp := "", 0
	plain := true
	if p.i < len(p.b) && p.b[p.i] == '.' {
		plain = false
		p.i++
		if frac, err = p.digits(); err != nil {
			return Val{}, err
		}
	}
	if p.i < len(p.b) && (p.b[p.i] == 'e' || p.b[p.i] == 'E') {
		plain = false
		p.i++
		eneg := false
		if p.i < len(p.b) && (p.b[p.i] == '+' || p.b[p.i] == '-') {
			eneg = p.b[p.i] == '-'
			p.i++
		}
		ed, err := p.digits()
		if err != nil {
			return Val{}, err
		}
		ed = strings.TrimLeft(ed, "0")
		switch {
		case ed == "":
			exp = 0
		case len(ed) > 6:
			exp = 10_000_000 // far outside every model; only the sign matters
		default:
			exp, _ = strconv.Atoi(ed)
		}
		if eneg {
			exp = -exp
		}
	}
	if plain {
		if n, err := strconv.ParseInt(string(p.b[st:p.i]), 10, 64); err == nil {
			return Val{K: "int", I: n}, nil
		}
	}
	all := strings.TrimLeft(ip+frac, "0")
	e10 := exp - len(frac)
	t := strings.TrimRight(all, "0")
	e10 += len(all) - len(t)
	if t == "" {
		return Val{K: "dec", Neg: neg, Big: plain}, nil
	}
	return Val{K: "dec", Neg: neg, D: t, E: e10, Big: plain}, nil
}

var _ = fmt.Sprintf
