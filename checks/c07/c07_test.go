// Package c07 decides property C07: canonical JSON (package c14n) follows its
// specification (c14n/README.md).
//
// Files: ref_test.go is the reference model written from the README (reader,
// canonical writer); gen_test.go draws values, renderings, malformed texts
// and one-leaf edits; this file holds the oracles and the registration.
package c07

import (
	"bytes"
	"encoding/json"
	"fmt"
	"runtime/debug"
	"strconv"
	"testing"
	"testing/iotest"
	"unicode/utf8"

	"github.com/invopop/gobl/c14n"
	"github.com/invopop/gobl/verifharness/internal/vh"
)

func TestMain(m *testing.M) { vh.Main(m, "C07") }

func TestAll(t *testing.T) { vh.RunAll(t) }

// ---------------------------------------------------------------------------
// cases

// TextCase is one input text. The bytes are kept in Go-quoted ASCII form so
// that invalid UTF-8 survives the replay file.
type TextCase struct {
	TextQ string `json:"text"`
	Want  string `json:"want,omitempty"` // canonical form printed in the documentation, if any
	Kind  string `json:"kind,omitempty"`
}

// ValueCase is one logical value and several texts that all denote it.
type ValueCase struct {
	V     Val      `json:"value"`
	Texts []string `json:"texts"` // Go-quoted
}

// PairCase is two values differing in one leaf, with one text each.
type PairCase struct {
	A, B   Val
	TA, TB string // Go-quoted
	Edit   string
}

// ScalarCase is one code point, tried as a one-character string and key in
// every spelling JSON allows.
type ScalarCase struct {
	CP int `json:"cp"`
}

func q(b []byte) string { return strconv.QuoteToASCII(string(b)) }

func unq(s string) []byte {
	u, err := strconv.Unquote(s)
	if err != nil {
		panic("harness: case text is not a Go-quoted string: " + s)
	}
	return []byte(u)
}

func canon(text []byte) ([]byte, error) { return c14n.CanonicalJSON(bytes.NewReader(text)) }

// ---------------------------------------------------------------------------
// the oracle for one text (clauses a, c, e)

type textResult struct {
	accepted bool
	got      []byte
	val      Val // what the text denotes (when it is acceptable)
	valid    bool
}

func short(b []byte) string {
	if len(b) > 300 {
		return q(b[:300]) + "..."
	}
	return q(b)
}

// features marks the non-trivial classes of a value (the NT rule).
func features(v Val, o *vh.Obs) {
	var nonASCIIKey, escStr, negOrFrac, nullMember, beyond bool
	maxDepth := 0
	needsEsc := func(s string) bool {
		for _, r := range s {
			if r < 0x20 || r == '"' || r == '\\' {
				return true
			}
		}
		return false
	}
	walk(v, func(x Val, depth int, key *string) {
		if depth > maxDepth {
			maxDepth = depth
		}
		if key != nil {
			for _, r := range *key {
				if r >= 0x80 {
					nonASCIIKey = true
				}
			}
			if needsEsc(*key) {
				escStr = true
			}
			return
		}
		switch x.K {
		case "str":
			if needsEsc(x.S) {
				escStr = true
			}
		case "int":
			if x.I < 0 {
				negOrFrac = true
			}
		case "dec":
			negOrFrac = true
			if !x.inModel() {
				beyond = true
			}
		case "obj":
			for _, m := range x.M {
				if m.V.K == "null" {
					nullMember = true
				}
			}
		}
	}, 0)
	if nonASCIIKey {
		o.Class("non-ascii-key")
	}
	if escStr {
		o.Class("escape-needing-string")
	}
	if negOrFrac {
		o.Class("negative-or-non-integer-number")
	}
	if nullMember {
		o.Class("null-member")
	}
	if maxDepth >= 3 {
		o.Class("nesting>=3")
	}
	if beyond {
		o.Class("number-beyond-float64-model")
	}
	if nonASCIIKey || escStr || negOrFrac || nullMember || maxDepth >= 3 {
		o.NonTrivial()
	}
}

// sortedNoNulls checks rules 3 and 4 on the parsed output.
func sortedNoNulls(v Val) string {
	bad := ""
	walk(v, func(x Val, _ int, key *string) {
		if key != nil || x.K != "obj" {
			return
		}
		for i, m := range x.M {
			if m.V.K == "null" && bad == "" {
				bad = "null-member-kept"
			}
			if i > 0 && !lessCP(x.M[i-1].Key, m.Key) && bad == "" {
				bad = "member-order"
			}
		}
	}, 0)
	return bad
}

func checkText(text []byte, o *vh.Obs) textResult {
	val, info, perr := refParse(text)
	// the reference reader and encoding/json must agree on what a JSON text is
	if (perr == nil) != json.Valid(text) {
		o.Failf("harness:reference-reader-disagrees-with-encoding-json", "text %s: reference reader says %v, json.Valid says %v", short(text), perr, json.Valid(text))
		return textResult{}
	}
	reason := ""
	switch {
	case perr == errEmpty:
		reason = "empty-input"
	case perr == errEOF:
		reason = "truncated"
	case perr == errTrailing:
		reason = "trailing-data"
	case perr != nil:
		reason = "malformed"
	case !utf8.Valid(text):
		reason = "invalid-utf8"
	case info.Lone:
		reason = "lone-surrogate"
	}
	got, err := canon(text)
	if reason != "" {
		o.Class("rejectable:" + reason)
		o.NonTrivial()
		if err == nil {
			o.Failf("c14n:accepted-"+reason, "text %s is not one complete, validly encoded JSON value (%s) but was canonicalised to %s", short(text), reason, short(got))
		}
		o.Note("%s -> error %v", short(text), err)
		return textResult{}
	}
	res := textResult{valid: true, val: val}
	features(val, o)
	if info.Dup {
		// outside the property's domain (duplicate-free objects): crash check only
		o.Class("duplicate-keys")
		o.Discard()
		return res
	}
	if err != nil {
		switch {
		case hasFFFD(val):
			o.Class("contains-U+FFFD")
			o.Failf("c14n:string-contains-U+FFFD", "valid text %s rejected: %v", short(text), err)
		case anyOutOfRange(val):
			o.Class("number-out-of-float64-range-rejected")
		default:
			o.Failf("c14n:rejected-valid-json", "valid text %s rejected: %v", short(text), err)
		}
		o.Note("%s -> error %v", short(text), err)
		return res
	}
	res.accepted, res.got = true, got
	o.Note("%s -> %s", short(text), short(got))
	content := stripNulls(val)
	var want *canonOut
	if allInModel(val) {
		want = refCanon(content)
	}
	kind := "unknown"
	if want != nil {
		kind = want.kindAt(got)
	}
	// (c) valid UTF-8, one JSON value
	if !utf8.Valid(got) {
		o.Failf("c14n:output-invalid-utf8", "text %s canonicalised to %s, which is not valid UTF-8", short(text), short(got))
		return res
	}
	back, binfo, berr := refParse(got)
	if berr != nil || binfo.Lone || !json.Valid(got) {
		w := ""
		if want != nil {
			w = " (specification gives " + short(want.b) + ")"
		}
		o.Failf("c14n:output-not-json:"+kind, "text %s canonicalised to %s, which is not JSON%s", short(text), short(got), w)
		return res
	}
	// rules 3, 4
	if bad := sortedNoNulls(back); bad != "" {
		o.Failf("c14n:"+bad, "text %s canonicalised to %s: %s", short(text), short(got), bad)
		return res
	}
	// (c) parsing the canonical form gives the content back
	if ok, why := sameContent(content, back); !ok {
		o.Failf("c14n:content-changed:"+why, "text %s canonicalised to %s, which no longer has the same content (%s)", short(text), short(got), why)
		return res
	}
	// (a) byte equality with the specification
	if want != nil && !bytes.Equal(got, want.b) {
		o.Failf("c14n:not-canonical:"+kind, "text %s canonicalised to %s, the specification gives %s", short(text), short(got), short(want.b))
		return res
	}
	// (c) fixpoint
	again, err := canon(got)
	if err != nil || !bytes.Equal(again, got) {
		o.Failf("c14n:not-idempotent", "canonical form %s of %s canonicalises to %s (%v)", short(got), short(text), short(again), err)
		return res
	}
	// same bytes however the reader hands the input over
	if len(text) <= 512 {
		g2, err := c14n.CanonicalJSON(iotest.OneByteReader(bytes.NewReader(text)))
		if err != nil || !bytes.Equal(g2, got) {
			o.Failf("c14n:depends-on-read-chunking", "text %s read one byte at a time gives %s (%v), read at once %s", short(text), short(g2), err, short(got))
		}
	}
	return res
}

func judgeText(c TextCase, o *vh.Obs) {
	if c.Kind != "" {
		o.Class(c.Kind)
	}
	res := checkText(unq(c.TextQ), o)
	if c.Want != "" && !o.Failed() {
		if !res.accepted || string(res.got) != c.Want {
			o.Failf("c14n:documented-example", "text %s gives %s (accepted=%v), the documentation prints %s", c.TextQ, short(res.got), res.accepted, c.Want)
		}
	}
}

// ---------------------------------------------------------------------------
// one value, several renderings (clauses a, b, c)

func judgeValue(c ValueCase, o *vh.Obs) {
	var first []byte
	firstSet := false
	for i, tq := range c.Texts {
		text := unq(tq)
		pv, _, err := refParse(text)
		if err != nil || !sameValue(stripNulls(pv), stripNulls(c.V)) {
			o.Failf("harness:rendering-does-not-denote-value", "rendering %d %s reads back as %+v (%v), rendered from %+v", i, tq, pv, err, c.V)
			return
		}
		sub := &vh.Obs{}
		res := checkText(text, sub)
		if i == 0 {
			*o = *sub // classes, note, verdict of the plain rendering
		} else if f := sub.Failure(); f != nil && !o.Failed() {
			o.Failf(f.Sig, "%s", f.Msg)
		}
		if o.Failed() {
			return
		}
		if !res.accepted {
			continue
		}
		// (b) every rendering of one value gives the same bytes
		if !firstSet {
			first, firstSet = res.got, true
		} else if !bytes.Equal(first, res.got) {
			o.Failf("c14n:depends-on-rendering", "renderings %s and %s of one value give %s and %s", c.Texts[0], tq, short(first), short(res.got))
			return
		}
	}
}

// ---------------------------------------------------------------------------
// different content => different bytes (clause d)

func judgePair(c PairCase, o *vh.Obs) {
	ta, tb := unq(c.TA), unq(c.TB)
	pa, _, ea := refParse(ta)
	pb, _, eb := refParse(tb)
	if ea != nil || eb != nil || !sameValue(stripNulls(pa), stripNulls(c.A)) || !sameValue(stripNulls(pb), stripNulls(c.B)) {
		o.Failf("harness:rendering-does-not-denote-value", "pair texts %s / %s do not read back as the values they were rendered from", c.TA, c.TB)
		return
	}
	if same, _ := sameContent(stripNulls(c.A), stripNulls(c.B)); same {
		o.Discard()
		return
	}
	if !allInModel(c.A) || !allInModel(c.B) {
		o.Discard() // float64 precision is a documented limit of the model
		return
	}
	o.Class("edit:" + c.Edit)
	features(c.A, o)
	o.NonTrivial()
	ca, erra := canon(ta)
	cb, errb := canon(tb)
	if erra != nil || errb != nil {
		if hasFFFD(c.A) || hasFFFD(c.B) {
			o.Failf("c14n:string-contains-U+FFFD", "valid text rejected: %v %v", erra, errb)
			return
		}
		o.Failf("c14n:rejected-valid-json", "valid texts %s / %s rejected: %v / %v", c.TA, c.TB, erra, errb)
		return
	}
	o.Note("%s | %s -> %s | %s", c.TA, c.TB, short(ca), short(cb))
	if bytes.Equal(ca, cb) {
		o.Failf("c14n:different-content-same-bytes", "texts %s and %s differ in content (%s) but share the canonical form %s", c.TA, c.TB, c.Edit, short(ca))
	}
}

// ---------------------------------------------------------------------------
// every code point as a one-character string and key

func u4(r int, upper bool) string {
	if upper {
		return fmt.Sprintf(`\u%04X`, r)
	}
	return fmt.Sprintf(`\u%04x`, r)
}

var shortEsc = map[rune]string{'"': `\"`, '\\': `\\`, '/': `\/`, 8: `\b`, 9: `\t`, 10: `\n`, 12: `\f`, 13: `\r`}

// spellings lists every way JSON allows one code point to be written inside a
// string literal.
func spellings(r rune) []string {
	var out []string
	if r >= 0x20 && r != '"' && r != '\\' {
		out = append(out, string(r))
	}
	if s, ok := shortEsc[r]; ok {
		out = append(out, s)
	}
	if r < 0x10000 {
		out = append(out, u4(int(r), true), u4(int(r), false))
	} else {
		hi, lo := 0xD800+int(r-0x10000)>>10, 0xDC00+int(r-0x10000)&0x3FF
		out = append(out, u4(hi, true)+u4(lo, true), u4(hi, false)+u4(lo, false), u4(hi, true)+u4(lo, false))
	}
	return out
}

func judgeScalar(c ScalarCase, o *vh.Obs) {
	r := rune(c.CP)
	run := func(text string) (textResult, bool) {
		sub := &vh.Obs{}
		res := checkText([]byte(text), sub)
		if f := sub.Failure(); f != nil {
			o.Failf(f.Sig, "U+%04X: %s", c.CP, f.Msg)
			return res, false
		}
		return res, true
	}
	if r >= 0xD800 && r < 0xE000 {
		o.NonTrivial()
		// not a scalar value: can only be written as an escape, and on its own it is not text
		o.Class("lone-surrogate-escape")
		for _, up := range []bool{true, false} {
			e := u4(c.CP, up)
			texts := []string{`"` + e + `"`, `{"` + e + `":1}`, `["a` + e + `b"]`, `"` + e + `\u0041"`, `"` + e + e + `"`}
			if r >= 0xDC00 {
				texts = append(texts, `"`+e+`\uD800"`) // pair in the wrong order
			}
			for _, t := range texts {
				if _, ok := run(t); !ok {
					return
				}
			}
		}
		o.Note("U+%04X rejected in every position", c.CP)
		return
	}
	switch {
	case r == 0xFFFD:
		o.Class("U+FFFD")
	case r < 0x20 || r == 0x7F:
		o.Class("ascii-control")
	case r == '"' || r == '\\':
		o.Class("ascii-escaped")
	case r < 0x80:
		o.Class("ascii") // plain ASCII: the trivial case of the rule
	case r < 0x10000:
		o.Class("bmp")
	default:
		o.Class("astral")
	}
	if r >= 0x80 || r < 0x20 || r == 0x7F || r == '"' || r == '\\' || r == '/' {
		o.NonTrivial()
	}
	want := escapeRef(string(r))
	for _, sp := range spellings(r) {
		for pos, text := range []string{`"` + sp + `"`, `{"` + sp + `":0}`, ` [ "x` + sp + `" ] `} {
			res, ok := run(text)
			if !ok {
				return
			}
			if !res.accepted {
				continue
			}
			exp := want
			switch pos {
			case 1:
				exp = "{" + want + ":0}"
			case 2:
				exp = `["x` + want[1:] + "]"
			}
			if string(res.got) != exp {
				o.Failf("c14n:not-canonical:string", "U+%04X written %s gives %s, the specification gives %s", c.CP, q([]byte(text)), short(res.got), q([]byte(exp)))
				return
			}
		}
	}
	// ordering against keys on either side of every encoding boundary
	keys := []string{"", "\x00", " ", "A", "a", "\x7f", "\u0080", "\u07ff", "\u0800", "\ud7ff", "\ue000", "\ufffc", "\uffff", "\U00010000", "\U0010ffff"}
	var sb bytes.Buffer
	sb.WriteString("{")
	n := 0
	for i := len(keys) - 1; i >= 0; i-- {
		if keys[i] == string(r) {
			continue
		}
		fmt.Fprintf(&sb, "%s:%d,", escapeRef(keys[i]), n)
		n++
		if i == 7 {
			fmt.Fprintf(&sb, "%s:true,", escapeRef(string(r)))
		}
	}
	fmt.Fprintf(&sb, "%s:false}", escapeRef(string(r)+string(r)))
	if _, ok := run(sb.String()); !ok {
		return
	}
	o.Note("U+%04X -> %s", c.CP, q([]byte(want)))
}

func quickScalar(cp, off int) bool {
	if cp < 0x800 {
		return true
	}
	for _, b := range []int{0x800, 0x1000, 0x2028, 0xD7FF, 0xDBFF, 0xDFFF, 0xFDD0, 0xFEFF, 0xFFFD, 0xFFFF, 0x10FFFF} {
		if cp >= b-24 && cp <= b+24 {
			return true
		}
	}
	if cp >= 0x10000 && (cp&0xFFFF < 8 || cp&0xFFFF >= 0xFFF8) {
		return true
	}
	return cp%59 == off
}

func safely(fn func(), o *vh.Obs) {
	defer func() {
		if r := recover(); r != nil {
			site := vh.PanicSite(debug.Stack())
			o.Failf("panic@"+site, "panic: %v (at %s)", r, site)
		}
	}()
	fn()
}

func runScalars(t *testing.T, r *vh.Runner) {
	cfg := vh.Cfg()
	r.DistinctByConstruction()
	off := int(cfg.Seed % 59)
	idx, viol := 0, 0
	complete := true
	for cp := 0; cp <= 0x10FFFF; cp++ {
		if !vh.Thorough() && !quickScalar(cp, off) {
			continue
		}
		idx++
		if cfg.Shards > 1 && idx%cfg.Shards != cfg.Shard {
			continue
		}
		if idx&0xfff == 0 && vh.DeadlinePassed() {
			complete = false
			break
		}
		c := ScalarCase{CP: cp}
		o := &vh.Obs{}
		safely(func() { judgeScalar(c, o) }, o)
		if r.Observe(t, c, o) {
			viol++
			complete = false
			if viol >= 3 {
				break
			}
		}
	}
	r.MarkExhaustive(vh.Thorough() && complete)
}

func replayScalar(raw json.RawMessage, o *vh.Obs) {
	var c ScalarCase
	if err := json.Unmarshal(raw, &c); err != nil {
		panic(err)
	}
	judgeScalar(c, o)
}

// ---------------------------------------------------------------------------
// fixed lists

var valuesNullMembers = []string{
	`{"a":null,"b":1}`, `{"a":1,"b":null}`, `{"a":1,"b":null,"c":2}`, `{"a":null}`, `{"a":null,"b":null}`, `{"b":null,"a":null,"c":[null]}`,
	`{"z":null,"a":{"y":null,"b":[null,{"x":null}]}}`, `[null]`, `[null,null]`, `null`, `{"":null,"a":1}`, `{"a":1,"":null}`, `{"b":1,"a":null}`,
}

var valuesNumbers = []string{
	`0`, `-0`, `1`, `-1`, `9223372036854775807`, `-9223372036854775808`, `9007199254740993`, `-9007199254740993`,
	`0.0`, `-0.0`, `0e0`, `-0E-0`, `0.000`, `1.5`, `-1.5`, `1.50`, `15e-1`, `0.15E+1`, `-15E-1`, `123.4`, `-123.4`, `1e2`, `1E2`, `1.0`, `-1.0`, `100.0`,
	`1e-7`, `-1e-7`, `0.000001234567891234560`, `1.23456789012345e300`, `-1.23456789012345E-300`, `1e+300`, `1E-300`, `[1.5,-1.5,0.1,-0.1,2.5e10,-2.5e-10]`,
	`0.1`, `-0.1`, `3.14159`, `-273.15`, `6.02214076e23`, `1.602176634E-19`, `5e-1`, `-5E1`, `1.0e0`, `10.0`, `1e0`, `1e00`, `1e-00`, `1E+007`,
}

var valuesBeyondModel = []string{
	`1E400`, `-1E400`, `1e309`, `[1e1000]`, `{"a":1e400}`, `1e-400`, `9223372036854775808`, `-9223372036854775809`, `18446744073709551616`, `9999999999999999999`, `-9999999999999999999`, `10000000000000000000`, `[9223372036854775817,-9223372036854775900]`, `{"a":18446744073709551615}`, `-18446744073709551617`,
	`123456789012345678901234567890`, `0.1234567890123456789`, `1.7976931348623157e308`, `1.7976931348623159e308`, `4.9e-324`, `2.2250738585072014e-308`, `1e99999999999`, `0e99999999999`, `1e-99999999999`,
}

var valuesStrings = []string{
	`""`, `"a"`, `"\""`, `"\\"`, `"\/"`, `"/"`, `"\b\f\n\r\t"`, `"\u0008\u000c\u000a\u000d\u0009"`, `"\u0000"`, `"\u001f"`, `"\u001F"`, `"\u007f"`, "\"\x7f\"", `"\u0080"`, `"é"`, `"\u00e9"`, `"\u00E9"`,
	`"\u2028\u2029"`, "\"\u2028\u2029\"", `"<>&"`, `"\u003c\u003e\u0026"`, `"\ud83d\ude00"`, `"\uD83D\uDE00"`, `"😀"`, `"\uffff"`, `"\ufffe"`, `"\ud7ff\ue000"`, `"\udbff\udfff"`, `"\ud800\udc00"`,
	`{"\u00e9":1,"e":2,"\u0065\u0301":3}`, `{"\uff5e":1,"\ud800\udc00":2}`, `{"\ud800\udc00":2,"\uff5e":1}`, `{"b":1,"a":2,"B":3,"A":4,"":5,"aa":6,"a b":7,"10":8,"9":9}`, `{"\n":1,"\u0000":2," ":3,"\"":4,"\\":5}`,
	`{"a\u0000":1,"a":2}`, `"\\u0041"`, `"\\\u0041"`, `"\ufffd"`, "\"\ufffd\"", `{"\ufffd":1}`, `{"\ufffd":null}`, `["a","\ufffd"]`,
}

var valuesStructure = []string{
	`[]`, `{}`, `[[]]`, `[{}]`, `{"a":[]}`, `{"a":{}}`, `[[[[[[1]]]]]]`, `{"a":{"b":{"c":{"d":{"e":{"f":1}}}}}}`, ` [ 1 , 2 ] `, "\t{\n\"a\"\r:\t1\n}\r\n", `true`, `false`, `[true,false,null]`, ` 1 `, "\n\"a\"\n",
	`{"b":[{"d":1,"c":2},{"f":null,"e":[]}],"a":{"z":{},"y":[{}]}}`,
}

var malformedEmpty = []string{``, ` `, "\n", "\t\r\n ", "  \n  "}

var malformedTruncated = []string{
	`[`, `{`, `"`, `"a`, `"\`, `"\u`, `"\u00`, `"\ud83d`, `"\ud83d\`, `"\ud83d\ude0`, `[1`, `[1,`, `[1,2`, `[[1]`, `{"a"`, `{"a":`, `{"a":1`, `{"a":1,`, `{"a":1,"b"`, `{"a":{"b":2}`, `[{"a":1}`, `t`, `tr`, `tru`, `f`, `fals`, `n`, `nul`, `-`, `1.`, `1e`, `1e+`, `1E-`, `-0.`, `[1, `, `{"a":null`, `{"a":null,`, `[null`, ` [`, `{ `,
}

var malformedTrailing = []string{
	`1 2`, `[1]]`, `{}}`, `[1] [2]`, `{} {}`, `"a" "b"`, `null null`, `true,`, `1,`, `[1],`, `{"a":1},`, `[]]`, `{}]`, `[]}`, `1 x`, `{"a":1} x`, `[1]x`, `"a"x`, `nullx`, `1}`, `1]`, `{"a":1}:`, `0 0`, `00`, `01`, `-01`, `1.5.2`, `[1]"`, `{}"a"`, `1"`, `[] []`, "[]\x00", "1\x00", "{}\v", "[]\f", "1\u00a0", "[] \ufeff",
}

var malformedSyntax = []string{
	`]`, `}`, `,`, `:`, `[,]`, `[1,]`, `[,1]`, `[1 2]`, `[1:2]`, `{,}`, `{"a"}`, `{"a",1}`, `{"a":}`, `{"a":1,}`, `{,"a":1}`, `{"a" 1}`, `{"a"::1}`, `{a:1}`, `{1:2}`, `{null:1}`, `{"a":1 "b":2}`, `{"a":1,,"b":2}`, `[1,,2]`, `[}`, `{]`, `[1}`, `{"a":1]`,
	`+1`, `.5`, `1.e5`, `1e5.5`, `0x10`, `1_000`, `--1`, `-a`, `- 1`, `Infinity`, `NaN`, `-Infinity`, `True`, `NULL`, `nil`, `undefined`, `'a'`, `"a\x"`, `"\a"`, `"\u00g0"`, `"\U00000041"`, "\"a\nb\"", "\"\t\"", "\"\x00\"", "\"\x1f\"", `[1] // c`, `/* c */ 1`, `[1,2,3,]`, "\ufeff{}", "\ufeff1", "\x00", "\xef\xbb\xbf[]", `{"a":tru}`, `[nul]`, `[-]`, `{"a":-}`, `\u0031`, `"a` + "\n",
}

var malformedEncoding = []string{
	"\"\xff\"", "\"a\xffb\"", "\"\xc0\xaf\"", "\"\xe2\x82\"", "\"\x80\"", "\"\xed\xa0\x80\"", "\"\xf4\x90\x80\x80\"", "\"\xf8\x88\x80\x80\x80\"", "{\"\xff\":1}", "{\"a\":\"\xff\"}", "[\"\xff\"]", "{\"\xff\":null}", "{\"a\":null,\"\xc3\":null}", "[{\"\x80\":null}]",
	"\"\xc3\"", "\"\xc3\xa9\xc3\"", "\xff", "[\xff]", "\"\xe0\x80\x80\"", "\"\xf0\x80\x80\x80\"", "\"\xfe\"", "\"\xef\xbf\"",
	`"\ud800"`, `"\udc00"`, `"\udfff"`, `"\udbff"`, `"\ud800a"`, `"a\ud800"`, `"\ud800\u0041"`, `"\ud800\ud800"`, `"\udc00\ud800"`, `"\ud800\n"`, `"\ud800\\udc00"`, `{"\ud800":1}`, `{"\ud800":null}`, `{"a":"\udc00"}`, `["\ud800"]`, `{"a":null,"\udfff":null}`, `"\uD800\uD800\uDC00"`, `"\uD800\uDC00\uDC00"`, `"\ud83d\ude00\ude00"`,
}

// texts whose every proper prefix (and every one-token continuation) is tried
var prefixCorpus = []string{
	`{"a":null,"b":[1,-2.5e3,"x\n\u00e9\ud83d\ude00",true,false,null,{}],"c":{"d":{"e":[[],[[]]]}}}`,
	` { "k" : [ 1 , 2 ] , "l" : "\\\"" } `, `[-0.0,0,-0,1E+2,1.25e-7,100]`, `"plain \u00e9 \ud83d\ude00 \t end"`, `-12.5e+10`, `null`, `true`, `false`, `0`, `[]`, `{}`, `""`, `12`,
	"[\"\u00e9\",\"\U0001F600\",\"\u20ac\"]", `{"":"","\u0000":"\u001f"}`, `[[[[[[[]]]]]]]`, `{"a":{"a":{"a":{"a":{"a":{"a":null}}}}}}`, "[1,\n2,\r\n3\t]\n",
}

var trailers = []string{`]`, `}`, `,`, `:`, `1`, `0`, `null`, `true`, `"x"`, `{}`, `[]`, `[`, `{`, `"`, `x`, `-`, `.5`, `e1`, "\x00", "\xff", `\`, `/`}

func enumList(kind string, list []string) func(yield func(TextCase) bool) {
	return func(yield func(TextCase) bool) {
		if vh.Cfg().Shard != 0 {
			return
		}
		for _, s := range list {
			if !yield(TextCase{TextQ: q([]byte(s)), Kind: kind}) {
				return
			}
		}
	}
}

func enumPrefixes(yield func(TextCase) bool) {
	if vh.Cfg().Shard != 0 {
		return
	}
	for _, s := range prefixCorpus {
		for i := 0; i < len(s); i++ {
			if !yield(TextCase{TextQ: q([]byte(s[:i])), Kind: "prefix"}) {
				return
			}
		}
	}
}

func enumTrailers(yield func(TextCase) bool) {
	if vh.Cfg().Shard != 0 {
		return
	}
	for _, s := range prefixCorpus {
		for _, tr := range trailers {
			for _, sep := range []string{"", " ", "\n"} {
				if !yield(TextCase{TextQ: q([]byte(s + sep + tr)), Kind: "trailing-token"}) {
					return
				}
			}
		}
	}
}

const readmeIn = `{ "foo":"bar", "c": 123.4, "a": 56, "b": 0.0, "y":null}`
const readmeOut = `{"a":56,"b":0.0E0,"c":1.234E2,"foo":"bar"}`

func enumDocumented(yield func(TextCase) bool) {
	if vh.Cfg().Shard != 0 {
		return
	}
	// README usage example; float examples asserted by the package's own tests
	for _, p := range [][2]string{{readmeIn, readmeOut}, {`1.0`, `1.0E0`}, {`123.5`, `1.235E2`}, {`123456789123456.0`, `1.23456789123456E14`}, {`0.00000123456789123456`, `1.23456789123456E-6`}, {`1.23456789123456e-110`, `1.23456789123456E-110`}} {
		if !yield(TextCase{TextQ: q([]byte(p[0])), Want: p[1], Kind: "documented-example"}) {
			return
		}
	}
}

// ---------------------------------------------------------------------------
// native fuzzing

var fuzzCanonical func(t *testing.T, c TextCase)

func judgeFuzz(c TextCase, o *vh.Obs) {
	checkText(unq(c.TextQ), o)
}

func FuzzCanonical(f *testing.F) {
	for _, l := range [][]string{valuesNullMembers, valuesNumbers, valuesBeyondModel, valuesStrings, valuesStructure, malformedEmpty, malformedTruncated, malformedTrailing, malformedSyntax, malformedEncoding, prefixCorpus} {
		for _, s := range l {
			f.Add([]byte(s))
		}
	}
	f.Fuzz(func(t *testing.T, data []byte) {
		if len(data) > 8192 {
			return
		}
		fuzzCanonical(t, TextCase{TextQ: q(data)})
	})
}

func init() {
	vh.Describe(
		"Logical JSON values (depth <= 6; objects with unique keys that are empty, ASCII, non-ASCII, escape-needing, or ordered differently by UTF-16 unit and by code point; strings over controls, quotes, BMP, astral and boundary code points; integers over all of int64; decimals of either sign with <= 15 significant digits and exponents -300..300; nulls in objects and arrays) are each rendered to text three ways (member order, whitespace, literal / short / \\uXXXX / surrogate-pair escapes in either hex case, null members removed or added, decimal spellings such as 1.5 / 1.50 / 15e-1 / 0.15E+1) and every text is canonicalised. Expected bytes come from an independent canonical writer following c14n/README.md rules 1-8 (code point order, null members removed, integers plain, other numbers d.dE[-]x, minimal escapes); all renderings must agree; the output must be valid UTF-8 JSON, sorted, a fixpoint, and read back (by an independent strict reader) as the content minus null members; one-leaf edits must change the bytes. Malformed texts (empty, blank, every proper prefix of a corpus and random prefixes, trailing tokens, stray closers, deleted / replaced bytes, invalid UTF-8, lone surrogate escapes) must give an error: the referee is encoding/json's json.Valid AND valid UTF-8 AND no unpaired surrogate escape. Every Unicode scalar value (quick: U+0000-U+07FF, windows at every encoding boundary and plane edge, every 59th code point) is tried as a one-character string and key in every spelling, and every surrogate code point as a lone escape. Non-trivial: the value has a non-ASCII key, an escape-needing string, a negative or non-integer number, a null member or nesting >= 3, or the text is malformed (own class), or the code point is not plain ASCII.",
		"a number is an integer when its literal has no fraction or exponent and fits int64; any other spelling is written in exponent form (README usage example: 0.0 -> 0.0E0; the package's tests: 1.0 -> 1.0E0). No equivalence between 1 and 1.0 is asserted",
		"zero in a non-integer spelling is 0.0E0 whatever its sign (README rule 6.1: no minus sign when the value is zero; rule 7.1 cannot apply)",
		"decimals with more than 15 significant digits, exponents beyond +-300 and integer literals beyond int64 are checked for crashes, valid output, fixpoint and for being written as the float64 nearest to the literal (float64 is the documented model: sign and magnitude survive); numbers beyond float64 range may be rejected",
		"objects with duplicate keys are outside the property (crash check only)",
		"a text containing invalid UTF-8 or an unpaired \\uD800-\\uDFFF escape is not an acceptable document (README rules 1 and 8.3) wherever the bytes sit, including the key of a null member",
	)
	vh.Enum("documented_examples", enumDocumented, judgeText)
	vh.Enum("fixed_null_members", enumList("fixed-null-members", valuesNullMembers), judgeText)
	vh.Enum("fixed_numbers", enumList("fixed-numbers", valuesNumbers), judgeText)
	vh.Enum("fixed_beyond_model", enumList("fixed-beyond-model", valuesBeyondModel), judgeText)
	vh.Enum("fixed_strings", enumList("fixed-strings", valuesStrings), judgeText)
	vh.Enum("fixed_structure", enumList("fixed-structure", valuesStructure), judgeText)
	vh.Enum("malformed_empty", enumList("fixed-empty", malformedEmpty), judgeText)
	vh.Enum("malformed_truncated", enumList("fixed-truncated", malformedTruncated), judgeText)
	vh.Enum("malformed_trailing", enumList("fixed-trailing", malformedTrailing), judgeText)
	vh.Enum("malformed_syntax", enumList("fixed-syntax", malformedSyntax), judgeText)
	vh.Enum("malformed_encoding", enumList("fixed-encoding", malformedEncoding), judgeText)
	vh.Enum("prefixes", enumPrefixes, judgeText)
	vh.Enum("trailing_tokens", enumTrailers, judgeText)
	vh.Custom("scalars", runScalars, replayScalar)
	vh.Rapid("values", 150_000, 12_800_000, genValueCase, judgeValue)
	vh.Rapid("malformed", 80_000, 6_400_000, genMalformed, judgeText)
	vh.Rapid("injective", 50_000, 4_800_000, genPairCase, judgePair)
	fuzzCanonical = vh.FuzzTarget("FuzzCanonical", judgeFuzz)
}
