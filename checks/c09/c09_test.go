// Package c09 decides property C09: signature verification accepts exactly
// what was signed, on every path (library, command line, bulk, HTTP).
package c09

import (
	"bytes"
	"context"
	"encoding/json"
	"fmt"
	"reflect"
	"sort"
	"strings"
	"testing"

	"github.com/invopop/gobl"
	"github.com/invopop/gobl/bill"
	"github.com/invopop/gobl/cbc"
	"github.com/invopop/gobl/dsig"
	"github.com/invopop/gobl/head"
	"github.com/invopop/gobl/internal/cli"
	"github.com/invopop/gobl/num"
	"github.com/invopop/gobl/org"
	"github.com/invopop/gobl/schema"
	"github.com/invopop/gobl/uuid"
	"github.com/invopop/gobl/verifharness/internal/corpus"
	"github.com/invopop/gobl/verifharness/internal/goblexec"
	"github.com/invopop/gobl/verifharness/internal/vh"
	"pgregory.net/rapid"
)

func TestMain(m *testing.M) { vh.Main(m, "C09") }

func TestAll(t *testing.T) { vh.RunAll(t) }

// three keys; which bytes they hold is irrelevant, only their identity matters
var keys = []*dsig.PrivateKey{dsig.NewES256Key(), dsig.NewES256Key(), dsig.NewES256Key()}

// Action is one step of a history.
type Action struct {
	Kind string `json:"kind"`
	Key  int    `json:"key,omitempty"`
	Arg  string `json:"arg,omitempty"`
	Val  string `json:"val,omitempty"`
	// Extra: title of a link ("T2" also sets its MIME type)
	Extra string `json:"extra,omitempty"`
}

// Case is a history followed by a verification with one presented key.
type Case struct {
	Doc     string   `json:"doc"`
	Actions []Action `json:"actions"`
	Present int      `json:"present"`
	// PresentForm: how the presented public key is written: "" as generated,
	// "no-kid" the same key material as a JWK without the optional key id
	PresentForm string `json:"present_form,omitempty"`
	Exec        bool   `json:"exec"` // also through the executable and the HTTP server
	// Text: how the serialised envelope is written for the entry points that
	// take text: "" as json.Marshal writes it, "escaped" every string and member
	// name as \uXXXX escapes (surrogate pairs above the basic plane, which is
	// how ASCII-only encoders write them), "spaced" with blanks and line breaks
	// between all tokens, "raw" compact with nothing escaped that need not be, "dup-null" as written
	// but with one member of the document repeated with the value null (what
	// is read then differs from what was signed). With a form the header notes hold characters outside
	// the basic plane before the history starts.
	Text string `json:"text,omitempty"`
}

// dupNull appends a second, null occurrence of a member the document has to
// the document of a compactly serialised envelope.
func dupNull(data []byte) ([]byte, string, bool) {
	var env map[string]json.RawMessage
	if err := json.Unmarshal(data, &env); err != nil {
		return nil, "", false
	}
	var doc map[string]json.RawMessage
	raw := bytes.TrimSpace(env["doc"])
	if err := json.Unmarshal(raw, &doc); err != nil || len(raw) < 2 || raw[len(raw)-1] != '}' {
		return nil, "", false
	}
	for _, m := range []string{"payment", "notes", "ordering", "delivery", "discounts", "charges", "preceding", "customer", "meta"} {
		if v, ok := doc[m]; ok && string(v) != "null" {
			nd := append(append([]byte{}, raw[:len(raw)-1]...), []byte(`,"`+m+`":null}`)...)
			var sb bytes.Buffer
			sb.WriteByte('{')
			first := true
			for _, k := range []string{"$schema", "head", "doc", "sigs"} {
				v, ok := env[k]
				if !ok {
					continue
				}
				if k == "doc" {
					v = nd
				}
				if !first {
					sb.WriteByte(',')
				}
				first = false
				kb, _ := json.Marshal(k)
				sb.Write(kb)
				sb.WriteByte(':')
				sb.Write(v)
			}
			sb.WriteByte('}')
			return sb.Bytes(), m, true
		}
	}
	return nil, "", false
}

// rewrite serialises the same JSON value in another textual form.
func rewrite(data []byte, form string) ([]byte, error) {
	dec := json.NewDecoder(bytes.NewReader(data))
	dec.UseNumber()
	var tree any
	if err := dec.Decode(&tree); err != nil {
		return nil, err
	}
	var sb strings.Builder
	sp := func() {
		if form == "spaced" {
			sb.WriteString("\n  ")
		}
	}
	str := func(v string) {
		if form != "escaped" {
			// minimal escaping: everything above the controls is written as it is
			// (encoding/json would escape U+2028 and U+2029)
			sb.WriteByte('"')
			for _, r := range v {
				switch {
				case r == '"' || r == '\\':
					sb.WriteByte('\\')
					sb.WriteRune(r)
				case r < 0x20:
					fmt.Fprintf(&sb, `\u%04x`, r)
				default:
					sb.WriteRune(r)
				}
			}
			sb.WriteByte('"')
			return
		}
		sb.WriteByte('"')
		for _, r := range v {
			if r < 0x10000 {
				fmt.Fprintf(&sb, `\u%04x`, r)
			} else {
				r -= 0x10000
				fmt.Fprintf(&sb, `\ud%03x\ud%03x`, 0x800+(r>>10), 0xc00+(r&0x3ff))
			}
		}
		sb.WriteByte('"')
	}
	var walk func(v any)
	walk = func(v any) {
		switch t := v.(type) {
		case map[string]any:
			ks := make([]string, 0, len(t))
			for k := range t {
				ks = append(ks, k)
			}
			sort.Strings(ks)
			sb.WriteByte('{')
			for i, k := range ks {
				if i > 0 {
					sb.WriteByte(',')
				}
				sp()
				str(k)
				sp()
				sb.WriteByte(':')
				sp()
				walk(t[k])
			}
			sp()
			sb.WriteByte('}')
		case []any:
			sb.WriteByte('[')
			for i, x := range t {
				if i > 0 {
					sb.WriteByte(',')
				}
				sp()
				walk(x)
			}
			sp()
			sb.WriteByte(']')
		case string:
			str(t)
		default:
			out, _ := json.Marshal(t)
			sb.Write(out)
		}
	}
	walk(tree)
	out := []byte(sb.String())
	if !json.Valid(out) {
		return nil, fmt.Errorf("rewrite produced invalid JSON")
	}
	return out, nil
}

var invoiceDocs []corpus.Doc

func loadDocs() {
	if invoiceDocs != nil {
		return
	}
	for _, d := range corpus.Invoices() {
		env, err := d.Envelope()
		if err != nil || env.Validate() != nil {
			continue
		}
		inv, ok := env.Extract().(*bill.Invoice)
		if !ok || inv.Code == "" || len(inv.Lines) == 0 {
			continue
		}
		invoiceDocs = append(invoiceDocs, d)
	}
	if len(invoiceDocs) == 0 {
		panic("c09: no signable invoices in the corpus")
	}
}

func docByPath(p string) *corpus.Doc {
	loadDocs()
	for i := range invoiceDocs {
		if invoiceDocs[i].Path == p {
			return &invoiceDocs[i]
		}
	}
	return nil
}

// signedHeader is the model's record of one signature.
type signedHeader struct {
	key  int
	head map[string]any // JSON of the header at signing time
}

func headerJSON(h *head.Header) map[string]any {
	data, _ := json.Marshal(h)
	var m map[string]any
	_ = json.Unmarshal(data, &m)
	return m
}

func asList(v any) []any { a, _ := v.([]any); return a }
func asMap(v any) map[string]any {
	m, _ := v.(map[string]any)
	return m
}

// contains is the reference containment relation over the seven compared
// fields, written from the property statement: identifier and digest equal,
// every signed stamp / link / tag / meta entry still present with the same
// value, signed notes unchanged.
func contains(cur, signed map[string]any) (bool, string) {
	if fmt.Sprint(cur["uuid"]) != fmt.Sprint(signed["uuid"]) {
		return false, "uuid"
	}
	// what was signed vouches for a document only through its digest: a signed
	// payload that names none vouches for nothing
	if signed["dig"] == nil {
		return false, "dig"
	}
	{
		a, _ := json.Marshal(cur["dig"])
		b, _ := json.Marshal(signed["dig"])
		if !bytes.Equal(a, b) {
			return false, "dig"
		}
	}
	for _, s := range asList(signed["stamps"]) {
		sm := asMap(s)
		found := false
		for _, c := range asList(cur["stamps"]) {
			cm := asMap(c)
			if cm["prv"] == sm["prv"] && cm["val"] == sm["val"] {
				found = true
			}
		}
		if !found {
			return false, "stamps"
		}
	}
	for _, s := range asList(signed["links"]) {
		sm := asMap(s)
		found := false
		for _, c := range asList(cur["links"]) {
			cm := asMap(c)
			if reflect.DeepEqual(cm, sm) {
				found = true
			}
		}
		if !found {
			return false, "links"
		}
	}
	for _, s := range asList(signed["tags"]) {
		found := false
		for _, c := range asList(cur["tags"]) {
			if c == s {
				found = true
			}
		}
		if !found {
			return false, "tags"
		}
	}
	for k, v := range asMap(signed["meta"]) {
		if cv, ok := asMap(cur["meta"])[k]; !ok || cv != v {
			return false, "meta"
		}
	}
	if n, _ := signed["notes"].(string); n != "" && cur["notes"] != n {
		return false, "notes"
	}
	return true, ""
}

func judge(c Case, o *vh.Obs) {
	d := docByPath(c.Doc)
	if d == nil || c.Present < 0 || c.Present >= len(keys) {
		o.Discard()
		return
	}
	env, err := d.Envelope()
	if err != nil {
		o.Discard()
		return
	}
	if c.Text != "" {
		o.Class("text-" + c.Text)
		// characters outside the basic plane, and the three that YAML (not JSON)
		// reads as line breaks
		env.Head.Notes = "Smile \U0001F600 \U0001D11E next\u0085line\u2028sep\u2029par " + env.Head.Notes
	}
	var sigs []signedHeader
	tamperedAfterSign, recalculated, headerBroken := false, false, false
	digestStale := false // the document was edited and not calculated again since
	for _, a := range c.Actions {
		o.Class("act-" + a.Kind)
		switch a.Kind {
		case "sign":
			if a.Key < 0 || a.Key >= len(keys) {
				o.Discard()
				return
			}
			snapshot := headerJSON(env.Head)
			if err := env.Sign(keys[a.Key]); err != nil {
				sigs = nil // a failed signing leaves the envelope unsigned
				if len(env.Signatures) != 0 {
					o.Failf("sign:failed-but-signed", "Sign failed (%v) yet %d signatures remain", err, len(env.Signatures))
					return
				}
			} else {
				sigs = append(sigs, signedHeader{key: a.Key, head: snapshot})
			}
		case "sign-bare-uuid":
			// the key holder signs something else that merely names this envelope's
			// identifier (no digest); the result is put among the signatures
			if a.Key < 0 || a.Key >= len(keys) {
				o.Discard()
				return
			}
			bare := map[string]any{"uuid": env.Head.UUID.String()}
			sg, err := dsig.NewSignature(keys[a.Key], bare)
			if err != nil {
				o.Discard()
				return
			}
			env.Signatures = append(env.Signatures, sg)
			sigs = append(sigs, signedHeader{key: a.Key, head: bare})
		case "unsign":
			env.Unsign()
			sigs = nil
		case "add-stamp":
			if len(sigs) > 0 { // stamps are only accepted on signed envelopes
				var beforeStamps []head.Stamp
				for _, x := range env.Head.Stamps {
					if x != nil && x.Provider != cbc.Key(a.Arg) {
						beforeStamps = append(beforeStamps, *x)
					}
				}
				env.Head.AddStamp(&head.Stamp{Provider: cbc.Key(a.Arg), Value: a.Val})
				for _, b := range beforeStamps {
					found := false
					for _, x := range env.Head.Stamps {
						if x != nil && *x == b {
							found = true
						}
					}
					if !found {
						o.Failf("header:add-stamp-disturbed-another", "adding the stamp %q changed or removed the stamp %q that was in the header (%s)", a.Arg, b.Provider, describe(c))
						return
					}
				}
			}
		case "add-link":
			l := &head.Link{Key: cbc.Key(a.Arg), URL: "https://example.com/" + a.Val, Title: a.Extra}
			if a.Extra == "T2" {
				l.MIME = "application/pdf"
			}
			// adding an entry leaves the others as they are: every link under
			// another key is still there, unchanged
			var beforeLinks []head.Link
			for _, x := range env.Head.Links {
				if x != nil && x.Key != l.Key {
					beforeLinks = append(beforeLinks, *x)
				}
			}
			env.Head.AddLink(l)
			for _, b := range beforeLinks {
				found := false
				for _, x := range env.Head.Links {
					if x != nil && *x == b {
						found = true
					}
				}
				if !found {
					o.Failf("header:add-link-disturbed-another", "adding the link %q (%s) changed or removed the link %q (%s) that was in the header (%s)", l.Key, l.URL, b.Key, b.URL, describe(c))
					return
				}
			}
		case "retitle-link":
			if len(env.Head.Links) > 0 {
				l := env.Head.Links[len(env.Head.Links)-1]
				switch a.Arg {
				case "title":
					l.Title = a.Val
				case "description":
					l.Description = a.Val
				default:
					l.MIME = "text/" + a.Val
				}
			}
		case "remove-meta":
			delete(env.Head.Meta, cbc.Key(a.Arg))
		case "add-tag":
			env.Head.Tags = append(env.Head.Tags, a.Arg)
		case "set-meta":
			if env.Head.Meta == nil {
				env.Head.Meta = cbc.Meta{}
			}
			env.Head.Meta[cbc.Key(a.Arg)] = a.Val
		case "extend-notes":
			// the notes keep their text and gain some before or after it
			if a.Arg == "before" {
				env.Head.Notes = a.Val + env.Head.Notes
			} else {
				env.Head.Notes += a.Val
			}
		case "set-notes":
			env.Head.Notes = a.Val
		case "alter-schema":
			// the envelope's own schema identifier is not covered by the signature
			// and decides nothing: every check stays as it is
			env.Schema = schema.ID("https://gobl.org/draft-" + a.Val + "/envelope")
		case "alter-uuid":
			env.Head.UUID = uuid.MustParse("0190f3a1-7c2b-7000-8000-0000000000" + a.Val)
		case "alter-digest":
			if env.Head.Digest != nil {
				dg := *env.Head.Digest
				dg.Value = strings.Repeat(a.Val, 32)
				env.Head.Digest = &dg
			}
		case "remove-tag":
			if len(env.Head.Tags) > 0 {
				env.Head.Tags = env.Head.Tags[1:]
			}
		case "remove-stamp":
			if len(env.Head.Stamps) > 0 {
				env.Head.Stamps = env.Head.Stamps[1:]
			}
		case "remove-link":
			if len(env.Head.Links) > 0 {
				env.Head.Links = env.Head.Links[1:]
			}
		case "edit-doc", "edit-doc-recalc":
			inv, ok := env.Extract().(*bill.Invoice)
			if !ok || len(inv.Lines) == 0 {
				o.Discard()
				return
			}
			if a.Arg == "note" {
				inv.Notes = append(inv.Notes, &org.Note{Text: "changed " + a.Val})
			} else {
				inv.Lines[0].Quantity = inv.Lines[0].Quantity.Add(num.MakeAmount(1, 0))
			}
			if len(sigs) > 0 {
				tamperedAfterSign = true
			}
			digestStale = true
			if a.Kind == "edit-doc-recalc" {
				if err := env.Calculate(); err != nil {
					o.Class("recalc-error")
					o.Discard()
					return
				}
				digestStale = false
				if len(sigs) > 0 {
					recalculated = true
				}
			}
		case "reparse":
			data, err := json.Marshal(env)
			if err != nil {
				o.Failf("reparse:marshal", "%v", err)
				return
			}
			e2 := new(gobl.Envelope)
			if err := json.Unmarshal(data, e2); err != nil {
				o.Failf("reparse:unmarshal", "serialised envelope does not parse: %v", err)
				return
			}
			env = e2
		default:
			o.Discard()
			return
		}
	}

	// model verdicts
	cur := headerJSON(env.Head)
	expectLib := len(sigs) > 0
	why := ""
	if len(sigs) == 0 {
		why = "unsigned"
	}
	for i, s := range sigs {
		if s.key != c.Present {
			expectLib = false
			why = fmt.Sprintf("signature %d was made with key %d, key %d presented", i, s.key, c.Present)
			o.Class("wrong-key")
			continue
		}
		if ok, field := contains(cur, s.head); !ok {
			expectLib = false
			headerBroken = true
			why = fmt.Sprintf("signed %s no longer contained in the header", field)
			o.Class("broken-" + field)
		}
	}
	// without keys only the contents are compared: every signed header must
	// still be contained, whoever signed
	expectNoKey := len(sigs) > 0
	for _, s := range sigs {
		if ok, _ := contains(cur, s.head); !ok {
			expectNoKey = false
		}
	}
	if len(env.Signatures) != len(sigs) {
		o.Failf("model:signature-count", "envelope carries %d signatures, history implies %d", len(env.Signatures), len(sigs))
		return
	}
	if len(sigs) > 0 {
		o.NonTrivial()
	}
	if tamperedAfterSign && recalculated {
		o.Class("tampered+recalculated+original-signature")
	}
	if expectLib {
		o.Class("expect-accept")
	} else {
		o.Class("expect-reject")
	}
	pub := keys[c.Present].Public()
	if c.PresentForm == "no-kid" {
		o.Class("key-without-kid")
		data, _ := json.Marshal(pub)
		var m map[string]any
		_ = json.Unmarshal(data, &m)
		delete(m, "kid")
		data, _ = json.Marshal(m)
		k2 := new(dsig.PublicKey)
		if err := json.Unmarshal(data, k2); err != nil {
			o.Discard()
			return
		}
		pub = k2
	}

	// (1) library
	got := env.Verify(pub) == nil
	if got != expectLib {
		o.Failf(verdictSig("library", got), "Envelope.Verify = %v, expected %v (%s) after %s", got, expectLib, why, describe(c))
		return
	}
	for i, s := range env.Signatures {
		e := sigs[i].key == c.Present
		if e {
			e, _ = contains(cur, sigs[i].head)
		}
		if g := env.VerifySignature(s, pub) == nil; g != e {
			o.Failf(verdictSig("library-single", g), "VerifySignature(#%d) = %v, expected %v after %s", i, g, e, describe(c))
			return
		}
	}
	// (1a) no keys presented: the contents alone decide
	if got := env.Verify() == nil; got != expectNoKey {
		o.Failf(verdictSig("library-keyless", got), "Envelope.Verify() without keys = %v, expected %v after %s", got, expectNoKey, describe(c))
		return
	}
	for i, sg := range env.Signatures {
		e, _ := contains(cur, sigs[i].head)
		if g := env.VerifySignature(sg) == nil; g != e {
			o.Failf(verdictSig("library-single-keyless", g), "VerifySignature(#%d) without keys = %v, expected %v after %s", i, g, e, describe(c))
			return
		}
	}
	// (1b) a different key pair that merely carries the signer's key id must be
	// refused by the same in-memory envelope that has just verified with the real key
	if expectLib && c.PresentForm == "" {
		other := keys[(c.Present+1)%len(keys)].Public()
		data, _ := json.Marshal(other)
		var m map[string]any
		_ = json.Unmarshal(data, &m)
		m["kid"] = pub.ID()
		data, _ = json.Marshal(m)
		impostor := new(dsig.PublicKey)
		if err := json.Unmarshal(data, impostor); err == nil {
			o.Class("kid-collision-probe")
			if env.Verify(impostor) == nil {
				o.Failf("verify:library:accepted-other-key-with-same-kid", "after verifying with the signer's key, Envelope.Verify accepts a different key pair that carries the signer's key id (%s)", describe(c))
				return
			}
			for i, sg := range env.Signatures {
				if env.VerifySignature(sg, impostor) == nil {
					o.Failf("verify:library-single:accepted-other-key-with-same-kid", "VerifySignature(#%d) accepts a different key pair that carries the signer's key id (%s)", i, describe(c))
					return
				}
			}
			// and the real key still verifies afterwards
			if env.Verify(pub) != nil {
				o.Failf("verify:library:rejected-signed-content", "the signer's key no longer verifies after a failed attempt with another key (%s)", describe(c))
				return
			}
		}
	}
	// (2) command-line paths additionally require the envelope to validate
	valid := env.Validate() == nil
	if digestStale && valid {
		// the digest in the header is the one link between the signed header and
		// the document: a document edited without recalculation must not validate
		o.Failf("validate:accepted-stale-digest", "Envelope.Validate accepts an envelope whose document was edited after its digest was taken (%s)", describe(c))
		return
	}
	if digestStale {
		// edited without recalculation: whatever Validate says, the text entry
		// points must not report success for this document
		o.Class("stale-digest")
	}
	expectCLI := expectLib && valid && !digestStale
	if !valid {
		o.Class("envelope-invalid")
	}
	data, err := json.Marshal(env)
	if err != nil {
		o.Failf("marshal", "%v", err)
		return
	}
	if c.Text == "dup-null" {
		// the text as signed, with one member of the document written a second
		// time as null: the last occurrence wins when it is read, so the document
		// that was read lacks something the signer signed, while a canonical form
		// taken from the text itself would not show it
		nd, member, ok := dupNull(data)
		if digestStale {
			// the null could undo the very edit that made the digest stale
			ok = false
		}
		if !ok {
			o.Class("dup-null:no-member")
			o.Discard()
			return
		}
		data = nd
		if expectCLI {
			o.NonTrivial()
		}
		expectCLI = false
		why = "member " + member + " of the signed document is overridden by a second, null occurrence"
	} else if c.Text != "" {
		if data, err = rewrite(data, c.Text); err != nil {
			o.Failf("harness:rewrite", "%v", err)
			return
		}
		// the library reading the same text
		env2 := new(gobl.Envelope)
		if err := json.Unmarshal(data, env2); err != nil {
			o.Failf("verify:library-text:unreadable", "the %s text of the envelope does not parse: %v", c.Text, err)
			return
		}
		if got := env2.Verify(pub) == nil; got != expectLib {
			o.Failf(verdictSig("library-text", got), "Envelope.Verify of the %s text = %v, expected %v (%s) after %s", c.Text, got, expectLib, why, describe(c))
			return
		}
	}
	got = cli.Verify(context.Background(), bytes.NewReader(data), pub) == nil
	if got != expectCLI {
		o.Failf(verdictSig("cli", got), "cli.Verify = %v, expected %v (%s; envelope valid=%v) after %s", got, expectCLI, why, valid, describe(c))
		return
	}
	// (3) bulk verify, in process
	if got := bulkVerify(data, pub, o); got != expectCLI && !o.Failed() {
		o.Failf(verdictSig("bulk", got), "bulk verify = %v, expected %v (%s) after %s", got, expectCLI, why, describe(c))
		return
	}
	// (4) the executable and the HTTP server
	if c.Exec && goblexec.Available() && !o.Failed() {
		o.Class("exec+http")
		in := goblexec.WriteTemp("env.json", data)
		res, err := goblexec.Run(nil, "verify", "-k", goblexec.PublicKeyFile(pub), in)
		if err != nil {
			o.Failf("harness:exec", "cannot run gobl verify: %v", err)
			return
		}
		if got := res.ExitCode == 0; got != expectCLI {
			o.Failf(verdictSig("exec", got), "`gobl verify` exit %d (%s), expected accept=%v (%s) after %s", res.ExitCode, strings.TrimSpace(string(res.Stderr)), expectCLI, why, describe(c))
			return
		}
		srv, err := goblexec.Serve(keys[0])
		if err != nil {
			o.Failf("harness:serve", "cannot start gobl serve: %v", err)
			return
		}
		body, _ := json.Marshal(map[string]any{"data": data, "publickey": pub})
		status, _, err := srv.Post("/verify", body)
		if err != nil {
			o.Failf("harness:http", "POST /verify: %v", err)
			return
		}
		if got := status == 200; got != expectCLI {
			o.Failf(verdictSig("http", got), "POST /verify status %d, expected accept=%v (%s) after %s", status, expectCLI, why, describe(c))
			return
		}
		req, _ := json.Marshal(map[string]any{"action": "verify", "req_id": "v", "payload": map[string]any{"data": data, "publickey": pub}})
		status, out, err := srv.Post("/bulk", req)
		if err != nil || status != 200 {
			o.Failf("harness:http-bulk", "POST /bulk: %v status %d", err, status)
			return
		}
		got := false
		dec := json.NewDecoder(bytes.NewReader(out))
		for dec.More() {
			var r cli.BulkResponse
			if err := dec.Decode(&r); err != nil {
				break
			}
			if r.ReqID == "v" && r.Error == nil {
				got = true
			}
		}
		if got != expectCLI {
			o.Failf(verdictSig("http-bulk", got), "POST /bulk verify = %v, expected %v (%s) after %s", got, expectCLI, why, describe(c))
			return
		}
	}
	_ = headerBroken
	o.Note("%s: %s => accept=%v", c.Doc, describe(c), expectLib)
}

func verdictSig(path string, got bool) string {
	if got {
		return "verify:" + path + ":accepted-unsigned-content"
	}
	return "verify:" + path + ":rejected-signed-content"
}

func describe(c Case) string {
	var parts []string
	if c.Text != "" {
		parts = append(parts, "text:"+c.Text)
	}
	for _, a := range c.Actions {
		s := a.Kind
		if a.Kind == "sign" {
			s += fmt.Sprintf("(k%d)", a.Key)
		}
		parts = append(parts, s)
	}
	return strings.Join(parts, ",") + fmt.Sprintf(" | present k%d", c.Present)
}

func bulkVerify(data []byte, pub *dsig.PublicKey, o *vh.Obs) bool {
	req, _ := json.Marshal(map[string]any{"action": "verify", "req_id": "v", "payload": map[string]any{"data": data, "publickey": pub}})
	ok := false
	n := 0
	for res := range cli.Bulk(context.Background(), &cli.BulkOptions{In: bytes.NewReader(req)}) {
		if res.IsFinal {
			continue
		}
		n++
		if res.ReqID == "v" && res.Error == nil {
			var vr cli.VerifyResponse
			if json.Unmarshal(res.Payload, &vr) == nil && vr.OK {
				ok = true
			}
		}
	}
	if n != 1 {
		o.Failf("bulk:response-count", "one verify request produced %d responses", n)
	}
	return ok
}

var providers = []string{"prov-a", "prov-b"}
var linkKeys = []string{"pdf", "portal"}
var tagPool = []string{"t1", "t2", "t3"}
var metaKeys = []string{"m1", "m2"}

func genAction(t *rapid.T, label string, phase string) Action {
	pre := []string{"add-link", "add-tag", "set-meta", "set-notes", "add-tag", "set-meta"}
	post := []string{"add-stamp", "add-link", "add-tag", "set-meta", "set-notes", "alter-uuid", "alter-digest", "remove-tag", "remove-stamp", "remove-link", "retitle-link", "retitle-link", "remove-meta", "set-meta", "extend-notes", "extend-notes",
		"edit-doc", "edit-doc-recalc", "edit-doc-recalc", "reparse", "sign", "unsign", "add-stamp", "add-link", "set-meta", "alter-schema", "alter-schema", "sign-bare-uuid"}
	kinds := pre
	if phase == "post" {
		kinds = post
	}
	a := Action{Kind: rapid.SampledFrom(kinds).Draw(t, label)}
	switch a.Kind {
	case "sign", "sign-bare-uuid":
		a.Key = rapid.IntRange(0, len(keys)-1).Draw(t, label+"_key")
	case "add-stamp":
		a.Arg = rapid.SampledFrom(providers).Draw(t, label+"_prv")
		a.Val = rapid.SampledFrom([]string{"v1", "v2"}).Draw(t, label+"_val")
	case "add-link":
		a.Arg = rapid.SampledFrom(linkKeys).Draw(t, label+"_lk")
		a.Val = rapid.SampledFrom([]string{"a", "b"}).Draw(t, label+"_lv")
		a.Extra = rapid.SampledFrom([]string{"", "", "T1", "T2"}).Draw(t, label+"_lt")
	case "retitle-link":
		a.Arg = rapid.SampledFrom([]string{"title", "description", "mime"}).Draw(t, label+"_what")
		a.Val = rapid.SampledFrom([]string{"T1", "html", ""}).Draw(t, label+"_rv")
	case "alter-schema":
		a.Val = rapid.SampledFrom([]string{"1", "0.9", "x"}).Draw(t, label+"_sv")
	case "remove-meta":
		a.Arg = rapid.SampledFrom(metaKeys).Draw(t, label+"_mk")
	case "add-tag":
		a.Arg = rapid.SampledFrom(append([]string{""}, tagPool...)).Draw(t, label+"_tag")
	case "set-meta":
		a.Arg = rapid.SampledFrom(metaKeys).Draw(t, label+"_mk")
		a.Val = rapid.SampledFrom([]string{"x", "y", ""}).Draw(t, label+"_mv")
	case "extend-notes":
		a.Arg = rapid.SampledFrom([]string{"before", "after"}).Draw(t, label+"_where")
		a.Val = rapid.SampledFrom([]string{" and more", "x", " "}).Draw(t, label+"_xv")
	case "set-notes":
		a.Val = rapid.SampledFrom([]string{"n1", "n2", ""}).Draw(t, label+"_nv")
	case "alter-uuid":
		a.Val = rapid.SampledFrom([]string{"02", "03"}).Draw(t, label+"_uv")
	case "alter-digest":
		a.Val = rapid.SampledFrom([]string{"ab", "cd"}).Draw(t, label+"_dv")
	case "edit-doc", "edit-doc-recalc":
		a.Arg = rapid.SampledFrom([]string{"quantity", "note"}).Draw(t, label+"_what")
		a.Val = rapid.SampledFrom([]string{"1", "2"}).Draw(t, label+"_ev")
	}
	return a
}

func genCase(t *rapid.T) Case {
	loadDocs()
	c := Case{Doc: invoiceDocs[rapid.IntRange(0, len(invoiceDocs)-1).Draw(t, "doc")].Path}
	// header decoration before signing, the signature, then post-signing history
	for i, n := 0, rapid.IntRange(0, 3).Draw(t, "npre"); i < n; i++ {
		c.Actions = append(c.Actions, genAction(t, fmt.Sprintf("pre%d", i), "pre"))
	}
	signer := rapid.IntRange(0, len(keys)-1).Draw(t, "signer")
	c.Actions = append(c.Actions, Action{Kind: "sign", Key: signer})
	for i, n := 0, rapid.IntRange(0, 5).Draw(t, "npost"); i < n; i++ {
		c.Actions = append(c.Actions, genAction(t, fmt.Sprintf("post%d", i), "post"))
	}
	// mostly the signer's key, sometimes another
	if rapid.IntRange(0, 3).Draw(t, "otherkey") == 0 {
		c.Present = rapid.IntRange(0, len(keys)-1).Draw(t, "present")
	} else {
		c.Present = signer
	}
	c.Exec = rapid.IntRange(0, 9).Draw(t, "exec") == 0
	if rapid.IntRange(0, 4).Draw(t, "keyform") == 0 {
		c.PresentForm = "no-kid"
	}
	c.Text = rapid.SampledFrom([]string{"", "", "", "", "escaped", "spaced", "raw", "dup-null"}).Draw(t, "text")
	return c
}

// the scenario the property singles out, for every signable example, through every path
func enumTamper(yield func(Case) bool) {
	loadDocs()
	cfg := vh.Cfg()
	for i, d := range invoiceDocs {
		if i%cfg.Shards != cfg.Shard {
			continue
		}
		exec := i%6 == 0 || vh.Thorough()
		for _, what := range []string{"quantity", "note"} {
			cs := []Case{
				{Doc: d.Path, Actions: []Action{{Kind: "sign", Key: 0}}, Present: 0, Exec: exec},
				{Doc: d.Path, Actions: []Action{{Kind: "sign", Key: 0}}, Present: 1, Exec: exec},
				{Doc: d.Path, Actions: []Action{{Kind: "sign", Key: 0}}, Present: 0, Exec: exec, Text: "escaped"},
				{Doc: d.Path, Actions: []Action{{Kind: "sign", Key: 0}}, Present: 0, Exec: exec, Text: "spaced"},
				{Doc: d.Path, Actions: []Action{{Kind: "sign", Key: 0}}, Present: 0, Exec: exec, Text: "raw"},
				{Doc: d.Path, Actions: []Action{{Kind: "sign", Key: 0}}, Present: 0, Exec: exec, Text: "dup-null"},
				{Doc: d.Path, Actions: []Action{{Kind: "sign", Key: 0}, {Kind: "reparse"}, {Kind: "edit-doc", Arg: what, Val: "1"}}, Present: 0, Exec: exec},
				{Doc: d.Path, Actions: []Action{{Kind: "sign", Key: 0}, {Kind: "edit-doc-recalc", Arg: what, Val: "1"}}, Present: 0, Exec: exec, Text: "escaped"},
				{Doc: d.Path, Actions: []Action{{Kind: "sign", Key: 0}}, Present: 1, PresentForm: "no-kid", Exec: exec},
				{Doc: d.Path, Actions: []Action{{Kind: "sign", Key: 0}}, Present: 0, PresentForm: "no-kid", Exec: exec},
				{Doc: d.Path, Actions: []Action{{Kind: "sign", Key: 0}, {Kind: "edit-doc-recalc", Arg: what, Val: "1"}}, Present: 0, Exec: exec},
				{Doc: d.Path, Actions: []Action{{Kind: "sign", Key: 0}, {Kind: "edit-doc", Arg: what, Val: "1"}}, Present: 0, Exec: exec},
				{Doc: d.Path, Actions: []Action{{Kind: "sign", Key: 0}, {Kind: "edit-doc", Arg: what, Val: "1"}, {Kind: "alter-schema", Val: "1"}}, Present: 0, Exec: exec},
				{Doc: d.Path, Actions: []Action{{Kind: "sign", Key: 0}, {Kind: "alter-schema", Val: "1"}}, Present: 0, Exec: exec},
				{Doc: d.Path, Actions: []Action{{Kind: "sign-bare-uuid", Key: 0}}, Present: 0, Exec: exec},
				{Doc: d.Path, Actions: []Action{{Kind: "sign", Key: 0}, {Kind: "unsign"}, {Kind: "edit-doc-recalc", Arg: what, Val: "1"}, {Kind: "sign-bare-uuid", Key: 0}}, Present: 0, Exec: exec},
				{Doc: d.Path, Actions: []Action{{Kind: "sign", Key: 0}, {Kind: "edit-doc-recalc", Arg: what, Val: "1"}, {Kind: "reparse"}}, Present: 0, Exec: exec},
				{Doc: d.Path, Actions: []Action{{Kind: "sign", Key: 0}, {Kind: "add-stamp", Arg: "prov-a", Val: "v1"}, {Kind: "add-link", Arg: "pdf", Val: "a"}, {Kind: "add-tag", Arg: "t1"}, {Kind: "set-meta", Arg: "m1", Val: "x"}}, Present: 0, Exec: exec},
				{Doc: d.Path, Actions: []Action{{Kind: "sign", Key: 0}, {Kind: "add-stamp", Arg: "prov-a", Val: "v1"}, {Kind: "sign", Key: 0}, {Kind: "add-stamp", Arg: "prov-a", Val: "v2"}}, Present: 0, Exec: exec},
			}
			for _, c := range cs {
				if !yield(c) {
					return
				}
			}
		}
	}
}

func init() {
	vh.OnExit(goblexec.Stop)
	vh.Describe(
		"Histories over every signable example invoice: 0-3 header decorations (links, tags, meta, notes), a signature by one of three keys, then 0-5 post-signing steps drawn from: add stamp / link (with or without title and MIME type) / tag (also the blank tag) / meta (also the empty value) / notes, change the title, description or MIME type of a link, remove a meta entry, extend the notes before or after their text, alter uuid / digest / the envelope's own schema identifier (which decides nothing), remove a tag / stamp / link, edit the document with and without recalculation, serialise+parse, sign again (any key), a signature by one of the keys over a payload that only names the envelope's identifier (no digest: it vouches for nothing), unsign; finally verification with the signer's key (75%) or another (a fifth of the time written as a JWK without the optional key id), through Envelope.Verify and VerifySignature with the key and without any (then the contents alone decide), cli.Verify (for two fifths of the cases the serialised envelope is rewritten with every string and member name as \\u escapes - surrogate pairs for the characters outside the basic plane put into the notes beforehand - with blanks and line breaks between all tokens, or compact with nothing escaped that need not be - the notes then also hold U+0085, U+2028 and U+2029, which YAML but not JSON reads as line breaks -, and the library also verifies what it reads from that text), the bulk verify action (in process) and - for a tenth of the cases and the enumerated tamper scenarios - the `gobl verify -k` executable, POST /verify and POST /bulk of a running `gobl serve`. Adding a link or stamp must leave the entries under other keys / providers as they were. Model: the header JSON recorded at each signing; expected = signed AND every signature made with the presented key AND the current header still contains each signed header (uuid, dig, stamps, links, tags, meta, notes); command-line paths additionally need the envelope to validate, and never accept a document edited without recalculation (the model tracks that itself, it does not ask Validate). Every path must return exactly the expected verdict; after an accepted verification a different key pair carrying the signer's key id must be refused by the same in-memory envelope. Non-trivial: the history ends signed.",
		"signatures are random (ECDSA); only verdicts are compared",
		"whether the envelope validates is taken from Envelope.Validate (its rules are property C10)",
	)
	vh.Enum("tamper_scenarios", enumTamper, judge)
	vh.Rapid("histories", 4_000, 240_000, genCase, judge)
}
