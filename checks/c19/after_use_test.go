package c19

// The published files must equal what the code defines not only when the
// process starts: the definitions the library enforces are the registered
// objects, and an operation that writes into one of them (a merge whose
// receiver is the registered definition, a normaliser that edits a shared
// table) makes the library apply something no file publishes. Every example
// is put through the operations that consult definitions; afterwards the
// definitions of its regime and addons are generated again and compared with
// the shipped files.

import (
	"bytes"
	"os"

	"github.com/invopop/gobl/bill"
	"github.com/invopop/gobl/cbc"
	"github.com/invopop/gobl/l10n"
	"github.com/invopop/gobl/num"
	"github.com/invopop/gobl/tax"
	"github.com/invopop/gobl/verifharness/internal/corpus"
	"github.com/invopop/gobl/verifharness/internal/vh"
)

// UseCase names one example source.
type UseCase struct {
	Doc string `json:"doc"`
}

func enumUse(yield func(UseCase) bool) {
	if vh.Cfg().Shard != 0 {
		return
	}
	for _, d := range corpus.MustLoad() {
		if !yield(UseCase{Doc: d.Path}) {
			return
		}
	}
}

func useDoc(p string) *corpus.Doc {
	for _, d := range corpus.MustLoad() {
		if d.Path == p {
			return &d
		}
	}
	return nil
}

// exercise runs the operations that read definitions; their outcomes do not matter here.
func exercise(d *corpus.Doc, o *vh.Obs) (regime string, addons []string) {
	defer func() {
		if r := recover(); r != nil {
			o.Class("panicked-see-C14")
		}
	}()
	env, err := d.Envelope()
	if err != nil {
		o.Class("does-not-build")
		return d.Regime, d.Addons
	}
	regime, addons = d.Regime, d.Addons
	_ = env.Validate()
	if inv, ok := env.Extract().(*bill.Invoice); ok {
		o.Class("invoice")
		if inv.Regime.GetRegime() != "" {
			regime = inv.Regime.GetRegime().String()
		}
		addons = nil
		for _, a := range inv.GetAddons() {
			addons = append(addons, a.String())
		}
		_, _ = inv.CorrectionOptionsSchema()
		for _, typ := range []cbc.Key{bill.InvoiceTypeCreditNote, bill.InvoiceTypeCorrective, bill.InvoiceTypeDebitNote} {
			e2, err := d.Envelope()
			if err != nil {
				break
			}
			_, _ = e2.Correct(bill.Corrective, bill.WithReason("after use"))
			_ = typ
			e3, _ := d.Envelope()
			if e3 != nil {
				_, _ = e3.Correct(bill.WithOptions(&bill.CorrectionOptions{Type: typ, Reason: "after use", CopyTax: true}))
			}
		}
	}
	if e4, err := d.Envelope(); err == nil {
		_, _ = e4.Replicate()
	}
	// what a calculated document holds is its own: an application that writes
	// into it (decoding another document into the same value does) must not
	// reach the tables the values were taken from
	if e6, err := d.Envelope(); err == nil {
		if inv, ok := e6.Extract().(*bill.Invoice); ok {
			other := num.MakePercentage(999, 3)
			touch := func(set tax.Set) {
				for _, cb := range set {
					if cb == nil {
						continue
					}
					if cb.Percent != nil {
						*cb.Percent = other
					}
					if cb.Surcharge != nil {
						*cb.Surcharge = other
					}
					for k := range cb.Ext {
						cb.Ext[k] = "ZZ"
					}
				}
			}
			for _, l := range inv.Lines {
				if l != nil {
					touch(l.Taxes)
				}
			}
			for _, l := range inv.Discounts {
				if l != nil {
					touch(l.Taxes)
				}
			}
			for _, l := range inv.Charges {
				if l != nil {
					touch(l.Taxes)
				}
			}
			if inv.Tax != nil {
				for k := range inv.Tax.Ext {
					inv.Tax.Ext[k] = "ZZ"
				}
			}
			for i := range inv.Notes {
				if inv.Notes[i] != nil {
					inv.Notes[i].Text = "written over"
				}
			}
		}
	}
	if e5, err := d.Envelope(); err == nil {
		_ = e5.Calculate()
		_ = e5.Validate()
	}
	return regime, addons
}

func judgeUse(c UseCase, o *vh.Obs) {
	d := useDoc(c.Doc)
	if d == nil {
		o.Discard()
		return
	}
	regime, addons := exercise(d, o)
	o.NonTrivial()
	var cases []GenCase
	if regime != "" {
		if r := tax.RegimeDefFor(l10n.Code(regime)); r != nil {
			cases = append(cases, GenCase{kindRegime, regimeID(r), regimeFile(r)})
		}
	}
	for _, a := range addons {
		if ad := tax.AddonForKey(cbc.Key(a)); ad != nil {
			cases = append(cases, GenCase{kindAddon, string(ad.Key), addonFile(ad)})
			for _, req := range ad.Requires {
				if rd := tax.AddonForKey(req); rd != nil {
					cases = append(cases, GenCase{kindAddon, string(rd.Key), addonFile(rd)})
				}
			}
		}
	}
	for _, gc := range cases {
		data, path, ok, err := regenerate(gc)
		if !ok || err != nil {
			continue // reported by the check of the definitions themselves
		}
		shipped, err := os.ReadFile(repoPath(path))
		if err != nil {
			continue
		}
		if !bytes.Equal(data, shipped) {
			o.Failf("changed-by-use:"+path, "after calculating, validating, correcting and replicating %s the registered %s %s no longer generates the shipped %s: the library now applies something no file publishes; %s", c.Doc, gc.Kind, gc.ID, path, firstDiff(data, shipped))
			return
		}
	}
	o.Note("%s: regime %s addons %v unchanged after use", c.Doc, regime, addons)
}
