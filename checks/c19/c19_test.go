// Package c19 decides property C19: the regime, addon, catalogue and schema
// files published under data/ (and served by the CLI) are exactly what the
// in-code definitions and generators produce, and every registered regime and
// addon definition is coherent.
//
// The files are regenerated in-process through the same public API the five
// `go:generate` programs use (regimes/generate.go, addons/generate.go,
// catalogues/generate.go, schema/generate.go, currency/generate.go) and
// compared byte for byte with the shipped ones, in both directions. In
// addition the real generator programs are run in a scratch copy of the
// repository and their output is compared with the shipped files as well,
// which ties the in-process replication to the programs themselves.
package c19

import (
	"bytes"
	"context"
	"crypto/sha256"
	"encoding/json"
	"fmt"
	"go/ast"
	"go/parser"
	"go/token"
	"io/fs"
	"os"
	"os/exec"
	"path/filepath"
	"reflect"
	"regexp"
	"sort"
	"strconv"
	"strings"
	"sync"
	"testing"
	"text/template"
	"time"
	_ "time/tzdata" // the time zone oracle must not depend on the host's zoneinfo

	_ "github.com/invopop/gobl" // registers every regime, addon, catalogue and schema type
	"github.com/invopop/gobl/bill"
	"github.com/invopop/gobl/cbc"
	"github.com/invopop/gobl/currency"
	"github.com/invopop/gobl/internal/cli"
	"github.com/invopop/gobl/pkg/here"
	"github.com/invopop/gobl/schema"
	"github.com/invopop/gobl/tax"
	"github.com/invopop/gobl/verifharness/internal/vh"
	"github.com/invopop/jsonschema"
)

func TestMain(m *testing.M) { vh.Main(m, "C19") }

func TestAll(t *testing.T) { vh.RunAll(t) }

// ---------------------------------------------------------------------------
// helpers

const (
	kindRegime    = "regime"
	kindAddon     = "addon"
	kindCatalogue = "catalogue"
	kindSchema    = "schema"
	kindCurrency  = "currency-codes"
)

func repoPath(rel string) string { return filepath.Join(vh.Cfg().Repo, filepath.FromSlash(rel)) }

func digest(b []byte) string { return fmt.Sprintf("%x", sha256.Sum256(b))[:12] }

// firstDiff describes where two byte slices start to differ.
func firstDiff(got, want []byte) string {
	n := len(got)
	if len(want) < n {
		n = len(want)
	}
	i := 0
	for i < n && got[i] == want[i] {
		i++
	}
	line := 1 + bytes.Count(want[:i], []byte("\n"))
	ctx := func(b []byte) string {
		s, e := i-40, i+60
		if s < 0 {
			s = 0
		}
		if e > len(b) {
			e = len(b)
		}
		return strconv.Quote(string(b[s:e]))
	}
	return fmt.Sprintf("first difference at byte %d (line %d): code gives %s, shipped file has %s; sizes %d vs %d", i, line, ctx(got), ctx(want), len(got), len(want))
}

// regimeFile is the file name rule of regimes/generate.go.
func regimeFile(r *tax.RegimeDef) string {
	n := string(r.Country)
	if r.Zone != "" {
		n = n + "_" + string(r.Zone)
	}
	return "data/regimes/" + strings.ToLower(n) + ".json"
}

func addonFile(a *tax.AddonDef) string         { return "data/addons/" + string(a.Key) + ".json" }
func catalogueFile(c *tax.CatalogueDef) string { return "data/catalogues/" + string(c.Key) + ".json" }

// schemaFile is the file name rule of schema/generate.go.
func schemaFile(id schema.ID) string {
	return "data/schemas" + strings.TrimPrefix(id.String(), schema.GOBL.String()) + ".json"
}

// marshalDef is what the regime, addon and catalogue generators do with each
// registered definition.
func marshalDef(def any) ([]byte, error) {
	doc, err := schema.NewObject(def)
	if err != nil {
		return nil, err
	}
	return json.MarshalIndent(doc, "", "  ")
}

func regimeID(r *tax.RegimeDef) string {
	if r.Zone != "" {
		return string(r.Country) + "_" + string(r.Zone)
	}
	return string(r.Country)
}

func regimeByID(id string) *tax.RegimeDef {
	for _, r := range tax.AllRegimeDefs() {
		if regimeID(r) == id {
			return r
		}
	}
	return nil
}

func addonByID(id string) *tax.AddonDef {
	for _, a := range tax.AllAddonDefs() {
		if string(a.Key) == id {
			return a
		}
	}
	return nil
}

func catalogueByID(id string) *tax.CatalogueDef {
	for _, c := range tax.AllCatalogueDefs() {
		if string(c.Key) == id {
			return c
		}
	}
	return nil
}

// sortedSchemaIDs lists the registered schema types in a stable order.
func sortedSchemaIDs() []schema.ID {
	ids := make([]schema.ID, 0)
	for _, id := range schema.Types() {
		ids = append(ids, id)
	}
	sort.Slice(ids, func(i, j int) bool { return ids[i] < ids[j] })
	return ids
}

// --- schema generation (schema/generate.go) --------------------------------

var (
	schemaOnce sync.Once
	schemaOut  map[string][]byte // relative file -> content
	schemaErr  error
	chdirMu    sync.Mutex
)

// generateSchemas repeats schema/generate.go: a jsonschema.Reflector with
// AllowAdditionalProperties, the Go comments of the module read from the
// source tree, and the registry lookup; every registered type is reflected
// and indented with two spaces. The generator reads the comments relative to
// the module root, so the working directory is switched for that call only.
func generateSchemas() (map[string][]byte, error) {
	schemaOnce.Do(func() {
		r := new(jsonschema.Reflector)
		r.AllowAdditionalProperties = true
		chdirMu.Lock()
		wd, err := os.Getwd()
		if err == nil {
			err = os.Chdir(vh.Cfg().Repo)
		}
		if err != nil {
			chdirMu.Unlock()
			schemaErr = err
			return
		}
		err = r.AddGoComments("github.com/invopop/gobl", "./")
		_ = os.Chdir(wd)
		chdirMu.Unlock()
		if err != nil {
			schemaErr = fmt.Errorf("reading comments: %w", err)
			return
		}
		typs := schema.Types()
		r.Lookup = func(t reflect.Type) jsonschema.ID {
			if id, ok := typs[t]; ok {
				return jsonschema.ID(id.String())
			}
			return jsonschema.EmptyID
		}
		out := map[string][]byte{}
		for t, id := range typs {
			s := r.ReflectFromType(t)
			d, err := json.MarshalIndent(s, "", "  ")
			if err != nil {
				schemaErr = err
				return
			}
			out[schemaFile(id)] = d
		}
		schemaOut = out
	})
	return schemaOut, schemaErr
}

// --- currency codes (currency/generate.go) ---------------------------------

// currencyTemplate takes the template text out of the generator's source
// (the argument of here.Doc assigned to codeTemplate) so that the oracle
// follows the program instead of a copy of it.
func currencyTemplate() (string, error) {
	fset := token.NewFileSet()
	f, err := parser.ParseFile(fset, repoPath("currency/generate.go"), nil, 0)
	if err != nil {
		return "", err
	}
	var raw string
	ast.Inspect(f, func(n ast.Node) bool {
		vs, ok := n.(*ast.ValueSpec)
		if !ok || len(vs.Names) != 1 || vs.Names[0].Name != "codeTemplate" || len(vs.Values) != 1 {
			return true
		}
		call, ok := vs.Values[0].(*ast.CallExpr)
		if !ok || len(call.Args) != 1 {
			return true
		}
		if lit, ok := call.Args[0].(*ast.BasicLit); ok && lit.Kind == token.STRING {
			if s, err := strconv.Unquote(lit.Value); err == nil {
				raw = s
			}
		}
		return false
	})
	if raw == "" {
		return "", fmt.Errorf("codeTemplate not found in currency/generate.go")
	}
	return here.Doc(raw), nil
}

func generateCurrencyCodes() ([]byte, error) {
	txt, err := currencyTemplate()
	if err != nil {
		return nil, err
	}
	tmpl, err := template.New("codes").Parse(txt)
	if err != nil {
		return nil, err
	}
	var buf bytes.Buffer
	if err := tmpl.Execute(&buf, map[string]any{"Defs": currency.Definitions()}); err != nil {
		return nil, err
	}
	return buf.Bytes(), nil
}

// ---------------------------------------------------------------------------
// check 1: every registered definition regenerates to the shipped file

// GenCase is one definition / schema type and the file it is published as.
type GenCase struct {
	Kind string `json:"kind"`
	ID   string `json:"id"`
	Path string `json:"path"`
}

func enumGenerated(yield func(GenCase) bool) {
	if vh.Cfg().Shard != 0 {
		return
	}
	for _, r := range tax.AllRegimeDefs() {
		if !yield(GenCase{kindRegime, regimeID(r), regimeFile(r)}) {
			return
		}
	}
	for _, a := range tax.AllAddonDefs() {
		if !yield(GenCase{kindAddon, string(a.Key), addonFile(a)}) {
			return
		}
	}
	for _, c := range tax.AllCatalogueDefs() {
		if !yield(GenCase{kindCatalogue, string(c.Key), catalogueFile(c)}) {
			return
		}
	}
	for _, id := range sortedSchemaIDs() {
		if !yield(GenCase{kindSchema, id.String(), schemaFile(id)}) {
			return
		}
	}
	yield(GenCase{kindCurrency, "currency.Definitions", "currency/codes.go"})
}

// regenerate produces the bytes the generator would write for the case and
// the path it would write them to; ok=false when the definition is gone.
func regenerate(c GenCase) (data []byte, path string, ok bool, err error) {
	switch c.Kind {
	case kindRegime:
		r := regimeByID(c.ID)
		if r == nil {
			return nil, "", false, nil
		}
		data, err = marshalDef(r)
		return data, regimeFile(r), true, err
	case kindAddon:
		a := addonByID(c.ID)
		if a == nil {
			return nil, "", false, nil
		}
		data, err = marshalDef(a)
		return data, addonFile(a), true, err
	case kindCatalogue:
		cd := catalogueByID(c.ID)
		if cd == nil {
			return nil, "", false, nil
		}
		data, err = marshalDef(cd)
		return data, catalogueFile(cd), true, err
	case kindSchema:
		if schema.Type(schema.ID(c.ID)) == nil {
			return nil, "", false, nil
		}
		all, err := generateSchemas()
		if err != nil {
			return nil, "", true, err
		}
		p := schemaFile(schema.ID(c.ID))
		return all[p], p, true, nil
	case kindCurrency:
		data, err = generateCurrencyCodes()
		return data, "currency/codes.go", true, err
	}
	return nil, "", false, nil
}

func judgeGenerated(c GenCase, o *vh.Obs) {
	o.Class(c.Kind)
	data, path, ok, err := regenerate(c)
	if !ok {
		o.Discard() // replay of a definition that is no longer registered
		return
	}
	o.NonTrivial()
	if err != nil {
		o.Failf("generate-error:"+c.Kind+":"+c.ID, "generating %s %s failed: %v", c.Kind, c.ID, err)
		return
	}
	shipped, err := os.ReadFile(repoPath(path))
	if err != nil {
		o.Failf("missing-file:"+path, "%s %s is registered in the code but the file the generator writes for it (%s) is not shipped: %v", c.Kind, c.ID, path, err)
		return
	}
	if !bytes.Equal(data, shipped) {
		o.Failf("stale-file:"+path, "%s %s: the shipped %s is not what the code generates; %s", c.Kind, c.ID, path, firstDiff(data, shipped))
		return
	}
	o.Note("%s: %d bytes sha256 %s, identical to generated output", path, len(shipped), digest(shipped))
}

// ---------------------------------------------------------------------------
// check 2: every shipped file corresponds to a registered definition

// FileCase is one file found under data/.
type FileCase struct {
	Kind string `json:"kind"`
	Path string `json:"path"`
}

var shippedDirs = []struct{ kind, dir string }{
	{kindRegime, "data/regimes"},
	{kindAddon, "data/addons"},
	{kindCatalogue, "data/catalogues"},
	{kindSchema, "data/schemas"},
}

func listShipped() ([]FileCase, error) {
	var out []FileCase
	for _, d := range shippedDirs {
		root := repoPath(d.dir)
		var files []string
		err := filepath.WalkDir(root, func(p string, e fs.DirEntry, err error) error {
			if err != nil {
				return err
			}
			if !e.IsDir() {
				rel, _ := filepath.Rel(vh.Cfg().Repo, p)
				files = append(files, filepath.ToSlash(rel))
			}
			return nil
		})
		if err != nil {
			return nil, err
		}
		sort.Strings(files)
		for _, f := range files {
			out = append(out, FileCase{d.kind, f})
		}
	}
	return out, nil
}

// expectedFiles is the set of paths the generators write, by kind.
func expectedFiles() map[string]string {
	m := map[string]string{}
	for _, r := range tax.AllRegimeDefs() {
		m[regimeFile(r)] = kindRegime + " " + regimeID(r)
	}
	for _, a := range tax.AllAddonDefs() {
		m[addonFile(a)] = kindAddon + " " + string(a.Key)
	}
	for _, c := range tax.AllCatalogueDefs() {
		m[catalogueFile(c)] = kindCatalogue + " " + string(c.Key)
	}
	for _, id := range schema.Types() {
		m[schemaFile(id)] = kindSchema + " " + id.String()
	}
	return m
}

func enumShipped(yield func(FileCase) bool) {
	if vh.Cfg().Shard != 0 {
		return
	}
	files, err := listShipped()
	if err != nil {
		panic(err)
	}
	for _, f := range files {
		if !yield(f) {
			return
		}
	}
}

func judgeShipped(c FileCase, o *vh.Obs) {
	o.Class(c.Kind)
	if _, err := os.Stat(repoPath(c.Path)); err != nil {
		o.Discard() // replay of a file that has been removed since
		return
	}
	o.NonTrivial()
	def, ok := expectedFiles()[c.Path]
	if !ok {
		o.Failf("orphan-file:"+c.Path, "%s is shipped (and embedded in data.Content) but no registered %s produces it: no generator writes this file", c.Path, c.Kind)
		return
	}
	o.Note("%s <- %s", c.Path, def)
}

// ---------------------------------------------------------------------------
// check 3: the bulk `regime` and `schema` actions serve the shipped bytes

// ServeCase is one request to the bulk interface.
type ServeCase struct {
	Action string `json:"action"` // regime | schema
	Arg    string `json:"arg"`    // regime code or schema path
	Path   string `json:"path"`   // shipped file that must be served
	By     string `json:"by"`     // registered (derived from a definition) | file (derived from a shipped file)
}

func bulkOne(action string, payload any) (*cli.BulkResponse, error) {
	pl, err := json.Marshal(payload)
	if err != nil {
		return nil, err
	}
	req, err := json.Marshal(cli.BulkRequest{Action: action, ReqID: "c19", Payload: pl})
	if err != nil {
		return nil, err
	}
	var res *cli.BulkResponse
	for r := range cli.Bulk(context.Background(), &cli.BulkOptions{In: bytes.NewReader(req)}) {
		if r.ReqID == "c19" && !r.IsFinal {
			res = r
		}
	}
	if res == nil {
		return nil, fmt.Errorf("no response")
	}
	return res, nil
}

func enumServed(yield func(ServeCase) bool) {
	if vh.Cfg().Shard != 0 {
		return
	}
	for _, r := range tax.AllRegimeDefs() {
		if !yield(ServeCase{"regime", regimeID(r), regimeFile(r), "registered"}) {
			return
		}
	}
	ids := schema.List()
	sort.Slice(ids, func(i, j int) bool { return ids[i] < ids[j] })
	for _, id := range ids {
		arg := strings.TrimPrefix(strings.TrimPrefix(id.String(), schema.GOBL.String()), "/")
		if !yield(ServeCase{"schema", arg, schemaFile(id), "registered"}) {
			return
		}
	}
	files, err := listShipped()
	if err != nil {
		panic(err)
	}
	for _, f := range files {
		switch f.Kind {
		case kindRegime:
			stem := strings.TrimSuffix(strings.TrimPrefix(f.Path, "data/regimes/"), ".json")
			if !yield(ServeCase{"regime", stem, f.Path, "file"}) {
				return
			}
		case kindSchema:
			if !yield(ServeCase{"schema", strings.TrimPrefix(f.Path, "data/schemas/"), f.Path, "file"}) {
				return
			}
		}
	}
}

func judgeServed(c ServeCase, o *vh.Obs) {
	o.Class("served-" + c.Action)
	o.Class("by-" + c.By)
	shipped, err := os.ReadFile(repoPath(c.Path))
	if err != nil {
		if c.By == "file" {
			o.Discard() // replay of a file that has been removed since
			return
		}
		// a registered definition without a file is reported by `generated`
		shipped = nil
	}
	o.NonTrivial()
	var res *cli.BulkResponse
	switch c.Action {
	case "regime":
		res, err = bulkOne("regime", cli.RegimeRequest{Code: c.Arg})
	case "schema":
		res, err = bulkOne("schema", cli.SchemaRequest{Path: c.Arg})
	default:
		o.Discard()
		return
	}
	sig := c.Action + ":" + c.Arg
	if err != nil {
		o.Failf("served-error:"+sig, "bulk %s %q: %v", c.Action, c.Arg, err)
		return
	}
	if res.Error != nil {
		o.Failf("served-error:"+sig, "bulk %s %q answers with an error (%v) although %s is %s", c.Action, c.Arg, res.Error, c.Path, map[string]string{"registered": "a registered definition", "file": "a shipped file"}[c.By])
		return
	}
	if !bytes.Equal(res.Payload, shipped) {
		o.Failf("served-differs:"+sig, "bulk %s %q serves %d bytes that differ from the shipped %s; %s", c.Action, c.Arg, len(res.Payload), c.Path, firstDiff(res.Payload, shipped))
		return
	}
	o.Note("bulk %s %q -> %d bytes sha256 %s = %s", c.Action, c.Arg, len(res.Payload), digest(res.Payload), c.Path)
}

// ---------------------------------------------------------------------------
// check 4: every definition validates, names a currency and a time zone

// DefCase is one registered definition.
type DefCase struct {
	Kind string `json:"kind"`
	ID   string `json:"id"`
}

func enumDefs(yield func(DefCase) bool) {
	if vh.Cfg().Shard != 0 {
		return
	}
	for _, r := range tax.AllRegimeDefs() {
		if !yield(DefCase{kindRegime, regimeID(r)}) {
			return
		}
	}
	for _, a := range tax.AllAddonDefs() {
		if !yield(DefCase{kindAddon, string(a.Key)}) {
			return
		}
	}
	for _, c := range tax.AllCatalogueDefs() {
		if !yield(DefCase{kindCatalogue, string(c.Key)}) {
			return
		}
	}
}

var (
	curOnce  sync.Once
	curCodes map[string]bool
	curErr   error
)

// publishedCurrencies reads the currency codes from the published source
// files data/currency/*.json (the oracle does not ask the currency package).
func publishedCurrencies() (map[string]bool, error) {
	curOnce.Do(func() {
		curCodes = map[string]bool{}
		files, err := filepath.Glob(repoPath("data/currency/*.json"))
		if err != nil || len(files) == 0 {
			curErr = fmt.Errorf("no currency files: %v", err)
			return
		}
		for _, f := range files {
			raw, err := os.ReadFile(f)
			if err != nil {
				curErr = err
				return
			}
			var list []struct {
				ISOCode string `json:"iso_code"`
			}
			if err := json.Unmarshal(raw, &list); err != nil {
				curErr = fmt.Errorf("%s: %w", f, err)
				return
			}
			for _, d := range list {
				curCodes[d.ISOCode] = true
			}
		}
	})
	return curCodes, curErr
}

func judgeDef(c DefCase, o *vh.Obs) {
	o.Class(c.Kind)
	sig := c.Kind + ":" + c.ID
	switch c.Kind {
	case kindRegime:
		r := regimeByID(c.ID)
		if r == nil {
			o.Discard()
			return
		}
		o.NonTrivial()
		if err := r.Validate(); err != nil {
			o.Failf("invalid-definition:"+sig, "registered regime %s does not pass its own Validate: %v", c.ID, err)
			return
		}
		// the published form must be readable by the library's own type and still validate
		if raw, err := os.ReadFile(repoPath(regimeFile(r))); err == nil {
			pr := new(tax.RegimeDef)
			if err := json.Unmarshal(raw, pr); err != nil {
				o.Failf("unreadable-definition:"+sig, "shipped %s cannot be read into tax.RegimeDef: %v", regimeFile(r), err)
				return
			}
			if err := pr.Validate(); err != nil {
				o.Failf("invalid-shipped-definition:"+sig, "shipped %s read into tax.RegimeDef does not validate: %v", regimeFile(r), err)
				return
			}
		}
		codes, err := publishedCurrencies()
		if err != nil {
			panic(err)
		}
		if r.Currency == "" || !codes[string(r.Currency)] || currency.Get(r.Currency) == nil {
			o.Failf("unknown-currency:"+sig, "regime %s names currency %q which is not in data/currency", c.ID, r.Currency)
			return
		}
		if r.TimeZone == "" || r.TimeZone == "Local" {
			o.Failf("bad-time-zone:"+sig, "regime %s names time zone %q, not an IANA location", c.ID, r.TimeZone)
			return
		}
		loc, err := time.LoadLocation(r.TimeZone)
		if err != nil {
			o.Failf("bad-time-zone:"+sig, "regime %s names time zone %q which does not load: %v", c.ID, r.TimeZone, err)
			return
		}
		if got := r.TimeLocation(); got.String() != loc.String() {
			o.Failf("bad-time-zone:"+sig, "regime %s: TimeLocation() gives %s for time zone %q", c.ID, got, r.TimeZone)
			return
		}
		o.Note("regime %s valid; currency %s; time zone %s; %d categories", c.ID, r.Currency, r.TimeZone, len(r.Categories))
	case kindAddon:
		a := addonByID(c.ID)
		if a == nil {
			o.Discard()
			return
		}
		o.NonTrivial()
		if err := a.Validate(); err != nil {
			o.Failf("invalid-definition:"+sig, "registered addon %s does not pass its own Validate: %v", c.ID, err)
			return
		}
		if raw, err := os.ReadFile(repoPath(addonFile(a))); err == nil {
			pa := new(tax.AddonDef)
			if err := json.Unmarshal(raw, pa); err != nil {
				o.Failf("unreadable-definition:"+sig, "shipped %s cannot be read into tax.AddonDef: %v", addonFile(a), err)
				return
			}
			if err := pa.Validate(); err != nil {
				o.Failf("invalid-shipped-definition:"+sig, "shipped %s read into tax.AddonDef does not validate: %v", addonFile(a), err)
				return
			}
		}
		o.Note("addon %s valid; %d extensions, %d scenario sets", c.ID, len(a.Extensions), len(a.Scenarios))
	case kindCatalogue:
		cd := catalogueByID(c.ID)
		if cd == nil {
			o.Discard()
			return
		}
		o.NonTrivial()
		// a catalogue has no Validate of its own; its content is a list of
		// extension definitions, each of which has one
		if cd.Key == "" || cd.Key.Validate() != nil {
			o.Failf("invalid-definition:"+sig, "catalogue key %q is not a valid key", cd.Key)
			return
		}
		for i, d := range cd.Extensions {
			if d == nil {
				o.Failf("invalid-definition:"+sig, "catalogue %s: extension %d is null", c.ID, i)
				return
			}
			if err := d.Validate(); err != nil {
				o.Failf("invalid-definition:"+sig, "catalogue %s: extension %s does not pass its own Validate: %v", c.ID, d.Key, err)
				return
			}
		}
		o.Note("catalogue %s: %d extension definitions valid", c.ID, len(cd.Extensions))
	default:
		o.Discard()
	}
}

// ---------------------------------------------------------------------------
// check 5: every reference made by a regime or addon resolves

// RefCase is one reference from a definition to something that must be
// defined elsewhere.
type RefCase struct {
	Kind   string `json:"kind"`   // regime | addon (owner)
	ID     string `json:"id"`     // owner
	Where  string `json:"where"`  // location inside the owner
	Ref    string `json:"ref"`    // what is referred to (see refRules)
	Schema string `json:"schema"` // document schema the reference lives under, if any
	Key    string `json:"key"`
	Value  string `json:"value,omitempty"`
}

const (
	refCategoryExt = "category-extension" // CategoryDef.Extensions -> the regime's own extensions table
	refExtKey      = "extension-key"      // key of an extension map, ext_key of a scenario, correction extensions
	refExtValue    = "extension-value"    // value stored under an extension key
	refTag         = "tag"                // scenario tags, rate value tags
	refDocType     = "document-type"      // scenario types, correction types
	refSchema      = "schema"             // tag set / scenario set / correction schema
	refAddon       = "addon"              // AddonDef.Requires
)

// owner gives uniform access to the parts of a regime / addon that carry
// references.
type owner struct {
	kind, id    string
	regime      *tax.RegimeDef
	addon       *tax.AddonDef
	extensions  []*cbc.Definition
	tags        []*tax.TagSet
	scenarios   []*tax.ScenarioSet
	corrections tax.CorrectionSet
}

func allOwners() []*owner {
	var out []*owner
	for _, r := range tax.AllRegimeDefs() {
		out = append(out, &owner{kind: kindRegime, id: regimeID(r), regime: r, extensions: r.Extensions, tags: r.Tags, scenarios: r.Scenarios, corrections: r.Corrections})
	}
	for _, a := range tax.AllAddonDefs() {
		out = append(out, &owner{kind: kindAddon, id: string(a.Key), addon: a, extensions: a.Extensions, tags: a.Tags, scenarios: a.Scenarios, corrections: a.Corrections})
	}
	return out
}

func ownerFor(kind, id string) *owner {
	for _, ow := range allOwners() {
		if ow.kind == kind && ow.id == id {
			return ow
		}
	}
	return nil
}

func sortedExt(em tax.Extensions) []cbc.Key {
	ks := make([]cbc.Key, 0, len(em))
	for k := range em {
		ks = append(ks, k)
	}
	sort.Slice(ks, func(i, j int) bool { return ks[i] < ks[j] })
	return ks
}

// refsOf walks one definition and lists every reference it makes.
func refsOf(ow *owner) []RefCase {
	var out []RefCase
	add := func(where, ref, sch, key, value string) {
		out = append(out, RefCase{Kind: ow.kind, ID: ow.id, Where: where, Ref: ref, Schema: sch, Key: key, Value: value})
	}
	extMap := func(where, sch string, em tax.Extensions) {
		for _, k := range sortedExt(em) {
			add(where, refExtKey, sch, string(k), "")
			add(where, refExtValue, sch, string(k), string(em[k]))
		}
	}
	if r := ow.regime; r != nil {
		for _, cat := range r.Categories {
			if cat == nil {
				continue
			}
			cw := fmt.Sprintf("categories[%s]", cat.Code)
			for _, k := range cat.Extensions {
				add(cw+".extensions", refCategoryExt, "", string(k), "")
			}
			extMap(cw+".ext", "", cat.Ext)
			for _, rate := range cat.Rates {
				if rate == nil {
					continue
				}
				rw := fmt.Sprintf("%s.rates[%s]", cw, rate.Key)
				extMap(rw+".ext", "", rate.Ext)
				for i, v := range rate.Values {
					if v == nil {
						continue
					}
					vw := fmt.Sprintf("%s.values[%d]", rw, i)
					for _, t := range v.Tags {
						add(vw+".tags", refTag, bill.ShortSchemaInvoice, string(t), "")
					}
					extMap(vw+".ext", "", v.Ext)
				}
			}
		}
	}
	if a := ow.addon; a != nil {
		for _, k := range a.Requires {
			add("requires", refAddon, "", string(k), "")
		}
	}
	for i, ts := range ow.tags {
		if ts != nil {
			add(fmt.Sprintf("tags[%d].schema", i), refSchema, ts.Schema, ts.Schema, "")
		}
	}
	for i, ss := range ow.scenarios {
		if ss == nil {
			continue
		}
		add(fmt.Sprintf("scenarios[%d].schema", i), refSchema, ss.Schema, ss.Schema, "")
		for j, s := range ss.List {
			if s == nil {
				continue
			}
			sw := fmt.Sprintf("scenarios[%s][%d]", ss.Schema, j)
			for _, t := range s.Types {
				add(sw+".type", refDocType, ss.Schema, string(t), "")
			}
			for _, t := range s.Tags {
				add(sw+".tags", refTag, ss.Schema, string(t), "")
			}
			if s.ExtKey != "" {
				add(sw+".ext_key", refExtKey, ss.Schema, string(s.ExtKey), "")
				if s.ExtCode != "" {
					add(sw+".ext_code", refExtValue, ss.Schema, string(s.ExtKey), string(s.ExtCode))
				}
			}
			extMap(sw+".ext", ss.Schema, s.Ext)
			if s.Note != nil {
				extMap(sw+".note.ext", ss.Schema, s.Note.Ext)
			}
		}
	}
	for i, cd := range ow.corrections {
		if cd == nil {
			continue
		}
		add(fmt.Sprintf("corrections[%d].schema", i), refSchema, cd.Schema, cd.Schema, "")
		cw := fmt.Sprintf("corrections[%s]", cd.Schema)
		for _, t := range cd.Types {
			add(cw+".types", refDocType, cd.Schema, string(t), "")
		}
		for _, k := range cd.Extensions {
			add(cw+".extensions", refExtKey, cd.Schema, string(k), "")
		}
	}
	return out
}

func enumRefs(yield func(RefCase) bool) {
	if vh.Cfg().Shard != 0 {
		return
	}
	for _, ow := range allOwners() {
		for _, c := range refsOf(ow) {
			if !yield(c) {
				return
			}
		}
	}
}

// extDefs finds every definition of an extension key, grouped by where it is
// defined: the owner itself, a catalogue, an addon, a regime.
func extDefs(ow *owner, key cbc.Key) (defs []*cbc.Definition, from []string) {
	scan := func(label string, list []*cbc.Definition) {
		for _, d := range list {
			if d != nil && d.Key == key {
				defs = append(defs, d)
				from = append(from, label)
			}
		}
	}
	scan("own", ow.extensions)
	for _, c := range tax.AllCatalogueDefs() {
		scan("catalogue", c.Extensions)
	}
	for _, a := range tax.AllAddonDefs() {
		if ow.addon != a {
			scan("addon", a.Extensions)
		}
	}
	for _, r := range tax.AllRegimeDefs() {
		if ow.regime != r {
			scan("regime", r.Extensions)
		}
	}
	return defs, from
}

func schemaMatches(a, b string) bool {
	return a == b || strings.HasSuffix(a, b) || strings.HasSuffix(b, a)
}

// tagDefined reports where a tag is defined for the given schema: documents
// accept the tags of their regime and of their addons (bill.Invoice), so a
// regime may refer to its own and to addon tags, an addon to its own, to
// those of other addons and to those of regimes.
func tagDefined(ow *owner, sch string, key cbc.Key) string {
	in := func(sets []*tax.TagSet) bool {
		for _, ts := range sets {
			if ts == nil || !schemaMatches(sch, ts.Schema) {
				continue
			}
			for _, d := range ts.List {
				if d != nil && d.Key == key {
					return true
				}
			}
		}
		return false
	}
	if in(ow.tags) {
		return "own"
	}
	for _, a := range tax.AllAddonDefs() {
		if ow.addon != a && in(a.Tags) {
			return "addon"
		}
	}
	if ow.addon != nil {
		for _, r := range tax.AllRegimeDefs() {
			if in(r.Tags) {
				return "regime"
			}
		}
	}
	return ""
}

func docTypes(sch string) []*cbc.Definition {
	switch {
	case schemaMatches(sch, bill.ShortSchemaInvoice):
		return bill.InvoiceTypes
	case schemaMatches(sch, bill.ShortSchemaOrder):
		return bill.OrderTypes
	case schemaMatches(sch, bill.ShortSchemaDelivery):
		return bill.DeliveryTypes
	case schemaMatches(sch, bill.ShortSchemaPayment):
		return bill.PaymentTypes
	}
	return nil
}

func judgeRef(c RefCase, o *vh.Obs) {
	o.Class(c.Kind + ":" + c.Ref)
	ow := ownerFor(c.Kind, c.ID)
	if ow == nil {
		o.Discard()
		return
	}
	present := false
	for _, r := range refsOf(ow) {
		if r == c {
			present = true
			break
		}
	}
	if !present {
		o.Discard() // replay of a reference that the definition no longer makes
		return
	}
	o.NonTrivial()
	at := fmt.Sprintf("%s %s %s", c.Kind, c.ID, c.Where)
	sig := fmt.Sprintf("%s:%s:%s:%s", c.Kind, c.ID, c.Ref, c.Key)
	key := cbc.Key(c.Key)
	switch c.Ref {
	case refCategoryExt:
		// "Every key must be defined in the Regime's extensions table."
		for _, d := range ow.extensions {
			if d != nil && d.Key == key {
				o.Class("defined-by:own")
				o.Note("%s: extension %s is in the regime's table", at, c.Key)
				return
			}
		}
		o.Failf("undefined:"+sig, "%s lists extension key %q which is not in the regime's own extensions table", at, c.Key)
	case refExtKey:
		defs, from := extDefs(ow, key)
		if len(defs) == 0 {
			o.Failf("undefined:"+sig, "%s uses extension key %q which no regime, addon or catalogue defines", at, c.Key)
			return
		}
		o.Class("defined-by:" + from[0])
		o.Note("%s: extension key %s defined by %s", at, c.Key, strings.Join(from, ","))
	case refExtValue:
		defs, from := extDefs(ow, key)
		if len(defs) == 0 {
			o.Discard() // reported by the extension-key case of the same location
			return
		}
		// Extensions.Validate: with values the code must be one of them, with a
		// pattern it must match; a definition with neither accepts anything.
		code := cbc.Code(c.Value)
		for i, d := range defs {
			ok := true
			if len(d.Values) > 0 && !d.HasCode(code) {
				ok = false
			}
			if ok && d.Pattern != "" {
				re, err := regexp.Compile(d.Pattern)
				ok = err == nil && re.MatchString(c.Value)
			}
			if ok {
				o.Class("defined-by:" + from[i])
				o.Note("%s: %s=%s accepted by the definition in %s (%d values, pattern %q)", at, c.Key, c.Value, from[i], len(d.Values), d.Pattern)
				return
			}
		}
		o.Failf("undefined:"+sig+"="+c.Value, "%s sets extension %s to %q, which is neither one of the defined values nor matches the pattern of any definition of that key (defined by %s)", at, c.Key, c.Value, strings.Join(from, ","))
	case refTag:
		from := tagDefined(ow, c.Schema, key)
		if from == "" {
			o.Failf("undefined:"+sig, "%s refers to tag %q which no tag set for %s defines (own, addons%s)", at, c.Key, c.Schema, map[bool]string{true: ", regimes", false: ""}[ow.addon != nil])
			return
		}
		o.Class("defined-by:" + from)
		o.Note("%s: tag %s defined by %s", at, c.Key, from)
	case refDocType:
		types := docTypes(c.Schema)
		if types == nil {
			o.Discard() // no published list of types for this schema
			return
		}
		for _, d := range types {
			if d.Key == key {
				o.Note("%s: %s is a %s type", at, c.Key, c.Schema)
				return
			}
		}
		o.Failf("undefined:"+sig, "%s refers to document type %q which is not a type of %s", at, c.Key, c.Schema)
	case refSchema:
		if c.Key != "" {
			for _, id := range schema.List() {
				if strings.HasSuffix(id.String(), "/"+strings.TrimPrefix(c.Key, "/")) || id.String() == c.Key {
					o.Note("%s: schema %s is registered as %s", at, c.Key, id)
					return
				}
			}
		}
		o.Failf("undefined:"+sig, "%s names schema %q which matches no registered schema", at, c.Key)
	case refAddon:
		if addonByID(c.Key) != nil && tax.AddonForKey(key) != nil {
			o.Note("%s: addon %s is registered", at, c.Key)
			return
		}
		o.Failf("undefined:"+sig, "%s requires addon %q which is not registered", at, c.Key)
	default:
		o.Discard()
	}
}

// ---------------------------------------------------------------------------
// check 6: the real generator programs give the same files

// RunCase is one file written by the generator programs in a scratch copy.
type RunCase struct {
	Kind string `json:"kind"`
	Path string `json:"path"`
}

var generatorPrograms = []string{
	"./schema/generate.go", "./regimes/generate.go", "./addons/generate.go", "./catalogues/generate.go", "./currency/generate.go",
}

func copyTree(src, dst string) error {
	return filepath.WalkDir(src, func(p string, e fs.DirEntry, err error) error {
		if err != nil {
			return err
		}
		rel, _ := filepath.Rel(src, p)
		if rel == ".git" {
			return filepath.SkipDir
		}
		target := filepath.Join(dst, rel)
		if e.IsDir() {
			return os.MkdirAll(target, 0o755)
		}
		if !e.Type().IsRegular() {
			return nil
		}
		data, err := os.ReadFile(p)
		if err != nil {
			return err
		}
		return os.WriteFile(target, data, 0o644)
	})
}

// runGenerators copies the repository (without .git) to a scratch directory,
// runs the five go:generate programs there and returns the content of every
// generated file; the copy is removed before returning.
func runGenerators() (map[string][]byte, error) {
	base := os.Getenv("VERIF_SCRATCH")
	if base == "" {
		base = os.TempDir()
	}
	dir, err := os.MkdirTemp(base, "c19-regen-")
	if err != nil {
		return nil, err
	}
	defer os.RemoveAll(dir) //nolint:errcheck
	if err := copyTree(vh.Cfg().Repo, dir); err != nil {
		return nil, err
	}
	// whatever is shipped is removed first so that only generated files remain
	for _, d := range shippedDirs {
		if err := os.RemoveAll(filepath.Join(dir, filepath.FromSlash(d.dir))); err != nil {
			return nil, err
		}
		if d.kind == kindCatalogue {
			// catalogues are their own source (tax.RegisterCatalogueDef reads them)
			if err := copyTree(repoPath(d.dir), filepath.Join(dir, filepath.FromSlash(d.dir))); err != nil {
				return nil, err
			}
			continue
		}
		if err := os.MkdirAll(filepath.Join(dir, filepath.FromSlash(d.dir)), 0o755); err != nil {
			return nil, err
		}
		// go:embed needs at least one file in each directory
		if err := os.WriteFile(filepath.Join(dir, filepath.FromSlash(d.dir), "placeholder.txt"), []byte("x"), 0o644); err != nil {
			return nil, err
		}
	}
	if err := os.Remove(filepath.Join(dir, "currency", "codes.go")); err != nil {
		return nil, err
	}
	// currency/codes.go is part of the package the generators compile; the
	// shipped one is put back for the build and overwritten by its generator
	orig, err := os.ReadFile(repoPath("currency/codes.go"))
	if err != nil {
		return nil, err
	}
	if err := os.WriteFile(filepath.Join(dir, "currency", "codes.go"), orig, 0o644); err != nil {
		return nil, err
	}
	env := append(os.Environ(), "GOFLAGS=-mod=mod", "GOPROXY=off", "GOSUMDB=off", "GOTOOLCHAIN=local")
	for _, prog := range generatorPrograms {
		cmd := exec.Command("go", "run", prog)
		cmd.Dir = dir
		cmd.Env = env
		if out, err := cmd.CombinedOutput(); err != nil {
			tail := string(out)
			if len(tail) > 2000 {
				tail = tail[len(tail)-2000:]
			}
			if _, exited := err.(*exec.ExitError); exited {
				// the program itself failed: that is a statement about the tree
				return nil, &genFailure{prog: prog, msg: fmt.Sprintf("%v\n%s", err, tail)}
			}
			return nil, fmt.Errorf("go run %s: %v\n%s", prog, err, tail)
		}
	}
	out := map[string][]byte{}
	for _, d := range shippedDirs {
		root := filepath.Join(dir, filepath.FromSlash(d.dir))
		err := filepath.WalkDir(root, func(p string, e fs.DirEntry, err error) error {
			if err != nil || e.IsDir() || e.Name() == "placeholder.txt" {
				return err
			}
			rel, _ := filepath.Rel(dir, p)
			data, err := os.ReadFile(p)
			out[filepath.ToSlash(rel)] = data
			return err
		})
		if err != nil {
			return nil, err
		}
	}
	data, err := os.ReadFile(filepath.Join(dir, "currency", "codes.go"))
	if err != nil {
		return nil, err
	}
	out["currency/codes.go"] = data
	return out, nil
}

// genFailure is a generator program that ran and exited with an error.
type genFailure struct{ prog, msg string }

func (g *genFailure) Error() string { return "go run " + g.prog + ": " + g.msg }

func kindOfPath(p string) string {
	for _, d := range shippedDirs {
		if strings.HasPrefix(p, d.dir+"/") {
			return d.kind
		}
	}
	return kindCurrency
}

var (
	runOnce sync.Once
	runOut  map[string][]byte
	runErr  error
)

func generatorOutput() (map[string][]byte, error) {
	runOnce.Do(func() { runOut, runErr = runGenerators() })
	return runOut, runErr
}

func enumPrograms(yield func(RunCase) bool) {
	if vh.Cfg().Shard != 0 {
		return
	}
	out, err := generatorOutput()
	for _, prog := range generatorPrograms {
		if !yield(RunCase{"generator", prog}) {
			return
		}
	}
	if err != nil {
		if _, ok := err.(*genFailure); ok {
			return // reported by the generator case above
		}
		panic(fmt.Sprintf("running the generator programs: %v", err))
	}
	seen := map[string]bool{}
	for _, p := range vh.SortedKeys(out) {
		seen[p] = true
		if !yield(RunCase{kindOfPath(p), p}) {
			return
		}
	}
	// files the in-process generation expects but the programs did not write
	for _, p := range vh.SortedKeys(expectedFiles()) {
		if !seen[p] {
			if !yield(RunCase{kindOfPath(p), p}) {
				return
			}
		}
	}
}

func judgeProgram(c RunCase, o *vh.Obs) {
	o.Class(c.Kind)
	out, err := generatorOutput()
	if gf, ok := err.(*genFailure); ok {
		if c.Kind == "generator" && gf.prog != c.Path {
			o.Discard() // programs run in sequence; only the failing one is judged
			return
		}
		o.NonTrivial()
		o.Failf("generator-failed:"+gf.prog, "`go run %s` in a copy of the tree fails: %s", gf.prog, gf.msg)
		return
	}
	if err != nil {
		panic(fmt.Sprintf("running the generator programs: %v", err))
	}
	o.NonTrivial()
	if c.Kind == "generator" {
		o.Note("go run %s succeeded in a scratch copy", c.Path)
		return
	}
	got, ok := out[c.Path]
	if !ok {
		o.Failf("not-generated:"+c.Path, "the generator programs, run on a copy of the tree with data/ emptied, do not write %s although a registered definition maps to it", c.Path)
		return
	}
	shipped, err := os.ReadFile(repoPath(c.Path))
	if err != nil {
		o.Failf("missing-file:"+c.Path, "the generator programs write %s but it is not shipped", c.Path)
		return
	}
	if !bytes.Equal(got, shipped) {
		o.Failf("stale-file:"+c.Path, "the generator programs write a %s that differs from the shipped one; %s", c.Path, firstDiff(got, shipped))
		return
	}
	o.Note("%s: generator program output identical to shipped (%d bytes)", c.Path, len(got))
}

// ---------------------------------------------------------------------------

func init() {
	vh.Describe(
		"Exhaustive enumeration, one case per file / definition / reference. "+
			"`generated`: every registered regime, addon, catalogue, every registered schema type and currency/codes.go is regenerated in-process through the API the go:generate programs use (schema.NewObject + json.MarshalIndent; jsonschema.Reflector with AddGoComments read from the tree and the registry Lookup; the template text taken from currency/generate.go executed over currency.Definitions()) and compared byte for byte with the shipped file. "+
			"`after_use`: every example document goes through calculate, validate, the correction options schema, corrections of three types (with copy-tax) and replication, and the percentages, surcharges, extension values and notes of the calculated invoice are written over in place; afterwards the definitions of its regime and addons are generated again and must still equal the shipped files (a merge or normaliser that writes into a registered definition makes the library apply something no file publishes). "+
			"`shipped`: every file under data/regimes, data/addons, data/catalogues, data/schemas must be the output path of a registered definition (no orphan). "+
			"`served`: the bulk `regime` / `schema` actions (cli.Bulk in-process), asked once per registered regime code / schema id and once per shipped file, must answer with the shipped bytes. "+
			"`definitions`: each regime / addon passes its own Validate both as registered and as read back from the shipped JSON; regime currency is listed in data/currency/*.json; time zone is a loadable IANA location (embedded tzdata); catalogue extension definitions pass cbc.Definition.Validate. "+
			"`references`: every tag (scenario tags, rate-value tags), extension key and value (category/rate/rate-value/scenario/note ext maps, scenario ext_key+ext_code, correction extensions, category extension lists), document type (scenario and correction types), schema name and required addon must be defined: category extension lists in the regime's own table (documented on CategoryDef.Extensions); other extension keys by the definition itself, a catalogue, an addon or a regime, and the value must satisfy at least one such definition (one of its values / its pattern, as Extensions.Validate states); tags by a tag set of the same schema of the definition itself, any addon, or (for addons) any regime, which is the set bill.Invoice accepts; document types by bill.InvoiceTypes (OrderTypes, ...) according to the schema; schemas by the schema registry; required addons by the addon registry. "+
			"`programs`: the five generator programs are run with `go run` in a scratch copy of the tree whose data/regimes, data/addons, data/schemas were emptied, and every file they write must equal the shipped one and every expected file must be written. "+
			"Non-trivial: every case whose definition / file / reference exists (each is distinct by construction); replayed cases whose subject no longer exists are discarded.",
		"catalogue files are their own source (tax.RegisterCatalogueDef loads data/catalogues/*.json), so for catalogues the comparison checks that the shipped file is the canonical re-serialisation",
		"no rule is asserted for rate keys, category codes, identity keys, note keys, stamps or tax_scheme: no definition struct documents what they must refer to",
		"alternative country codes are not required to be served by the bulk `regime` action",
	)
	vh.Enum("generated", enumGenerated, judgeGenerated)
	vh.Enum("shipped", enumShipped, judgeShipped)
	vh.Enum("served", enumServed, judgeServed)
	vh.Enum("definitions", enumDefs, judgeDef)
	vh.Enum("references", enumRefs, judgeRef)
	vh.Enum("programs", enumPrograms, judgeProgram)
	vh.Enum("after_use", enumUse, judgeUse)
}
