// Package c04 decides property C04: calculation is a deterministic fixpoint
// and serialisation is lossless.
package c04

import (
	"bytes"
	"crypto/sha256"
	"encoding/hex"
	"encoding/json"
	"fmt"
	"os"
	"os/exec"
	"path/filepath"
	"regexp"
	"sort"
	"strings"
	"testing"

	"github.com/invopop/gobl"
	"github.com/invopop/gobl/cbc"
	"github.com/invopop/gobl/dsig"
	"github.com/invopop/gobl/head"
	"github.com/invopop/gobl/l10n"
	"github.com/invopop/gobl/org"
	"github.com/invopop/gobl/schema"
	"github.com/invopop/gobl/tax"
	"github.com/invopop/gobl/verifharness/internal/billrun"
	"github.com/invopop/gobl/verifharness/internal/corpus"
	"github.com/invopop/gobl/verifharness/internal/docgen"
	"github.com/invopop/gobl/verifharness/internal/jsontree"
	"github.com/invopop/gobl/verifharness/internal/pubdata"
	"github.com/invopop/gobl/verifharness/internal/refcalc"
	"github.com/invopop/gobl/verifharness/internal/vh"
	"pgregory.net/rapid"
)

func TestMain(m *testing.M) { vh.Main(m, "C04") }

func TestAll(t *testing.T) { vh.RunAll(t) }

var signKey = dsig.NewES256Key()

// firstDiff describes where two byte strings part.
func firstDiff(a, b []byte) string {
	n := len(a)
	if len(b) < n {
		n = len(b)
	}
	i := 0
	for i < n && a[i] == b[i] {
		i++
	}
	lo := i - 40
	if lo < 0 {
		lo = 0
	}
	ha, hb := i+40, i+40
	if ha > len(a) {
		ha = len(a)
	}
	if hb > len(b) {
		hb = len(b)
	}
	return fmt.Sprintf("at byte %d: …%s… vs …%s…", i, a[lo:ha], b[lo:hb])
}

// diffPath finds the first JSON pointer at which two documents differ.
func diffPath(a, b []byte) string {
	ta, e1 := jsontree.Decode(a)
	tb, e2 := jsontree.Decode(b)
	if e1 != nil || e2 != nil {
		return "?"
	}
	na, nb := jsontree.Nodes(ta), jsontree.Nodes(tb)
	mb := map[string]jsontree.Node{}
	for _, n := range nb {
		mb[n.Ptr] = n
	}
	digest := ""
	for _, n := range na {
		if n.Kind == "object" || n.Kind == "array" {
			continue
		}
		o, ok := mb[n.Ptr]
		if !ok {
			return n.Ptr + " (removed)"
		}
		if !jsontree.Equal(n.Value, o.Value) {
			if strings.HasPrefix(n.Ptr, "/head/dig/") {
				// the digest follows from the document: name what changed there
				digest = n.Ptr
				continue
			}
			return n.Ptr
		}
	}
	ma := map[string]bool{}
	for _, n := range na {
		ma[n.Ptr] = true
	}
	for _, n := range nb {
		if !ma[n.Ptr] {
			return n.Ptr + " (added)"
		}
	}
	if digest != "" {
		return digest
	}
	return "(member order)"
}

func normPtr(p string) string {
	out := []string{}
	for _, s := range strings.Split(p, "/") {
		if s != "" && s[0] >= '0' && s[0] <= '9' {
			s = "*"
		}
		out = append(out, s)
	}
	return strings.Join(out, "/")
}

// fixpoint runs the core oracle on a document (or envelope) text.
// known != "" replaces the signature of a fixpoint failure (recorded finding).
func fixpoint(text []byte, isEnv bool, known string, o *vh.Obs) (b1 []byte, ok bool) {
	env, err := corpus.EnvelopeOf(text, isEnv)
	if err != nil {
		o.Class("calc-error")
		o.Discard()
		return nil, false
	}
	b1, err = json.Marshal(env)
	if err != nil {
		o.Failf("marshal:calculated", "calculated envelope does not serialise: %v", err)
		return nil, false
	}
	// parse -> serialise is the identity
	e2 := new(gobl.Envelope)
	if err := json.Unmarshal(b1, e2); err != nil {
		o.Failf("lossless:unparseable", "serialised envelope does not parse back: %v", err)
		return nil, false
	}
	rt, err := json.Marshal(e2)
	if err != nil {
		o.Failf("lossless:unserialisable", "parsed envelope does not serialise: %v", err)
		return nil, false
	}
	if !bytes.Equal(rt, b1) {
		o.Failf("lossless:"+normPtr(diffPath(b1, rt)), "parse then serialise is not the identity %s", firstDiff(b1, rt))
		return nil, false
	}
	// calculate again: byte-identical, same digest
	if err := e2.Calculate(); err != nil {
		sig := "fixpoint:recalculation-fails"
		if known != "" {
			sig = known
		}
		o.Failf(sig, "the calculated document fails to calculate again: %v", err)
		return nil, false
	}
	b2, err := json.Marshal(e2)
	if err != nil {
		o.Failf("marshal:recalculated", "recalculated envelope does not serialise: %v", err)
		return nil, false
	}
	if !bytes.Equal(b1, b2) {
		sig := "fixpoint:" + normPtr(diffPath(b1, b2))
		if known != "" {
			sig = known
		}
		o.Failf(sig, "calculating the serialised result again changes it at %s (%s)", diffPath(b1, b2), firstDiff(b1, b2))
		return nil, false
	}
	if env.Head.Digest.Value != e2.Head.Digest.Value {
		o.Failf("fixpoint:digest", "digest changed from %s to %s", env.Head.Digest.Value, e2.Head.Digest.Value)
		return nil, false
	}
	// a third time, in-process determinism (map iteration order)
	e3 := new(gobl.Envelope)
	if json.Unmarshal(b2, e3) == nil && e3.Calculate() == nil {
		if b3, err := json.Marshal(e3); err == nil && !bytes.Equal(b3, b1) {
			o.Failf("fixpoint:third-pass", "third calculation differs at %s", diffPath(b1, b3))
			return nil, false
		}
	}
	return b1, true
}

// readOnly: validate / digest / verify / extract never change the envelope.
func readOnly(b1 []byte, o *vh.Obs) {
	env := new(gobl.Envelope)
	if err := json.Unmarshal(b1, env); err != nil {
		return
	}
	// give the header something that could be reordered or dropped
	env.Head.Tags = []string{"zeta", "alpha", "mid"}
	env.Head.Notes = "a note"
	env.Head.Meta = cbc.Meta{"zz-key": "1", "aa-key": "2"}
	env.Head.AddLink(&head.Link{Key: "second", URL: "https://example.com/2"})
	env.Head.AddLink(&head.Link{Key: "first", URL: "https://example.com/1"})
	var err error
	if b1, err = json.Marshal(env); err != nil {
		return
	}
	steps := []struct {
		name string
		fn   func()
	}{
		{"Validate", func() { _ = env.Validate() }},
		{"Digest", func() { _, _ = env.Digest() }},
		{"Extract", func() { _ = env.Extract() }},
		{"Verify", func() { _ = env.Verify(signKey.Public()) }},
		{"CorrectionOptionsSchema", func() { _, _ = env.CorrectionOptionsSchema() }},
	}
	for _, s := range steps {
		s.fn()
		after, err := json.Marshal(env)
		if err != nil || !bytes.Equal(after, b1) {
			o.Failf("readonly:"+s.name, "%s changed the envelope at %s", s.name, diffPath(b1, after))
			return
		}
	}
	// the same on the signed envelope, which may also carry stamps (in an
	// order nothing would choose)
	if env.Sign(signKey) != nil {
		return
	}
	env.Head.AddStamp(&head.Stamp{Provider: "zeta-provider", Value: "z"})
	env.Head.AddStamp(&head.Stamp{Provider: "alpha-provider", Value: "a"})
	env.Head.AddStamp(&head.Stamp{Provider: "mid-provider", Value: "m"})
	if b1, err = json.Marshal(env); err != nil {
		return
	}
	o.Class("readonly-signed")
	for _, s := range steps {
		s.fn()
		after, err := json.Marshal(env)
		if err != nil || !bytes.Equal(after, b1) {
			o.Failf("readonly-signed:"+s.name, "%s changed the signed envelope at %s", s.name, diffPath(b1, after))
			return
		}
	}
}

// ---------------------------------------------------------------------------
// (i) corpus

type CorpusCase struct {
	Doc string `json:"doc"`
}

func docByPath(p string) *corpus.Doc {
	if strings.Contains(p, "#legacy-") {
		for _, d := range corpus.Legacy() {
			if d.Path == p {
				d := d
				return &d
			}
		}
		return nil
	}
	for _, d := range corpus.MustLoad() {
		if d.Path == p {
			d := d
			return &d
		}
	}
	return nil
}

func judgeCorpus(c CorpusCase, o *vh.Obs) {
	d := docByPath(c.Doc)
	if d == nil {
		o.Discard()
		return
	}
	o.Class("schema-" + d.ShortSch)
	o.NonTrivial()
	if b1, ok := fixpoint(d.JSON, d.IsEnv, "", o); ok {
		readOnly(b1, o)
	}
}

// legacy shapes of the examples (older member names, zones, rate and extension
// keys the library migrates on load): what they are migrated to must be a fixpoint
func enumLegacy(yield func(CorpusCase) bool) {
	cfg := vh.Cfg()
	for i, d := range corpus.Legacy() {
		if i%cfg.Shards != cfg.Shard {
			continue
		}
		if !yield(CorpusCase{Doc: d.Path}) {
			return
		}
	}
}

func enumCorpus(yield func(CorpusCase) bool) {
	cfg := vh.Cfg()
	for i, d := range corpus.MustLoad() {
		if i%cfg.Shards != cfg.Shard {
			continue
		}
		if !yield(CorpusCase{Doc: d.Path}) {
			return
		}
	}
}

// ---------------------------------------------------------------------------
// (ii) generated documents

func judgePlan(p docgen.Plan, o *vh.Obs) {
	out := billrun.Run(p)
	if p.CustomerRates != "" {
		o.Class("customer-rates")
	}
	if out.Err != nil {
		o.Class("calc-error")
		o.Discard()
		return
	}
	known := ""
	if ref, err := refcalc.Calculate(p, out.Env, out.Rows); err == nil {
		if ref.Stats.OutOfDomain {
			o.Class("outside-2^52-domain")
			o.Discard()
			return
		}
		if ref.Stats.Roundings > 0 {
			o.NonTrivial()
			o.Class("rounded")
		}
		if refcalc.OverPreciseFixed(p, out.Env.C, ref.Prices) {
			// recorded finding: a fixed amount finer than its presented precision is
			// used with all its digits but stored rounded
			o.Class("over-precise-fixed-amount")
			known = "fixpoint:over-precise-fixed-amount"
		}
	}
	o.Class("kind-" + p.Kind)
	if b1, ok := fixpoint(p.JSON(), false, known, o); ok {
		readOnly(b1, o)
	}
}

// ---------------------------------------------------------------------------
// (iii) normaliser stress: example documents with hostile strings

type StressCase struct {
	Doc  string            `json:"doc"`
	Sets map[string]string `json:"sets"` // JSON pointer -> new string
}

var hostileParts = []string{" ", "  ", "-", "--", ".", "/", "_", ":", "é", "ñ", "Ω", "\t", " ", "a", "B", "7", "0", "ES", "es", "EL", "GB", "-1", " A", "A ", "é A-1", "#", "&", "'", "\"", "\\", "😀", "İ", "ß"}

func genHostile(t *rapid.T, label string) string {
	n := rapid.IntRange(1, 6).Draw(t, label+"_n")
	var sb strings.Builder
	for i := 0; i < n; i++ {
		sb.WriteString(rapid.SampledFrom(hostileParts).Draw(t, label))
	}
	return sb.String()
}

var stringLeaves map[string][]string

func leavesOf(d corpus.Doc) []string {
	if stringLeaves == nil {
		stringLeaves = map[string][]string{}
	}
	if l, ok := stringLeaves[d.Path]; ok {
		return l
	}
	tree, err := jsontree.Decode(d.JSON)
	if err != nil {
		return nil
	}
	var out []string
	for _, n := range jsontree.Nodes(tree) {
		if n.Kind != "string" {
			continue
		}
		last := n.Ptr[strings.LastIndex(n.Ptr, "/")+1:]
		switch last {
		case "$schema", "$regime", "uuid", "issue_date", "value_date", "op_date", "date", "currency", "type", "cat", "rate", "key", "percent", "price", "quantity", "amount", "base", "sum", "total", "country", "unit":
			continue
		}
		if strings.Contains(n.Ptr, "/$addons/") || strings.Contains(n.Ptr, "/$tags/") || strings.Contains(n.Ptr, "/head/") || strings.Contains(n.Ptr, "/sigs/") {
			continue
		}
		out = append(out, n.Ptr)
	}
	stringLeaves[d.Path] = out
	return out
}

func genStress(t *rapid.T) StressCase {
	docs := corpus.MustLoad()
	d := docs[rapid.IntRange(0, len(docs)-1).Draw(t, "doc")]
	leaves := leavesOf(d)
	c := StressCase{Doc: d.Path, Sets: map[string]string{}}
	if len(leaves) == 0 {
		return c
	}
	n := rapid.IntRange(1, 3).Draw(t, "n")
	for i := 0; i < n; i++ {
		ptr := leaves[rapid.IntRange(0, len(leaves)-1).Draw(t, "leaf")]
		c.Sets[ptr] = genHostile(t, fmt.Sprintf("s%d", i))
	}
	return c
}

// every text field of every example written untidily but recognisably: padded
// with blanks, in the other letter case - a normaliser that reads a value
// before another one has tidied it gives a different answer the second time
func enumUntidy(yield func(StressCase) bool) {
	cfg := vh.Cfg()
	idx := 0
	for _, d := range corpus.MustLoad() {
		tree, err := jsontree.Decode(d.JSON)
		if err != nil {
			continue
		}
		for _, ptr := range leavesOf(d) {
			v, ok := jsontree.Get(tree, ptr)
			str, isStr := v.(string)
			if !ok || !isStr || str == "" {
				continue
			}
			for _, nv := range []string{" " + str + " ", str + "  ", strings.ToLower(str), strings.ToUpper(str), "", " "} {
				if nv == str {
					continue
				}
				idx++
				if idx%cfg.Shards != cfg.Shard {
					continue
				}
				if !yield(StressCase{Doc: d.Path, Sets: map[string]string{ptr: nv}}) {
					return
				}
			}
		}
	}
}

var numberRe = regexp.MustCompile(`^-?[0-9]+(\.[0-9]+)?%?$`)

// respell writes a decimal text with other decimals: trailing zeros removed,
// two zeros added (both the same number), and every smaller number of decimals down to none.
func respell(v string) []string {
	pct := strings.HasSuffix(v, "%")
	n := strings.TrimSuffix(v, "%")
	var out []string
	add := func(x string) {
		if pct {
			x += "%"
		}
		if x != v {
			out = append(out, x)
		}
	}
	if strings.Contains(n, ".") {
		t := strings.TrimRight(n, "0")
		t = strings.TrimSuffix(t, ".")
		if t == "" || t == "-" {
			t += "0"
		}
		add(t)
		add(n + "00")
		// written with every smaller number of decimals, down to none
		for t := n[:len(n)-1]; ; t = t[:len(t)-1] {
			if strings.HasSuffix(t, ".") {
				add(strings.TrimSuffix(t, "."))
				break
			}
			add(t)
		}
	} else {
		add(n + ".00")
		add(n + ".0")
	}
	return out
}

// enumRespelled: every number written as text in every example source, with
// other decimals. What a number's text looks like must not matter beyond the
// first calculation: the serialised result is a fixpoint whatever precision
// the input was written with.
func enumRespelled(yield func(StressCase) bool) {
	cfg := vh.Cfg()
	idx := 0
	for _, d := range corpus.MustLoad() {
		tree, err := jsontree.Decode(d.JSON)
		if err != nil {
			continue
		}
		for _, n := range jsontree.Nodes(tree) {
			if n.Kind != "string" || strings.Contains(n.Ptr, "/head/") || strings.Contains(n.Ptr, "/sigs/") {
				continue
			}
			v, ok := jsontree.Get(tree, n.Ptr)
			str, isStr := v.(string)
			last := n.Ptr[strings.LastIndex(n.Ptr, "/")+1:]
			if !ok || !isStr || !numberRe.MatchString(str) || last == "code" || last == "series" || last == "num" || last == "post_code" || last == "val" {
				continue
			}
			for _, nv := range respell(str) {
				idx++
				if idx%cfg.Shards != cfg.Shard {
					continue
				}
				if !yield(StressCase{Doc: d.Path, Sets: map[string]string{n.Ptr: nv}}) {
					return
				}
			}
		}
	}
}

func judgeStress(c StressCase, o *vh.Obs) {
	d := docByPath(c.Doc)
	if d == nil {
		o.Discard()
		return
	}
	tree, err := jsontree.Decode(d.JSON)
	if err != nil {
		o.Discard()
		return
	}
	ptrs := make([]string, 0, len(c.Sets))
	for p := range c.Sets {
		ptrs = append(ptrs, p)
	}
	sort.Strings(ptrs)
	for _, p := range ptrs {
		// a member of an object the source does not have yet (totals.rounding)
		if i := strings.LastIndex(p, "/"); i > 0 {
			if _, ok := jsontree.Get(tree, p[:i]); !ok {
				if t2, err := jsontree.Set(tree, p[:i], map[string]any{}); err == nil {
					tree = t2
				}
			}
		}
		tree, err = jsontree.Set(tree, p, c.Sets[p])
		if err != nil {
			o.Discard()
			return
		}
		o.Class("field-" + p[strings.LastIndex(p, "/")+1:])
	}
	o.NonTrivial()
	known := ""
	for _, p := range ptrs {
		isTaxCode := strings.HasSuffix(p, "/tax_id/code") || (p == "/code" && d.ShortSch == "tax/identity")
		if isTaxCode && repeatedPrefix(c.Sets[p]) {
			// recorded finding: the country prefix is stripped once per calculation
			o.Class("repeated-country-prefix")
			known = "fixpoint:repeated-country-prefix"
		}
	}
	defer func() {
		if r := recover(); r != nil {
			// crashes on hostile input are property C14's subject
			o.Class("panicked-see-C14")
			o.Discard()
		}
	}()
	if b1, ok := fixpoint(jsontree.Encode(tree), d.IsEnv, known, o); ok {
		readOnly(b1, o)
	}
}

// repeatedPrefix reports whether the text, reduced to upper-case letters and
// digits, starts with the same two letters twice (ESES…, ELEL…).
func repeatedPrefix(s string) bool {
	var b []byte
	for _, r := range strings.ToUpper(s) {
		if (r >= 'A' && r <= 'Z') || (r >= '0' && r <= '9') {
			b = append(b, byte(r))
		}
	}
	if len(b) < 4 {
		return false
	}
	letters := func(x byte) bool { return x >= 'A' && x <= 'Z' }
	return letters(b[0]) && letters(b[1]) && b[0] == b[2] && b[1] == b[3]
}

// ---------------------------------------------------------------------------
// (iv) histories

type HistoryCase struct {
	Doc string   `json:"doc"`
	Ops []string `json:"ops"`
}

var historyOps = []string{"calculate", "reparse", "validate", "digest", "verify", "extract", "sign", "unsign-resign", "clone-doc"}

func genHistory(t *rapid.T) HistoryCase {
	docs := corpus.MustLoad()
	d := docs[rapid.IntRange(0, len(docs)-1).Draw(t, "doc")]
	n := rapid.IntRange(1, 12).Draw(t, "n")
	c := HistoryCase{Doc: d.Path}
	for i := 0; i < n; i++ {
		c.Ops = append(c.Ops, rapid.SampledFrom(historyOps).Draw(t, "op"))
	}
	return c
}

func judgeHistory(c HistoryCase, o *vh.Obs) {
	d := docByPath(c.Doc)
	if d == nil {
		o.Discard()
		return
	}
	env, err := d.Envelope()
	if err != nil {
		o.Discard()
		return
	}
	strip := func(e *gobl.Envelope) []byte {
		// signatures are random: compare everything else
		cp := *e
		cp.Signatures = nil
		out, _ := json.Marshal(&cp)
		return out
	}
	b1 := strip(env)
	dig := env.Head.Digest.Value
	if len(c.Ops) >= 2 {
		o.NonTrivial()
	}
	for i, op := range c.Ops {
		switch op {
		case "calculate":
			if err := env.Calculate(); err != nil {
				o.Failf("history:calculate-fails", "step %d: recalculation fails: %v", i, err)
				return
			}
		case "reparse":
			full, err := json.Marshal(env)
			if err != nil {
				o.Failf("history:marshal", "step %d: %v", i, err)
				return
			}
			e2 := new(gobl.Envelope)
			if err := json.Unmarshal(full, e2); err != nil {
				o.Failf("history:reparse", "step %d: serialised envelope does not parse: %v", i, err)
				return
			}
			env = e2
		case "validate":
			_ = env.Validate()
		case "digest":
			_, _ = env.Digest()
		case "verify":
			_ = env.Verify(signKey.Public())
		case "extract":
			_ = env.Extract()
		case "sign":
			_ = env.Sign(signKey)
		case "unsign-resign":
			env.Unsign()
			_ = env.Sign(signKey)
		case "clone-doc":
			if cl, err := env.Document.Clone(); err == nil {
				_ = cl.Calculate()
			}
		}
		after := strip(env)
		if !bytes.Equal(after, b1) {
			o.Failf("history:"+op+":"+normPtr(diffPath(b1, after)), "after %v the envelope differs from the first calculation at %s", c.Ops[:i+1], diffPath(b1, after))
			return
		}
		if env.Head.Digest.Value != dig {
			o.Failf("history:digest", "after %v the digest changed", c.Ops[:i+1])
			return
		}
	}
}

// ---------------------------------------------------------------------------
// (v) published definition files are serialised documents

type FileCase struct {
	File string `json:"file"`
}

func enumDefinitions(yield func(FileCase) bool) {
	if vh.Cfg().Shard != 0 {
		return
	}
	for _, dir := range []string{"regimes", "addons", "catalogues"} {
		files, _ := filepath.Glob(filepath.Join(vh.Cfg().Repo, "data", dir, "*.json"))
		sort.Strings(files)
		for _, f := range files {
			rel, _ := filepath.Rel(vh.Cfg().Repo, f)
			if !yield(FileCase{File: rel}) {
				return
			}
		}
	}
}

func judgeDefinition(c FileCase, o *vh.Obs) {
	data, err := os.ReadFile(filepath.Join(vh.Cfg().Repo, c.File))
	if err != nil {
		o.Discard()
		return
	}
	o.NonTrivial()
	o.Class(filepath.Base(filepath.Dir(c.File)))
	obj, err := gobl.Parse(data)
	if err != nil {
		o.Failf("definition:unparseable", "%s does not parse as a document of its $schema: %v", c.File, err)
		return
	}
	// the generators publish a definition wrapped with its $schema
	wrapped, err := schema.NewObject(obj)
	if err != nil {
		o.Failf("definition:no-schema", "%s: parsed definition has no registered schema: %v", c.File, err)
		return
	}
	out, err := json.Marshal(wrapped)
	if err != nil {
		o.Failf("definition:unserialisable", "%s: %v", c.File, err)
		return
	}
	ta, _ := jsontree.Decode(data)
	tb, _ := jsontree.Decode(out)
	if !jsontree.Equal(ta, tb) {
		o.Failf("definition:lossy:"+normPtr(diffPath(data, out)), "%s: parse then serialise differs at %s", c.File, diffPath(data, out))
	}
}

// ---------------------------------------------------------------------------
// normaliser laws

type StringCase struct {
	Text string `json:"text"`
}

func judgeNormalisers(c StringCase, o *vh.Obs) {
	s := c.Text
	o.NonTrivial()
	n1 := cbc.NormalizeCode(cbc.Code(s))
	if n2 := cbc.NormalizeCode(n1); n2 != n1 {
		o.Failf("normalise:code", "NormalizeCode(%q) = %q, again = %q", s, n1, n2)
	}
	a1 := cbc.NormalizeAlphanumericalCode(cbc.Code(s))
	if a2 := cbc.NormalizeAlphanumericalCode(a1); a2 != a1 {
		o.Failf("normalise:alphanumerical-code", "NormalizeAlphanumericalCode(%q) = %q, again = %q", s, a1, a2)
	}
	d1 := cbc.NormalizeNumericalCode(cbc.Code(s))
	if d2 := cbc.NormalizeNumericalCode(d1); d2 != d1 {
		o.Failf("normalise:numerical-code", "NormalizeNumericalCode(%q) = %q, again = %q", s, d1, d2)
	}
	for _, cc := range []string{"ES", "EL", "GB", "FR"} {
		id := &tax.Identity{Country: l10n.TaxCountryCode(cc), Code: cbc.Code(s)}
		tax.NormalizeIdentity(id)
		first := id.Code
		tax.NormalizeIdentity(id)
		if id.Code != first && !strings.HasPrefix(string(first), cc) {
			// a code made of repeated country prefixes (ESESES…) loses one per pass: outside the variant grammar
			o.Failf("normalise:identity", "NormalizeIdentity(%s %q) = %q, again = %q", cc, s, first, id.Code)
		}
	}
	adr := &org.Address{Street: s, Locality: s, Code: cbc.Code(s), Region: s}
	adr.Normalize(nil)
	j1, _ := json.Marshal(adr)
	adr.Normalize(nil)
	j2, _ := json.Marshal(adr)
	if !bytes.Equal(j1, j2) {
		o.Failf("normalise:address", "Address.Normalize is not idempotent for %q: %s then %s", s, j1, j2)
	}
}

// ---------------------------------------------------------------------------
// cross-process determinism: a fresh process (other map seeds, other
// GOMAXPROCS) must produce the same bytes

func hashOf(b []byte) string {
	h := sha256.Sum256(b)
	return hex.EncodeToString(h[:8])
}

func b1Of(text []byte, isEnv bool) string {
	env, err := corpus.EnvelopeOf(text, isEnv)
	if err != nil {
		return "error"
	}
	out, err := json.Marshal(env)
	if err != nil {
		return "error"
	}
	return hashOf(out)
}

type crossInput struct {
	Name  string `json:"name"`
	IsEnv bool   `json:"is_env"`
	Text  []byte `json:"text"`
}

// TestChildB1 is the helper run in the fresh process.
func TestChildB1(t *testing.T) {
	in := os.Getenv("VERIF_C04_CHILD_IN")
	if in == "" {
		t.Skip("helper")
	}
	data, err := os.ReadFile(in)
	if err != nil {
		t.Fatal(err)
	}
	var inputs []crossInput
	if err := json.Unmarshal(data, &inputs); err != nil {
		t.Fatal(err)
	}
	out := map[string]string{}
	for _, ci := range inputs {
		out[ci.Name] = b1Of(ci.Text, ci.IsEnv)
	}
	res, _ := json.Marshal(out)
	if err := os.WriteFile(os.Getenv("VERIF_C04_CHILD_OUT"), res, 0o644); err != nil {
		t.Fatal(err)
	}
}

type CrossCase struct {
	Name       string `json:"name"`
	GoMaxProcs string `json:"gomaxprocs"`
	Local      string `json:"local"`
	Child      string `json:"child"`
}

func runCross(t *testing.T, r *vh.Runner) {
	if vh.Cfg().Shard != 0 {
		return
	}
	r.DistinctByConstruction()
	var inputs []crossInput
	for _, d := range corpus.MustLoad() {
		inputs = append(inputs, crossInput{Name: d.Path, IsEnv: d.IsEnv, Text: d.JSON})
	}
	// a few generated documents with many tax groups (map heavy paths)
	for i := 0; i < 40; i++ {
		p := rapid.Custom(func(t *rapid.T) docgen.Plan { return docgen.GenPlan(t, docgen.Opts{TaxHeavy: true, MaxLines: 6}) }).Example(i + int(vh.Cfg().Seed%1000)*100)
		inputs = append(inputs, crossInput{Name: fmt.Sprintf("generated-%d", i), Text: p.JSON()})
	}
	local := map[string]string{}
	for _, ci := range inputs {
		local[ci.Name] = b1Of(ci.Text, ci.IsEnv)
	}
	dir, err := os.MkdirTemp("", "c04-cross-")
	if err != nil {
		t.Fatalf("tempdir: %v", err)
	}
	defer os.RemoveAll(dir)
	data, _ := json.Marshal(inputs)
	inFile := filepath.Join(dir, "in.json")
	if err := os.WriteFile(inFile, data, 0o644); err != nil {
		t.Fatalf("write: %v", err)
	}
	procs := []string{"1", "4"}
	if vh.Thorough() {
		procs = []string{"1", "2", "4", "16", "3"}
	}
	for _, gmp := range procs {
		outFile := filepath.Join(dir, "out-"+gmp+".json")
		cmd := exec.Command(os.Args[0], "-test.run", "^TestChildB1$")
		cmd.Env = append(os.Environ(), "VERIF_C04_CHILD_IN="+inFile, "VERIF_C04_CHILD_OUT="+outFile, "GOMAXPROCS="+gmp, "VERIF_FUZZ=1")
		if out, err := cmd.CombinedOutput(); err != nil {
			t.Fatalf("child process failed: %v\n%s", err, out)
		}
		res, err := os.ReadFile(outFile)
		if err != nil {
			t.Fatalf("child produced no output: %v", err)
		}
		child := map[string]string{}
		if err := json.Unmarshal(res, &child); err != nil {
			t.Fatalf("child output: %v", err)
		}
		for _, ci := range inputs {
			o := &vh.Obs{}
			o.NonTrivial()
			o.Class("gomaxprocs-" + gmp)
			c := CrossCase{Name: ci.Name, GoMaxProcs: gmp, Local: local[ci.Name], Child: child[ci.Name]}
			if c.Local != c.Child {
				o.Failf("cross-process:bytes-differ", "%s: a fresh process (GOMAXPROCS=%s) serialises the calculated envelope differently (%s vs %s)", ci.Name, gmp, c.Child, c.Local)
			}
			r.Observe(t, c, o)
		}
	}
}

// ---------------------------------------------------------------------------
// (viii) regime x addon x rate key / tag sweep: a minimal invoice per combination

type MatrixCase struct {
	Regime  string `json:"regime"`
	Addon   string `json:"addon,omitempty"`
	Cat     string `json:"cat,omitempty"`
	Rate    string `json:"rate,omitempty"`
	Percent string `json:"percent,omitempty"`
	Tag     string `json:"tag,omitempty"`
	// Customer is the country of the customer's tax identity (default: the regime)
	Customer string `json:"customer,omitempty"`
}

func (c MatrixCase) doc() []byte {
	regs, _ := pubdata.Regimes()
	cur := "EUR"
	if r := regs[c.Regime]; r != nil && r.Currency != "" {
		cur = r.Currency
	}
	combo := map[string]any{}
	if c.Cat != "" {
		combo["cat"] = c.Cat
		if c.Rate != "" {
			combo["rate"] = c.Rate
		}
		if c.Percent != "" {
			combo["percent"] = c.Percent
		}
	}
	line := map[string]any{"quantity": "3", "item": map[string]any{"name": "Item", "price": "33.33"}}
	if c.Cat != "" {
		line["taxes"] = []any{combo}
	}
	customer := c.Regime
	if c.Customer != "" {
		customer = c.Customer
	}
	inv := map[string]any{
		"$schema":    "https://gobl.org/draft-0/bill/invoice",
		"$regime":    c.Regime,
		"uuid":       "0190f5f0-7f3c-7000-8000-0123456789ab",
		"series":     "MX",
		"code":       "0001",
		"issue_date": "2024-06-13",
		"currency":   cur,
		"supplier":   map[string]any{"name": "Supplier", "tax_id": map[string]any{"country": c.Regime}},
		"customer":   map[string]any{"name": "Customer", "tax_id": map[string]any{"country": customer}},
		"lines":      []any{line},
	}
	if c.Addon != "" {
		inv["$addons"] = []any{c.Addon}
	}
	if c.Tag != "" {
		inv["$tags"] = []any{c.Tag}
	}
	data, _ := json.Marshal(inv)
	return data
}

var generalTags = []string{"simplified", "reverse-charge", "self-billed", "customer-rates", "partial", "b2g", "export", "bypass"}

func enumMatrix(yield func(MatrixCase) bool) {
	cfg := vh.Cfg()
	regs, list := pubdata.Regimes()
	defs := pubdata.MustPublished()
	addons := append([]string{""}, defs.AddonKeys...)
	i := 0
	emit := func(c MatrixCase) bool {
		i++
		if i%cfg.Shards != cfg.Shard {
			return true
		}
		return yield(c)
	}
	for _, cc := range list {
		reg := regs[cc]
		for _, a := range addons {
			for _, cat := range reg.Categories {
				for _, r := range cat.Rates {
					if !emit(MatrixCase{Regime: cc, Addon: a, Cat: cat.Code, Rate: r.Key}) {
						return
					}
				}
				for _, pct := range []string{"", "0%", "10%"} {
					if !emit(MatrixCase{Regime: cc, Addon: a, Cat: cat.Code, Percent: pct}) {
						return
					}
				}
			}
			tags := append([]string{}, generalTags...)
			if pr := defs.Regimes[cc]; pr != nil {
				tags = append(tags, pr.Tags["bill/invoice"]...)
			}
			if pa := defs.Addons[a]; pa != nil {
				tags = append(tags, pa.Tags["bill/invoice"]...)
			}
			seen := map[string]bool{}
			for _, tg := range tags {
				if seen[tg] {
					continue
				}
				seen[tg] = true
				mc := MatrixCase{Regime: cc, Addon: a, Tag: tg}
				if len(reg.Categories) > 0 {
					mc.Cat = reg.Categories[0].Code
					mc.Percent = "10%"
					for _, r := range reg.Categories[0].Rates {
						if r.HasValues && !r.Qualified {
							mc.Rate, mc.Percent = r.Key, ""
							break
						}
					}
				}
				if !emit(mc) {
					return
				}
				// and with a customer from elsewhere (EU, non-EU, alternative code)
				for _, cust := range []string{"ES", "PT", "GR", "US", "XI"} {
					if cust == cc {
						continue
					}
					mc.Customer = cust
					if !emit(mc) {
						return
					}
				}
			}
		}
	}
}

func judgeMatrix(c MatrixCase, o *vh.Obs) {
	if c.Addon != "" {
		o.Class("with-addon")
	}
	if c.Rate != "" {
		o.Class("rate-key")
	}
	if c.Tag != "" {
		o.Class("tagged")
	}
	if c.Customer != "" {
		o.Class("foreign-customer")
	}
	b1, ok := fixpoint(c.doc(), false, "", o)
	if !ok {
		return
	}
	if c.Addon != "" || c.Tag != "" || c.Rate != "" {
		o.NonTrivial()
	}
	if bytes.Contains(b1, []byte(`"ext"`)) {
		o.Class("extensions-assigned")
	}
	if bytes.Contains(b1, []byte(`"notes"`)) {
		o.Class("scenario-note")
	}
	readOnly(b1, o)
}

// ---------------------------------------------------------------------------
// (ix) generated documents decorated with addons, tags and tax identities

type DecoratedCase struct {
	Plan     docgen.Plan `json:"plan"`
	Addons   []string    `json:"addons,omitempty"`
	Tags     []string    `json:"tags,omitempty"`
	Supplier string      `json:"supplier,omitempty"` // country of the supplier's tax identity
	Customer string      `json:"customer,omitempty"`
}

func (c DecoratedCase) doc() []byte {
	var m map[string]any
	if json.Unmarshal(c.Plan.JSON(), &m) != nil {
		return nil
	}
	if len(c.Addons) > 0 {
		m["$addons"] = c.Addons
	}
	if len(c.Tags) > 0 {
		m["$tags"] = c.Tags
	}
	if sup, ok := m["supplier"].(map[string]any); ok && c.Supplier != "" {
		sup["tax_id"] = map[string]any{"country": c.Supplier}
	}
	if c.Customer != "" {
		cust, _ := m["customer"].(map[string]any)
		if cust == nil {
			cust = map[string]any{"name": "Customer Ltd."}
			m["customer"] = cust
		}
		cust["tax_id"] = map[string]any{"country": c.Customer}
	}
	data, _ := json.Marshal(m)
	return data
}

func genDecorated(t *rapid.T) DecoratedCase {
	defs := pubdata.MustPublished()
	c := DecoratedCase{Plan: docgen.GenPlan(t, docgen.Opts{MaxLines: 3, TaxHeavy: true, FixedAtCur: true})}
	kind := "bill/" + c.Plan.Kind
	c.Supplier = c.Plan.Regime
	na := rapid.SampledFrom([]int{0, 1, 1, 1, 2, 2, 3}).Draw(t, "naddons")
	tags := append([]string{}, generalTags...)
	if pr := defs.Regimes[c.Plan.Regime]; pr != nil {
		tags = append(tags, pr.Tags[kind]...)
	}
	for i := 0; i < na; i++ {
		a := rapid.SampledFrom(defs.AddonKeys).Draw(t, "addon")
		c.Addons = append(c.Addons, a)
		tags = append(tags, defs.Addons[a].Tags[kind]...)
	}
	for i, n := 0, rapid.SampledFrom([]int{0, 0, 1, 1, 2, 3}).Draw(t, "ntags"); i < n; i++ {
		c.Tags = append(c.Tags, rapid.SampledFrom(tags).Draw(t, "tag"))
	}
	switch rapid.IntRange(0, 3).Draw(t, "customer") {
	case 0:
	case 1:
		c.Customer = c.Plan.Regime
	default:
		c.Customer = rapid.SampledFrom(defs.TaxList).Draw(t, "customercountry")
	}
	return c
}

func judgeDecorated(c DecoratedCase, o *vh.Obs) {
	known := ""
	// fixed amounts are drawn at the currency's precision, so the recorded
	// finding cannot occur unless the plain plan says so
	if out := billrun.Run(c.Plan); out.Err == nil {
		if ref, err := refcalc.Calculate(c.Plan, out.Env, out.Rows); err == nil {
			if ref.Stats.OutOfDomain {
				o.Class("outside-2^52-domain")
				o.Discard()
				return
			}
			if refcalc.OverPreciseFixed(c.Plan, out.Env.C, ref.Prices) {
				o.Class("over-precise-fixed-amount")
				known = "fixpoint:over-precise-fixed-amount"
			}
		}
	}
	o.Class(fmt.Sprintf("addons-%d", len(c.Addons)))
	o.Class(fmt.Sprintf("tags-%d", len(c.Tags)))
	if c.Customer != "" && c.Customer != c.Plan.Regime {
		o.Class("foreign-customer")
	}
	o.Class("kind-" + c.Plan.Kind)
	if b1, ok := fixpoint(c.doc(), false, known, o); ok {
		if len(c.Addons) > 0 || len(c.Tags) > 0 {
			o.NonTrivial()
		}
		readOnly(b1, o)
	}
}

func init() {
	vh.Describe(
		"(i) every example document of every schema, and legacy variants of two example invoices per regime rewritten into the older shapes the library migrates on load (tax identity zones in PT / CO / MX, PT legacy exempt rate keys, IT SDI extension keys, MX identities that became extensions, tags and old rounding names on the tax object, tags on combos, online payment name / addr); (ii) generated invoices / orders / deliveries (C01 variety); (iii) example documents with 1-3 string fields (codes, series, identities, addresses, notes, names) replaced by hostile strings (spaces, doubled separators, non-ASCII, leading invalid characters, country prefixes); (iii-b) every text field of every example written untidily but recognisably (padded with blanks, trailing blanks, lower case, upper case), exhaustively; (iv) random histories of up to 12 steps of calculate / serialise+parse / validate / digest / verify / extract / sign / re-sign / clone over examples; (v) every published regime / addon / catalogue file parsed by its $schema and serialised again; (vi) normaliser laws on hostile strings; (viii) a minimal invoice for every registered regime x every published addon (and none) x every rate key of every category (plus explicit 0% / 10% / no percentage) and x every general, regime and addon invoice tag with a customer of the same and of five other countries; (ix) generated documents (tax-heavy, fixed amounts at the currency's precision) with 0-3 published addons, 0-3 general / regime / addon tags, a supplier tax identity and a customer of no, the same or any other tax country; (x) every member the published schemas declare and an example does not carry, added once per published type and member with a small valid instance and with each free-text string within two member names inside it replaced by untidy text (spaces, doubled separators, non-ASCII, prefixes); (vii) the calculated bytes of every example and of 40 generated documents recomputed in fresh processes with other GOMAXPROCS. Oracle: B1 = marshal(calc(parse(src))), marshal(parse(B1)) == B1, marshal(calc(parse(B1))) == B1 byte for byte with the same digest (also a third time), read-only operations leave marshal(env) unchanged - on the decorated unsigned envelope and again after signing it and adding three stamps in unsorted order -, identical bytes across processes. Non-trivial: the case had something to normalise, round or reorder (hostile strings, rounding remainders, >= 2 history steps). `untidy_values`: every text leaf of every example padded with blanks, with doubled blanks, in the other letter case, emptied and blank, one at a time. `respelled_numbers`: every number written as text in every example (amounts, quantities, percentages, bases of supplied summaries, complement figures) with trailing zeros removed, two zeros added and every smaller number of decimals down to none, one at a time: whatever precision a number was written with, the serialised result is a fixpoint. `cross_document`: every example invoice is calculated, edited in memory (party aliases, addresses, every extension value in place) and calculated again, twice; every example sharing its regime or an addon must then still calculate to the bytes it gave before. `key_extensions`: every `key` member of every example that names addons, extended with one and with two of the cbc.Key constants declared in the source of those addons' packages (quick: the first 40 words). `rounding_inputs`: every example invoice, order and delivery given a totals.rounding of its own, at the currency's precision and finer. `empty_extensions`: every extension key the document's addons and regime publish, put with an empty value into every extension map (and onto parties, the first item, the tax block, the payment instructions and the first combo when they have none).",
		"identifiers and dates are pinned (explicit uuid / issue_date, fixed header uuid); signatures are random and excluded from byte comparisons",
		"documents with a fixed amount finer than its presented precision are a recorded finding (excluded by signature, counted)",
		"a panic on a hostile string is reported by C14, not here",
	)
	vh.Enum("corpus", enumCorpus, judgeCorpus)
	vh.Enum("legacy", enumLegacy, judgeCorpus)
	vh.Enum("definitions", enumDefinitions, judgeDefinition)
	vh.Enum("regime_addon_matrix", enumMatrix, judgeMatrix)
	vh.Rapid("decorated", 10_000, 600_000, genDecorated, judgeDecorated)
	vh.Enum("absent_members", enumAbsent, judgeAbsent)
	vh.Rapid("generated", 12_000, 800_000, func(t *rapid.T) docgen.Plan { return docgen.GenPlan(t, docgen.Opts{MaxLines: 5}) }, judgePlan)
	vh.Rapid("stress", 6_000, 400_000, genStress, judgeStress)
	vh.Enum("untidy_values", enumUntidy, judgeStress)
	vh.Enum("cross_document", enumCrossDoc, judgeCrossDoc)
	vh.Enum("key_extensions", enumKeyExtensions, judgeStress)
	vh.Enum("empty_extensions", enumEmptyExt, judgeStress)
	vh.Enum("rounding_inputs", enumRoundingInputs, judgeStress)
	vh.Enum("respelled_numbers", enumRespelled, judgeStress) // every number of every example written with other decimals (see enumRespelled)
	vh.Rapid("histories", 1_500, 100_000, genHistory, judgeHistory)
	vh.Rapid("normalisers", 60_000, 3_000_000, func(t *rapid.T) StringCase { return StringCase{Text: genHostile(t, "s")} }, judgeNormalisers)
	vh.Custom("cross_process", runCross, func(raw json.RawMessage, o *vh.Obs) {
		var c CrossCase
		if json.Unmarshal(raw, &c) == nil && c.Local != c.Child {
			o.Failf("cross-process:bytes-differ", "%s differs across processes", c.Name)
		}
	})
}
