package c04

// What one document is calculated to must not depend on what the process did
// to OTHER documents before: an application keeps a document in memory, edits
// it and calculates it again, and whatever the library handed out by reference
// (an extension map of a scenario or a definition) is then written in place.
// For every example A: calculate it, edit the in-memory document (addresses,
// identity and party members that normalisers copy into extensions), calculate
// it again - and every example that shares A's regime or one of its addons must
// still calculate to the bytes it gave before.

import (
	"encoding/json"
	"strings"

	"github.com/invopop/gobl/bill"
	"github.com/invopop/gobl/cbc"
	"github.com/invopop/gobl/org"
	"github.com/invopop/gobl/verifharness/internal/corpus"
	"github.com/invopop/gobl/verifharness/internal/vh"
)

// CrossDocCase names the example that is edited in memory.
type CrossDocCase struct {
	Doc string `json:"doc"`
}

func enumCrossDoc(yield func(CrossDocCase) bool) {
	if vh.Cfg().Shard != 0 {
		return // the cases share the process state they examine: one shard runs them all
	}
	for _, d := range corpus.MustLoad() {
		if d.ShortSch == "bill/invoice" && !d.IsEnv {
			if !yield(CrossDocCase{Doc: d.Path}) {
				return
			}
		}
	}
}

func related(a *corpus.Doc) []corpus.Doc {
	var out []corpus.Doc
	for _, d := range corpus.MustLoad() {
		if d.IsEnv {
			continue
		}
		same := d.Regime == a.Regime
		for _, x := range d.Addons {
			for _, y := range a.Addons {
				if x == y {
					same = true
				}
			}
		}
		if same {
			out = append(out, d)
		}
	}
	return out
}

func touchParty(p *org.Party, n string) {
	if p == nil {
		return
	}
	p.Alias = "edited " + n
	if len(p.Addresses) == 0 {
		p.Addresses = append(p.Addresses, &org.Address{Locality: "Edited"})
	}
	for _, a := range p.Addresses {
		if a != nil {
			a.Code = cbc.Code("1" + n + "000")
			a.Region = "Edited " + n
			a.Locality = "Edited " + n
		}
	}
}

func judgeCrossDoc(c CrossDocCase, o *vh.Obs) {
	a := docByPath(c.Doc)
	if a == nil {
		o.Discard()
		return
	}
	rel := related(a)
	before := map[string]string{}
	for _, d := range rel {
		before[d.Path] = b1Of(d.JSON, d.IsEnv)
	}
	defer func() {
		if r := recover(); r != nil {
			o.Class("panicked-see-C14")
			o.Discard()
		}
	}()
	env, err := a.Envelope()
	if err != nil {
		o.Class("does-not-build")
		o.Discard()
		return
	}
	inv, ok := env.Extract().(*bill.Invoice)
	if !ok {
		o.Discard()
		return
	}
	o.NonTrivial()
	for round := 0; round < 2; round++ {
		n := string(rune('1' + round))
		touchParty(inv.Supplier, n)
		touchParty(inv.Customer, n)
		if inv.Tax != nil {
			for k := range inv.Tax.Ext {
				inv.Tax.Ext[k] = cbc.Code("E" + n) // in place, as an application would
			}
		}
		for _, l := range inv.Lines {
			if l != nil && l.Item != nil {
				for k := range l.Item.Ext {
					l.Item.Ext[k] = cbc.Code("E" + n)
				}
			}
		}
		_ = env.Calculate()
		_ = env.Validate()
		_, _ = json.Marshal(env)
	}
	for _, d := range rel {
		if after := b1Of(d.JSON, d.IsEnv); after != before[d.Path] {
			o.Failf("cross-document:"+strings.Join(append([]string{a.Regime}, a.Addons...), "+"), "after %s was edited in memory and calculated again, %s calculates to other bytes than before (%s vs %s): something the library handed out by reference was written in place", c.Doc, d.Path, after, before[d.Path])
			return
		}
	}
	o.Note("%s edited and recalculated twice; %d related examples unchanged", c.Doc, len(rel))
}
