package c04

// Members the published schemas declare and an example does not carry, added
// (once per published type and member) with a small valid instance and with
// each string inside it replaced by text that normalisers like to rewrite.
// Whatever calculates must be a fixpoint.

import (
	"encoding/json"
	"fmt"
	"strconv"
	"strings"

	"github.com/invopop/gobl/verifharness/internal/corpus"
	"github.com/invopop/gobl/verifharness/internal/jsontree"
	"github.com/invopop/gobl/verifharness/internal/pubschema"
	"github.com/invopop/gobl/verifharness/internal/vh"
)

// AbsentCase adds one member to an example.
type AbsentCase struct {
	Doc   string          `json:"doc"`
	Ptr   string          `json:"ptr"`
	Value json.RawMessage `json:"value"`
	What  string          `json:"what"`
}

var untidyTexts = []string{" é A-1.", "ES ES-1", "a  b", "-x-", "İß x", "x\ty", "0088:12 34", " A/B.c ", "0088:0099:1234567", " Bizkaia ", "0088:example.com", "0088:a@example.com"}

// freeStrings lists member paths (at most depth names) below an object node
// that end in a string not restricted to a fixed list or format.
func freeStrings(s *pubschema.Set, n pubschema.Node, depth int, prefix []string, out *[][]string) {
	if depth == 0 {
		return
	}
	names, nodes := s.Props(n)
	for _, name := range names {
		if strings.HasPrefix(name, "$") {
			continue
		}
		p := append(append([]string{}, prefix...), name)
		c := nodes[name]
		switch s.Kind(c) {
		case "scalar", "any":
			if isFreeString(s, c) {
				*out = append(*out, p)
			}
		case "object":
			freeStrings(s, c, depth-1, p, out)
		case "array":
			if it, ok := s.Items(c); ok {
				pp := append(p, "[]")
				switch s.Kind(it) {
				case "scalar", "any":
					if isFreeString(s, it) {
						*out = append(*out, pp)
					}
				case "object":
					freeStrings(s, it, depth-1, pp, out)
				}
			}
		}
	}
}

func isFreeString(s *pubschema.Set, n pubschema.Node) bool {
	r := s.Resolve(n)
	if r.S == nil {
		return false
	}
	if t, ok := r.S["type"].(string); ok && t != "string" {
		return false
	}
	for _, k := range []string{"const", "enum", "format", "oneOf", "anyOf"} {
		if _, ok := r.S[k]; ok {
			return false
		}
	}
	if p, ok := r.S["pattern"].(string); ok && (strings.Contains(p, "[0-9]+(") || strings.Contains(p, "{2,3}")) {
		return false // amounts, percentages, units
	}
	return true
}

func withLeaf(s *pubschema.Set, n pubschema.Node, inst any, path []string, leaf any) any {
	if len(path) == 0 {
		return leaf
	}
	if path[0] == "[]" {
		it, _ := s.Items(n)
		var first any
		if l, ok := inst.([]any); ok && len(l) > 0 {
			first = l[0]
		} else {
			first = s.Sample(it, 0)
		}
		return []any{withLeaf(s, it, first, path[1:], leaf)}
	}
	m, _ := inst.(map[string]any)
	out := map[string]any{}
	for k, v := range m {
		out[k] = v
	}
	_, nodes := s.Props(n)
	child := nodes[path[0]]
	cur, has := out[path[0]]
	if !has {
		cur = s.Sample(child, 0)
	}
	out[path[0]] = withLeaf(s, child, cur, path[1:], leaf)
	return out
}

func enumAbsent(yield func(AbsentCase) bool) {
	cfg := vh.Cfg()
	s := pubschema.MustLoad()
	seen := map[string]bool{}
	idx := 0
	emit := func(doc, ptr, what string, v any) bool {
		idx++
		if idx%cfg.Shards != cfg.Shard {
			return true
		}
		raw, err := json.Marshal(v)
		if err != nil {
			return true
		}
		return yield(AbsentCase{Doc: doc, Ptr: ptr, Value: raw, What: what})
	}
	// members are added once per published type and member for every set of
	// addons the examples use: normalisers differ with them
	context := ""
	var walk func(doc string, v any, sch pubschema.Node, ptr string) bool
	walk = func(doc string, v any, sch pubschema.Node, ptr string) bool {
		switch t := v.(type) {
		case map[string]any:
			if id, ok := t["$schema"].(string); ok {
				if r, ok := s.Root(id); ok {
					sch = r
				}
			}
			rs := s.Resolve(sch)
			names, nodes := s.Props(rs)
			for _, name := range names {
				child, has := t[name]
				cptr := ptr + "/" + strings.NewReplacer("~", "~0", "/", "~1").Replace(name)
				if has {
					if !walk(doc, child, nodes[name], cptr) {
						return false
					}
					continue
				}
				key := fmt.Sprintf("%s|%p.%s", context, rs.S, name)
				if seen[key] || strings.HasPrefix(name, "$") {
					continue
				}
				seen[key] = true
				target, wrap := nodes[name], func(x any) any { return x }
				if s.Kind(target) == "array" {
					if it, ok := s.Items(target); ok {
						target, wrap = it, func(x any) any { return []any{x} }
					}
				}
				valid := s.Sample(target, 0)
				if !emit(doc, cptr, "valid:"+name, wrap(valid)) {
					return false
				}
				switch s.Kind(target) {
				case "scalar", "any":
					if isFreeString(s, target) {
						for _, txt := range untidyTexts {
							if !emit(doc, cptr, "untidy:"+name, wrap(txt)) {
								return false
							}
						}
					}
				case "object":
					var paths [][]string
					freeStrings(s, target, 2, nil, &paths)
					for _, sp := range paths {
						for _, txt := range untidyTexts {
							inst := withLeaf(s, target, valid, sp, txt)
							if !emit(doc, cptr, "untidy:"+name+"/"+strings.Join(sp, "/"), wrap(inst)) {
								return false
							}
						}
					}
				}
			}
		case []any:
			it, ok := s.Items(sch)
			if !ok {
				return true
			}
			for i, e := range t {
				if i >= 2 {
					break
				}
				if !walk(doc, e, it, ptr+"/"+strconv.Itoa(i)) {
					return false
				}
			}
		}
		return true
	}
	for _, d := range corpus.MustLoad() {
		if d.IsEnv {
			continue
		}
		tree, err := jsontree.Decode(d.JSON)
		if err != nil {
			continue
		}
		context = ""
		if m, ok := tree.(map[string]any); ok {
			if a, ok := m["$addons"]; ok {
				raw, _ := json.Marshal(a)
				context = string(raw)
			}
		}
		if !walk(d.Path, tree, pubschema.Node{}, "") {
			return
		}
	}
}

func judgeAbsent(c AbsentCase, o *vh.Obs) {
	d := docByPath(c.Doc)
	if d == nil {
		o.Discard()
		return
	}
	tree, err := jsontree.Decode(d.JSON)
	if err != nil {
		o.Discard()
		return
	}
	v, err := jsontree.Decode(c.Value)
	if err != nil {
		o.Discard()
		return
	}
	if tree, err = jsontree.Set(tree, c.Ptr, v); err != nil {
		o.Discard()
		return
	}
	kind, _, _ := strings.Cut(c.What, ":")
	o.Class(kind)
	defer func() {
		if r := recover(); r != nil {
			o.Class("panicked-see-C14")
			o.Discard()
		}
	}()
	known := ""
	if strings.Contains(c.Ptr+"/"+c.What, "tax_id") && strings.Contains(string(c.Value), "ES ES") {
		known = "fixpoint:repeated-country-prefix"
	}
	if b1, ok := fixpoint(jsontree.Encode(tree), false, known, o); ok {
		o.NonTrivial()
		readOnly(b1, o)
	}
}
