package c04

// Keys may be extended with further `+` parts, and addons map keys to codes:
// a lookup that is not exact (closest match, prefix, any part) can tie, and a
// tie decided by map iteration makes the result differ between calculations.
// The vocabulary is read from the source of the addon or regime package itself
// (every cbc.Key constant), like a fuzzing dictionary: each key member of each
// example is extended with one and with two words of its addons' vocabulary.

import (
	"os"
	"path/filepath"
	"regexp"
	"sort"
	"strings"

	"github.com/invopop/gobl/verifharness/internal/corpus"
	"github.com/invopop/gobl/verifharness/internal/jsontree"
	"github.com/invopop/gobl/verifharness/internal/pubdata"
	"github.com/invopop/gobl/verifharness/internal/vh"
)

var keyConstRe = regexp.MustCompile(`cbc\.Key\s*=\s*"([a-z0-9][a-z0-9-]*)"`)

// vocabularyFor collects the single-word key constants declared in the
// packages whose source mentions one of the names (addon keys, regime code).
func vocabularyFor(names []string) []string {
	repo := vh.Cfg().Repo
	words := map[string]bool{}
	dirs := map[string]bool{}
	for _, root := range []string{"addons", "regimes"} {
		_ = filepath.Walk(filepath.Join(repo, root), func(p string, info os.FileInfo, err error) error {
			if err != nil || info.IsDir() || !strings.HasSuffix(p, ".go") || strings.HasSuffix(p, "_test.go") {
				return nil
			}
			src, rerr := os.ReadFile(p)
			if rerr != nil {
				return nil
			}
			for _, n := range names {
				if n != "" && strings.Contains(string(src), `"`+n+`"`) {
					dirs[filepath.Dir(p)] = true
				}
			}
			return nil
		})
	}
	for d := range dirs {
		files, _ := filepath.Glob(filepath.Join(d, "*.go"))
		for _, f := range files {
			if strings.HasSuffix(f, "_test.go") {
				continue
			}
			src, err := os.ReadFile(f)
			if err != nil {
				continue
			}
			for _, m := range keyConstRe.FindAllStringSubmatch(string(src), -1) {
				words[m[1]] = true
			}
		}
	}
	out := make([]string, 0, len(words))
	for w := range words {
		out = append(out, w)
	}
	sort.Strings(out)
	return out
}

func enumKeyExtensions(yield func(StressCase) bool) {
	cfg := vh.Cfg()
	idx := 0
	vocab := map[string][]string{}
	for _, d := range corpus.MustLoad() {
		if len(d.Addons) == 0 {
			continue
		}
		id := strings.Join(d.Addons, ",")
		if _, ok := vocab[id]; !ok {
			vocab[id] = vocabularyFor(d.Addons)
		}
		words := vocab[id]
		if len(words) == 0 {
			continue
		}
		if len(words) > 40 && !vh.Thorough() {
			words = words[:40]
		}
		tree, err := jsontree.Decode(d.JSON)
		if err != nil {
			continue
		}
		for _, n := range jsontree.Nodes(tree) {
			if n.Kind != "string" || !strings.HasSuffix(n.Ptr, "/key") || strings.Contains(n.Ptr, "/head/") {
				continue
			}
			base, _ := n.Value.(string)
			if base == "" {
				continue
			}
			bases := []string{base}
			if !strings.Contains(base, "+") && base != "other" {
				bases = append(bases, "other")
			}
			for _, b := range bases {
				for i, w1 := range words {
					for j, w2 := range words {
						var nv string
						switch {
						case i == j:
							nv = b + "+" + w1
						case i < j:
							nv = b + "+" + w1 + "+" + w2
						default:
							continue
						}
						idx++
						if idx%cfg.Shards != cfg.Shard {
							continue
						}
						if !yield(StressCase{Doc: d.Path, Sets: map[string]string{n.Ptr: nv}}) {
							return
						}
					}
				}
			}
		}
	}
}

// enumEmptyExt: every extension key the document's addons and regime define,
// put with an EMPTY value into every extension map of the document and onto
// the parties, the first line's item and the tax block when they have none. An
// empty value is cleaned away; a normaliser that saw the key present (and left
// it alone) meets it absent on the next calculation.
func enumEmptyExt(yield func(StressCase) bool) {
	cfg := vh.Cfg()
	d0 := pubdata.MustPublished()
	idx := 0
	for _, d := range corpus.MustLoad() {
		var keys []string
		for _, a := range d.Addons {
			if ad := d0.Addons[a]; ad != nil {
				for _, e := range ad.Extensions {
					keys = append(keys, e.Key)
				}
			}
		}
		if r := d0.Regimes[d.Regime]; r != nil {
			for _, e := range r.Extensions {
				keys = append(keys, e.Key)
			}
		}
		if len(keys) == 0 {
			continue
		}
		sort.Strings(keys)
		tree, err := jsontree.Decode(d.JSON)
		if err != nil {
			continue
		}
		prefix := ""
		if d.IsEnv {
			prefix = "/doc"
		}
		var ptrs []string
		for _, n := range jsontree.Nodes(tree) {
			if n.Kind == "object" && strings.HasSuffix(n.Ptr, "/ext") {
				ptrs = append(ptrs, n.Ptr)
			}
		}
		for _, p := range []string{"/supplier", "/customer", "/lines/0/item", "/tax", "/payment/instructions", "/lines/0/taxes/0"} {
			if _, ok := jsontree.Get(tree, prefix+p); ok {
				if _, has := jsontree.Get(tree, prefix+p+"/ext"); !has {
					ptrs = append(ptrs, prefix+p+"/ext")
				}
			}
		}
		seen := map[string]bool{}
		for _, p := range ptrs {
			for _, k := range keys {
				if seen[p+k] {
					continue
				}
				seen[p+k] = true
				if _, has := jsontree.Get(tree, p+"/"+k); has {
					continue
				}
				idx++
				if idx%cfg.Shards != cfg.Shard {
					continue
				}
				if !yield(StressCase{Doc: d.Path, Sets: map[string]string{p + "/" + k: ""}}) {
					return
				}
			}
		}
	}
}

// enumRoundingInputs: the one member of the totals that is an input - the
// rounding amount - given to every example invoice, order and delivery, at the
// currency's precision and finer: it is used as written and stays as written.
func enumRoundingInputs(yield func(StressCase) bool) {
	cfg := vh.Cfg()
	idx := 0
	for _, d := range corpus.MustLoad() {
		if d.IsEnv {
			continue
		}
		switch d.ShortSch {
		case "bill/invoice", "bill/order", "bill/delivery":
		default:
			continue
		}
		for _, v := range []string{"0.01", "-0.01", "0.003", "0.005", "-0.004", "0.0049", "-0.0051", "1", "0.10"} {
			idx++
			if idx%cfg.Shards != cfg.Shard {
				continue
			}
			if !yield(StressCase{Doc: d.Path, Sets: map[string]string{"/totals/rounding": v}}) {
				return
			}
		}
	}
}
