package c04

import (
	"encoding/json"
	"fmt"
	"sort"
	"strings"

	"github.com/invopop/gobl/verifharness/internal/corpus"
	"github.com/invopop/gobl/verifharness/internal/jsontree"
	"github.com/invopop/gobl/verifharness/internal/pubdata"
	"github.com/invopop/gobl/verifharness/internal/vh"
)

// RowExtCase: one extension key of the document's regime or addons, set with
// one of its codes on each of the first TWO rows of a list (preceding
// references, lines, line taxes, charges, discounts); a list with fewer rows is
// brought to two first. Normalisers that move, translate or clean an
// extension row by row must finish in one calculation, whatever the number of
// rows that carry it.
type RowExtCase struct {
	Doc   string   `json:"doc"`
	List  string   `json:"list"` // preceding | lines-item | lines-taxes | charges | discounts
	Key   string   `json:"key"`
	Codes []string `json:"codes"`
}

var rowLists = []string{"preceding", "lines-item", "lines-taxes", "charges", "discounts"}

func enumRowExt(yield func(RowExtCase) bool) {
	cfg := vh.Cfg()
	d0 := pubdata.MustPublished()
	idx := 0
	seen := map[string]bool{}
	for _, d := range corpus.MustLoad() {
		if !strings.HasPrefix(d.ShortSch, "bill/") {
			continue
		}
		ctx := d.ShortSch + "|" + d.Regime + "|" + strings.Join(d.Addons, ",")
		if seen[ctx] && !vh.Thorough() {
			continue
		}
		seen[ctx] = true
		var defs []*pubdata.ExtDef
		for _, a := range d.Addons {
			if ad := d0.Addons[a]; ad != nil {
				defs = append(defs, ad.Extensions...)
			}
		}
		if r := d0.Regimes[d.Regime]; r != nil {
			defs = append(defs, r.Extensions...)
		}
		sort.SliceStable(defs, func(i, j int) bool { return defs[i].Key < defs[j].Key })
		for _, def := range defs {
			codes := []string{"A1", "B2"}
			if len(def.Codes) >= 2 {
				codes = []string{def.Codes[0], def.Codes[len(def.Codes)-1]}
			} else if len(def.Codes) == 1 {
				codes = []string{def.Codes[0], def.Codes[0]}
			}
			for _, l := range rowLists {
				for _, cs := range [][]string{codes, {codes[1], codes[0]}, {codes[0], codes[0]}} {
					idx++
					if idx%cfg.Shards != cfg.Shard {
						continue
					}
					if !yield(RowExtCase{Doc: d.Path, List: l, Key: def.Key, Codes: cs}) {
						return
					}
				}
			}
		}
	}
}

func copyJSON(v any) any {
	b := jsontree.Encode(v)
	out, _ := jsontree.Decode(b)
	return out
}

func judgeRowExt(c RowExtCase, o *vh.Obs) {
	d := docByPath(c.Doc)
	if d == nil {
		o.Discard()
		return
	}
	tree, err := jsontree.Decode(d.JSON)
	if err != nil {
		o.Discard()
		return
	}
	root, _ := tree.(map[string]any)
	doc := root
	if d.IsEnv {
		doc, _ = root["doc"].(map[string]any)
	}
	if doc == nil {
		o.Discard()
		return
	}
	member := c.List
	if i := strings.Index(member, "-"); i > 0 {
		member = member[:i]
	}
	rows, _ := doc[member].([]any)
	if member == "lines" && len(rows) == 0 {
		o.Discard()
		return
	}
	switch {
	case len(rows) == 0 && member == "preceding":
		rows = []any{map[string]any{"series": "C04", "code": "001", "issue_date": "2024-01-10"}}
	case len(rows) == 0:
		rows = []any{map[string]any{"reason": "c04 row", "amount": "1.00"}}
	}
	for len(rows) < 2 {
		r := copyJSON(rows[0])
		if m, ok := r.(map[string]any); ok {
			delete(m, "i")
			delete(m, "uuid")
			if member == "preceding" {
				m["code"] = fmt.Sprintf("%03d", len(rows)+1)
			}
		}
		rows = append(rows, r)
	}
	for k := 0; k < 2; k++ {
		row, ok := rows[k].(map[string]any)
		if !ok {
			o.Discard()
			return
		}
		holder := row
		switch c.List {
		case "lines-item":
			holder, _ = row["item"].(map[string]any)
		case "lines-taxes":
			if tl, ok := row["taxes"].([]any); ok && len(tl) > 0 {
				holder, _ = tl[0].(map[string]any)
			} else {
				holder = nil
			}
		}
		if holder == nil {
			o.Class("no-holder")
			o.Discard()
			return
		}
		ext, _ := holder["ext"].(map[string]any)
		if ext == nil {
			ext = map[string]any{}
		}
		ext[c.Key] = c.Codes[k]
		holder["ext"] = ext
	}
	doc[member] = rows
	o.Class("list-" + c.List)
	o.NonTrivial()
	defer func() {
		if r := recover(); r != nil {
			o.Class("panicked-see-C14")
			o.Discard()
		}
	}()
	text, _ := json.Marshal(json.RawMessage(jsontree.Encode(tree)))
	if b1, ok := fixpoint(text, d.IsEnv, "", o); ok {
		readOnly(b1, o)
	}
}

func init() {
	vh.Enum("ext_in_rows", enumRowExt, judgeRowExt)
}
