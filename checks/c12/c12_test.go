// Package c12 decides property C12: the tax rate applied on a date is the one
// in force on that date.
//
// The referee is the set of *published* regime tables data/regimes/*.json
// (read from vh.Cfg().Repo), never the Go tables: for a rate key, a date, the
// document tags and the combo extensions, the expected value is the
// applicable published value with the greatest `since` on or before the date.
// The real code is observed two ways: tax.RateDef.Value on the registered
// regime, and the percent / surcharge of lines[0].taxes[0] of a minimal invoice
// (JSON text, parsed by gobl.Parse, calculated) whose tax date is that date.
package c12

import (
	"encoding/json"
	"errors"
	"fmt"
	"math/big"
	"os"
	"path/filepath"
	"sort"
	"strings"
	"sync"
	"testing"
	"time"

	"github.com/invopop/gobl"
	"github.com/invopop/gobl/bill"
	"github.com/invopop/gobl/cal"
	"github.com/invopop/gobl/cbc"
	"github.com/invopop/gobl/l10n"
	"github.com/invopop/gobl/num"
	"github.com/invopop/gobl/tax"
	"github.com/invopop/gobl/verifharness/internal/vh"
	"pgregory.net/rapid"
)

func TestMain(m *testing.M) { vh.Main(m, "C12") }

func TestAll(t *testing.T) { vh.RunAll(t) }

// today is the fixed "current" date of the enumeration (no wall clock).
const today = "2026-10-02"

const (
	minDate = "0001-01-01"
	maxDate = "9999-12-31"
)

// ---------------------------------------------------------------------------
// published tables

type pubValue struct {
	Tags      []string          `json:"tags,omitempty"`
	Ext       map[string]string `json:"ext,omitempty"`
	Since     string            `json:"since,omitempty"`
	Percent   string            `json:"percent"`
	Surcharge string            `json:"surcharge,omitempty"`
	Disabled  bool              `json:"disabled,omitempty"`
}

func (v pubValue) qualified() bool { return len(v.Tags) > 0 || len(v.Ext) > 0 }

type pubRate struct {
	Key    string            `json:"key"`
	Exempt bool              `json:"exempt"`
	Values []pubValue        `json:"values"`
	Ext    map[string]string `json:"ext"`
}

type pubCat struct {
	Code  string    `json:"code"`
	Rates []pubRate `json:"rates"`
}

type pubRegime struct {
	File       string   `json:"-"` // file stem, e.g. "es"
	Country    string   `json:"country"`
	Currency   string   `json:"currency"`
	Categories []pubCat `json:"categories"`
}

type rateRef struct {
	reg  *pubRegime
	cat  *pubCat
	rate *pubRate
}

type published struct {
	regimes []*pubRegime
	byFile  map[string]*pubRegime
	rates   []rateRef // flattened, file order
	err     error
}

var (
	pubOnce sync.Once
	pub     published
)

func load() *published {
	pubOnce.Do(func() {
		pub.byFile = map[string]*pubRegime{}
		files, err := filepath.Glob(filepath.Join(vh.Cfg().Repo, "data", "regimes", "*.json"))
		if err != nil || len(files) == 0 {
			pub.err = fmt.Errorf("no published regime files under %s/data/regimes (%v)", vh.Cfg().Repo, err)
			return
		}
		sort.Strings(files)
		for _, f := range files {
			data, err := os.ReadFile(f)
			if err != nil {
				pub.err = err
				return
			}
			r := new(pubRegime)
			if err := json.Unmarshal(data, r); err != nil {
				pub.err = fmt.Errorf("%s: %w", f, err)
				return
			}
			r.File = strings.TrimSuffix(filepath.Base(f), ".json")
			pub.regimes = append(pub.regimes, r)
			pub.byFile[r.File] = r
			for ci := range r.Categories {
				c := &r.Categories[ci]
				for ri := range c.Rates {
					pub.rates = append(pub.rates, rateRef{r, c, &c.Rates[ri]})
				}
			}
		}
	})
	if pub.err != nil {
		panic("c12: " + pub.err.Error())
	}
	return &pub
}

func (p *published) find(file, cat, rate string) (rateRef, bool) {
	r := p.byFile[file]
	if r == nil {
		return rateRef{}, false
	}
	for ci := range r.Categories {
		if r.Categories[ci].Code != cat {
			continue
		}
		c := &r.Categories[ci]
		for ri := range c.Rates {
			if c.Rates[ri].Key == rate {
				return rateRef{r, c, &c.Rates[ri]}, true
			}
		}
	}
	return rateRef{}, false
}

// ---------------------------------------------------------------------------
// dates (plain proleptic Gregorian calendar via the standard library; the
// repository's cal / civil packages are not used by the oracle)

func parseDay(s string) (time.Time, bool) {
	if len(s) != 10 {
		return time.Time{}, false
	}
	t, err := time.Parse("2006-01-02", s)
	if err != nil {
		return time.Time{}, false
	}
	return t, true
}

func fmtDay(t time.Time) string {
	return fmt.Sprintf("%04d-%02d-%02d", t.Year(), int(t.Month()), t.Day())
}

// shift moves an ISO date by n days, staying inside 0001-01-01..9999-12-31.
func shift(s string, n int) (string, bool) {
	t, ok := parseDay(s)
	if !ok {
		return "", false
	}
	u := t.AddDate(0, 0, n)
	if u.Year() < 1 || u.Year() > 9999 {
		return "", false
	}
	return fmtDay(u), true
}

// ISO dates with 4-digit years order like strings.
func onOrBefore(since, date string) bool { return since <= date }

func calDate(s string) cal.Date {
	t, _ := parseDay(s)
	return cal.MakeDate(t.Year(), t.Month(), t.Day())
}

// ---------------------------------------------------------------------------
// percentages as exact rationals (formatting differences are not this
// property's business)

func ratOf(p string) (*big.Rat, bool) {
	if !strings.HasSuffix(p, "%") {
		return nil, false
	}
	r, ok := new(big.Rat).SetString(strings.TrimSuffix(p, "%"))
	return r, ok
}

func samePct(a, b string) bool {
	if a == "" || b == "" {
		return a == b
	}
	ra, ok1 := ratOf(a)
	rb, ok2 := ratOf(b)
	return ok1 && ok2 && ra.Cmp(rb) == 0
}

// ---------------------------------------------------------------------------
// the oracle

// outcome is what a document / caller is expected to receive, or did receive.
type outcome struct {
	Kind      string `json:"kind"` // "value" | "none" (error: nothing in force) | "exempt" | "no-values" | "ambiguous"
	Percent   string `json:"percent,omitempty"`
	Surcharge string `json:"surcharge,omitempty"`
	// diagnostics
	idx       int   // index of the published value
	cands     []int // tied candidates (ambiguous only)
	tieQual   bool  // a qualified value won a tie of start dates against an unqualified one
	competing bool  // an applicable qualified value competes with an applicable unqualified one
}

func (a outcome) same(b outcome) bool {
	if a.Kind != b.Kind {
		return false
	}
	return samePct(a.Percent, b.Percent) && samePct(a.Surcharge, b.Surcharge)
}

func (a outcome) String() string {
	switch a.Kind {
	case "value":
		if a.Surcharge != "" {
			return a.Percent + " + surcharge " + a.Surcharge
		}
		return a.Percent
	default:
		return a.Kind
	}
}

func intersects(a, b []string) bool {
	for _, x := range a {
		for _, y := range b {
			if x == y {
				return true
			}
		}
	}
	return false
}

func subset(small, big map[string]string) bool {
	for k, v := range small {
		if w, ok := big[k]; !ok || w != v {
			return false
		}
	}
	return true
}

// applies: a tagged value needs one of its tags among the document tags, an
// extension-qualified value needs all its pairs in the combo's extensions.
func applies(v pubValue, tags []string, ext map[string]string) bool {
	if len(v.Tags) > 0 && !intersects(v.Tags, tags) {
		return false
	}
	if len(v.Ext) > 0 && !subset(v.Ext, ext) {
		return false
	}
	return true
}

// expected computes the outcome from the published table alone.
func expected(r *pubRate, date string, tags []string, ext map[string]string) outcome {
	if r.Exempt {
		return outcome{Kind: "exempt", idx: -1}
	}
	if len(r.Values) == 0 {
		return outcome{Kind: "no-values", idx: -1}
	}
	best := ""
	var tied []int
	anyQ, anyU := false, false
	for i, v := range r.Values {
		if !applies(v, tags, ext) {
			continue
		}
		if v.Since != "" && !onOrBefore(v.Since, date) { // in force ON the start date
			continue
		}
		if v.qualified() {
			anyQ = true
		} else {
			anyU = true
		}
		switch {
		case len(tied) == 0 || v.Since > best: // "" (undated) sorts before every date
			best, tied = v.Since, []int{i}
		case v.Since == best:
			tied = append(tied, i)
		}
	}
	if len(tied) == 0 {
		return outcome{Kind: "none", idx: -1}
	}
	out := outcome{competing: anyQ && anyU}
	cands := tied
	if len(tied) > 1 {
		// equal start dates: a qualified value is more specific than an
		// unqualified one (the only reading under which the published
		// qualified values, e.g. PT-AC 16% next to the general 23%, both
		// since 2011-01-01, can ever be selected).
		var q []int
		for _, i := range tied {
			if r.Values[i].qualified() {
				q = append(q, i)
			}
		}
		if len(q) > 0 && len(q) < len(tied) {
			out.tieQual = true
			cands = q
		}
	}
	first := r.Values[cands[0]]
	for _, i := range cands[1:] {
		v := r.Values[i]
		if !samePct(v.Percent, first.Percent) || !samePct(v.Surcharge, first.Surcharge) {
			out.Kind, out.cands, out.idx = "ambiguous", cands, -1
			return out
		}
	}
	out.Kind, out.Percent, out.Surcharge, out.idx = "value", first.Percent, first.Surcharge, cands[0]
	return out
}

// ---------------------------------------------------------------------------
// cases

// Case is one question put to the real code.
type Case struct {
	Regime string            `json:"regime"` // published file stem (es, pt, ...)
	Cat    string            `json:"cat"`
	Rate   string            `json:"rate"`
	Date   string            `json:"date"` // the tax date
	Tags   []string          `json:"tags,omitempty"`
	Ext    map[string]string `json:"ext,omitempty"`
	// Via: "value" (RateDef.Value), "inv-issue" (issue_date = Date),
	// "inv-issue-op" (issue_date = Date, op_date = Decoy), "inv-value"
	// (value_date = Date overriding issue_date = Decoy)
	Via   string `json:"via"`
	Decoy string `json:"decoy,omitempty"`
	// Stale: the input combo already carries a percent and surcharge (99.9% /
	// 9.9%) that the table value must replace.
	Stale bool `json:"stale,omitempty"`
	// Free: the probed line has no value: "zero-price" (a free item) or
	// "full-discount" (a 100% line discount). A row worth nothing is taxed like
	// any other: its combo still gets the table value.
	Free string `json:"free,omitempty"`
}

// "inv-credit-preceding": a credit note (issue_date = Date) whose preceding
// document was issued on the Decoy date: the tax date is still the credit
// note's own issue date
// "inv-foreign-east" / "inv-foreign-west": an invoice of another regime, east
// (AE, or IN for AE itself) or west (MX, or CO for MX itself) of most others,
// whose combos name this regime's country: the tax date is the same calendar day
// "inv-line-period": issue_date = Date and the probed line covers a period of
// its own (the Decoy day): a line's period describes the supply, it is not a
// tax date
// "inv-value-only": value_date = Date and no issue_date at all (the issue
// date is filled in with today): the tax date is the value date
var vias = []string{"value", "inv-issue", "inv-issue-op", "inv-value", "inv-value-only", "inv-credit-preceding", "inv-foreign-east", "inv-foreign-west", "inv-line-period"}

// issuerFor gives the country and currency of the issuing regime of a foreign route.
func issuerFor(via, own string) (string, string) {
	switch via {
	case "inv-foreign-east":
		if own == "AE" {
			return "IN", "INR"
		}
		return "AE", "AED"
	case "inv-foreign-west":
		if own == "MX" {
			return "CO", "COP"
		}
		return "MX", "MXN"
	}
	return "", ""
}

const irrelevantTag = "simplified"

// boundaries returns the dates the enumeration probes for one rate.
func boundaries(r *pubRate) []string {
	set := map[string]bool{minDate: true, today: true, maxDate: true}
	for _, v := range r.Values {
		if v.Since == "" {
			continue
		}
		for _, n := range []int{-1, 0, 1} {
			if d, ok := shift(v.Since, n); ok {
				set[d] = true
			}
		}
	}
	out := make([]string, 0, len(set))
	for d := range set {
		out = append(out, d)
	}
	sort.Strings(out)
	return out
}

func copyExt(m map[string]string) map[string]string {
	if m == nil {
		return nil
	}
	out := make(map[string]string, len(m))
	for k, v := range m {
		out[k] = v
	}
	return out
}

func extKey(m map[string]string) string {
	b, _ := json.Marshal(m) // sorted keys
	return string(b)
}

// extVariants: no extensions, an unrelated extension only, and for every
// qualifier used in the table: exactly it, it plus an unrelated pair, each
// pair's value altered, each pair dropped.
func extVariants(r *pubRate) []map[string]string {
	out := []map[string]string{nil}
	seen := map[string]bool{extKey(nil): true}
	add := func(m map[string]string) {
		if k := extKey(m); !seen[k] {
			seen[k] = true
			out = append(out, m)
		}
	}
	quals := false
	for _, v := range r.Values {
		if len(v.Ext) == 0 {
			continue
		}
		quals = true
		add(copyExt(v.Ext))
		m := copyExt(v.Ext)
		m["c12-unrelated"] = "X"
		add(m)
		ks := make([]string, 0, len(v.Ext))
		for k := range v.Ext {
			ks = append(ks, k)
		}
		sort.Strings(ks)
		for _, k := range ks {
			m := copyExt(v.Ext)
			m[k] = "C12-OTHER"
			add(m)
			m = copyExt(v.Ext)
			delete(m, k)
			if len(m) > 0 {
				add(m)
			}
		}
	}
	if quals {
		add(map[string]string{"c12-unrelated": "X"})
	}
	return out
}

// tagVariants: no tags, an unrelated tag, and every tag used in the table on
// its own and next to the unrelated one.
func tagVariants(r *pubRate) [][]string {
	out := [][]string{nil, {irrelevantTag}}
	seen := map[string]bool{}
	for _, v := range r.Values {
		for _, t := range v.Tags {
			if !seen[t] {
				seen[t] = true
				out = append(out, []string{t}, []string{irrelevantTag, t})
			}
		}
	}
	return out
}

// pickDecoy chooses the date that must NOT decide the rate: preferably one for
// which the table gives a different answer than for the tax date.
func pickDecoy(r *pubRate, date string, tags []string, ext map[string]string) string {
	want := expected(r, date, tags, ext)
	cands := append([]string{maxDate, minDate, today}, boundaries(r)...)
	for _, d := range cands {
		if d != date && !expected(r, d, tags, ext).same(want) {
			return d
		}
	}
	for _, d := range cands {
		if d != date {
			return d
		}
	}
	return maxDate
}

func enumBoundaries(yield func(Case) bool) {
	p := load()
	cfg := vh.Cfg()
	for idx, rr := range p.rates {
		if idx%cfg.Shards != cfg.Shard {
			continue
		}
		for _, d := range boundaries(rr.rate) {
			for _, ext := range extVariants(rr.rate) {
				for _, tags := range tagVariants(rr.rate) {
					for _, via := range vias {
						c := Case{Regime: rr.reg.File, Cat: rr.cat.Code, Rate: rr.rate.Key, Date: d, Tags: tags, Ext: ext, Via: via}
						if via == "inv-issue-op" || via == "inv-value" || via == "inv-credit-preceding" || via == "inv-line-period" {
							c.Decoy = pickDecoy(rr.rate, d, tags, ext)
						}
						if !yield(c) {
							return
						}
						if via != "value" {
							c.Stale = true
							if !yield(c) {
								return
							}
							if via == "inv-issue" {
								for _, free := range []string{"zero-price", "full-discount"} {
									c.Free = free
									if !yield(c) {
										return
									}
									c.Stale = false
								}
								c.Free = ""
							}
						}
					}
				}
			}
		}
	}
}

// ---------------------------------------------------------------------------
// random search: arbitrary dates

var day0 = time.Date(1, 1, 1, 0, 0, 0, 0, time.UTC)

const lastDayOffset = 3652058 // 9999-12-31

func genCase(t *rapid.T) Case {
	p := load()
	rr := p.rates[rapid.IntRange(0, len(p.rates)-1).Draw(t, "rate")]
	if rapid.IntRange(0, 9).Draw(t, "prefer_dated") < 7 {
		// most rates have a single undated value: lean towards tables with history
		var dated []rateRef
		for _, x := range p.rates {
			for _, v := range x.rate.Values {
				if v.Since != "" {
					dated = append(dated, x)
					break
				}
			}
		}
		if len(dated) > 0 {
			rr = dated[rapid.IntRange(0, len(dated)-1).Draw(t, "dated_rate")]
		}
	}
	c := Case{Regime: rr.reg.File, Cat: rr.cat.Code, Rate: rr.rate.Key}
	var sinces []string
	for _, v := range rr.rate.Values {
		if v.Since != "" {
			sinces = append(sinces, v.Since)
		}
	}
	mode := rapid.IntRange(0, 9).Draw(t, "date_mode")
	switch {
	case mode < 4 && len(sinces) > 0:
		s := sinces[rapid.IntRange(0, len(sinces)-1).Draw(t, "since")]
		span := 400
		if rapid.Bool().Draw(t, "close") {
			span = 3
		}
		d, ok := shift(s, rapid.IntRange(-span, span).Draw(t, "delta"))
		if !ok {
			d = s
		}
		c.Date = d
	case mode < 8:
		// 1985-01-01 .. 2035-12-31
		c.Date = fmtDay(day0.AddDate(0, 0, rapid.IntRange(724642, 743268).Draw(t, "recent")))
	default:
		c.Date = fmtDay(day0.AddDate(0, 0, rapid.IntRange(0, lastDayOffset).Draw(t, "any")))
	}
	exts := extVariants(rr.rate)
	c.Ext = copyExt(exts[rapid.IntRange(0, len(exts)-1).Draw(t, "ext")])
	tvs := tagVariants(rr.rate)
	c.Tags = tvs[rapid.IntRange(0, len(tvs)-1).Draw(t, "tags")]
	c.Via = rapid.SampledFrom(vias).Draw(t, "via")
	if c.Via != "value" {
		c.Stale = rapid.Bool().Draw(t, "stale")
		c.Free = rapid.SampledFrom([]string{"", "", "", "zero-price", "full-discount"}).Draw(t, "free")
	}
	if c.Via == "inv-issue-op" || c.Via == "inv-value" || c.Via == "inv-credit-preceding" || c.Via == "inv-line-period" {
		if rapid.Bool().Draw(t, "decoy_any") {
			c.Decoy = fmtDay(day0.AddDate(0, 0, rapid.IntRange(0, lastDayOffset).Draw(t, "decoy")))
		} else {
			c.Decoy = pickDecoy(rr.rate, c.Date, c.Tags, c.Ext)
		}
	}
	return c
}

// ---------------------------------------------------------------------------
// observing the real code

// registered finds the rate definition the library itself would use.
func registered(rr rateRef) (*tax.RegimeDef, *tax.RateDef, string) {
	reg := tax.RegimeDefFor(l10n.Code(rr.reg.Country))
	if reg == nil {
		return nil, nil, "regime-not-registered"
	}
	cat := reg.CategoryDef(cbc.Code(rr.cat.Code))
	if cat == nil {
		return reg, nil, "category-not-registered"
	}
	rd := cat.RateDef(cbc.Key(rr.rate.Key))
	if rd == nil || string(rd.Key) != rr.rate.Key {
		return reg, nil, "rate-not-registered"
	}
	return reg, rd, ""
}

func observeValue(rd *tax.RateDef, c Case) outcome {
	var tags []cbc.Key
	for _, t := range c.Tags {
		tags = append(tags, cbc.Key(t))
	}
	var ext tax.Extensions
	if c.Ext != nil {
		ext = tax.Extensions{}
		for k, v := range c.Ext {
			ext[cbc.Key(k)] = cbc.Code(v)
		}
	}
	rv := rd.Value(calDate(c.Date), tags, ext)
	if rv == nil {
		switch {
		case rd.Exempt:
			return outcome{Kind: "exempt"}
		case len(rd.Values) == 0:
			return outcome{Kind: "no-values"}
		}
		return outcome{Kind: "none"}
	}
	out := outcome{Kind: "value", Percent: rv.Percent.String()}
	if rv.Surcharge != nil {
		out.Surcharge = rv.Surcharge.String()
	}
	return out
}

const stalePercent, staleSurcharge = "99.9%", "9.9%"

func invoiceJSON(rr rateRef, c Case) []byte {
	combo := map[string]any{"cat": c.Cat, "rate": c.Rate}
	if len(c.Ext) > 0 {
		combo["ext"] = c.Ext
	}
	issuer, issuerCur := issuerFor(c.Via, rr.reg.Country)
	if issuer != "" {
		combo["country"] = rr.reg.Country
	}
	if c.Stale {
		combo["percent"] = stalePercent
		combo["surcharge"] = staleSurcharge
	}
	doc := map[string]any{
		"$schema":  "https://gobl.org/draft-0/bill/invoice",
		"$regime":  rr.reg.Country,
		"code":     "C12-1",
		"currency": rr.reg.Currency,
		"supplier": map[string]any{"name": "Supplier", "tax_id": map[string]any{"country": rr.reg.Country}},
		"customer": map[string]any{"name": "Customer"},
	}
	// rows before the probed one with the same category and rate key and each
	// other extension set the rate publishes (and none): every row resolves on
	// its own extensions
	var lines, charges []any
	seen := map[string]bool{}
	own, _ := json.Marshal(c.Ext)
	seen[string(own)] = true
	sets := []map[string]string{nil}
	for _, v := range rr.rate.Values {
		if len(v.Ext) > 0 {
			sets = append(sets, v.Ext)
		}
	}
	for _, ext := range sets {
		k, _ := json.Marshal(ext)
		if seen[string(k)] {
			continue
		}
		seen[string(k)] = true
		sib := map[string]any{"cat": c.Cat, "rate": c.Rate}
		if len(ext) > 0 {
			sib["ext"] = ext
		}
		if issuer != "" {
			sib["country"] = rr.reg.Country
		}
		row := map[string]any{"quantity": "2", "item": map[string]any{"name": "Sibling", "price": "10.00"}, "taxes": []any{sib}}
		if len(lines)%2 == 1 {
			charges = append(charges, map[string]any{"reason": "sibling", "amount": "1.00", "taxes": []any{sib}})
		} else {
			lines = append(lines, row)
		}
	}
	probed := map[string]any{
		"quantity": "1",
		"item":     map[string]any{"name": "Item", "price": "100.00"},
		"taxes":    []any{combo},
	}
	switch c.Free {
	case "zero-price":
		probed["item"] = map[string]any{"name": "Item", "price": "0.00"}
	case "full-discount":
		probed["discounts"] = []any{map[string]any{"percent": "100%", "reason": "gift"}}
	}
	if c.Via == "inv-line-period" && c.Decoy != "" {
		probed["period"] = map[string]any{"start": c.Decoy, "end": c.Decoy}
	}
	lines = append(lines, probed)
	doc["lines"] = lines
	if len(charges) > 0 {
		doc["charges"] = charges
	}
	if len(c.Tags) > 0 {
		doc["$tags"] = c.Tags
	}
	if issuer != "" {
		doc["$regime"] = issuer
		doc["currency"] = issuerCur
		doc["supplier"] = map[string]any{"name": "Supplier", "tax_id": map[string]any{"country": issuer}}
	}
	switch c.Via {
	case "inv-foreign-east", "inv-foreign-west":
		doc["issue_date"] = c.Date
	case "inv-issue", "inv-line-period":
		doc["issue_date"] = c.Date
	case "inv-issue-op":
		doc["issue_date"] = c.Date
		doc["op_date"] = c.Decoy
	case "inv-value":
		doc["issue_date"] = c.Decoy
		doc["value_date"] = c.Date
	case "inv-value-only":
		doc["value_date"] = c.Date
	case "inv-credit-preceding":
		doc["issue_date"] = c.Date
		doc["type"] = "credit-note"
		doc["preceding"] = []any{map[string]any{"code": "C12-0", "issue_date": c.Decoy, "type": "standard"}}
	}
	data, err := json.Marshal(doc)
	if err != nil {
		panic(err)
	}
	return data
}

// invObs is what the calculated invoice shows.
type invObs struct {
	out     outcome
	ext     map[string]string
	err     error
	dateErr bool
	harness string // non-empty: the harness could not observe
}

func observeInvoice(rr rateRef, c Case) invObs {
	obj, err := gobl.Parse(invoiceJSON(rr, c))
	if err != nil {
		return invObs{harness: "parse: " + err.Error()}
	}
	inv, ok := obj.(*bill.Invoice)
	if !ok {
		return invObs{harness: fmt.Sprintf("parsed a %T", obj)}
	}
	if err := inv.Calculate(); err != nil {
		return invObs{err: err, dateErr: errors.Is(err, tax.ErrInvalidDate), out: outcome{Kind: "none"}}
	}
	data, err := json.Marshal(inv)
	if err != nil {
		return invObs{harness: "marshal: " + err.Error()}
	}
	var shown struct {
		Lines []struct {
			Taxes []struct {
				Cat       string            `json:"cat"`
				Rate      string            `json:"rate"`
				Percent   *string           `json:"percent"`
				Surcharge *string           `json:"surcharge"`
				Ext       map[string]string `json:"ext"`
			} `json:"taxes"`
		} `json:"lines"`
	}
	if err := json.Unmarshal(data, &shown); err != nil {
		return invObs{harness: "re-read: " + err.Error()}
	}
	// the calculated document owns its figures: writing over them (as decoding
	// another document into the same value would) must not reach the tables -
	// the cases that follow read their expectations from the published files
	for _, l := range inv.Lines {
		if l == nil {
			continue
		}
		for _, cb := range l.Taxes {
			if cb != nil && cb.Percent != nil {
				*cb.Percent = num.MakePercentage(777, 3)
			}
			if cb != nil && cb.Surcharge != nil {
				*cb.Surcharge = num.MakePercentage(77, 3)
			}
		}
	}
	if len(shown.Lines) < 1 || len(shown.Lines[len(shown.Lines)-1].Taxes) != 1 {
		return invObs{harness: "calculated invoice lost its line or combo"}
	}
	tc := shown.Lines[len(shown.Lines)-1].Taxes[0]
	if tc.Cat != c.Cat || tc.Rate != c.Rate {
		return invObs{harness: fmt.Sprintf("combo became %s/%s", tc.Cat, tc.Rate)}
	}
	res := invObs{ext: tc.Ext}
	if tc.Percent == nil {
		res.out.Kind = "exempt" // no percentage shown
		if tc.Surcharge != nil {
			res.out.Surcharge = *tc.Surcharge
		}
		return res
	}
	res.out.Kind = "value"
	res.out.Percent = *tc.Percent
	if tc.Surcharge != nil {
		res.out.Surcharge = *tc.Surcharge
	}
	return res
}

// ---------------------------------------------------------------------------
// the judge

func nearBoundary(r *pubRate, date string) (onStart bool, near bool) {
	for _, v := range r.Values {
		if v.Since == "" {
			continue
		}
		if v.Since == date {
			onStart, near = true, true
		}
		for _, n := range []int{-1, 1} {
			if d, ok := shift(v.Since, n); ok && d == date {
				near = true
			}
		}
	}
	return
}

func judge(c Case, o *vh.Obs) {
	p := load()
	rr, ok := p.find(c.Regime, c.Cat, c.Rate)
	if !ok {
		o.Discard()
		return
	}
	if _, ok := parseDay(c.Date); !ok {
		o.Discard()
		return
	}
	invoice := c.Via != "value"
	if invoice && c.Via != "inv-issue" && c.Via != "inv-value-only" && !strings.HasPrefix(c.Via, "inv-foreign") {
		if _, ok := parseDay(c.Decoy); !ok {
			o.Discard()
			return
		}
	}
	for _, v := range rr.rate.Values {
		if v.Disabled {
			// the statement says nothing about disabled values; none published today
			o.Class("disabled-value-in-table")
			o.Discard()
			return
		}
	}
	reg, rd, missing := registered(rr)
	if missing != "" {
		o.Failf("drift:"+missing, "%s %s/%s is published in data/regimes/%s.json but the library has no such %s", rr.reg.Country, c.Cat, c.Rate, c.Regime, missing)
		return
	}
	if rd.Exempt != rr.rate.Exempt {
		o.Failf("drift:exempt-flag", "%s %s/%s: published exempt=%v, registered exempt=%v", rr.reg.Country, c.Cat, c.Rate, rr.rate.Exempt, rd.Exempt)
		return
	}
	if string(reg.Country) != rr.reg.Country {
		o.Class("alias-file")
	}

	// --- observe
	var got outcome
	ext := c.Ext
	var iv invObs
	if invoice {
		iv = observeInvoice(rr, c)
		if iv.harness != "" {
			o.Failf("harness:cannot-observe", "%s", iv.harness)
			return
		}
		got = iv.out
		if iv.err == nil {
			// the combo's extensions are the ones the calculated document shows
			// (regimes may add defaults, e.g. pt-region=PT)
			if !subset(c.Ext, iv.ext) {
				o.Failf("harness:input-ext-not-kept", "combo ext %v became %v", c.Ext, iv.ext)
				return
			}
			ext = iv.ext
		} else if len(rr.rate.Ext) == 0 && rr.reg.Country == "PT" && c.Cat == "VAT" {
			// error path: no output to read; PT documents its default region
			if _, has := c.Ext["pt-region"]; !has {
				ext = copyExt(c.Ext)
				if ext == nil {
					ext = map[string]string{}
				}
				ext["pt-region"] = "PT"
			}
		}
	} else {
		got = observeValue(rd, c)
	}

	// --- expect
	want := expected(rr.rate, c.Date, c.Tags, ext)
	o.Class("via:" + c.Via)
	o.Class("expect:" + want.Kind)
	onStart, near := nearBoundary(rr.rate, c.Date)
	if onStart {
		o.Class("on-start-date")
	}
	if near {
		o.Class("boundary±1")
		o.NonTrivial()
	}
	if want.Kind == "none" {
		o.Class("before-first-value")
		o.NonTrivial()
	}
	if want.competing {
		o.Class("qualified-vs-unqualified")
		o.NonTrivial()
	}
	if want.tieQual {
		o.Class("tie:qualified-beats-unqualified")
	}
	if want.Surcharge != "" {
		o.Class("surcharge")
	}
	if len(c.Tags) > 0 {
		o.Class("doc-tags")
	}
	if len(c.Ext) > 0 {
		o.Class("combo-ext")
	}
	if c.Stale {
		o.Class("stale-input-percent")
	}
	if c.Free != "" {
		o.Class("probed-row-" + c.Free)
	}
	if c.Decoy != "" && !expected(rr.rate, c.Decoy, c.Tags, ext).same(want) {
		o.Class("decoy-date-would-differ")
	}
	o.Note("%s %s/%s on %s tags=%v ext=%v: published table says %s, %s gives %s", rr.reg.Country, c.Cat, c.Rate, c.Date, c.Tags, ext, want, c.Via, got)

	where := fmt.Sprintf("%s %s/%s on %s (tags %v, ext %v) via %s", rr.reg.Country, c.Cat, c.Rate, c.Date, c.Tags, ext, c.Via)

	if iv.err != nil && !iv.dateErr {
		o.Failf("harness:unexpected-error", "%s: calculation failed for another reason: %v", where, iv.err)
		return
	}

	switch want.Kind {
	case "no-values":
		// a key without values and without the exempt flag: nothing to look up,
		// the statement makes no claim; only the direct lookup is pinned down.
		if !invoice && got.Kind != "no-values" {
			o.Failf("rate:value-from-empty-table", "%s: published table has no values, library returned %s", where, got)
		}
		if invoice && iv.err != nil {
			o.Failf("rate:error-from-empty-table", "%s: published table has no values, calculation failed: %v", where, iv.err)
		}
		return
	case "exempt":
		if got.Kind != "exempt" || got.Percent != "" {
			o.Failf("exempt:percent-present", "%s: exempt key must yield no percentage, got %s", where, got)
		} else if got.Surcharge != "" {
			o.Failf("exempt:surcharge-present", "%s: exempt key kept surcharge %s", where, got.Surcharge)
		}
		return
	case "ambiguous":
		// several equally recent applicable values with different percentages:
		// the statement does not say which; only membership is asserted.
		for _, i := range want.cands {
			v := rr.rate.Values[i]
			if got.Kind == "value" && samePct(got.Percent, v.Percent) && samePct(got.Surcharge, v.Surcharge) {
				return
			}
		}
		o.Failf("rate:not-among-latest", "%s: got %s, not one of the equally recent applicable values", where, got)
		return
	}

	if got.same(want) {
		return
	}

	// --- a mismatch: name what was observed as narrowly as the data allows
	prev := outcome{Kind: "none"}
	if d, ok := shift(c.Date, -1); ok {
		prev = expected(rr.rate, d, c.Tags, ext)
	}
	switch {
	case invoice && c.Via == "inv-value" && got.same(expected(rr.rate, c.Decoy, c.Tags, ext)):
		o.Failf("invoice:issue-date-used-instead-of-value-date", "%s (issue_date %s): expected %s, got %s which is the value for the issue date", where, c.Decoy, want, got)
	case invoice && c.Via == "inv-credit-preceding" && got.same(expected(rr.rate, c.Decoy, c.Tags, ext)):
		o.Failf("invoice:preceding-date-used-as-tax-date", "%s (credit note, preceding issued %s): expected %s, got %s which is the value for the preceding document's date", where, c.Decoy, want, got)
	case invoice && c.Via == "inv-line-period" && got.same(expected(rr.rate, c.Decoy, c.Tags, ext)):
		o.Failf("invoice:line-period-used-as-tax-date", "%s (line period %s): expected %s, got %s which is the value for the line's period", where, c.Decoy, want, got)
	case invoice && c.Via == "inv-issue-op" && got.same(expected(rr.rate, c.Decoy, c.Tags, ext)):
		o.Failf("invoice:op-date-used-as-tax-date", "%s (op_date %s): expected %s, got %s which is the value for the operation date", where, c.Decoy, want, got)
	case onStart && want.Kind == "value" && rr.rate.Values[want.idx].Since == c.Date && got.same(prev):
		o.Failf("rate:not-in-force-on-start-date", "%s: the value starting that day is %s, got %s (the answer for the day before)", where, want, got)
	case want.Kind == "none":
		o.Failf("rate:value-before-first-start", "%s: no published value is in force yet, got %s instead of an error", where, got)
	case got.Kind == "none":
		o.Failf("rate:no-value-for-date", "%s: expected %s, got nothing / an error (%v)", where, want, iv.err)
	case want.tieQual && got.Kind == "value" && isTieLoser(rr.rate, want, got):
		o.Failf("tie:unqualified-beats-qualified", "%s: qualified and unqualified values start the same day; expected the qualified %s, got %s", where, want, got)
	case c.Stale && got.Kind == "value" && samePct(got.Percent, want.Percent) && samePct(got.Surcharge, staleSurcharge):
		o.Failf("invoice:stale-surcharge-kept", "%s: expected %s, the input surcharge was kept: %s", where, want, got)
	case c.Stale && got.Kind == "value" && samePct(got.Percent, stalePercent):
		o.Failf("invoice:stale-percent-kept", "%s: expected %s, the input percent %s was kept", where, want, got)
	case got.Kind == "value" && samePct(got.Percent, want.Percent):
		o.Failf("rate:wrong-surcharge", "%s: expected %s, got %s", where, want, got)
	case got.Kind == "exempt":
		o.Failf("rate:no-percent", "%s: expected %s, the combo has no percentage", where, want)
	default:
		o.Failf("rate:wrong-value", "%s: expected %s, got %s", where, want, got)
	}
}

// isTieLoser: got is the unqualified value that shares the winner's start date.
func isTieLoser(r *pubRate, want, got outcome) bool {
	w := r.Values[want.idx]
	for _, v := range r.Values {
		if !v.qualified() && v.Since == w.Since && samePct(v.Percent, got.Percent) && samePct(v.Surcharge, got.Surcharge) {
			return true
		}
	}
	return false
}

// ---------------------------------------------------------------------------
// table checks: order of the published values, and the registered table being
// the published one

// TableCase names one rate table.
type TableCase struct {
	Regime string `json:"regime"`
	Cat    string `json:"cat"`
	Rate   string `json:"rate"`
}

func enumTables(yield func(TableCase) bool) {
	if vh.Cfg().Shard != 0 {
		return
	}
	for _, rr := range load().rates {
		if !yield(TableCase{rr.reg.File, rr.cat.Code, rr.rate.Key}) {
			return
		}
	}
}

// orderProblem checks strict descending start dates, undated last, among the
// unqualified values and inside every group of identically qualified values.
func orderProblem(values []pubValue) (sig, msg string) {
	type last struct {
		since string
		seen  bool
	}
	groups := map[string]*last{}
	for i, v := range values {
		g := ""
		if v.qualified() {
			tags := append([]string(nil), v.Tags...)
			sort.Strings(tags)
			g = strings.Join(tags, ",") + "|" + extKey(v.Ext)
		}
		l := groups[g]
		if l == nil {
			groups[g] = &last{since: v.Since, seen: true}
			continue
		}
		bad := ""
		switch {
		case l.since == "" && v.Since == "":
			bad = "two undated values"
		case l.since == "":
			bad = "a dated value after the undated one"
		case v.Since != "" && v.Since >= l.since:
			bad = fmt.Sprintf("%s listed after %s", v.Since, l.since)
		}
		if bad != "" {
			if g == "" {
				return "table:unqualified-order", fmt.Sprintf("value #%d: %s", i, bad)
			}
			return "table:qualified-group-order", fmt.Sprintf("value #%d (qualifier %s): %s", i, g, bad)
		}
		l.since = v.Since
	}
	return "", ""
}

func judgeTable(c TableCase, o *vh.Obs) {
	rr, ok := load().find(c.Regime, c.Cat, c.Rate)
	if !ok {
		o.Discard()
		return
	}
	name := fmt.Sprintf("%s %s/%s", rr.reg.Country, c.Cat, c.Rate)
	dated, qual := 0, 0
	for _, v := range rr.rate.Values {
		if v.Since != "" {
			dated++
		}
		if v.qualified() {
			qual++
		}
		if v.Since != "" {
			if _, ok := parseDay(v.Since); !ok {
				o.Failf("table:bad-date", "%s: published since %q is not a date", name, v.Since)
				return
			}
		}
		if _, ok := ratOf(v.Percent); !ok {
			o.Failf("table:bad-percent", "%s: published percent %q", name, v.Percent)
			return
		}
	}
	if len(rr.rate.Values) > 1 {
		o.NonTrivial()
		o.Class("several-values")
	}
	if qual > 0 {
		o.Class("has-qualified-values")
	}
	if rr.rate.Exempt {
		o.Class("exempt")
		if len(rr.rate.Values) > 0 {
			o.Failf("table:exempt-with-values", "%s: exempt key publishes %d values", name, len(rr.rate.Values))
			return
		}
	}
	if sig, msg := orderProblem(rr.rate.Values); sig != "" {
		o.Failf(sig, "%s in data/regimes/%s.json: %s", name, c.Regime, msg)
		return
	}
	// the table the library uses is the published one
	_, rd, missing := registered(rr)
	if missing != "" {
		o.Failf("drift:"+missing, "%s is published but the library has no such %s", name, missing)
		return
	}
	raw, err := json.Marshal(rd.Values)
	if err != nil {
		o.Failf("harness:cannot-observe", "%s: %v", name, err)
		return
	}
	var regd []pubValue
	if err := json.Unmarshal(raw, &regd); err != nil {
		o.Failf("harness:cannot-observe", "%s: %v", name, err)
		return
	}
	if sig, msg := orderProblem(regd); sig != "" {
		o.Failf("registered-"+sig, "%s registered table: %s", name, msg)
		return
	}
	if len(regd) != len(rr.rate.Values) {
		o.Failf("drift:value-count", "%s: %d values published, %d registered", name, len(rr.rate.Values), len(regd))
		return
	}
	for i, pv := range rr.rate.Values {
		gv := regd[i]
		same := pv.Since == gv.Since && samePct(pv.Percent, gv.Percent) && samePct(pv.Surcharge, gv.Surcharge) &&
			extKey(pv.Ext) == extKey(gv.Ext) && strings.Join(pv.Tags, ",") == strings.Join(gv.Tags, ",") && pv.Disabled == gv.Disabled
		if !same {
			o.Failf("drift:value-differs", "%s value #%d: published %+v, registered %+v", name, i, pv, gv)
			return
		}
	}
	o.Note("%s: %d values (%d dated, %d qualified), order ok, registered table identical", name, len(rr.rate.Values), dated, qual)
}

// enumUnpublished: every registered regime / category / rate must be in the
// published files (otherwise the enumeration above would not cover it).
func enumUnpublished(yield func(TableCase) bool) {
	if vh.Cfg().Shard != 0 {
		return
	}
	for _, reg := range tax.AllRegimeDefs() {
		for _, cat := range reg.Categories {
			for _, rd := range cat.Rates {
				if !yield(TableCase{strings.ToLower(string(reg.Country)), string(cat.Code), string(rd.Key)}) {
					return
				}
			}
		}
	}
}

func judgeUnpublished(c TableCase, o *vh.Obs) {
	if _, ok := load().find(c.Regime, c.Cat, c.Rate); !ok {
		o.Failf("drift:rate-not-published", "registered rate %s %s/%s is missing from data/regimes/%s.json", strings.ToUpper(c.Regime), c.Cat, c.Rate, c.Regime)
		return
	}
	o.NonTrivial()
}

func init() {
	vh.Describe(
		"Oracle = published tables data/regimes/*.json only: applicable values are those whose tags intersect the document tags (when tagged) and whose ext is contained in the combo's ext (when qualified); the answer is the applicable value with the greatest since <= tax date (undated = minus infinity, a value is in force ON its start date); none => nil / calculation error; exempt key => no percentage; equal start dates: a qualified value beats an unqualified one (class tie:qualified-beats-unqualified, own signature), other ties with different percentages only assert membership. "+
			"Observed through tax.RateDef.Value on the registered regime and through the last line of an invoice built as JSON (preceded by sibling lines and charges with the same category and rate key and every other extension set the rate publishes, and none), parsed by gobl.Parse and calculated, with the tax date as issue_date, as issue_date next to a decoy op_date, as value_date overriding a decoy issue_date, as value_date of an invoice without any issue_date (filled in with today), as the issue_date of a credit note whose preceding document carries a decoy issue date, as the issue_date of an invoice whose probed line covers a period of its own on a decoy day, and as the issue_date of an invoice of another regime far to the east (AE / IN) or west (MX / CO) whose combos name this regime's country; half of the invoice cases carry a stale input percent/surcharge that must be replaced; in two fifths of the sampled cases (and at every boundary through the issue date) the probed line is worth nothing (a free item, or a 100% line discount) and must still get the table value. "+
			"boundaries (exhaustive): every published regime file x category x rate key x {since-1, since, since+1 of every value} + {0001-01-01, "+today+", 9999-12-31} x ext variants (none, each qualifier exactly / plus an unrelated pair / value altered, unrelated only) x tag variants (none, unrelated, each table tag) x 4 observation routes. random: arbitrary dates 0001..9999 (40% within 3 or 400 days of a start date, 40% 1985-2035, 20% anywhere), same variants, random decoys. tables: per published rate, strictly descending start dates with the undated value last among unqualified values and inside each identically-qualified group, and the registered Go table equal to the published one value by value; unpublished: every registered rate exists in the published files. "+
			"Non-trivial: the date is within one day of a published start date, or before the first applicable value, or a qualified value competes with an applicable unqualified one (tables: more than one value).",
		"data/regimes/*.json in the tree under test are the referee; the Go tables are only ever observed",
		"tax date = value_date when present, otherwise issue_date (bill.Invoice.ValueDate doc comment, bill/calculator.go calculate)",
		"for invoices the combo's extensions are those shown by the calculated document (regime normalisers may add defaults such as pt-region=PT)",
		"rate keys with neither values nor the exempt flag (PL special, PT other) carry no claim beyond 'no value, no error'",
		"no published value is tagged or disabled at this commit; tagged values are handled by the oracle, tables with disabled values are discarded",
	)
	vh.Enum("boundaries", enumBoundaries, judge)
	vh.Enum("tables", enumTables, judgeTable)
	vh.Enum("unpublished", enumUnpublished, judgeUnpublished)
	vh.Rapid("random", 40_000, 2_000_000, genCase, judge)
}
