#!/bin/bash
# seed_verify.sh <name> <outdir> <demo pkg dir relative to repo, e.g. num or .>
# Confirms an independently written breaking change in scratch copies of /repo:
#   the patch applies, the tree builds, the repository's suite passes with it,
#   the demonstration fails with the patch and passes without it;
# stores it under /verif/seeded/<name>/ and writes verify.json. Scratch copies are removed.
set -u
export GOFLAGS=-mod=mod GOPROXY=off GOSUMDB=off GOTOOLCHAIN=local
NAME=$1; OUT=$2; PKG=$3
DEST=/verif/seeded/$NAME
WORK=$(mktemp -d /tmp/seedverify-XXXX)
trap 'rm -rf "$WORK"' EXIT
rsync -a --exclude .git /repo/ "$WORK/with/"
rsync -a --exclude .git /repo/ "$WORK/without/"
APPLY=ok; BUILD=ok; SUITE=pass; DEMO_WITH=unknown; DEMO_WITHOUT=unknown
( cd "$WORK/with" && patch -p1 -s < "$OUT/patch.diff" ) || APPLY=fail
if [ $APPLY = ok ]; then
  ( cd "$WORK/with" && go build ./... ) || BUILD=fail
  ( cd "$WORK/with" && go test -vet=off -count=1 ./... 2>&1 | grep -v "^ok\|no test files" ) > "$WORK/suite.txt"
  [ -s "$WORK/suite.txt" ] && SUITE=fail
  cp "$OUT/demo_test.go" "$WORK/with/$PKG/zz_seed_demo_test.go"
  cp "$OUT/demo_test.go" "$WORK/without/$PKG/zz_seed_demo_test.go"
  ( cd "$WORK/with" && go test -vet=off -count=1 -run TestSeedDemo ./$PKG/ ) > "$WORK/demo_with.txt" 2>&1 && DEMO_WITH=pass || DEMO_WITH=fail
  ( cd "$WORK/without" && go test -vet=off -count=1 -run TestSeedDemo ./$PKG/ ) > "$WORK/demo_without.txt" 2>&1 && DEMO_WITHOUT=pass || DEMO_WITHOUT=fail
fi
mkdir -p "$DEST"
cp "$OUT/patch.diff" "$DEST/patch.diff"
cp "$OUT/demo_test.go" "$DEST/demo_test.go"
[ -f "$OUT/notes.md" ] && cp "$OUT/notes.md" "$DEST/notes.md"
cat > "$DEST/verify.json" <<JSON
{"patch_applies": "$APPLY", "builds": "$BUILD", "repository_suite_with_patch": "$SUITE", "demo_with_patch": "$DEMO_WITH", "demo_without_patch": "$DEMO_WITHOUT", "demo_package_dir": "$PKG", "repo_commit": "$(git -C /repo rev-parse --short HEAD)"}
JSON
cat "$DEST/verify.json"
[ -s "$WORK/suite.txt" ] && head -10 "$WORK/suite.txt"
exit 0
