import json,glob,os,sys
props={json.loads(l)['id']:json.loads(l) for l in open('/verif/properties.jsonl')}
ids=sys.argv[1:]
tmpl='''You are a careful adversarial reviewer of the Go library invopop/gobl (JSON business documents: invoices, tax regimes, decimal tax-total calculation, canonical JSON, JWS signing). You have your own scratch git worktree of the repository at /tmp/seed-__ID__ (a detached checkout; work ONLY there; never touch /repo, /verif or any other /tmp/seed-* directory, and do not read anything under /verif). Output goes to /tmp/seed-__ID__.out/ (create it).

Read the property in /tmp/prop-__ID__.txt. Your task: produce ONE realistic change to the library's non-test Go source (or shipped data files, if the property is about them) that BREAKS this property, while the code still compiles and the repository's existing test suite still passes. It should look like something a developer could plausibly commit (a refactor, an "optimisation", a small feature, a tidy-up, an off-by-one, a dropped clause, a changed default, a cache) - not sabotage with an obviously hostile shape. The change must need something SPECIFIC to manifest - a conjunction of two or three input features, a multi-step sequence of operations, an unusual but legal value, a particular interleaving, or two cooperating edits at different sites that each look fine alone - rather than one that ordinary use would expose at once. Look for the less-travelled parts of the code that the property's quantifier still covers (read the quantifier closely: every clause of it names a dimension in which an input can be unusual: other document kinds (orders, deliveries, payments), rarely used members (breakdowns, substituted lines, preceding references, exchange rates, alternative prices, due dates, complements), addons, regimes with special rules, unusual currencies, tags, entry points (library, command line, bulk, HTTP)).

Earlier reviewers already produced the changes listed below for this property; yours must be in a DIFFERENT function / mechanism and break a different clause or reach the property through a different route:
__AVOID__

Do not edit, delete or add *_test.go files in the repository, and do not touch testdata / golden example outputs (examples/**/out, **/testdata). Do NOT use `git stash`, `git commit`, `git reset` or `git worktree` (the stash is shared with other worktrees): to test without your change use `git diff > /tmp/seed-__ID__.out/patch.diff; git checkout -- .` and to restore it `git apply /tmp/seed-__ID__.out/patch.diff` (new files you add must be included: use `git add -N <file>` before `git diff`).

Environment: no network. Every shell call: `export GOFLAGS=-mod=mod GOPROXY=off GOSUMDB=off`. Build with `cd /tmp/seed-__ID__ && go build ./...`; run the suite with `cd /tmp/seed-__ID__ && go test -vet=off -count=1 ./... 2>&1 | grep -v "^ok\\|no test files"` (it must print nothing, i.e. all packages pass; it takes 1-3 minutes, longer when the machine is busy; run at least the packages you touched while iterating and the whole suite before finishing; internal/cli TestBulk/two_verifications is known to be flaky under load on the unchanged tree - re-run it alone if it is the only failure).

Deliverables in /tmp/seed-__ID__.out/:
1. patch.diff - the change only; it must apply with `git apply` to a clean checkout of the same commit.
2. A demonstration that FAILS with your change and PASSES without it: demo_test.go (state its package and directory in the notes; it will be copied into the repository tree next to the code and run with `go test -run TestSeedDemo ./<pkg>/`). Verify both directions yourself.
3. notes.md - which clause of the property breaks, what exactly is needed for the violation to manifest (input shape / sequence / timing), why the existing tests do not notice, and the exact commands you ran with their outcomes. If, while probing, you notice behaviour of the UNCHANGED tree that already violates the property, list it in a final section "Side observations on the unchanged tree" with the exact input (only observations you actually ran; say which clause of the property each one breaks).

Leave the worktree with the patch applied and the demo file NOT inside the worktree's tracked tree (keep it in the .out directory). Your final message: a 5-10 line summary (what the change is, what it needs to manifest, the demo's package directory, confirmation that build + full suite pass with it and that the demo fails with / passes without, and any side observations).
'''
for i in ids:
    av=[]
    for d in sorted(glob.glob(f'/verif/seeded/{i}*')):
        m=json.load(open(d+'/meta.json'))
        av.append('- '+m['change'])
    p=props[i]
    txt=f"Property {i}: {p['title']}\n\nStatement: {p['statement']}\n\nQuantifier ({', '.join(p['quantifier']['over'])}): {p['quantifier']['text']}\n\nWhy the unit tests cannot settle it: {p['why_tests_cant']}\n\nAnchors: {json.dumps(p.get('anchors'))}\n"
    open(f'/tmp/prop-{i}.txt','w').write(txt)
    open(f'/tmp/seed-prompt-{i}.txt','w').write(tmpl.replace('__ID__',i).replace('__AVOID__','\n'.join(av)))
    os.system(f'git -C /repo worktree add --detach /tmp/seed-{i} >/dev/null 2>&1; mkdir -p /tmp/seed-{i}.out')
