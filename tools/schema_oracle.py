#!/usr/bin/env python3
"""schema_oracle.py REPO

Persistent Draft 2020-12 oracle for property C11. Speaks a line protocol on
stdin/stdout: one JSON request per line, one JSON reply per line.

At start every file under REPO/data/schemas is loaded into a
`referencing.Registry` keyed by its `$id`.

Requests
  {"op":"ping"}
      -> {"ok":true,"jsonschema":..,"python":..,"schemas":N,"ids":[..]}
  {"op":"check_schemas"}
      -> {"ok":true,"files":[{file,id,load_error,schema_errors:[{path,keyword,message}],
                              refs:[{path,ref,ok,error}],
                              patterns:[{path,pattern,kind,ok,error}]}]}
  {"op":"validate","schema_id":ID,"instance":X}
      -> {"ok":true,"errors":[{path,keyword,message,schema_path}]}
  {"op":"quit"}

Format assertion is enabled for `date`, `uuid`, `date-time` and `uri` only (own
implementations below; no optional third-party format packages are used).
A request that cannot be served is answered with {"ok":false,"error":...};
the process never dies because of an instance or a schema.
"""
import datetime
import json
import os
import re
import sys
import traceback
from importlib import metadata

from jsonschema import Draft202012Validator, FormatChecker
from jsonschema.exceptions import SchemaError
from referencing import Registry, Resource
from referencing.jsonschema import DRAFT202012

# --------------------------------------------------------------------------
# formats (RFC 3339 / RFC 4122 / RFC 3986), restricted to the well-defined ones the schemas use

FORMATS = FormatChecker(formats=())

_DATE = re.compile(r"^([0-9]{4})-([0-9]{2})-([0-9]{2})\Z")
_UUID = re.compile(r"^[0-9a-fA-F]{8}-[0-9a-fA-F]{4}-[0-9a-fA-F]{4}-[0-9a-fA-F]{4}-[0-9a-fA-F]{12}\Z")
_DATETIME = re.compile(
    r"^([0-9]{4})-([0-9]{2})-([0-9]{2})[Tt]([0-9]{2}):([0-9]{2}):([0-9]{2})(\.[0-9]+)?"
    r"([Zz]|[+-]([0-9]{2}):([0-9]{2}))\Z"
)


def _is_date(s):
    m = _DATE.match(s)
    if not m:
        return False
    try:
        datetime.date(int(m.group(1)), int(m.group(2)), int(m.group(3)))
    except ValueError:
        return False
    return True


@FORMATS.checks("date")
def _fmt_date(v):
    return not isinstance(v, str) or _is_date(v)


@FORMATS.checks("uuid")
def _fmt_uuid(v):
    return not isinstance(v, str) or bool(_UUID.match(v))


@FORMATS.checks("date-time")
def _fmt_datetime(v):
    if not isinstance(v, str):
        return True
    m = _DATETIME.match(v)
    if not m:
        return False
    if not _is_date(v[:10]):
        return False
    hh, mm, ss = int(m.group(4)), int(m.group(5)), int(m.group(6))
    if hh > 23 or mm > 59 or ss > 60:
        return False
    if m.group(9) is not None and (int(m.group(9)) > 23 or int(m.group(10)) > 59):
        return False
    return True


# RFC 3986 appendix A, `URI` (absolute, with scheme). IP literals are only
# checked for their brackets (over-acceptance there cannot raise an alarm).
_UNRES = r"A-Za-z0-9\-._~"
_SUB = r"!$&'()*+,;="
_PCT = r"%[0-9A-Fa-f]{2}"
_PCHAR = r"(?:[" + _UNRES + _SUB + r":@]|" + _PCT + r")"
_URI = re.compile(
    r"^[A-Za-z][A-Za-z0-9+.\-]*:"
    r"(?://(?:(?:[" + _UNRES + _SUB + r":]|" + _PCT + r")*@)?"
    r"(?:\[[^\]\[/?#@ ]+\]|(?:[" + _UNRES + _SUB + r"]|" + _PCT + r")*)"
    r"(?::[0-9]*)?(?:/" + _PCHAR + r"*)*"
    r"|/(?:" + _PCHAR + r"+(?:/" + _PCHAR + r"*)*)?"
    r"|" + _PCHAR + r"+(?:/" + _PCHAR + r"*)*"
    r"|)"
    r"(?:\?(?:" + _PCHAR + r"|[/?])*)?"
    r"(?:#(?:" + _PCHAR + r"|[/?])*)?\Z"
)


@FORMATS.checks("uri")
def _fmt_uri(v):
    return not isinstance(v, str) or bool(_URI.match(v))


# --------------------------------------------------------------------------
# loading

SUBSCHEMA_MAPS = ("properties", "$defs", "definitions", "patternProperties", "dependentSchemas")
SUBSCHEMA_ONE = (
    "items", "additionalProperties", "not", "if", "then", "else", "contains",
    "propertyNames", "unevaluatedItems", "unevaluatedProperties", "additionalItems",
)
SUBSCHEMA_LIST = ("allOf", "anyOf", "oneOf", "prefixItems")


def ptr(parts):
    return "".join("/" + str(p).replace("~", "~0").replace("/", "~1") for p in parts)


def walk(schema, path, visit):
    """Calls visit(subschema, path) for every subschema position."""
    if not isinstance(schema, dict):
        return
    visit(schema, path)
    for k in SUBSCHEMA_MAPS:
        v = schema.get(k)
        if isinstance(v, dict):
            for name, sub in v.items():
                walk(sub, path + [k, name], visit)
    for k in SUBSCHEMA_ONE:
        v = schema.get(k)
        if isinstance(v, dict):
            walk(v, path + [k], visit)
    for k in SUBSCHEMA_LIST:
        v = schema.get(k)
        if isinstance(v, list):
            for i, sub in enumerate(v):
                walk(sub, path + [k, i], visit)


class Store:
    def __init__(self, repo):
        self.root = os.path.join(repo, "data", "schemas")
        self.files = []  # (relative file, contents or None, load error)
        self.registry = Registry()
        self.by_id = {}
        self.validators = {}
        names = []
        for d, _, fs in os.walk(self.root):
            for f in fs:
                names.append(os.path.relpath(os.path.join(d, f), self.root))
        for rel in sorted(names):
            full = os.path.join(self.root, rel)
            try:
                with open(full, "r", encoding="utf-8") as fh:
                    contents = json.load(fh)
            except Exception as e:  # noqa: BLE001
                self.files.append((rel, None, "cannot read as JSON: %s" % e))
                continue
            err = None
            sid = contents.get("$id") if isinstance(contents, dict) else None
            if not isinstance(sid, str) or not sid:
                err = "no $id"
            elif sid in self.by_id:
                err = "duplicate $id %s (also %s)" % (sid, self.by_id[sid])
            else:
                try:
                    res = Resource.from_contents(contents, default_specification=DRAFT202012)
                    self.registry = self.registry.with_resource(uri=sid, resource=res)
                    self.by_id[sid] = rel
                except Exception as e:  # noqa: BLE001
                    err = "cannot register: %s" % e
            self.files.append((rel, contents, err))

    # ----------------------------------------------------------------------
    def check_schemas(self):
        out = []
        for rel, contents, lerr in self.files:
            entry = {"file": rel, "id": None, "load_error": lerr, "schema_errors": [], "refs": [], "patterns": []}
            out.append(entry)
            if contents is None:
                continue
            if isinstance(contents, dict):
                entry["id"] = contents.get("$id")
                entry["dialect"] = contents.get("$schema")
            try:
                v = Draft202012Validator(Draft202012Validator.META_SCHEMA, registry=self.registry)
                errs = sorted(v.iter_errors(contents), key=lambda e: (list(map(str, e.absolute_path)), str(e.validator)))
                for e in errs[:20]:
                    entry["schema_errors"].append({
                        "path": ptr(e.absolute_path),
                        "keyword": str(e.validator),
                        "message": e.message[:300],
                    })
                # the library's own entry point must agree
                try:
                    Draft202012Validator.check_schema(contents)
                    if errs:
                        entry["schema_errors"].append({"path": "", "keyword": "check_schema", "message": "check_schema passes although the meta-schema reports errors"})
                except SchemaError as se:
                    if not errs:
                        entry["schema_errors"].append({"path": ptr(se.absolute_path), "keyword": str(se.validator), "message": se.message[:300]})
            except Exception as e:  # noqa: BLE001
                entry["schema_errors"].append({"path": "", "keyword": "exception", "message": "%s: %s" % (type(e).__name__, e)})
            base = entry["id"] if isinstance(entry["id"], str) else ""

            def visit(s, path, entry=entry, base=base):
                for kw in ("$ref", "$dynamicRef"):
                    r = s.get(kw)
                    if r is None:
                        continue
                    item = {"path": ptr(path + [kw]), "ref": r, "ok": True, "error": None}
                    if not isinstance(r, str):
                        item["ok"] = False
                        item["error"] = "not a string"
                    else:
                        try:
                            self.registry.resolver(base_uri=base).lookup(r)
                        except Exception as e:  # noqa: BLE001
                            item["ok"] = False
                            item["error"] = "%s: %s" % (type(e).__name__, str(e)[:200])
                    entry["refs"].append(item)
                pats = []
                if "pattern" in s:
                    pats.append((path + ["pattern"], s["pattern"], "pattern"))
                pp = s.get("patternProperties")
                if isinstance(pp, dict):
                    for k in pp:
                        pats.append((path + ["patternProperties", k], k, "patternProperties"))
                for p, pat, kind in pats:
                    item = {"path": ptr(p), "pattern": pat, "kind": kind, "ok": True, "error": None}
                    if not isinstance(pat, str):
                        item["ok"] = False
                        item["error"] = "not a string"
                        item["pattern"] = json.dumps(pat)
                    else:
                        try:
                            re.compile(pat)
                        except re.error as e:
                            item["ok"] = False
                            item["error"] = str(e)
                    entry["patterns"].append(item)

            try:
                walk(contents, [], visit)
            except Exception as e:  # noqa: BLE001
                entry["schema_errors"].append({"path": "", "keyword": "exception", "message": "walk: %s: %s" % (type(e).__name__, e)})
        return {"ok": True, "files": out}

    # ----------------------------------------------------------------------
    def validator(self, schema_id):
        v = self.validators.get(schema_id)
        if v is None:
            base = schema_id.split("#", 1)[0]
            if base not in self.by_id:
                raise KeyError("no published schema has $id %s" % base)
            v = Draft202012Validator({"$ref": schema_id}, registry=self.registry, format_checker=FORMATS)
            self.validators[schema_id] = v
        return v

    def validate(self, schema_id, instance):
        v = self.validator(schema_id)
        errors = []
        for e in v.iter_errors(instance):
            errors.append(self.describe(e))
            if len(errors) >= 50:
                break
        errors.sort(key=lambda d: (d["path"], d["keyword"], d["schema_path"]))
        return {"ok": True, "errors": errors}

    def describe(self, e):
        d = {
            "path": ptr(e.absolute_path),
            "keyword": str(e.validator),
            "message": e.message[:400],
            "schema_path": ptr(e.absolute_schema_path),
        }
        # for combinators say which branch came closest
        if e.context:
            best = sorted(e.context, key=lambda c: (-len(c.absolute_path), str(c.validator)))[:3]
            d["context"] = [
                {"path": ptr(c.absolute_path), "keyword": str(c.validator), "message": c.message[:200]} for c in best
            ]
        return d


def main():
    if len(sys.argv) != 2:
        sys.stderr.write("usage: schema_oracle.py REPO\n")
        return 2
    out = sys.stdout
    try:
        store = Store(sys.argv[1])
    except Exception as e:  # noqa: BLE001
        out.write(json.dumps({"ok": False, "fatal": True, "error": "loading schemas: %s" % e}) + "\n")
        out.flush()
        return 2
    for line in sys.stdin:
        line = line.strip()
        if not line:
            continue
        try:
            req = json.loads(line)
            op = req.get("op") if isinstance(req, dict) else None
            if op == "ping":
                rep = {
                    "ok": True,
                    "jsonschema": metadata.version("jsonschema"),
                    "referencing": metadata.version("referencing"),
                    "python": sys.version.split()[0],
                    "schemas": len(store.by_id),
                    "files": len(store.files),
                    "ids": sorted(store.by_id),
                }
            elif op == "check_schemas":
                rep = store.check_schemas()
            elif op == "validate":
                rep = store.validate(req.get("schema_id"), req.get("instance"))
            elif op == "quit":
                out.write(json.dumps({"ok": True}) + "\n")
                out.flush()
                return 0
            else:
                rep = {"ok": False, "error": "unknown op %r" % (op,)}
        except RecursionError:
            rep = {"ok": False, "error": "RecursionError"}
        except Exception as e:  # noqa: BLE001
            rep = {"ok": False, "error": "%s: %s" % (type(e).__name__, str(e)[:500]),
                   "trace": traceback.format_exc()[-800:]}
        try:
            out.write(json.dumps(rep) + "\n")
        except Exception as e:  # noqa: BLE001
            out.write(json.dumps({"ok": False, "error": "reply not serialisable: %s" % e}) + "\n")
        out.flush()
    return 0


if __name__ == "__main__":
    sys.exit(main())
