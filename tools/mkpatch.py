#!/usr/bin/env python3
"""mkpatch.py OUT.patch FILE OLD NEW [FILE OLD NEW ...]
Writes a -p1 unified diff that replaces OLD by NEW (first occurrence, must exist) in /repo/FILE."""
import sys, difflib
out = sys.argv[1]
args = sys.argv[2:]
chunks = []
for i in range(0, len(args), 3):
    f, old, new = args[i:i+3]
    s = open('/repo/' + f).read()
    if old not in s:
        sys.exit("OLD text not found in " + f)
    t = s.replace(old, new, 1)
    d = difflib.unified_diff(s.splitlines(True), t.splitlines(True), 'a/' + f, 'b/' + f)
    chunks.append(''.join(d))
open(out, 'w').write(''.join(chunks))
