#!/usr/bin/env python3
"""Regenerates /verif/MANIFEST.json from tools/manifest_table.json.
A property is claimed iff checks/<id>/ exists and it has an entry in the table
with "claimed": true; everything else is listed under not_applicable with the
reason given in the table."""
import json, os
ROOT = os.path.dirname(os.path.dirname(os.path.abspath(__file__)))
table = json.load(open(os.path.join(ROOT, "tools", "manifest_table.json")))
props = [json.loads(l) for l in open(os.path.join(ROOT, "properties.jsonl"))]
checks, na = [], []
for p in props:
    pid = p["id"]
    e = table.get(pid, {})
    if e.get("claimed") and os.path.isdir(os.path.join(ROOT, "checks", pid.lower())):
        checks.append({
            "property_id": pid,
            "quick_cmd": "./vcheck run %s --tier quick" % pid,
            "thorough_cmd": "./vcheck run %s --tier thorough" % pid,
            "evidence_file": "/verif/evidence/%s.json" % pid,
            "replay_cmd_template": "./vcheck replay {path}",
            "engine": "vcheck",
            "level_claimed": {"category": "exploration", "text": e["text"], "design_ref": "DESIGN.md section 4, " + pid},
            "level_note": e["note"],
            "technique": e["technique"],
        })
    else:
        na.append({"property_id": pid, "reason": e.get("reason", "check not built yet in this session; see DESIGN.md section 4 for the planned generator and oracle")})
hooks = table["_hooks"]
m = {
    "version": 1,
    "setup_cmd": "./vcheck setup",
    "hooks": hooks,
    "engines": [{
        "name": "vcheck", "path": "/verif/vcheck",
        "serves_properties": [c["property_id"] for c in checks],
        "kind_free_text": "python driver + one Go test package per property (pgregory.net/rapid v1.3.0 generators with shrinking, exhaustive enumerations, native go fuzz targets in the thorough tier); oracles are independent reference models, round trips and metamorphic relations; builds against /repo's working tree via a replace directive",
    }],
    "checks": checks,
    "notes": table["_notes"],
    "not_applicable": na,
}
with open(os.path.join(ROOT, "MANIFEST.json"), "w") as f:
    json.dump(m, f, indent=1)
    f.write("\n")
print("claimed:", [c["property_id"] for c in checks])
print("not claimed:", [n["property_id"] for n in na])
