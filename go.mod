module github.com/invopop/gobl/verifharness

go 1.23.0

require (
	github.com/invopop/gobl v0.0.0
	github.com/invopop/jsonschema v0.12.0
	github.com/invopop/yaml v0.3.1
	golang.org/x/text v0.23.0
	pgregory.net/rapid v1.3.0
)

require (
	cloud.google.com/go v0.110.2 // indirect
	github.com/Masterminds/semver/v3 v3.2.1 // indirect
	github.com/asaskevich/govalidator v0.0.0-20230301143203-a9d515a09cc2 // indirect
	github.com/bahlo/generic-list-go v0.2.0 // indirect
	github.com/buger/jsonparser v1.1.1 // indirect
	github.com/go-jose/go-jose/v4 v4.0.5 // indirect
	github.com/google/uuid v1.6.0 // indirect
	github.com/imdario/mergo v0.3.16 // indirect
	github.com/invopop/validation v0.7.0 // indirect
	github.com/mailru/easyjson v0.7.7 // indirect
	github.com/wk8/go-ordered-map/v2 v2.1.8 // indirect
	golang.org/x/crypto v0.36.0 // indirect
	gopkg.in/yaml.v3 v3.0.1 // indirect
)

replace github.com/invopop/gobl => /repo
