// Package pubschema reads the JSON Schema files published under data/schemas
// and answers structural questions about them (which members an object of a
// given type may have, what an array holds). Generators use it to build
// inputs with members that no example document carries. Nothing here consults
// the library's Go types.
package pubschema

import (
	"encoding/json"
	"fmt"
	"os"
	"path/filepath"
	"sort"
	"strings"
	"sync"
)

const base = "https://gobl.org/draft-0/"

// Node is a schema node together with the file it lives in (for local refs).
type Node struct {
	S    map[string]any
	File map[string]any
}

// Set is every published schema file by $id.
type Set struct {
	Files map[string]map[string]any
	IDs   []string // sorted
}

var (
	once sync.Once
	set  *Set
	lerr error
)

func repoDir() string {
	if r := os.Getenv("VERIF_REPO"); r != "" {
		return r
	}
	return "/repo"
}

// Load reads data/schemas of the repository under test.
func Load() (*Set, error) {
	once.Do(func() {
		s := &Set{Files: map[string]map[string]any{}}
		root := filepath.Join(repoDir(), "data", "schemas")
		lerr = filepath.Walk(root, func(p string, info os.FileInfo, err error) error {
			if err != nil || info.IsDir() || !strings.HasSuffix(p, ".json") {
				return err
			}
			data, err := os.ReadFile(p)
			if err != nil {
				return err
			}
			var m map[string]any
			if err := json.Unmarshal(data, &m); err != nil {
				return err
			}
			if id, _ := m["$id"].(string); id != "" {
				s.Files[id] = m
				s.IDs = append(s.IDs, id)
			}
			return nil
		})
		sort.Strings(s.IDs)
		set = s
	})
	return set, lerr
}

// MustLoad panics when the schemas cannot be read.
func MustLoad() *Set {
	s, err := Load()
	if err != nil {
		panic(err)
	}
	return s
}

// Root returns the root node of the schema with the id.
func (s *Set) Root(id string) (Node, bool) {
	f, ok := s.Files[id]
	if !ok {
		return Node{}, false
	}
	return s.Resolve(Node{S: f, File: f}), true
}

// Resolve follows $ref until a node with its own content is reached.
func (s *Set) Resolve(n Node) Node {
	for i := 0; i < 20 && n.S != nil; i++ {
		ref, _ := n.S["$ref"].(string)
		if ref == "" {
			return n
		}
		file := n.File
		frag := ""
		if strings.HasPrefix(ref, "#") {
			frag = ref[1:]
		} else {
			id := ref
			if j := strings.Index(ref, "#"); j >= 0 {
				id, frag = ref[:j], ref[j+1:]
			}
			f, ok := s.Files[id]
			if !ok {
				return Node{}
			}
			file = f
			if frag == "" {
				n = Node{S: f, File: f}
				continue
			}
		}
		var cur any = file
		for _, part := range strings.Split(strings.TrimPrefix(frag, "/"), "/") {
			m, ok := cur.(map[string]any)
			if !ok {
				return Node{}
			}
			cur = m[part]
		}
		m, ok := cur.(map[string]any)
		if !ok {
			return Node{}
		}
		n = Node{S: m, File: file}
	}
	return n
}

// Props lists the declared members of an object node (sorted by name).
func (s *Set) Props(n Node) (names []string, nodes map[string]Node) {
	n = s.Resolve(n)
	nodes = map[string]Node{}
	if n.S == nil {
		return nil, nodes
	}
	if ps, ok := n.S["properties"].(map[string]any); ok {
		for k, v := range ps {
			if m, ok := v.(map[string]any); ok {
				names = append(names, k)
				nodes[k] = Node{S: m, File: n.File}
			}
		}
	}
	sort.Strings(names)
	return names, nodes
}

// Items returns the item node of an array node.
func (s *Set) Items(n Node) (Node, bool) {
	n = s.Resolve(n)
	if n.S == nil {
		return Node{}, false
	}
	if m, ok := n.S["items"].(map[string]any); ok {
		return Node{S: m, File: n.File}, true
	}
	return Node{}, false
}

// Kind classifies a node: object, array, map (pattern / additional
// properties only) or scalar.
func (s *Set) Kind(n Node) string {
	n = s.Resolve(n)
	if n.S == nil {
		return "any"
	}
	if _, ok := n.S["properties"]; ok {
		return "object"
	}
	if _, ok := n.S["items"]; ok {
		return "array"
	}
	switch n.S["type"] {
	case "array":
		return "array"
	case "object":
		return "map"
	case nil:
		return "any"
	}
	return "scalar"
}

// Step is one step of a path through a type: a member name, or "[]" for the
// element of an array.
type Step = string

// Paths enumerates every path of at most depth member names below the node
// (array elements do not count towards the depth), in a fixed order.
func (s *Set) Paths(n Node, depth int, yield func(path []Step, leaf Node) bool) bool {
	return s.paths(n, depth, nil, yield)
}

func (s *Set) paths(n Node, depth int, prefix []Step, yield func([]Step, Node) bool) bool {
	switch s.Kind(n) {
	case "array":
		if it, ok := s.Items(n); ok {
			p := append(append([]Step{}, prefix...), "[]")
			if !yield(p, it) {
				return false
			}
			return s.paths(it, depth, p, yield)
		}
	case "object":
		if depth == 0 {
			return true
		}
		names, nodes := s.Props(n)
		for _, name := range names {
			p := append(append([]Step{}, prefix...), name)
			if !yield(p, nodes[name]) {
				return false
			}
			if !s.paths(nodes[name], depth-1, p, yield) {
				return false
			}
		}
	}
	return true
}

// Build makes the smallest value in which the path exists and ends in leaf.
func Build(path []Step, leaf any) any {
	if len(path) == 0 {
		return leaf
	}
	if path[0] == "[]" {
		return []any{Build(path[1:], leaf)}
	}
	return map[string]any{path[0]: Build(path[1:], leaf)}
}

// ShortID strips the common prefix of schema ids.
func ShortID(id string) string { return strings.TrimPrefix(id, base) }

// FullID adds it.
func FullID(short string) string { return base + short }

// ---------------------------------------------------------------------------
// sample instances

var patternSamples = map[string]string{
	`^(?:[a-z]|[a-z0-9][a-z0-9-+]*[a-z0-9])$`:                 "abc",
	`^\-?[0-9]+(\.[0-9]+)?$`:                                  "1.00",
	`^\-?[0-9]+(\.[0-9]+)?%$`:                                 "10%",
	`^[A-Z0-9]{2,3}$`:                                         "KGM",
	`^[A-Z0-9Ñ&]+$`:                                           "ABC123",
	`^[0-9]{4}-[0-9]{2}-[0-9]{2}T[0-9]{2}:[0-9]{2}:[0-9]{2}$`: "2024-06-13T10:00:00",
	`^[A-Z0-9]+$`:                                             "ES",
	`^[A-Za-z0-9]+([\.\-\/ _\:]?[A-Za-z0-9]+)*$`:              "ABC",
	`^([A-ZÑ\&]{4})([0-9]{6})([A-Z0-9]{3})$`:                  "XAXX010101000",
	`^([A-ZÑ\&]{3})([0-9]{6})([A-Z0-9]{3})$`:                  "AAA010101AAA",
}

// Constrained reports whether a scalar node restricts its values by pattern,
// format, const or enumeration (directly or through oneOf / anyOf).
func (s *Set) Constrained(n Node) bool {
	n = s.Resolve(n)
	if n.S == nil {
		return false
	}
	for _, k := range []string{"pattern", "format", "const", "enum"} {
		if _, ok := n.S[k]; ok {
			return true
		}
	}
	for _, k := range []string{"oneOf", "anyOf"} {
		if l, ok := n.S[k].([]any); ok {
			for _, e := range l {
				if m, ok := e.(map[string]any); ok && s.Constrained(Node{S: m, File: n.File}) {
					return true
				}
			}
		}
	}
	return false
}

// Sample builds a small instance the node accepts: objects carry their
// required members only, lists are empty unless minItems says otherwise.
// It is a best effort (the referee decides); unknown shapes give "x".
func (s *Set) Sample(n Node, depth int) any {
	n = s.Resolve(n)
	if n.S == nil || depth > 8 {
		return map[string]any{}
	}
	if c, ok := n.S["const"]; ok {
		return c
	}
	if e, ok := n.S["enum"].([]any); ok && len(e) > 0 {
		return e[0]
	}
	for _, k := range []string{"oneOf", "anyOf"} {
		if l, ok := n.S[k].([]any); ok && len(l) > 0 {
			if _, isObj := n.S["properties"]; !isObj {
				if m, ok := l[0].(map[string]any); ok {
					return s.Sample(Node{S: m, File: n.File}, depth+1)
				}
			}
		}
	}
	switch s.Kind(n) {
	case "object":
		out := map[string]any{}
		_, nodes := s.Props(n)
		if req, ok := n.S["required"].([]any); ok {
			for _, r := range req {
				if name, ok := r.(string); ok {
					if pn, ok := nodes[name]; ok {
						out[name] = s.Sample(pn, depth+1)
					} else {
						out[name] = "x"
					}
				}
			}
		}
		return out
	case "array":
		if min, ok := n.S["minItems"].(float64); ok && min >= 1 {
			if it, ok := s.Items(n); ok {
				return []any{s.Sample(it, depth+1)}
			}
		}
		return []any{}
	case "map":
		return map[string]any{}
	}
	switch n.S["type"] {
	case "integer":
		return json.Number("1")
	case "number":
		return json.Number("1.5") // not integral: the canonical form of such numbers is a path of its own
	case "boolean":
		return true
	case "string", nil:
		if p, ok := n.S["pattern"].(string); ok {
			if v, ok := patternSamples[p]; ok {
				return v
			}
		}
		switch n.S["format"] {
		case "uuid":
			return "0190f5f0-7f3c-7000-8000-0123456789ab"
		case "date":
			return "2024-06-13"
		case "date-time":
			return "2024-06-13T10:00:00Z"
		case "uri":
			return "https://example.com/x"
		}
		return "x"
	}
	return "x"
}

// TypeID returns the short id of the published type a node resolves to, or ""
// when it is an inline schema.
func (s *Set) TypeID(n Node) string {
	n = s.Resolve(n)
	if n.S == nil || n.File == nil {
		return ""
	}
	id, _ := n.File["$id"].(string)
	if r, ok := s.Root(id); ok && fmt.Sprintf("%p", r.S) == fmt.Sprintf("%p", n.S) {
		return ShortID(id)
	}
	return ""
}

// AllMembers builds an instance of an object node with every declared member
// present (lists with one element, maps with one entry); depth limits nesting.
func (s *Set) AllMembers(n Node, depth int) any {
	if s.Kind(n) != "object" || depth <= 0 {
		return s.Sample(n, 0)
	}
	out := map[string]any{}
	names, nodes := s.Props(n)
	for _, name := range names {
		if strings.HasPrefix(name, "$") {
			continue
		}
		c := nodes[name]
		switch s.Kind(c) {
		case "array":
			if it, ok := s.Items(c); ok {
				out[name] = []any{s.AllMembers(it, depth-1)}
			}
		case "map":
			out[name] = map[string]any{"abc": "ABC"}
		case "object":
			out[name] = s.AllMembers(c, depth-1)
		default:
			out[name] = s.Sample(c, 0)
		}
	}
	return out
}
