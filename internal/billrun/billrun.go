// Package billrun runs the real gobl calculation on a docgen.Plan and
// flattens the calculated JSON document into the same figure paths the
// reference calculator produces.
package billrun

import (
	"encoding/json"
	"fmt"
	"strings"

	_ "github.com/invopop/gobl" // registers regimes, addons, schemas
	"github.com/invopop/gobl/currency"
	"github.com/invopop/gobl/schema"
	"github.com/invopop/gobl/verifharness/internal/docgen"
	"github.com/invopop/gobl/verifharness/internal/pubdata"
	"github.com/invopop/gobl/verifharness/internal/ratref"
	"github.com/invopop/gobl/verifharness/internal/refcalc"
)

// Outcome of running the real code.
type Outcome struct {
	Err     error
	JSON    []byte         // calculated document
	Doc     map[string]any // same, decoded
	Figures map[string]string
	Rows    refcalc.Rows
	Env     refcalc.Env
}

// Decimals returns the number of decimals of a currency (plumbing: taken from
// gobl's currency table).
func Decimals(code string) int {
	d := currency.Code(code).Def()
	if d == nil {
		return 2
	}
	return int(d.Subunits)
}

// Run parses and calculates the plan's document with the real library.
func Run(p docgen.Plan) *Outcome {
	return RunJSON(p, p.JSON())
}

// RunJSON is Run for an explicit document text (used by metamorphic checks).
func RunJSON(p docgen.Plan, text []byte) *Outcome {
	out := &Outcome{}
	obj := new(schema.Object)
	if err := json.Unmarshal(text, obj); err != nil {
		out.Err = fmt.Errorf("parse: %w", err)
		return out
	}
	if err := obj.Calculate(); err != nil {
		out.Err = fmt.Errorf("calculate: %w", err)
		return out
	}
	data, err := json.Marshal(obj)
	if err != nil {
		out.Err = fmt.Errorf("marshal: %w", err)
		return out
	}
	out.JSON = data
	if err := Observe(p, out); err != nil {
		out.Err = err
	}
	return out
}

func str(v any) string {
	s, _ := v.(string)
	return s
}

func arr(v any) []any {
	a, _ := v.([]any)
	return a
}

func mp(v any) map[string]any {
	m, _ := v.(map[string]any)
	return m
}

func extMap(v any) map[string]string {
	m := mp(v)
	if len(m) == 0 {
		return nil
	}
	out := map[string]string{}
	for k, x := range m {
		out[k] = str(x)
	}
	return out
}

func combos(regime string, v any) ([]refcalc.Combo, error) {
	var out []refcalc.Combo
	for _, x := range arr(v) {
		m := mp(x)
		c := refcalc.Combo{Cat: str(m["cat"]), Key: str(m["rate"]), Country: str(m["country"]), Ext: refcalc.ExtKey(extMap(m["ext"]))}
		if s := str(m["percent"]); s != "" {
			d, err := refcalc.ParsePercent(s)
			if err != nil {
				return nil, err
			}
			c.Percent = &d
		}
		if s := str(m["surcharge"]); s != "" {
			d, err := refcalc.ParsePercent(s)
			if err != nil {
				return nil, err
			}
			c.Surcharge = &d
		}
		country := regime
		if c.Country != "" && pubdata.HasRegime(c.Country) {
			country = c.Country
		}
		// a country without a published regime says nothing about the category:
		// whether it is retained is what the document's own regime says
		c.Retained = pubdata.Retained(country, c.Cat)
		out = append(out, c)
	}
	return out, nil
}

func putAmount(fig map[string]string, path string, v any) {
	if s, ok := v.(string); ok {
		fig[path] = s
	}
}

func subFigures(fig map[string]string, prefix string, m map[string]any) {
	if it := mp(m["item"]); it != nil {
		putAmount(fig, prefix+".item.price", it["price"])
	}
	putAmount(fig, prefix+".sum", m["sum"])
	putAmount(fig, prefix+".total", m["total"])
	for j, d := range arr(m["discounts"]) {
		dm := mp(d)
		putAmount(fig, fmt.Sprintf("%s.discounts[%d].amount", prefix, j), dm["amount"])
		putAmount(fig, fmt.Sprintf("%s.discounts[%d].base", prefix, j), dm["base"])
	}
	for j, d := range arr(m["charges"]) {
		dm := mp(d)
		putAmount(fig, fmt.Sprintf("%s.charges[%d].amount", prefix, j), dm["amount"])
		putAmount(fig, fmt.Sprintf("%s.charges[%d].base", prefix, j), dm["base"])
	}
}

// Observe decodes out.JSON and fills Doc, Figures, Rows and Env.
func Observe(p docgen.Plan, out *Outcome) error {
	var doc map[string]any
	dec := json.NewDecoder(strings.NewReader(string(out.JSON)))
	dec.UseNumber()
	if err := dec.Decode(&doc); err != nil {
		return err
	}
	out.Doc = doc
	fig := map[string]string{}
	out.Figures = fig
	cur := str(doc["currency"])
	rule := ""
	if tx := mp(doc["tax"]); tx != nil {
		rule = str(tx["rounding"])
	}
	if rule == "" {
		rs, _ := pubdata.Regimes()
		if r := rs[p.Regime]; r != nil {
			rule = r.Rounding
		}
	}
	if rule == "" {
		rule = "precise"
	}
	out.Env = refcalc.Env{C: Decimals(cur), Currency: cur, Rule: rule, K1: 2, K2: 2, Decimals: Decimals}

	for i, l := range arr(doc["lines"]) {
		lm := mp(l)
		prefix := fmt.Sprintf("lines[%d]", i)
		if it := mp(lm["item"]); it == nil || it["price"] == nil {
			// unpriced line: nothing is presented
			out.Rows.Lines = append(out.Rows.Lines, nil)
			continue
		}
		subFigures(fig, prefix, lm)
		for j, s := range arr(lm["breakdown"]) {
			if it := mp(mp(s)["item"]); it != nil && it["price"] != nil {
				subFigures(fig, fmt.Sprintf("%s.breakdown[%d]", prefix, j), mp(s))
			}
		}
		for j, s := range arr(lm["substituted"]) {
			if it := mp(mp(s)["item"]); it != nil && it["price"] != nil {
				subFigures(fig, fmt.Sprintf("%s.substituted[%d]", prefix, j), mp(s))
			}
		}
		cs, err := combos(p.Regime, lm["taxes"])
		if err != nil {
			return err
		}
		out.Rows.Lines = append(out.Rows.Lines, cs)
	}
	for _, kind := range []string{"discounts", "charges"} {
		for i, d := range arr(doc[kind]) {
			dm := mp(d)
			putAmount(fig, fmt.Sprintf("%s[%d].amount", kind, i), dm["amount"])
			putAmount(fig, fmt.Sprintf("%s[%d].base", kind, i), dm["base"])
			cs, err := combos(p.Regime, dm["taxes"])
			if err != nil {
				return err
			}
			if kind == "discounts" {
				out.Rows.Discounts = append(out.Rows.Discounts, cs)
			} else {
				out.Rows.Charges = append(out.Rows.Charges, cs)
			}
		}
	}
	if t := mp(doc["totals"]); t != nil {
		for _, k := range []string{"sum", "discount", "charge", "tax_included", "total", "tax", "total_with_tax", "rounding", "payable", "advance", "due"} {
			putAmount(fig, "totals."+k, t[k])
		}
		if tx := mp(t["taxes"]); tx != nil {
			FlattenTaxes(fig, "totals.taxes", tx)
		}
	}
	// without totals nothing was calculated: advances and due dates are still raw input
	if pay := mp(doc["payment"]); pay != nil && mp(doc["totals"]) != nil {
		for i, a := range arr(pay["advances"]) {
			putAmount(fig, fmt.Sprintf("payment.advances[%d].amount", i), mp(a)["amount"])
		}
		if terms := mp(pay["terms"]); terms != nil {
			for i, d := range arr(terms["due_dates"]) {
				putAmount(fig, fmt.Sprintf("payment.terms.due_dates[%d].amount", i), mp(d)["amount"])
			}
		}
	}
	return nil
}

// Compare returns the differences between expected and observed figures:
// value mismatches (compared as exact decimals AND as text, since the number
// of decimals is part of the presentation), missing and unexpected paths.
func Compare(expected, observed map[string]string) []string {
	var diffs []string
	for k, e := range expected {
		o, ok := observed[k]
		if !ok {
			diffs = append(diffs, fmt.Sprintf("%s: expected %s, absent", k, e))
			continue
		}
		if o != e {
			diffs = append(diffs, fmt.Sprintf("%s: expected %s, got %s", k, e, o))
		}
	}
	for k, o := range observed {
		if _, ok := expected[k]; !ok {
			diffs = append(diffs, fmt.Sprintf("%s: unexpected %s", k, o))
		}
	}
	sortStrings(diffs)
	return diffs
}

func sortStrings(s []string) {
	for i := 1; i < len(s); i++ {
		for j := i; j > 0 && s[j] < s[j-1]; j-- {
			s[j], s[j-1] = s[j-1], s[j]
		}
	}
}

var _ = ratref.Pow10

// Parse parses a document text into a schema object (not calculated).
func Parse(text []byte) (*schema.Object, error) {
	obj := new(schema.Object)
	if err := json.Unmarshal(text, obj); err != nil {
		return nil, err
	}
	return obj, nil
}

// FiguresOf marshals a (calculated) object and flattens its figures.
func FiguresOf(p docgen.Plan, obj *schema.Object) (*Outcome, error) {
	data, err := json.Marshal(obj)
	if err != nil {
		return nil, err
	}
	out := &Outcome{JSON: data}
	if err := Observe(p, out); err != nil {
		return nil, err
	}
	return out, nil
}

// FlattenTaxes writes the figures of a serialised tax.Total under prefix.
func FlattenTaxes(fig map[string]string, prefix string, tx map[string]any) {
	putAmount(fig, prefix+".sum", tx["sum"])
	for ci, c := range arr(tx["categories"]) {
		cm := mp(c)
		cp := fmt.Sprintf("%s.categories[%d]", prefix, ci)
		fig[cp+".code"] = str(cm["code"])
		if b, _ := cm["retained"].(bool); b {
			fig[cp+".retained"] = "true"
		}
		putAmount(fig, cp+".amount", cm["amount"])
		putAmount(fig, cp+".surcharge", cm["surcharge"])
		for ri, r := range arr(cm["rates"]) {
			rm := mp(r)
			rp := fmt.Sprintf("%s.rates[%d]", cp, ri)
			putAmount(fig, rp+".base", rm["base"])
			putAmount(fig, rp+".amount", rm["amount"])
			putAmount(fig, rp+".percent", rm["percent"])
			if s := mp(rm["surcharge"]); s != nil {
				putAmount(fig, rp+".surcharge.amount", s["amount"])
				putAmount(fig, rp+".surcharge.percent", s["percent"])
			}
			if s := str(rm["country"]); s != "" {
				fig[rp+".country"] = s
			}
			if e := refcalc.ExtKey(extMap(rm["ext"])); e != "" {
				fig[rp+".ext"] = e
			}
		}
	}
}
