// Package ratref holds the exact arithmetic the oracles use: integers and
// rationals from math/big with explicit round-half-away-from-zero. Nothing in
// here calls into gobl's num package.
package ratref

import (
	"fmt"
	"math/big"
	"strings"
)

var (
	one = big.NewInt(1)
	two = big.NewInt(2)
	ten = big.NewInt(10)
)

// Pow10 returns 10^e.
func Pow10(e int) *big.Int {
	return new(big.Int).Exp(ten, big.NewInt(int64(e)), nil)
}

// Limit52 is 2^52, the edge of the exactness domain stated by C05.
var Limit52 = new(big.Int).Lsh(one, 52)

// Fits52 reports |x| <= 2^52.
func Fits52(x *big.Int) bool {
	return new(big.Int).Abs(x).Cmp(Limit52) <= 0
}

// FitsInt64 reports whether x fits in an int64.
func FitsInt64(x *big.Int) bool { return x.IsInt64() }

// RoundDiv returns num/den rounded half away from zero (den != 0).
func RoundDiv(num, den *big.Int) *big.Int {
	n := new(big.Int).Set(num)
	d := new(big.Int).Set(den)
	if d.Sign() < 0 {
		n.Neg(n)
		d.Neg(d)
	}
	neg := n.Sign() < 0
	n.Abs(n)
	// q = floor((2n + d) / (2d))
	q := new(big.Int).Mul(n, two)
	q.Add(q, d)
	q.Quo(q, new(big.Int).Mul(d, two))
	if neg {
		q.Neg(q)
	}
	return q
}

// IsTie reports whether num/den lies exactly half way between two integers.
func IsTie(num, den *big.Int) bool {
	// 2*num/den is an odd integer
	n2 := new(big.Int).Mul(num, two)
	q, r := new(big.Int).QuoRem(n2, den, new(big.Int))
	return r.Sign() == 0 && q.Bit(0) == 1
}

// Exact reports whether den divides num.
func Exact(num, den *big.Int) bool {
	return new(big.Int).Rem(num, den).Sign() == 0
}

// Dec is an exact decimal: Units * 10^-Exp.
type Dec struct {
	Units *big.Int
	Exp   int
}

// NewDec builds a decimal from an int64 unit count.
func NewDec(units int64, exp int) Dec { return Dec{Units: big.NewInt(units), Exp: exp} }

// Rat converts the decimal into a rational.
func (d Dec) Rat() *big.Rat {
	return new(big.Rat).SetFrac(d.Units, Pow10(d.Exp))
}

// RoundRat rounds r half away from zero to exp decimals and returns the unit count.
func RoundRat(r *big.Rat, exp int) *big.Int {
	num := new(big.Int).Mul(r.Num(), Pow10(exp))
	return RoundDiv(num, r.Denom())
}

// RatTie reports whether r is an exact tie at exp decimals.
func RatTie(r *big.Rat, exp int) bool {
	num := new(big.Int).Mul(r.Num(), Pow10(exp))
	return IsTie(num, r.Denom())
}

// RatExactAt reports whether r is representable with exp decimals.
func RatExactAt(r *big.Rat, exp int) bool {
	num := new(big.Int).Mul(r.Num(), Pow10(exp))
	return Exact(num, r.Denom())
}

// Rescale returns d at the requested exponent, rounding half away when reducing.
func (d Dec) Rescale(exp int) Dec {
	if exp >= d.Exp {
		return Dec{Units: new(big.Int).Mul(d.Units, Pow10(exp-d.Exp)), Exp: exp}
	}
	return Dec{Units: RoundDiv(d.Units, Pow10(d.Exp-exp)), Exp: exp}
}

// String prints the decimal in the plain form `-12.340`.
func (d Dec) String() string {
	return FormatUnits(d.Units, d.Exp)
}

// FormatUnits prints units*10^-exp with exactly exp decimals.
func FormatUnits(units *big.Int, exp int) string {
	neg := units.Sign() < 0
	s := new(big.Int).Abs(units).String()
	if exp > 0 {
		if len(s) <= exp {
			s = strings.Repeat("0", exp-len(s)+1) + s
		}
		s = s[:len(s)-exp] + "." + s[len(s)-exp:]
	}
	if neg {
		s = "-" + s
	}
	return s
}

// ParseDec parses `-?digits(.digits)?` exactly (no size limit).
func ParseDec(s string) (Dec, error) {
	neg := strings.HasPrefix(s, "-")
	body := strings.TrimPrefix(s, "-")
	intp, frac := body, ""
	if i := strings.IndexByte(body, '.'); i >= 0 {
		intp, frac = body[:i], body[i+1:]
		if frac == "" {
			return Dec{}, fmt.Errorf("empty fraction in %q", s)
		}
	}
	if intp == "" {
		return Dec{}, fmt.Errorf("empty integer part in %q", s)
	}
	for _, c := range intp + frac {
		if c < '0' || c > '9' {
			return Dec{}, fmt.Errorf("bad digit in %q", s)
		}
	}
	u, ok := new(big.Int).SetString(intp+frac, 10)
	if !ok {
		return Dec{}, fmt.Errorf("cannot parse %q", s)
	}
	if neg {
		u.Neg(u)
	}
	return Dec{Units: u, Exp: len(frac)}, nil
}
