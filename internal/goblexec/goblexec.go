// Package goblexec drives the real `gobl` executable built by the driver
// (VERIF_GOBL_BIN): one-shot commands over argv / stdin / stdout and a
// persistent `gobl serve` on a loopback port.
package goblexec

import (
	"bytes"
	"encoding/json"
	"fmt"
	"io"
	"net"
	"net/http"
	"os"
	"os/exec"
	"path/filepath"
	"sync"
	"time"

	"github.com/invopop/gobl/dsig"
)

// Bin returns the path of the executable ("" when the driver built none).
func Bin() string { return os.Getenv("VERIF_GOBL_BIN") }

// Available reports whether exec / HTTP paths can be exercised.
func Available() bool {
	if Bin() == "" {
		return false
	}
	_, err := os.Stat(Bin())
	return err == nil
}

var (
	dirOnce sync.Once
	workDir string
)

// Dir is a private scratch directory of this process.
func Dir() string {
	dirOnce.Do(func() {
		base := os.Getenv("VERIF_SCRATCH")
		d, err := os.MkdirTemp(base, "goblexec-")
		if err != nil {
			panic(err)
		}
		workDir = d
	})
	return workDir
}

// Result of a one-shot command.
type Result struct {
	Stdout   []byte
	Stderr   []byte
	ExitCode int
}

// Run executes `gobl args...` with stdin.
func Run(stdin []byte, args ...string) (*Result, error) {
	cmd := exec.Command(Bin(), args...)
	cmd.Stdin = bytes.NewReader(stdin)
	var so, se bytes.Buffer
	cmd.Stdout, cmd.Stderr = &so, &se
	cmd.Env = append(os.Environ(), "HOME="+Dir())
	done := make(chan error, 1)
	if err := cmd.Start(); err != nil {
		return nil, err
	}
	go func() { done <- cmd.Wait() }()
	select {
	case err := <-done:
		res := &Result{Stdout: so.Bytes(), Stderr: se.Bytes()}
		if err != nil {
			if ee, ok := err.(*exec.ExitError); ok {
				res.ExitCode = ee.ExitCode()
				return res, nil
			}
			return nil, err
		}
		return res, nil
	case <-time.After(60 * time.Second):
		_ = cmd.Process.Kill()
		return nil, fmt.Errorf("gobl %v: timed out", args)
	}
}

var fileSeq int
var fileMu sync.Mutex

// WriteTemp writes data to a fresh file in the scratch directory.
func WriteTemp(name string, data []byte) string {
	fileMu.Lock()
	fileSeq++
	n := fileSeq
	fileMu.Unlock()
	p := filepath.Join(Dir(), fmt.Sprintf("%d-%s", n, name))
	if err := os.WriteFile(p, data, 0o600); err != nil {
		panic(err)
	}
	return p
}

// PublicKeyFile writes the public key as the JSON file `gobl verify -k` reads.
func PublicKeyFile(k *dsig.PublicKey) string {
	data, _ := json.Marshal(k)
	return WriteTemp("pub.jwk", data)
}

// PrivateKeyFile writes the private key as a JSON file.
func PrivateKeyFile(k *dsig.PrivateKey) string {
	data, _ := json.Marshal(k)
	return WriteTemp("priv.jwk", data)
}

// Server is a running `gobl serve`.
type Server struct {
	URL string
	cmd *exec.Cmd
}

var (
	srvOnce sync.Once
	srv     *Server
	srvErr  error
)

// Serve starts (once per process) `gobl serve -p <port> -k <key>` and waits until it answers.
func Serve(key *dsig.PrivateKey) (*Server, error) {
	srvOnce.Do(func() {
		l, err := net.Listen("tcp", "127.0.0.1:0")
		if err != nil {
			srvErr = err
			return
		}
		port := l.Addr().(*net.TCPAddr).Port
		_ = l.Close()
		kf := PrivateKeyFile(key)
		cmd := exec.Command(Bin(), "serve", "-p", fmt.Sprint(port), "-k", kf)
		cmd.Env = append(os.Environ(), "HOME="+Dir())
		cmd.Stdout, cmd.Stderr = io.Discard, io.Discard
		if err := cmd.Start(); err != nil {
			srvErr = err
			return
		}
		s := &Server{URL: fmt.Sprintf("http://127.0.0.1:%d", port), cmd: cmd}
		deadline := time.Now().Add(15 * time.Second)
		for time.Now().Before(deadline) {
			resp, err := http.Get(s.URL + "/")
			if err == nil {
				_ = resp.Body.Close()
				srv = s
				return
			}
			time.Sleep(50 * time.Millisecond)
		}
		_ = cmd.Process.Kill()
		srvErr = fmt.Errorf("gobl serve did not come up on %s", s.URL)
	})
	return srv, srvErr
}

// Stop terminates the server (if any) and removes the scratch directory.
func Stop() {
	if srv != nil && srv.cmd != nil && srv.cmd.Process != nil {
		_ = srv.cmd.Process.Kill()
		_, _ = srv.cmd.Process.Wait()
	}
	if workDir != "" {
		_ = os.RemoveAll(workDir)
	}
}

// Post sends a JSON body and returns status and body.
func (s *Server) Post(path string, body []byte) (int, []byte, error) {
	req, err := http.NewRequest(http.MethodPost, s.URL+path, bytes.NewReader(body))
	if err != nil {
		return 0, nil, err
	}
	req.Header.Set("Content-Type", "application/json")
	client := &http.Client{Timeout: 60 * time.Second}
	resp, err := client.Do(req)
	if err != nil {
		return 0, nil, err
	}
	defer resp.Body.Close() //nolint:errcheck
	out, err := io.ReadAll(resp.Body)
	return resp.StatusCode, out, err
}
