// Package jsontree is a small generic JSON tree toolkit for the structure
// aware generators: decode with exact numbers, enumerate every node by JSON
// pointer, and apply edits (set / delete / insert / reorder) on a deep copy.
package jsontree

import (
	"bytes"
	"encoding/json"
	"fmt"
	"sort"
	"strconv"
	"strings"
)

// Decode parses one JSON value keeping numbers as json.Number.
func Decode(data []byte) (any, error) {
	dec := json.NewDecoder(bytes.NewReader(data))
	dec.UseNumber()
	var v any
	if err := dec.Decode(&v); err != nil {
		return nil, err
	}
	return v, nil
}

// Encode serialises a tree (object members in sorted order).
func Encode(v any) []byte {
	out, err := json.Marshal(v)
	if err != nil {
		panic(err)
	}
	return out
}

// Clone makes a deep copy.
func Clone(v any) any {
	switch t := v.(type) {
	case map[string]any:
		m := make(map[string]any, len(t))
		for k, x := range t {
			m[k] = Clone(x)
		}
		return m
	case []any:
		a := make([]any, len(t))
		for i, x := range t {
			a[i] = Clone(x)
		}
		return a
	default:
		return v
	}
}

// Kind names the JSON type of a node.
func Kind(v any) string {
	switch v.(type) {
	case map[string]any:
		return "object"
	case []any:
		return "array"
	case string:
		return "string"
	case json.Number, float64, int, int64:
		return "number"
	case bool:
		return "bool"
	case nil:
		return "null"
	}
	return "unknown"
}

// Node is one position of a tree.
type Node struct {
	Ptr   string // JSON pointer ("" is the root)
	Kind  string
	Value any
}

func esc(k string) string {
	return strings.ReplaceAll(strings.ReplaceAll(k, "~", "~0"), "/", "~1")
}

func unesc(k string) string {
	return strings.ReplaceAll(strings.ReplaceAll(k, "~1", "/"), "~0", "~")
}

// Nodes lists every node of the tree in a deterministic order (members sorted).
func Nodes(v any) []Node {
	var out []Node
	var walk func(ptr string, v any)
	walk = func(ptr string, v any) {
		out = append(out, Node{Ptr: ptr, Kind: Kind(v), Value: v})
		switch t := v.(type) {
		case map[string]any:
			ks := make([]string, 0, len(t))
			for k := range t {
				ks = append(ks, k)
			}
			sort.Strings(ks)
			for _, k := range ks {
				walk(ptr+"/"+esc(k), t[k])
			}
		case []any:
			for i, x := range t {
				walk(ptr+"/"+strconv.Itoa(i), x)
			}
		}
	}
	walk("", v)
	return out
}

func split(ptr string) []string {
	if ptr == "" {
		return nil
	}
	parts := strings.Split(strings.TrimPrefix(ptr, "/"), "/")
	for i := range parts {
		parts[i] = unesc(parts[i])
	}
	return parts
}

// Get returns the node at ptr.
func Get(v any, ptr string) (any, bool) {
	cur := v
	for _, p := range split(ptr) {
		switch t := cur.(type) {
		case map[string]any:
			x, ok := t[p]
			if !ok {
				return nil, false
			}
			cur = x
		case []any:
			i, err := strconv.Atoi(p)
			if err != nil || i < 0 || i >= len(t) {
				return nil, false
			}
			cur = t[i]
		default:
			return nil, false
		}
	}
	return cur, true
}

// edit applies fn to the container holding the last segment of ptr, on a deep copy.
func edit(root any, ptr string, fn func(parent any, key string) (any, error)) (any, error) {
	parts := split(ptr)
	if len(parts) == 0 {
		return nil, fmt.Errorf("cannot edit the root through its parent")
	}
	cp := Clone(root)
	// walk to parent, keeping track to re-attach a replaced parent (arrays change identity)
	type frame struct {
		container any
		key       string
	}
	var stack []frame
	cur := cp
	for _, p := range parts[:len(parts)-1] {
		stack = append(stack, frame{cur, p})
		switch t := cur.(type) {
		case map[string]any:
			x, ok := t[p]
			if !ok {
				return nil, fmt.Errorf("no member %q", p)
			}
			cur = x
		case []any:
			i, err := strconv.Atoi(p)
			if err != nil || i < 0 || i >= len(t) {
				return nil, fmt.Errorf("no index %q", p)
			}
			cur = t[i]
		default:
			return nil, fmt.Errorf("cannot descend into %s", Kind(cur))
		}
	}
	np, err := fn(cur, parts[len(parts)-1])
	if err != nil {
		return nil, err
	}
	// re-attach upwards
	for i := len(stack) - 1; i >= 0; i-- {
		f := stack[i]
		switch t := f.container.(type) {
		case map[string]any:
			t[f.key] = np
			np = t
		case []any:
			j, _ := strconv.Atoi(f.key)
			t[j] = np
			np = t
		}
	}
	return np, nil
}

// Set replaces (or adds, for objects) the value at ptr.
func Set(root any, ptr string, nv any) (any, error) {
	if ptr == "" {
		return Clone(nv), nil
	}
	return edit(root, ptr, func(parent any, key string) (any, error) {
		switch t := parent.(type) {
		case map[string]any:
			t[key] = Clone(nv)
			return t, nil
		case []any:
			i, err := strconv.Atoi(key)
			if err != nil || i < 0 || i >= len(t) {
				return nil, fmt.Errorf("no index %q", key)
			}
			t[i] = Clone(nv)
			return t, nil
		}
		return nil, fmt.Errorf("parent is %s", Kind(parent))
	})
}

// Delete removes the member / element at ptr.
func Delete(root any, ptr string) (any, error) {
	return edit(root, ptr, func(parent any, key string) (any, error) {
		switch t := parent.(type) {
		case map[string]any:
			if _, ok := t[key]; !ok {
				return nil, fmt.Errorf("no member %q", key)
			}
			delete(t, key)
			return t, nil
		case []any:
			i, err := strconv.Atoi(key)
			if err != nil || i < 0 || i >= len(t) {
				return nil, fmt.Errorf("no index %q", key)
			}
			return append(append([]any{}, t[:i]...), t[i+1:]...), nil
		}
		return nil, fmt.Errorf("parent is %s", Kind(parent))
	})
}

// Insert adds nv before index key of the array holding ptr's last segment
// (ptr addresses the position; index == len appends).
func Insert(root any, ptr string, nv any) (any, error) {
	return edit(root, ptr, func(parent any, key string) (any, error) {
		t, ok := parent.([]any)
		if !ok {
			return nil, fmt.Errorf("parent is %s", Kind(parent))
		}
		i, err := strconv.Atoi(key)
		if err != nil || i < 0 || i > len(t) {
			return nil, fmt.Errorf("bad index %q", key)
		}
		out := append([]any{}, t[:i]...)
		out = append(out, Clone(nv))
		out = append(out, t[i:]...)
		return out, nil
	})
}

// Swap exchanges elements i and j of the array at ptr.
func Swap(root any, ptr string, i, j int) (any, error) {
	arr, ok := Get(root, ptr)
	if !ok {
		return nil, fmt.Errorf("no node %q", ptr)
	}
	a, ok := arr.([]any)
	if !ok || i < 0 || j < 0 || i >= len(a) || j >= len(a) {
		return nil, fmt.Errorf("cannot swap")
	}
	na := Clone(a).([]any)
	na[i], na[j] = na[j], na[i]
	return Set(root, ptr, na)
}

// Equal compares two trees by content (numbers by their text).
func Equal(a, b any) bool {
	return bytes.Equal(Encode(a), Encode(b))
}
