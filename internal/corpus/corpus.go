// Package corpus loads the example documents shipped with the repository
// (examples/**, note/examples, regimes/common/examples) and envelopes them
// the way /repo/examples_test.go does (pinned header UUID). The sources are
// seeds for generators; the committed out/*.json files are never used.
package corpus

import (
	"encoding/json"
	"fmt"
	"os"
	"path/filepath"
	"sort"
	"strings"
	"sync"

	"github.com/invopop/gobl"
	"github.com/invopop/gobl/schema"
	"github.com/invopop/gobl/uuid"
	"github.com/invopop/yaml"
)

// HeadUUID is the pinned envelope identifier.
const HeadUUID = "8a51fd30-2a27-11ee-be56-0242ac120002"

// Doc is one example source.
type Doc struct {
	Path     string // relative to the repository
	IsEnv    bool   // the source is already an envelope (.env.)
	JSON     []byte // source converted to JSON (not calculated)
	Schema   string // $schema of the document
	ShortSch string // e.g. bill/invoice
	Regime   string
	Addons   []string
}

func repoDir() string {
	if r := os.Getenv("VERIF_REPO"); r != "" {
		return r
	}
	return "/repo"
}

var (
	once sync.Once
	docs []Doc
	lerr error
)

// Load returns all example sources, sorted by path.
func Load() ([]Doc, error) {
	once.Do(func() {
		roots := []string{"examples", "note/examples", "regimes/common/examples"}
		var files []string
		for _, r := range roots {
			_ = filepath.Walk(filepath.Join(repoDir(), r), func(path string, info os.FileInfo, err error) error {
				if err != nil || info.IsDir() {
					return nil
				}
				ext := filepath.Ext(path)
				if ext != ".yaml" && ext != ".json" {
					return nil
				}
				if strings.Contains(path, "/out/") || strings.Contains(path, ".out.") {
					return nil
				}
				files = append(files, path)
				return nil
			})
		}
		sort.Strings(files)
		for _, f := range files {
			data, err := os.ReadFile(f)
			if err != nil {
				lerr = err
				return
			}
			js, err := yaml.YAMLToJSON(data)
			if err != nil {
				lerr = fmt.Errorf("%s: %w", f, err)
				return
			}
			rel, _ := filepath.Rel(repoDir(), f)
			d := Doc{Path: rel, IsEnv: strings.Contains(f, ".env."), JSON: js}
			var probe map[string]any
			if err := json.Unmarshal(js, &probe); err != nil {
				lerr = fmt.Errorf("%s: %w", f, err)
				return
			}
			src := probe
			if d.IsEnv {
				if m, ok := probe["doc"].(map[string]any); ok {
					src = m
				}
			}
			d.Schema, _ = src["$schema"].(string)
			d.ShortSch = strings.TrimPrefix(d.Schema, "https://gobl.org/draft-0/")
			d.Regime, _ = src["$regime"].(string)
			if as, ok := src["$addons"].([]any); ok {
				for _, a := range as {
					if s, ok := a.(string); ok {
						d.Addons = append(d.Addons, s)
					}
				}
			}
			docs = append(docs, d)
		}
	})
	return docs, lerr
}

// MustLoad panics when the corpus cannot be read.
func MustLoad() []Doc {
	d, err := Load()
	if err != nil {
		panic(err)
	}
	if len(d) == 0 {
		panic("corpus: no example documents found under " + repoDir())
	}
	return d
}

// Envelope builds (and calculates) a fresh envelope from the source, with the
// pinned header UUID. It does not validate.
func (d Doc) Envelope() (*gobl.Envelope, error) {
	return EnvelopeOf(d.JSON, d.IsEnv)
}

// EnvelopeOf envelopes a JSON document (or parses + calculates a JSON envelope).
func EnvelopeOf(js []byte, isEnv bool) (*gobl.Envelope, error) {
	var env *gobl.Envelope
	if isEnv {
		env = new(gobl.Envelope)
		if err := json.Unmarshal(js, env); err != nil {
			return nil, err
		}
		if err := env.Calculate(); err != nil {
			return nil, err
		}
	} else {
		obj := new(schema.Object)
		if err := json.Unmarshal(js, obj); err != nil {
			return nil, err
		}
		var err error
		env, err = gobl.Envelop(obj)
		if err != nil {
			return nil, err
		}
	}
	env.Head.UUID = uuid.MustParse(HeadUUID)
	return env, nil
}

// Invoices returns the corpus documents of schema bill/invoice.
func Invoices() []Doc {
	var out []Doc
	for _, d := range MustLoad() {
		if d.ShortSch == "bill/invoice" {
			out = append(out, d)
		}
	}
	return out
}
