package corpus

// Legacy variants: example invoices rewritten into the older shapes the
// library still migrates on load (tax identity zones, old extension keys,
// legacy rate keys, identities that became extensions, old payment and tax
// member names). Nothing else exercises the migration code with data of every
// kind.

import (
	"fmt"
	"strings"
	"sync"

	"github.com/invopop/gobl/verifharness/internal/jsontree"
)

var (
	legacyOnce sync.Once
	legacyDocs []Doc
)

var ptLegacyRates = []string{
	"exempt+outlay", "exempt+intrastate-export", "exempt+imports", "exempt+exports", "exempt+suspension-scheme",
	"exempt+internal-operations", "exempt+small-retail-scheme", "exempt+exempt-scheme", "exempt+tobacco-scheme", "exempt+margin-scheme+travel",
}

func setAll(tree any, edits map[string]any) (any, bool) {
	var err error
	for ptr, v := range edits {
		if tree, err = jsontree.Set(tree, ptr, v); err != nil {
			return nil, false
		}
	}
	return tree, true
}

// Legacy lists the variants (sources, never envelopes).
func Legacy() []Doc {
	legacyOnce.Do(func() {
		seen := map[string]int{}
		add := func(d Doc, name string, tree any) {
			nd := d
			nd.Path = d.Path + "#legacy-" + name
			nd.JSON = jsontree.Encode(tree)
			legacyDocs = append(legacyDocs, nd)
		}
		for _, d := range MustLoad() {
			if d.IsEnv || d.ShortSch != "bill/invoice" {
				continue
			}
			tree, err := jsontree.Decode(d.JSON)
			if err != nil {
				continue
			}
			reg := d.Regime
			if reg == "" {
				if v, ok := jsontree.Get(tree, "/supplier/tax_id/country"); ok {
					reg, _ = v.(string)
				}
			}
			seen[reg]++
			if seen[reg] > 2 {
				continue // two examples per regime
			}
			lines, _ := jsontree.Get(tree, "/lines")
			nLines := 0
			if l, ok := lines.([]any); ok {
				nLines = len(l)
			}
			// every regime: old rounding names, tags on the tax object and on combos, old online payment members
			if t, ok := setAll(tree, map[string]any{"/tax": map[string]any{"rounding": "round-then-sum", "tags": []any{"simplified"}}}); ok {
				add(d, "tax-tags", t)
			}
			if t, ok := setAll(tree, map[string]any{"/payment": map[string]any{"instructions": map[string]any{"key": "online", "online": []any{map[string]any{"name": "Pay here", "addr": "https://pay.example.com/x"}}}}}); ok {
				add(d, "online-name-addr", t)
			}
			if nLines > 0 {
				if t, ok := setAll(tree, map[string]any{"/lines/0/taxes": []any{map[string]any{"cat": "VAT", "tags": []any{"standard"}}}}); ok {
					add(d, "combo-tags", t)
				}
			}
			switch reg {
			case "PT":
				for i, k := range ptLegacyRates {
					edits := map[string]any{}
					for li := 0; li < nLines; li++ {
						rate := k
						if li%2 == 1 {
							rate = ptLegacyRates[(i+1)%len(ptLegacyRates)]
						}
						edits[fmt.Sprintf("/lines/%d/taxes", li)] = []any{map[string]any{"cat": "VAT", "rate": rate}}
					}
					if t, ok := setAll(tree, edits); ok {
						add(d, "rate-"+strings.ReplaceAll(k, "+", "_"), t)
					}
				}
				for _, zone := range []string{"20", "30", "99"} {
					// three lines with different rates, so that the combos must not share their extensions
					var three []any
					if l, ok := lines.([]any); ok && len(l) > 0 {
						for li := 0; li < 3; li++ {
							line, _ := jsontree.Clone(l[li%len(l)]).(map[string]any)
							if line == nil {
								continue
							}
							delete(line, "i")
							line["taxes"] = []any{map[string]any{"cat": "VAT", "rate": []string{"standard", "reduced", "intermediate"}[li]}}
							three = append(three, line)
						}
					}
					edits := map[string]any{"/supplier/tax_id/zone": zone}
					if len(three) == 3 {
						edits["/lines"] = three
					}
					if t, ok := setAll(tree, edits); ok {
						add(d, "zone-"+zone, t)
					}
				}
			case "CO":
				if t, ok := setAll(tree, map[string]any{"/supplier/tax_id/zone": "11001", "/customer/tax_id/zone": "05001"}); ok {
					add(d, "zones", t)
				}
			case "MX":
				if t, ok := setAll(tree, map[string]any{"/supplier/tax_id/zone": "21000", "/customer/tax_id/zone": "65000"}); ok {
					add(d, "zones", t)
				}
				edits := map[string]any{
					"/supplier/identities": []any{map[string]any{"key": "mx-cfdi-fiscal-regime", "code": "601"}},
					"/customer/identities": []any{map[string]any{"key": "mx-cfdi-fiscal-regime", "code": "608"}, map[string]any{"key": "mx-cfdi-use", "code": "G01"}},
				}
				for li := 0; li < nLines; li++ {
					edits[fmt.Sprintf("/lines/%d/item/identities", li)] = []any{map[string]any{"key": "mx-cfdi-prod-serv", "code": "50211502"}}
				}
				if t, ok := setAll(tree, edits); ok {
					add(d, "identities", t)
				}
			case "IT":
				edits := map[string]any{}
				for li := 0; li < nLines; li++ {
					edits[fmt.Sprintf("/lines/%d/taxes", li)] = []any{
						map[string]any{"cat": "VAT", "rate": "exempt", "ext": map[string]any{"it-sdi-nature": "N2.2"}},
						map[string]any{"cat": "IRPEF", "percent": "20.0%", "ext": map[string]any{"it-sdi-retained-tax": "A"}},
					}
				}
				if t, ok := setAll(tree, edits); ok {
					add(d, "sdi-keys", t)
				}
			}
		}
	})
	return legacyDocs
}
