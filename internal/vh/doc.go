// Package vh holds the shared harness helpers.
package vh

import (
	_ "github.com/invopop/gobl"
	_ "pgregory.net/rapid"
)
