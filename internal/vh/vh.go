// Package vh is the shared harness used by every check package under
// /verif/checks. It owns: tier / seed / shard handling, rapid configuration,
// per-check statistics (evaluations, distinct non-trivial cases, class
// histogram, samples), known-finding exclusion, replay files and the replay
// entry point.
//
// A check is a (generator, oracle) pair over a JSON-serialisable case type.
// The generator only draws the case; the oracle judges it and reports through
// an *Obs. On failure the case is written to a replay file; rapid's shrinker
// re-runs the property so the last file written is the minimal case.
package vh

import (
	"encoding/binary"
	"encoding/json"
	"flag"
	"fmt"
	"hash/fnv"
	"os"
	"path/filepath"
	"regexp"
	"runtime"
	"runtime/debug"
	"sort"
	"strconv"
	"strings"
	"sync"
	"sync/atomic"
	"testing"
	"time"

	"pgregory.net/rapid"
)

// ---------------------------------------------------------------------------
// configuration (from the environment, set by the driver)

// Config is what the driver hands to the test binary.
type Config struct {
	Property string
	Tier     string // quick | thorough
	Seed     uint64
	Shard    int
	Shards   int
	OutDir   string // where stats / replay files are written
	Root     string // /verif
	Repo     string // /repo
	Replay   string // path of a replay file to run instead of the search
	Only     string // regexp restricting check names
	Deadline time.Time
	Scale    float64 // multiplies case counts (testing the harness itself)
}

var cfg Config

// Cfg returns the run configuration.
func Cfg() Config { return cfg }

// Thorough reports whether the thorough tier was requested.
func Thorough() bool { return cfg.Tier == "thorough" }

func envInt(name string, def int) int {
	if v := os.Getenv(name); v != "" {
		if n, err := strconv.Atoi(v); err == nil {
			return n
		}
	}
	return def
}

func loadConfig(property string) {
	cfg = Config{
		Property: property,
		Tier:     os.Getenv("VERIF_TIER"),
		Shard:    envInt("VERIF_SHARD", 0),
		Shards:   envInt("VERIF_SHARDS", 1),
		OutDir:   os.Getenv("VERIF_OUT"),
		Root:     os.Getenv("VERIF_ROOT"),
		Repo:     os.Getenv("VERIF_REPO"),
		Replay:   os.Getenv("VERIF_REPLAY"),
		Only:     os.Getenv("VERIF_ONLY"),
		Scale:    1,
	}
	if cfg.Tier != "thorough" {
		cfg.Tier = "quick"
	}
	if cfg.Root == "" {
		cfg.Root = "/verif"
	}
	if cfg.Repo == "" {
		cfg.Repo = "/repo"
	}
	if cfg.OutDir == "" {
		d, err := os.MkdirTemp("", "vh-out-")
		if err != nil {
			panic(err)
		}
		cfg.OutDir = d
	}
	if v := os.Getenv("VERIF_SEED"); v != "" {
		if n, err := strconv.ParseInt(v, 10, 64); err == nil {
			cfg.Seed = uint64(n)
		} else if u, err := strconv.ParseUint(v, 10, 64); err == nil {
			cfg.Seed = u
		}
	}
	if v := os.Getenv("VERIF_SCALE"); v != "" {
		if f, err := strconv.ParseFloat(v, 64); err == nil && f > 0 {
			cfg.Scale = f
		}
	}
	if v := os.Getenv("VERIF_DEADLINE"); v != "" {
		if n, err := strconv.ParseInt(v, 10, 64); err == nil {
			cfg.Deadline = time.Unix(n, 0)
		}
	}
}

// DeadlinePassed reports whether the driver's soft wall-clock cap has passed.
// It is only used to stop *starting* more work; it never decides a verdict.
func DeadlinePassed() bool {
	return !cfg.Deadline.IsZero() && time.Now().After(cfg.Deadline)
}

// ---------------------------------------------------------------------------
// known findings

// Known is one `known:` line of KNOWN_FINDINGS.txt.
type Known struct {
	Property string
	Finding  string
	Sig      string
	Text     string
}

var knownList []Known

var knownRe = regexp.MustCompile(`^known:\s+property=(\S+)\s+finding=(\S+)\s+sig=(\S+)\s+(.*)$`)

func loadKnown() {
	data, err := os.ReadFile(filepath.Join(cfg.Root, "KNOWN_FINDINGS.txt"))
	if err != nil {
		return
	}
	for _, line := range strings.Split(string(data), "\n") {
		m := knownRe.FindStringSubmatch(strings.TrimSpace(line))
		if m == nil {
			continue
		}
		knownList = append(knownList, Known{Property: m[1], Finding: m[2], Sig: m[3], Text: m[4]})
	}
}

// KnownSig reports whether sig is listed as a known finding of this property.
func KnownSig(sig string) bool {
	for _, k := range knownList {
		if k.Property == cfg.Property && k.Sig == sig {
			return true
		}
	}
	return false
}

// ---------------------------------------------------------------------------
// observations

// Failure is an oracle verdict against the code under test.
type Failure struct {
	Sig string `json:"sig"`
	Msg string `json:"msg"`
}

// Obs collects what an oracle says about one case.
type Obs struct {
	classes    []string
	nontrivial bool
	fail       *Failure
	note       string
	discard    bool
}

// Class tags the case with a class label (for the histogram).
func (o *Obs) Class(c string) { o.classes = append(o.classes, c) }

// NonTrivial marks the case non-trivial by the check's stated rule.
func (o *Obs) NonTrivial() { o.nontrivial = true }

// Note attaches an observed-output note shown with samples.
func (o *Obs) Note(format string, args ...any) { o.note = fmt.Sprintf(format, args...) }

// Discard marks the case as outside the property's domain (counted).
func (o *Obs) Discard() { o.discard = true }

// Failf records a violation (first one wins).
func (o *Obs) Failf(sig, format string, args ...any) {
	if o.fail == nil {
		o.fail = &Failure{Sig: sig, Msg: fmt.Sprintf(format, args...)}
	}
}

// Failed reports whether a violation was recorded.
func (o *Obs) Failed() bool { return o.fail != nil }

// Failure returns the recorded failure or nil.
func (o *Obs) Failure() *Failure { return o.fail }

// ---------------------------------------------------------------------------
// statistics

type sample struct {
	Check string          `json:"check"`
	Class string          `json:"class,omitempty"`
	Case  json.RawMessage `json:"case"`
	Note  string          `json:"observed,omitempty"`
}

type checkStats struct {
	Name        string         `json:"name"`
	Evaluations int64          `json:"evaluations"`
	NonTrivial  int64          `json:"nontrivial_evaluations"`
	Distinct    int64          `json:"distinct_nontrivial"`
	Discarded   int64          `json:"discarded"`
	Classes     map[string]int `json:"classes"`
	Known       map[string]int `json:"excluded_known"`
	Violations  int            `json:"violations"`
	Requested   int            `json:"requested_checks,omitempty"`
	Completed   int            `json:"completed_checks,omitempty"`
	Exhaustive  bool           `json:"exhaustive,omitempty"`
	CutShort    bool           `json:"cut_short_by_deadline,omitempty"`
	WallS       float64        `json:"wall_s"`
	Extra       map[string]any `json:"extra,omitempty"`

	ByConstruct bool `json:"by_construction,omitempty"`

	hashes       map[uint64]struct{}
	samples      []sample
	sampledClass map[string]bool
	mu           sync.Mutex
}

type shardStats struct {
	Property string        `json:"property"`
	Tier     string        `json:"tier"`
	Seed     uint64        `json:"seed"`
	Shard    int           `json:"shard"`
	Shards   int           `json:"shards"`
	Checks   []*checkStats `json:"checks"`
	Samples  []sample      `json:"samples"`
	Replays  []string      `json:"replays"`
	GoVer    string        `json:"go_version"`
	Meta     metaInfo      `json:"meta"`
}

type metaInfo struct {
	Rule        string   `json:"rule"`
	Assumptions []string `json:"assumptions"`
}

var meta metaInfo

// Describe records the generation / non-triviality rule and the assumptions
// that go into the evidence file.
func Describe(rule string, assumptions ...string) {
	meta = metaInfo{Rule: rule, Assumptions: assumptions}
}

var (
	statsMu  sync.Mutex
	allStats []*checkStats
	replays  []string
)

func newStats(name string) *checkStats {
	s := &checkStats{Name: name, Classes: map[string]int{}, Known: map[string]int{}, hashes: map[uint64]struct{}{}, sampledClass: map[string]bool{}}
	statsMu.Lock()
	allStats = append(allStats, s)
	statsMu.Unlock()
	return s
}

const maxHashes = 4_000_000
const maxSamplesPerCheck = 4

func hashCase(raw []byte) uint64 {
	h := fnv.New64a()
	_, _ = h.Write(raw)
	return h.Sum64()
}

// record folds one evaluated case into the statistics. raw may be nil when
// the check is distinct by construction (exhaustive enumeration).
func (s *checkStats) record(name string, raw func() []byte, o *Obs) {
	s.mu.Lock()
	defer s.mu.Unlock()
	s.Evaluations++
	if o.discard {
		s.Discarded++
		return
	}
	for _, c := range o.classes {
		s.Classes[c]++
	}
	if o.nontrivial {
		s.NonTrivial++
		if s.ByConstruct {
			s.Distinct++
		} else if len(s.hashes) < maxHashes {
			s.hashes[hashCase(raw())] = struct{}{}
		}
	}
	// samples: first case of each class combination, non-trivial preferred
	if len(s.samples) < maxSamplesPerCheck && o.fail == nil {
		key := strings.Join(o.classes, "+")
		if !o.nontrivial {
			key = "trivial:" + key
		}
		if !s.sampledClass[key] && (o.nontrivial || len(s.samples) == 0) {
			s.sampledClass[key] = true
			s.samples = append(s.samples, sample{Check: name, Class: key, Case: json.RawMessage(raw()), Note: o.note})
		}
	}
}

// SetExtra stores an additional measured value in the check's statistics.
func (r *Runner) SetExtra(key string, v any) {
	r.st.mu.Lock()
	defer r.st.mu.Unlock()
	if r.st.Extra == nil {
		r.st.Extra = map[string]any{}
	}
	r.st.Extra[key] = v
}

func flush() {
	statsMu.Lock()
	defer statsMu.Unlock()
	out := shardStats{Property: cfg.Property, Tier: cfg.Tier, Seed: cfg.Seed, Shard: cfg.Shard, Shards: cfg.Shards, GoVer: runtime.Version(), Replays: replays, Meta: meta}
	hashFile, err := os.Create(filepath.Join(cfg.OutDir, fmt.Sprintf("hashes-%d.bin", cfg.Shard)))
	if err != nil {
		fmt.Fprintln(os.Stderr, "vh: cannot write hashes:", err)
	}
	var buf [8]byte
	for _, s := range allStats {
		if !s.ByConstruct {
			s.Distinct = int64(len(s.hashes))
			if hashFile != nil {
				// prefix each hash with the check so different checks never collide
				ph := hashCase([]byte(s.Name))
				for h := range s.hashes {
					binary.LittleEndian.PutUint64(buf[:], h^ph)
					_, _ = hashFile.Write(buf[:])
				}
			}
		}
		out.Checks = append(out.Checks, s)
		out.Samples = append(out.Samples, s.samples...)
	}
	if hashFile != nil {
		_ = hashFile.Close()
	}
	data, _ := json.MarshalIndent(out, "", " ")
	if err := os.WriteFile(filepath.Join(cfg.OutDir, fmt.Sprintf("stats-%d.json", cfg.Shard)), data, 0o644); err != nil {
		fmt.Fprintln(os.Stderr, "vh: cannot write stats:", err)
	}
}

// ---------------------------------------------------------------------------
// replay files

// ReplayFile is the on-disk form of a failing (or witness) case.
type ReplayFile struct {
	Property string          `json:"property"`
	Check    string          `json:"check"`
	Sig      string          `json:"sig"`
	Msg      string          `json:"msg"`
	Case     json.RawMessage `json:"case"`
}

func replayPath(check string) string {
	return filepath.Join(cfg.OutDir, fmt.Sprintf("fail-%s-%s-%d.json", cfg.Property, sanitize(check), cfg.Shard))
}

func sanitize(s string) string {
	return regexp.MustCompile(`[^A-Za-z0-9_.-]+`).ReplaceAllString(s, "_")
}

// collectMode (VERIF_COLLECT=1) keeps enumerations going after a violation
// and stores one replay per distinct signature: used to survey all defects
// behind the first one.
var collectMode = os.Getenv("VERIF_COLLECT") != ""
var collected = map[string]bool{}

func writeReplay(check string, raw []byte, f *Failure) string {
	rf := ReplayFile{Property: cfg.Property, Check: check, Sig: f.Sig, Msg: f.Msg, Case: raw}
	data, _ := json.MarshalIndent(rf, "", " ")
	p := replayPath(check)
	if collectMode {
		p = replayPath(check + "-" + f.Sig)
	}
	if err := os.WriteFile(p, data, 0o644); err != nil {
		fmt.Fprintln(os.Stderr, "vh: cannot write replay:", err)
	}
	statsMu.Lock()
	found := false
	for _, r := range replays {
		if r == p {
			found = true
		}
	}
	if !found {
		replays = append(replays, p)
	}
	statsMu.Unlock()
	return p
}

// ---------------------------------------------------------------------------
// check registry

// Runner is handed to custom checks.
type Runner struct {
	Name string
	st   *checkStats
}

type checkDef struct {
	name   string
	run    func(t *testing.T, r *Runner)
	replay func(raw json.RawMessage) (*Obs, error)
}

var registry []*checkDef

// N picks a case count by tier, scaled and divided over shards.
func N(quick, thorough int) int {
	n := quick
	if Thorough() {
		n = thorough
	}
	n = int(float64(n) * cfg.Scale)
	if cfg.Shards > 1 {
		n = (n + cfg.Shards - 1) / cfg.Shards
	}
	if n < 1 {
		n = 1
	}
	return n
}

var breadcrumbs = os.Getenv("VERIF_BREADCRUMB") != ""

// breadcrumb records the case about to be judged, so that the driver can name
// it when the code under test takes the whole process down (a Go fatal error
// such as a stack overflow or concurrent map writes cannot be recovered).
func breadcrumb(check string, c any) {
	if !breadcrumbs || cfg.OutDir == "" {
		return
	}
	raw, err := json.Marshal(c)
	if err != nil {
		return
	}
	rf := ReplayFile{Property: cfg.Property, Check: check, Sig: "process-aborted", Msg: "the process died while this case was being handled", Case: raw}
	data, _ := json.Marshal(rf)
	_ = os.WriteFile(filepath.Join(cfg.OutDir, fmt.Sprintf("breadcrumb-%d.json", cfg.Shard)), data, 0o644)
}

// Hang watchdog (VERIF_HANG_SECONDS, set by the driver for the properties that
// ask for it): a case that is still being judged after that many seconds -
// orders of magnitude beyond what any case takes - is written to
// hang-<shard>.json and the process exits with status 4. The driver replays
// that one case on its own before believing it.
type watched struct {
	check string
	c     any
	start time.Time
}

var (
	watchCur   atomic.Pointer[watched]
	watchLimit time.Duration
	watchOnce  sync.Once
)

// watch notes the case about to be judged; done() clears it.
func watch(check string, c any) (done func()) {
	watchOnce.Do(func() {
		n, err := strconv.Atoi(os.Getenv("VERIF_HANG_SECONDS"))
		if err != nil || n <= 0 {
			return
		}
		watchLimit = time.Duration(n) * time.Second
		go func() {
			for {
				time.Sleep(500 * time.Millisecond)
				w := watchCur.Load()
				if w == nil || time.Since(w.start) < watchLimit {
					continue
				}
				raw, err := json.Marshal(w.c)
				if err != nil {
					raw = []byte("null")
				}
				rf := ReplayFile{Property: cfg.Property, Check: w.check, Sig: "hang", Msg: fmt.Sprintf("the case was still being handled after %s", watchLimit), Case: raw}
				data, _ := json.Marshal(rf)
				if cfg.OutDir != "" {
					_ = os.WriteFile(filepath.Join(cfg.OutDir, fmt.Sprintf("hang-%d.json", cfg.Shard)), data, 0o644)
				}
				if cfg.Replay != "" {
					out, _ := json.Marshal(map[string]any{"check": w.check, "failed": true, "sig": "hang", "msg": rf.Msg})
					fmt.Printf("REPLAY-RESULT %s\n", out)
				}
				fmt.Fprintf(os.Stderr, "vh: hang watchdog: check %s exceeded %s\n", w.check, watchLimit)
				os.Exit(4)
			}
		}()
	})
	if watchLimit == 0 {
		return func() {}
	}
	watchCur.Store(&watched{check: check, c: c, start: time.Now()})
	return func() { watchCur.Store(nil) }
}

// safeOracle runs the oracle turning a panic into a failure whose signature
// names the top frame inside the repository.
func safeOracle(fn func(), o *Obs) {
	defer func() {
		if r := recover(); r != nil {
			site := PanicSite(debug.Stack())
			o.Failf("panic@"+site, "panic: %v (at %s)", r, site)
		}
	}()
	fn()
}

// PanicSite extracts the first gobl (non-harness) function from a stack.
func PanicSite(stack []byte) string {
	for _, line := range strings.Split(string(stack), "\n") {
		if !strings.HasPrefix(line, "github.com/invopop/gobl") || strings.Contains(line, "verifharness") {
			continue
		}
		fn := line
		if i := strings.LastIndex(fn, "("); i > 0 {
			fn = fn[:i]
		}
		fn = strings.TrimPrefix(fn, "github.com/invopop/gobl/")
		fn = strings.TrimPrefix(fn, "github.com/invopop/gobl.")
		// closures: keep the enclosing function only
		fn = regexp.MustCompile(`\.func\d+(\.\d+)*$`).ReplaceAllString(fn, "")
		return sanitize(fn)
	}
	return "unknown"
}

func seedFor(name string, chunk int) uint64 {
	h := fnv.New64a()
	fmt.Fprintf(h, "%d/%s/%s/%d/%d", cfg.Seed, cfg.Property, name, cfg.Shard, chunk)
	s := h.Sum64()
	if s == 0 {
		s = 0x9E3779B97F4A7C15
	}
	return s
}

func setFlag(name, value string) {
	if err := flag.Set(name, value); err != nil {
		panic(fmt.Sprintf("vh: flag %s: %v", name, err))
	}
}

// Rapid registers a randomised check: gen draws the case, oracle judges it.
// quick / thorough are the total case counts per tier (split over shards).
func Rapid[C any](name string, quick, thorough int, gen func(t *rapid.T) C, oracle func(c C, o *Obs)) {
	def := &checkDef{name: name}
	def.replay = func(raw json.RawMessage) (*Obs, error) {
		var c C
		if err := json.Unmarshal(raw, &c); err != nil {
			return nil, err
		}
		o := &Obs{}
		done := watch(name, c)
		safeOracle(func() { oracle(c, o) }, o)
		done()
		return o, nil
	}
	def.run = func(t *testing.T, r *Runner) {
		total := N(quick, thorough)
		r.st.Requested = total
		chunks := 8
		if total < 400 {
			chunks = 1
		}
		per := (total + chunks - 1) / chunks
		for i := 0; i < chunks && r.st.Completed < total; i++ {
			if DeadlinePassed() {
				r.st.CutShort = true
				break
			}
			n := per
			if r.st.Completed+n > total {
				n = total - r.st.Completed
			}
			setFlag("rapid.checks", strconv.Itoa(n))
			setFlag("rapid.seed", strconv.FormatUint(seedFor(name, i), 10))
			ok := t.Run(fmt.Sprintf("chunk%d", i), func(t *testing.T) {
				rapid.Check(t, func(rt *rapid.T) {
					c := gen(rt)
					o := &Obs{}
					breadcrumb(name, c)
					done := watch(name, c)
					safeOracle(func() { oracle(c, o) }, o)
					done()
					var raw []byte
					getRaw := func() []byte {
						if raw == nil {
							var err error
							raw, err = json.Marshal(c)
							if err != nil {
								raw = []byte(fmt.Sprintf("%q", fmt.Sprintf("unserialisable: %v", err)))
							}
						}
						return raw
					}
					if o.fail != nil && KnownSig(o.fail.Sig) {
						r.st.mu.Lock()
						r.st.Known[o.fail.Sig]++
						r.st.mu.Unlock()
						o.fail = nil
						o.discard = true
					}
					r.st.record(name, getRaw, o)
					if o.fail != nil {
						p := writeReplay(name, getRaw(), o.fail)
						rt.Fatalf("VIOLATION sig=%s %s (replay %s)", o.fail.Sig, o.fail.Msg, p)
					}
				})
			})
			if !ok {
				r.st.Violations++
				return
			}
			r.st.Completed += n
		}
	}
	registry = append(registry, def)
}

// Enum registers an exhaustive (or otherwise self-driven) enumeration: iter
// calls yield for every case; yield returns false when enumeration must stop
// (a violation was found or the deadline passed). Every yielded case is
// distinct by construction.
func Enum[C any](name string, iter func(yield func(C) bool), oracle func(c C, o *Obs)) {
	def := &checkDef{name: name}
	def.replay = func(raw json.RawMessage) (*Obs, error) {
		var c C
		if err := json.Unmarshal(raw, &c); err != nil {
			return nil, err
		}
		o := &Obs{}
		done := watch(name, c)
		safeOracle(func() { oracle(c, o) }, o)
		done()
		return o, nil
	}
	def.run = func(t *testing.T, r *Runner) {
		r.st.ByConstruct = true
		r.st.Exhaustive = true
		var count int64
		maxViol := 3
		iter(func(c C) bool {
			count++
			if count&0xfff == 0 && DeadlinePassed() {
				r.st.CutShort = true
				r.st.Exhaustive = false
				return false
			}
			o := &Obs{}
			breadcrumb(name, c)
			done := watch(name, c)
			safeOracle(func() { oracle(c, o) }, o)
			done()
			getRaw := func() []byte {
				raw, err := json.Marshal(c)
				if err != nil {
					return []byte(fmt.Sprintf("%q", err.Error()))
				}
				return raw
			}
			if o.fail != nil && KnownSig(o.fail.Sig) {
				r.st.Known[o.fail.Sig]++
				o.fail = nil
				o.discard = true
			}
			r.st.record(name, getRaw, o)
			if o.fail != nil {
				if collectMode {
					if !collected[o.fail.Sig] {
						collected[o.fail.Sig] = true
						p := writeReplay(name, getRaw(), o.fail)
						t.Errorf("VIOLATION sig=%s %s (replay %s)", o.fail.Sig, o.fail.Msg, p)
					}
					r.st.Violations++
					return true
				}
				// keep the first (enumeration order = smallest first) case per check
				if r.st.Violations == 0 {
					p := writeReplay(name, getRaw(), o.fail)
					t.Errorf("VIOLATION sig=%s %s (replay %s)", o.fail.Sig, o.fail.Msg, p)
				}
				r.st.Violations++
				r.st.Exhaustive = false
				return r.st.Violations < maxViol
			}
			return true
		})
	}
	registry = append(registry, def)
}

// Custom registers a check that drives itself; it reports cases through
// r.Observe and violations through r.Violation.
func Custom(name string, run func(t *testing.T, r *Runner), replay func(raw json.RawMessage, o *Obs)) {
	def := &checkDef{name: name, run: run}
	def.replay = func(raw json.RawMessage) (*Obs, error) {
		o := &Obs{}
		if replay == nil {
			return nil, fmt.Errorf("check %s has no replay function", name)
		}
		safeOracle(func() { replay(raw, o) }, o)
		return o, nil
	}
	registry = append(registry, def)
}

// Observe folds a self-driven case into the statistics and handles a failure
// exactly like the rapid path. It returns true when the case was a (new)
// violation.
func (r *Runner) Observe(t *testing.T, c any, o *Obs) bool {
	getRaw := func() []byte {
		raw, err := json.Marshal(c)
		if err != nil {
			return []byte(fmt.Sprintf("%q", err.Error()))
		}
		return raw
	}
	if o.fail != nil && KnownSig(o.fail.Sig) {
		r.st.mu.Lock()
		r.st.Known[o.fail.Sig]++
		r.st.mu.Unlock()
		o.fail = nil
		o.discard = true
	}
	r.st.record(r.Name, getRaw, o)
	if o.fail != nil {
		r.st.mu.Lock()
		first := r.st.Violations == 0
		r.st.Violations++
		r.st.mu.Unlock()
		if first {
			p := writeReplay(r.Name, getRaw(), o.fail)
			t.Errorf("VIOLATION sig=%s %s (replay %s)", o.fail.Sig, o.fail.Msg, p)
		}
		return true
	}
	return false
}

// DistinctByConstruction tells the statistics that every observed case of
// this check is distinct, so non-trivial cases are counted without hashing.
func (r *Runner) DistinctByConstruction() { r.st.ByConstruct = true }

// MarkExhaustive records that the check enumerated its space completely.
func (r *Runner) MarkExhaustive(v bool) { r.st.Exhaustive = v }

// ---------------------------------------------------------------------------
// entry points used by every check package

// Main is called from TestMain.
func Main(m *testing.M, property string) {
	// rapid reads RAPID_* as flag defaults at init; the driver clears them, and
	// every setting is forced here explicitly as well.
	loadConfig(property)
	loadKnown()
	flag.Parse()
	setFlag("rapid.nofailfile", "true")
	setFlag("rapid.failfile", "")
	setFlag("rapid.shrinktime", "20s")
	setFlag("rapid.steps", "30")
	code := m.Run()
	for _, fn := range exitHooks {
		fn()
	}
	if os.Getenv("VERIF_FUZZ") == "" {
		flush()
	}
	os.Exit(code)
}

var exitHooks []func()

// OnExit registers a function run after all tests of the process (stop helper processes, remove scratch files).
func OnExit(fn func()) { exitHooks = append(exitHooks, fn) }

// RunAll runs every registered check (or the replay when VERIF_REPLAY is set).
func RunAll(t *testing.T) {
	if cfg.Replay != "" {
		runReplay(t, cfg.Replay)
		return
	}
	var only *regexp.Regexp
	if cfg.Only != "" {
		only = regexp.MustCompile(cfg.Only)
	}
	names := map[string]bool{}
	for _, def := range registry {
		if names[def.name] {
			t.Fatalf("duplicate check name %s", def.name)
		}
		names[def.name] = true
		if only != nil && !only.MatchString(def.name) {
			continue
		}
		if def.run == nil {
			continue // replay-only (native fuzz target)
		}
		def := def
		st := newStats(def.name)
		start := time.Now()
		t.Run(def.name, func(t *testing.T) {
			def.run(t, &Runner{Name: def.name, st: st})
		})
		st.WallS = time.Since(start).Seconds()
	}
}

// runReplay feeds a stored case straight to its oracle (no rapid involved).
// Output protocol (parsed by the driver): a line `REPLAY-RESULT <json>`.
func runReplay(t *testing.T, path string) {
	data, err := os.ReadFile(path)
	if err != nil {
		t.Fatalf("replay: %v", err)
	}
	var rf ReplayFile
	if err := json.Unmarshal(data, &rf); err != nil {
		t.Fatalf("replay: %v", err)
	}
	for _, def := range registry {
		if def.name != rf.Check {
			continue
		}
		o, err := def.replay(rf.Case)
		if err != nil {
			t.Fatalf("replay: %v", err)
		}
		res := map[string]any{"check": rf.Check, "failed": o.fail != nil}
		if o.fail != nil {
			res["sig"] = o.fail.Sig
			res["msg"] = o.fail.Msg
		}
		out, _ := json.Marshal(res)
		fmt.Printf("REPLAY-RESULT %s\n", out)
		return
	}
	t.Fatalf("replay: no check named %q in property %s", rf.Check, cfg.Property)
}

// SortedKeys is a small helper for deterministic iteration over maps.
func SortedKeys[V any](m map[string]V) []string {
	ks := make([]string, 0, len(m))
	for k := range m {
		ks = append(ks, k)
	}
	sort.Strings(ks)
	return ks
}

// ---------------------------------------------------------------------------
// native fuzz targets

// FuzzTarget registers a replay-only check for a native fuzz target and
// returns the function the target calls for every input. The oracle lives
// inside the target: a failing input is written as a replay file (carrying
// the signature) before the fuzzer sees the failure.
func FuzzTarget[C any](name string, oracle func(c C, o *Obs)) func(t *testing.T, c C) {
	def := &checkDef{name: name}
	def.replay = func(raw json.RawMessage) (*Obs, error) {
		var c C
		if err := json.Unmarshal(raw, &c); err != nil {
			return nil, err
		}
		o := &Obs{}
		safeOracle(func() { oracle(c, o) }, o)
		return o, nil
	}
	registry = append(registry, def)
	return func(t *testing.T, c C) {
		o := &Obs{}
		safeOracle(func() { oracle(c, o) }, o)
		if o.fail == nil || KnownSig(o.fail.Sig) {
			return
		}
		raw, err := json.Marshal(c)
		if err != nil {
			raw = []byte(fmt.Sprintf("%q", err.Error()))
		}
		p := writeReplay(name, raw, o.fail)
		t.Fatalf("VIOLATION sig=%s %s (replay %s)", o.fail.Sig, o.fail.Msg, p)
	}
}
