// Package refcalc is the reference bill calculator: an independent
// re-statement, in exact decimals (math/big) with explicit
// round-half-away-from-zero calls, of the documented calculation of
// invoices, orders and deliveries. It works from a docgen.Plan (never from
// gobl structures). It also propagates, for every figure, a bound on how far
// any admissible implementation (working precision >= currency decimals + 2)
// can be from the unrounded exact value, and offers a separately written
// formula-level exact evaluation (no rounding at all).
package refcalc

import (
	"fmt"
	"math/big"
	"sort"
	"strings"

	"github.com/invopop/gobl/verifharness/internal/docgen"
	"github.com/invopop/gobl/verifharness/internal/ratref"
)

// Dec is the exact decimal type.
type Dec = ratref.Dec

// Env is the calculation environment.
type Env struct {
	C        int                   // decimals of the document currency
	Currency string                // document currency code
	Rule     string                // precise | currency
	K1       int                   // extra working digits for lines / bases (>= 2)
	K2       int                   // extra working digits for tax rows (>= 2)
	Decimals func(code string) int // decimals of any currency
}

// Combo is a tax combo after resolution (percentages as the calculated
// document shows them).
type Combo struct {
	Cat       string
	Key       string
	Percent   *Dec // nil: exempt / no percentage
	Surcharge *Dec
	Country   string
	Ext       string // canonical text of the extension map
	Retained  bool
}

// Rows carries the resolved combos of every taxable row.
type Rows struct {
	Lines     [][]Combo
	Discounts [][]Combo
	Charges   [][]Combo
}

// Stats counts what the calculation went through.
type Stats struct {
	Roundings int // rounding steps that discarded a non-zero remainder
	Ties      int // of which exact half units
	Steps     int // all rounding points visited
	// OutOfDomain is set when an operand or exact intermediate exceeds 2^52
	// units: gobl's arithmetic is only exact inside that domain (property C05)
	OutOfDomain bool
}

// TV is a tracked value: the model figure and the bound on the distance
// between any admissible implementation's figure and the exact value.
type TV struct {
	D Dec
	E *big.Rat
}

// Result of the reference calculation.
type Result struct {
	Figures   map[string]string   // path -> presented decimal text
	Bounds    map[string]*big.Rat // path -> admissible error bound before presentation (currency units)
	HasTotals bool
	Stats     Stats
	// PreTaxTotal is sum - discounts + charges before any tax is removed or added (working precision)
	PreTaxTotal Dec
	Prices      []Dec // presented item price per line (after conversion / breakdown); Units nil when the line has no price
	// Derived holds, for lines priced through a breakdown, the sum of the
	// sub-line totals at working precision before it is presented as the
	// line's item price (Units nil otherwise)
	Derived []Dec
}

type calc struct {
	env   Env
	st    Stats
	fig   map[string]string
	bnd   map[string]*big.Rat
	halfW *big.Rat // half a unit at the coarsest admissible working precision (c+2, or c under the currency rule)
}

// ErrCalc is returned for documents the reference declares incalculable (the
// real code must fail as well).
type ErrCalc struct{ Msg string }

func (e *ErrCalc) Error() string { return e.Msg }

func zeroRat() *big.Rat { return new(big.Rat) }

func halfUnit(exp int) *big.Rat {
	return new(big.Rat).SetFrac(big.NewInt(1), new(big.Int).Mul(big.NewInt(2), ratref.Pow10(exp)))
}

func (c *calc) tv(d Dec) TV { return TV{D: d, E: zeroRat()} }

func (c *calc) zero() Dec { return ratref.NewDec(0, c.env.C) }

// round records statistics for rounding num/den.
func (c *calc) note(num, den *big.Int) {
	c.st.Steps++
	if !ratref.Fits52(num) || !ratref.Fits52(den) {
		c.st.OutOfDomain = true
	}
	if !ratref.Exact(num, den) {
		c.st.Roundings++
		if ratref.IsTie(num, den) {
			c.st.Ties++
		}
	}
}

func up(d Dec, e int) Dec {
	if e > d.Exp {
		return d.Rescale(e)
	}
	return d
}

// Fits reports whether a decimal is inside the exactness domain.
func Fits(d Dec) bool { return ratref.Fits52(d.Units) }

func (c *calc) rescale(d Dec, e int) Dec {
	if e < d.Exp {
		c.note(d.Units, ratref.Pow10(d.Exp-e))
	}
	return d.Rescale(e)
}

func (c *calc) down(d Dec, e int) Dec {
	if e < d.Exp {
		return c.rescale(d, e)
	}
	return d
}

// working precision error of one rounding step at exponent exp: an
// admissible implementation may round at any precision >= its documented
// minimum, so the step costs at most half a unit at min(exp, documented).
func (c *calc) stepErr(exp int) *big.Rat {
	return halfUnit(exp)
}

func absRat(d Dec) *big.Rat { return new(big.Rat).Abs(d.Rat()) }

func (c *calc) upTV(a TV, e int) TV { return TV{D: up(a.D, e), E: a.E} }

func (c *calc) rescaleTV(a TV, e int) TV {
	out := TV{D: c.rescale(a.D, e), E: a.E}
	if e < a.D.Exp {
		out.E = new(big.Rat).Add(a.E, c.stepErr(e))
	}
	return out
}

// mul: round(a*b) at a's exponent.
func (c *calc) mul(a TV, b Dec) TV {
	prod := new(big.Int).Mul(a.D.Units, b.Units)
	den := ratref.Pow10(b.Exp)
	c.note(prod, den)
	e := new(big.Rat).Mul(a.E, absRat(b))
	e.Add(e, c.stepErr(a.D.Exp))
	return TV{D: Dec{Units: ratref.RoundDiv(prod, den), Exp: a.D.Exp}, E: e}
}

// div: round(a/b) at a's exponent.
func (c *calc) div(a TV, b Dec) (TV, error) {
	if b.Units.Sign() == 0 {
		return TV{}, &ErrCalc{"division by zero"}
	}
	n := new(big.Int).Mul(a.D.Units, ratref.Pow10(b.Exp))
	c.note(n, b.Units)
	e := new(big.Rat).Quo(a.E, absRat(b))
	e.Add(e, c.stepErr(a.D.Exp))
	return TV{D: Dec{Units: ratref.RoundDiv(n, b.Units), Exp: a.D.Exp}, E: e}, nil
}

// add: a + b rescaled to a's exponent (the receiver's decimals win).
func (c *calc) add(a, b TV) TV {
	if b.D.Exp < a.D.Exp && !ratref.Fits52(b.D.Rescale(a.D.Exp).Units) {
		c.st.OutOfDomain = true
	}
	br := c.rescaleTV(b, a.D.Exp)
	return TV{D: Dec{Units: new(big.Int).Add(a.D.Units, br.D.Units), Exp: a.D.Exp}, E: new(big.Rat).Add(a.E, br.E)}
}

func (c *calc) sub(a, b TV) TV {
	return c.add(a, TV{D: Dec{Units: new(big.Int).Neg(b.D.Units), Exp: b.D.Exp}, E: b.E})
}

func neg(a TV) TV { return TV{D: Dec{Units: new(big.Int).Neg(a.D.Units), Exp: a.D.Exp}, E: a.E} }

// rule applies the rounding rule at the currency precision.
func (c *calc) rule(a TV) TV {
	if c.env.Rule == "currency" {
		return c.rescaleTV(a, c.env.C)
	}
	return c.upTV(a, c.env.C)
}

// matchRounding mirrors "keep the receiver's precision under the currency rule, raise it otherwise".
func (c *calc) matchRounding(a TV, b Dec) TV {
	if c.env.Rule == "currency" {
		return a
	}
	return c.upTV(a, b.Exp)
}

func (c *calc) present(path string, a TV, exp int) {
	c.fig[path] = c.rescale(a.D, exp).String()
	c.bnd[path] = a.E
}

func (c *calc) presentDown(path string, a TV, exp int) {
	c.fig[path] = c.down(a.D, exp).String()
	c.bnd[path] = a.E
}

// ParsePercent parses `12.5%` into the factor 0.125 (two more decimals).
func ParsePercent(s string) (Dec, error) {
	if !strings.HasSuffix(s, "%") {
		return Dec{}, fmt.Errorf("percentage %q without symbol", s)
	}
	d, err := ratref.ParseDec(strings.TrimSuffix(s, "%"))
	if err != nil {
		return Dec{}, err
	}
	return Dec{Units: d.Units, Exp: d.Exp + 2}, nil
}

func mustDec(s string) Dec {
	d, err := ratref.ParseDec(s)
	if err != nil {
		panic(fmt.Sprintf("refcalc: bad decimal %q in plan: %v", s, err))
	}
	return d
}

func mustPct(s string) Dec {
	d, err := ParsePercent(s)
	if err != nil {
		panic(fmt.Sprintf("refcalc: bad percentage %q in plan: %v", s, err))
	}
	return d
}

// itemPrice resolves the price of an item in the document currency.
func (c *calc) itemPrice(s docgen.SubLine, rates []docgen.Rate) (Dec, error) {
	icur := s.ItemCurrency
	if icur == "" {
		icur = c.env.Currency
	}
	price := up(mustDec(s.Price), c.env.Decimals(icur))
	if s.ItemCurrency == "" || s.ItemCurrency == c.env.Currency {
		return price, nil
	}
	for _, ap := range s.AltPrices {
		if ap.Currency == c.env.Currency {
			return up(mustDec(ap.Value), c.env.C), nil
		}
	}
	for _, r := range rates {
		if r.From == s.ItemCurrency && r.To == c.env.Currency {
			// price x rate, rounded once to the destination currency's decimals
			// (the converted price is a presented figure)
			rate := mustDec(r.Amount)
			prod := Dec{Units: new(big.Int).Mul(price.Units, rate.Units), Exp: price.Exp + rate.Exp}
			return c.rescale(prod, c.env.C), nil
		}
	}
	return Dec{}, &ErrCalc{fmt.Sprintf("no exchange rate from %s to %s", s.ItemCurrency, c.env.Currency)}
}

type adjOut struct {
	amount TV
	base   *Dec // presented base, when one was supplied
}

type subOut struct {
	price    Dec
	hasPrice bool
	sum      TV
	total    TV
	discs    []adjOut
	chrgs    []adjOut
}

// lineCore computes sum / total / adjustments of a (sub-)line given the price at working precision.
func (c *calc) lineCore(P Dec, s docgen.SubLine) subOut {
	out := subOut{}
	sum := c.rule(c.mul(c.tv(P), mustDec(s.Quantity)))
	total := sum
	for _, d := range s.Discounts {
		ao := adjOut{}
		var amount TV
		if d.Amount != "" {
			amount = c.tv(mustDec(d.Amount))
		} else {
			amount = c.tv(ratref.NewDec(0, 0))
		}
		if d.Base != "" {
			b := mustDec(d.Base) // presented as supplied unless a percentage uses it
			ao.base = &b
		}
		if d.Percent != "" {
			p := mustPct(d.Percent)
			if p.Units.Sign() != 0 {
				base := sum
				if d.Base != "" {
					b := up(mustDec(d.Base), c.env.C)
					ao.base = &b
					base = c.rule(c.tv(up(b, c.env.C+c.env.K1)))
				}
				amount = c.mul(base, p)
			}
		}
		amount = c.upTV(amount, c.env.C)
		total = c.sub(total, amount)
		ao.amount = amount
		out.discs = append(out.discs, ao)
	}
	for _, ch := range s.Charges {
		ao := adjOut{}
		var amount TV
		if ch.Amount != "" {
			amount = c.tv(mustDec(ch.Amount))
		} else {
			amount = c.tv(ratref.NewDec(0, 0))
		}
		if ch.Base != "" {
			b := mustDec(ch.Base)
			ao.base = &b
		}
		if ch.Percent != "" {
			p := mustPct(ch.Percent)
			if p.Units.Sign() != 0 {
				base := sum
				if ch.Base != "" {
					b := up(mustDec(ch.Base), c.env.C)
					ao.base = &b
					base = c.rule(c.tv(up(b, c.env.C+c.env.K1)))
				}
				amount = c.mul(base, p)
			}
		}
		if ch.Rate != "" {
			q := mustDec(s.Quantity)
			if ch.Quantity != "" {
				q = mustDec(ch.Quantity)
			}
			// the product keeps its own decimals up to the working precision
			r := mustDec(ch.Rate)
			e := r.Exp + q.Exp
			if max := c.env.C + c.env.K1; e > max {
				e = max
			}
			amount = c.rule(c.mul(c.tv(up(r, e)), q))
		}
		amount = c.upTV(amount, c.env.C)
		total = c.add(total, amount)
		ao.amount = amount
		out.chrgs = append(out.chrgs, ao)
	}
	out.sum, out.total = sum, total
	return out
}

func (c *calc) subLine(s docgen.SubLine, rates []docgen.Rate) (subOut, error) {
	if s.Price == "" {
		return subOut{}, nil
	}
	price, err := c.itemPrice(s, rates)
	if err != nil {
		return subOut{}, err
	}
	P := price
	if c.env.Rule != "currency" {
		P = up(price, c.env.C+c.env.K1)
	}
	out := c.lineCore(P, s)
	out.price, out.hasPrice = price, true
	return out, nil
}

func (c *calc) presentSub(prefix string, so subOut, e int) {
	if !so.hasPrice {
		return
	}
	c.fig[prefix+".item.price"] = so.price.String()
	c.presentDown(prefix+".sum", so.sum, e)
	c.presentDown(prefix+".total", so.total, e)
	// sub-line adjustments are not re-presented: they keep their working form raised to the currency
	for i, d := range so.discs {
		c.fig[fmt.Sprintf("%s.discounts[%d].amount", prefix, i)] = d.amount.D.String()
		if d.base != nil {
			c.fig[fmt.Sprintf("%s.discounts[%d].base", prefix, i)] = d.base.String()
		}
	}
	for i, d := range so.chrgs {
		c.fig[fmt.Sprintf("%s.charges[%d].amount", prefix, i)] = d.amount.D.String()
		if d.base != nil {
			c.fig[fmt.Sprintf("%s.charges[%d].base", prefix, i)] = d.base.String()
		}
	}
}

type taxRow struct {
	total  TV
	combos []Combo
}

type rateGroup struct {
	combo     Combo
	base      TV
	amount    TV
	surcharge *TV
}

type catGroup struct {
	code      string
	retained  bool
	rates     []*rateGroup
	amount    TV
	surcharge *TV
}

func sameDec(a, b *Dec) bool {
	if a == nil || b == nil {
		return a == nil && b == nil
	}
	return a.Rat().Cmp(b.Rat()) == 0
}

func (g *rateGroup) matches(cb Combo) bool {
	if g.combo.Ext != cb.Ext || g.combo.Country != cb.Country {
		return false
	}
	if g.combo.Percent == nil || cb.Percent == nil {
		return g.combo.Percent == nil && cb.Percent == nil
	}
	if g.combo.Surcharge != nil || cb.Surcharge != nil {
		if !sameDec(g.combo.Surcharge, cb.Surcharge) {
			return false
		}
	}
	return sameDec(g.combo.Percent, cb.Percent)
}

// Calculate runs the reference calculation.
func Calculate(p docgen.Plan, env Env, rows Rows) (*Result, error) {
	c := &calc{env: env, fig: map[string]string{}, bnd: map[string]*big.Rat{}}
	res := &Result{Figures: c.fig, Bounds: c.bnd}
	cc := env.C

	type lineOut struct {
		subOut
		priced bool
	}
	var trows []taxRow
	lines := make([]lineOut, len(p.Lines))
	res.Prices = make([]Dec, len(p.Lines))
	res.Derived = make([]Dec, len(p.Lines))
	for i, l := range p.Lines {
		prefix := fmt.Sprintf("lines[%d]", i)
		var subs, brk []subOut
		for _, s := range l.Substituted {
			so, err := c.subLine(s, p.Rates)
			if err != nil {
				return nil, err
			}
			subs = append(subs, so)
		}
		sl := l.SubLine
		if len(l.Breakdown) > 0 {
			np := c.tv(c.zero())
			hasPrice := false
			maxExp := 0
			for _, s := range l.Breakdown {
				so, err := c.subLine(s, p.Rates)
				if err != nil {
					return nil, err
				}
				brk = append(brk, so)
				if so.hasPrice {
					hasPrice = true
					np = c.add(c.upTV(np, so.total.D.Exp), so.total)
					if so.price.Exp > maxExp {
						maxExp = so.price.Exp
					}
				}
			}
			if hasPrice {
				res.Derived[i] = np.D
				sl.Price = c.rescale(np.D, maxExp).String()
				sl.ItemCurrency = ""
				sl.AltPrices = nil
			}
		}
		if sl.Price == "" {
			continue
		}
		price, err := c.itemPrice(sl, p.Rates)
		if err != nil {
			return nil, err
		}
		P := up(price, cc)
		if env.Rule != "currency" {
			P = up(price, cc+env.K1)
		}
		lo := c.lineCore(P, sl)
		lo.price, lo.hasPrice = price, true
		lines[i] = lineOut{subOut: lo, priced: true}
		res.Prices[i] = price
		e := price.Exp
		c.fig[prefix+".item.price"] = price.String()
		c.presentDown(prefix+".sum", lo.sum, e)
		c.presentDown(prefix+".total", lo.total, e)
		for j, d := range lo.discs {
			c.presentDown(fmt.Sprintf("%s.discounts[%d].amount", prefix, j), d.amount, e)
			if d.base != nil {
				c.fig[fmt.Sprintf("%s.discounts[%d].base", prefix, j)] = d.base.String()
			}
		}
		for j, d := range lo.chrgs {
			c.presentDown(fmt.Sprintf("%s.charges[%d].amount", prefix, j), d.amount, e)
			if d.base != nil {
				c.fig[fmt.Sprintf("%s.charges[%d].base", prefix, j)] = d.base.String()
			}
		}
		for j, so := range brk {
			c.presentSub(fmt.Sprintf("%s.breakdown[%d]", prefix, j), so, e)
		}
		for j, so := range subs {
			c.presentSub(fmt.Sprintf("%s.substituted[%d]", prefix, j), so, e)
		}
	}

	// document sum
	SUM := c.tv(c.zero())
	for i := range lines {
		if lines[i].priced {
			SUM = c.add(c.upTV(SUM, lines[i].total.D.Exp), lines[i].total)
			var cbs []Combo
			if i < len(rows.Lines) {
				cbs = rows.Lines[i]
			}
			trows = append(trows, taxRow{total: lines[i].total, combos: cbs})
		}
	}
	TOTAL := SUM

	docAdj := func(kind string, as []docgen.DocAdj, rcs [][]Combo, sign int) (*TV, error) {
		if len(as) == 0 {
			return nil, nil
		}
		acc := c.tv(c.zero())
		for i, a := range as {
			var amount TV
			if a.Amount != "" {
				amount = c.tv(mustDec(a.Amount))
			} else {
				amount = c.tv(ratref.NewDec(0, 0))
			}
			pe := cc
			if a.Percent != "" {
				pc := mustPct(a.Percent)
				if pc.Units.Sign() != 0 {
					base := SUM
					if a.Base != "" {
						base = c.rule(c.tv(up(mustDec(a.Base), cc+env.K1)))
					}
					amount = c.mul(base, pc)
				}
			}
			if a.Base != "" {
				b := mustDec(a.Base)
				if b.Exp > pe {
					pe = b.Exp // a finer base allows a finer presented amount, never a coarser one
				}
				c.fig[fmt.Sprintf("%s[%d].base", kind, i)] = b.String()
			}
			amount = c.rule(amount)
			acc = c.add(c.upTV(acc, amount.D.Exp), amount)
			c.presentDown(fmt.Sprintf("%s[%d].amount", kind, i), amount, pe)
			var cbs []Combo
			if i < len(rcs) {
				cbs = rcs[i]
			}
			rt := amount
			if sign < 0 {
				rt = neg(amount)
			}
			trows = append(trows, taxRow{total: rt, combos: cbs})
		}
		return &acc, nil
	}
	DISCOUNT, err := docAdj("discounts", p.Discounts, rows.Discounts, -1)
	if err != nil {
		return nil, err
	}
	if DISCOUNT != nil {
		TOTAL = c.sub(TOTAL, *DISCOUNT)
	}
	CHARGE, err := docAdj("charges", p.Charges, rows.Charges, 1)
	if err != nil {
		return nil, err
	}
	if CHARGE != nil {
		TOTAL = c.add(TOTAL, *CHARGE)
	}

	if len(trows) == 0 {
		res.Stats = c.st
		return res, nil
	}
	res.HasTotals = true

	// ---- taxes ----
	cats, TAXSUM, err := c.taxes(trows, p.PricesInclude, "totals.taxes")
	if err != nil {
		return nil, err
	}
	res.PreTaxTotal = TOTAL.D

	// ---- totals ----
	if p.PricesInclude != "" {
		for _, cg := range cats {
			if cg.code == p.PricesInclude {
				TOTAL = c.sub(TOTAL, cg.amount)
				c.present("totals.tax_included", cg.amount, cc)
				break
			}
		}
	}
	TWT := c.add(TOTAL, TAXSUM)
	PAYABLE := TWT
	if p.TotalsRounding != "" {
		r := mustDec(p.TotalsRounding)
		PAYABLE = c.add(PAYABLE, c.tv(r))
		c.fig["totals.rounding"] = r.String()
	}
	c.present("totals.sum", SUM, cc)
	if DISCOUNT != nil {
		c.present("totals.discount", *DISCOUNT, cc)
	}
	if CHARGE != nil {
		c.present("totals.charge", *CHARGE, cc)
	}
	c.present("totals.total", TOTAL, cc)
	c.present("totals.tax", TAXSUM, cc)
	c.present("totals.total_with_tax", TWT, cc)
	c.present("totals.payable", PAYABLE, cc)
	if (len(p.Advances) > 0 || len(p.DueDates) > 0) && p.Kind != "delivery" {
		if len(p.Advances) > 0 {
			ADV := c.tv(c.zero())
			for i, a := range p.Advances {
				var amount TV
				if a.Amount != "" {
					amount = c.tv(mustDec(a.Amount))
				} else {
					amount = c.tv(ratref.NewDec(0, 0))
				}
				if a.Percent != "" {
					amount = c.mul(TWT, mustPct(a.Percent))
				}
				amount = c.upTV(amount, cc)
				ADV = c.add(c.upTV(ADV, amount.D.Exp), amount)
				c.present(fmt.Sprintf("payment.advances[%d].amount", i), amount, cc)
			}
			c.present("totals.advance", ADV, cc)
			c.present("totals.due", c.sub(PAYABLE, ADV), cc)
		}
		for i, d := range p.DueDates {
			var amount TV
			if d.Amount != "" {
				amount = c.tv(mustDec(d.Amount))
			} else {
				amount = c.tv(ratref.NewDec(0, 0))
			}
			if d.Percent != "" {
				pc := mustPct(d.Percent)
				if pc.Units.Sign() != 0 {
					amount = c.mul(PAYABLE, pc)
				}
			}
			c.present(fmt.Sprintf("payment.terms.due_dates[%d].amount", i), amount, cc)
		}
	}
	res.Stats = c.st
	return res, nil
}

// taxes computes the tax summary of the given rows and presents it under prefix.
func (c *calc) taxes(trows []taxRow, includes string, prefix string) ([]*catGroup, TV, error) {
	env := c.env
	cc := env.C
	for i := range trows {
		if len(trows[i].combos) > 0 {
			trows[i].total = c.upTV(trows[i].total, cc+env.K2)
		}
	}
	if includes != "" {
		for i := range trows {
			for _, cb := range trows[i].combos {
				if cb.Cat != includes {
					continue
				}
				if cb.Retained {
					return nil, TV{}, &ErrCalc{"cannot include retained category"}
				}
				if cb.Percent != nil {
					f := Dec{Units: new(big.Int).Add(cb.Percent.Units, ratref.Pow10(cb.Percent.Exp)), Exp: cb.Percent.Exp}
					t, err := c.div(trows[i].total, f)
					if err != nil {
						return nil, TV{}, err
					}
					trows[i].total = t
				}
				break // first combo of that category
			}
		}
	}
	var cats []*catGroup
	for _, r := range trows {
		for _, cb := range r.combos {
			var cg *catGroup
			for _, x := range cats {
				if x.code == cb.Cat {
					cg = x
					break
				}
			}
			if cg == nil {
				cg = &catGroup{code: cb.Cat, retained: cb.Retained}
				cats = append(cats, cg)
			}
			var rg *rateGroup
			for _, x := range cg.rates {
				if x.matches(cb) {
					rg = x
					break
				}
			}
			if rg == nil {
				rg = &rateGroup{combo: cb, base: c.tv(c.zero())}
				cg.rates = append(cg.rates, rg)
			}
			rg.base = c.add(c.matchRounding(rg.base, r.total.D), r.total)
		}
	}
	TAXSUM := c.tv(c.zero())
	for ci, cg := range cats {
		cg.amount = c.tv(c.zero())
		for _, rg := range cg.rates {
			if rg.combo.Percent == nil {
				rg.amount = c.tv(c.zero())
				continue
			}
			rg.amount = c.mul(rg.base, *rg.combo.Percent)
			cg.amount = c.add(c.matchRounding(cg.amount, rg.amount.D), rg.amount)
			if rg.combo.Surcharge != nil {
				s := c.mul(rg.base, *rg.combo.Surcharge)
				rg.surcharge = &s
				if cg.surcharge == nil {
					z := c.tv(c.zero())
					cg.surcharge = &z
				}
				x := c.add(c.matchRounding(*cg.surcharge, s.D), s)
				cg.surcharge = &x
			}
		}
		TAXSUM = c.matchRounding(TAXSUM, cg.amount.D)
		if cg.retained {
			TAXSUM = c.sub(TAXSUM, cg.amount)
			if cg.surcharge != nil {
				TAXSUM = c.sub(TAXSUM, *cg.surcharge)
			}
		} else {
			TAXSUM = c.add(TAXSUM, cg.amount)
			if cg.surcharge != nil {
				TAXSUM = c.add(TAXSUM, *cg.surcharge)
			}
		}
		cp := fmt.Sprintf("%s.categories[%d]", prefix, ci)
		c.fig[cp+".code"] = cg.code
		if cg.retained {
			c.fig[cp+".retained"] = "true"
		}
		c.present(cp+".amount", cg.amount, cc)
		if cg.surcharge != nil {
			c.present(cp+".surcharge", *cg.surcharge, cc)
		}
		for ri, rg := range cg.rates {
			rp := fmt.Sprintf("%s.rates[%d]", cp, ri)
			c.present(rp+".base", rg.base, cc)
			c.present(rp+".amount", rg.amount, cc)
			if rg.combo.Percent != nil {
				c.fig[rp+".percent"] = pctText(*rg.combo.Percent)
			}
			if rg.surcharge != nil {
				c.present(rp+".surcharge.amount", *rg.surcharge, cc)
				c.fig[rp+".surcharge.percent"] = pctText(*rg.combo.Surcharge)
			}
			if rg.combo.Country != "" {
				c.fig[rp+".country"] = rg.combo.Country
			}
			if rg.combo.Ext != "" {
				c.fig[rp+".ext"] = rg.combo.Ext
			}
		}
	}
	if len(cats) > 0 {
		c.present(prefix+".sum", TAXSUM, cc)
	}

	return cats, TAXSUM, nil
}

// TaxRow is one taxable row handed to CalcTaxes.
type TaxRow struct {
	Total  Dec
	Combos []Combo
}

// CalcTaxes runs only the tax-summary part of the reference calculation over
// explicit rows (used against tax.TotalCalculator directly). Figures are
// presented under the prefix "taxes".
func CalcTaxes(env Env, rows []TaxRow, includes string) (*Result, error) {
	c := &calc{env: env, fig: map[string]string{}, bnd: map[string]*big.Rat{}}
	res := &Result{Figures: c.fig, Bounds: c.bnd, HasTotals: true}
	trows := make([]taxRow, len(rows))
	for i, r := range rows {
		if !Fits(r.Total) {
			c.st.OutOfDomain = true
		}
		trows[i] = taxRow{total: c.tv(r.Total), combos: r.Combos}
	}
	cats, sum, err := c.taxes(trows, includes, "taxes")
	if err != nil {
		return nil, err
	}
	if len(cats) == 0 {
		c.present("taxes.sum", sum, env.C)
	}
	res.Stats = c.st
	return res, nil
}

// pctText prints a factor (0.21) as the percentage text gobl writes (21%).
func pctText(f Dec) string {
	e := f.Exp - 2
	u := f.Units
	if e < 0 {
		u = new(big.Int).Mul(u, ratref.Pow10(-e))
		e = 0
	}
	return ratref.FormatUnits(u, e) + "%"
}

// ExtKey is the canonical text of an extension map.
func ExtKey(ext map[string]string) string {
	if len(ext) == 0 {
		return ""
	}
	ks := make([]string, 0, len(ext))
	for k := range ext {
		ks = append(ks, k)
	}
	sort.Strings(ks)
	var sb strings.Builder
	for _, k := range ks {
		fmt.Fprintf(&sb, "%s=%s;", k, ext[k])
	}
	return sb.String()
}

func decimalsOf(s string) int {
	if s == "" {
		return 0
	}
	d, err := ratref.ParseDec(s)
	if err != nil {
		return 0
	}
	return d.Exp
}

// OverPreciseFixed reports whether the plan supplies a fixed (not percentage
// or rate derived) amount with more decimals than the precision it is
// presented with: line discounts / charges finer than the item price,
// document discounts / charges finer than the currency (or their base),
// advances finer than the currency. gobl calculates with the supplied
// digits but presents (and therefore stores) the rounded amount, so such
// documents do not recalculate to the same figures (recorded finding of C04).
func OverPreciseFixed(p docgen.Plan, c int, prices []Dec) bool {
	fixed := func(a docgen.LineAdj) bool {
		if a.Rate != "" {
			return false
		}
		if a.Percent != "" {
			if pc, err := ParsePercent(a.Percent); err == nil && pc.Units.Sign() != 0 {
				return false
			}
		}
		return true
	}
	for i, l := range p.Lines {
		if i >= len(prices) || prices[i].Units == nil {
			continue
		}
		e := prices[i].Exp
		for _, a := range l.Discounts {
			if fixed(a) && decimalsOf(a.Amount) > e {
				return true
			}
		}
		for _, a := range l.Charges {
			if fixed(a) && decimalsOf(a.Amount) > e {
				return true
			}
		}
	}
	for _, as := range [][]docgen.DocAdj{p.Discounts, p.Charges} {
		for _, a := range as {
			if a.Percent != "" {
				if pc, err := ParsePercent(a.Percent); err == nil && pc.Units.Sign() != 0 {
					continue
				}
			}
			e := c
			if a.Base != "" && decimalsOf(a.Base) > e {
				e = decimalsOf(a.Base)
			}
			if decimalsOf(a.Amount) > e {
				return true
			}
		}
	}
	if p.Kind != "delivery" {
		for _, a := range p.Advances {
			if a.Percent == "" && decimalsOf(a.Amount) > c {
				return true
			}
		}
	}
	return false
}
