package pubdata

// Raw readers for the definition files published under data/ (regimes,
// addons, catalogues, currency tables and the country enumerations of the
// published l10n schemas). Nothing in this file consults the Go registries of
// the library: what is returned is exactly what the files say. Used by C18.

import (
	"encoding/json"
	"fmt"
	"os"
	"path/filepath"
	"sort"
	"strings"
	"sync"
)

// ExtDef is one published extension definition.
type ExtDef struct {
	Key     string
	Codes   []string // values[*].code (empty: no fixed list)
	Pattern string   // declared pattern ("" when none)
	Source  string   // e.g. "regime:PT", "addon:mx-cfdi-v4", "catalogue:untdid"
}

// HasCode reports whether code is one of the listed values.
func (d *ExtDef) HasCode(code string) bool {
	for _, c := range d.Codes {
		if c == code {
			return true
		}
	}
	return false
}

// PubCategory is a tax category of a published regime file.
type PubCategory struct {
	Code  string
	Rates []string // rate keys
}

// HasRate reports whether the category lists the rate key.
func (c *PubCategory) HasRate(key string) bool {
	for _, r := range c.Rates {
		if r == key {
			return true
		}
	}
	return false
}

// PubRegime is a published regime file.
type PubRegime struct {
	File       string // file stem
	Country    string
	Alt        []string
	Currency   string
	Categories []*PubCategory
	Extensions []*ExtDef
	Tags       map[string][]string // short schema -> tag keys
}

// Category returns the category with the code or nil.
func (r *PubRegime) Category(code string) *PubCategory {
	for _, c := range r.Categories {
		if c.Code == code {
			return c
		}
	}
	return nil
}

// PubAddon is a published addon file.
type PubAddon struct {
	Key        string
	Requires   []string
	Extensions []*ExtDef
	Tags       map[string][]string
}

// PubCatalogue is a published catalogue file.
type PubCatalogue struct {
	Key        string
	Extensions []*ExtDef
}

// Defs is everything published that a document can refer to.
type Defs struct {
	Regimes      map[string]*PubRegime // by country code and by alternative code
	RegimeCodes  []string              // sorted keys of Regimes
	Addons       map[string]*PubAddon
	AddonKeys    []string
	Catalogues   map[string]*PubCatalogue
	Ext          map[string][]*ExtDef // ext key -> every definition of it
	ExtKeys      []string
	Currencies   map[string]bool
	CurrencyList []string
	ISOCountries map[string]bool
	TaxCountries map[string]bool
	ISOList      []string
	TaxList      []string
}

type rawDef struct {
	Key     string `json:"key"`
	Code    string `json:"code"`
	Pattern string `json:"pattern"`
	Values  []struct {
		Key  string `json:"key"`
		Code string `json:"code"`
	} `json:"values"`
}

type rawTagSet struct {
	Schema string   `json:"schema"`
	List   []rawDef `json:"list"`
}

func extDefs(raw []rawDef, source string) []*ExtDef {
	var out []*ExtDef
	for _, r := range raw {
		d := &ExtDef{Key: r.Key, Pattern: r.Pattern, Source: source}
		for _, v := range r.Values {
			if v.Code != "" {
				d.Codes = append(d.Codes, v.Code)
			}
		}
		out = append(out, d)
	}
	return out
}

func tagSets(raw []rawTagSet) map[string][]string {
	out := map[string][]string{}
	for _, ts := range raw {
		for _, d := range ts.List {
			out[ts.Schema] = append(out[ts.Schema], d.Key)
		}
	}
	return out
}

func readJSON(path string, into any) error {
	data, err := os.ReadFile(path)
	if err != nil {
		return err
	}
	if err := json.Unmarshal(data, into); err != nil {
		return fmt.Errorf("%s: %w", path, err)
	}
	return nil
}

func globSorted(dir string) ([]string, error) {
	files, err := filepath.Glob(filepath.Join(dir, "*.json"))
	if err != nil {
		return nil, err
	}
	if len(files) == 0 {
		return nil, fmt.Errorf("no published files under %s", dir)
	}
	sort.Strings(files)
	return files, nil
}

func keysOf(m map[string]bool) []string {
	out := make([]string, 0, len(m))
	for k := range m {
		out = append(out, k)
	}
	sort.Strings(out)
	return out
}

var (
	defsOnce sync.Once
	defs     *Defs
	defsErr  error
)

// Published loads (once) every published definition file of the repository.
func Published() (*Defs, error) {
	defsOnce.Do(func() { defs, defsErr = loadDefs(repoDir()) })
	return defs, defsErr
}

// MustPublished panics when the published files cannot be read.
func MustPublished() *Defs {
	d, err := Published()
	if err != nil {
		panic("pubdata: " + err.Error())
	}
	return d
}

func loadDefs(repo string) (*Defs, error) {
	d := &Defs{
		Regimes:      map[string]*PubRegime{},
		Addons:       map[string]*PubAddon{},
		Catalogues:   map[string]*PubCatalogue{},
		Ext:          map[string][]*ExtDef{},
		Currencies:   map[string]bool{},
		ISOCountries: map[string]bool{},
		TaxCountries: map[string]bool{},
	}
	addExt := func(list []*ExtDef) {
		for _, e := range list {
			d.Ext[e.Key] = append(d.Ext[e.Key], e)
		}
	}

	// regimes
	files, err := globSorted(filepath.Join(repo, "data", "regimes"))
	if err != nil {
		return nil, err
	}
	for _, f := range files {
		var raw struct {
			Country    string      `json:"country"`
			Alt        []string    `json:"alt_country_codes"`
			Currency   string      `json:"currency"`
			Tags       []rawTagSet `json:"tags"`
			Extensions []rawDef    `json:"extensions"`
			Categories []struct {
				Code  string `json:"code"`
				Rates []struct {
					Key string `json:"key"`
				} `json:"rates"`
			} `json:"categories"`
		}
		if err := readJSON(f, &raw); err != nil {
			return nil, err
		}
		if raw.Country == "" {
			return nil, fmt.Errorf("%s: no country", f)
		}
		r := &PubRegime{
			File:     strings.TrimSuffix(filepath.Base(f), ".json"),
			Country:  raw.Country,
			Alt:      raw.Alt,
			Currency: raw.Currency,
			Tags:     tagSets(raw.Tags),
		}
		r.Extensions = extDefs(raw.Extensions, "regime:"+raw.Country)
		for _, c := range raw.Categories {
			pc := &PubCategory{Code: c.Code}
			for _, rt := range c.Rates {
				pc.Rates = append(pc.Rates, rt.Key)
			}
			r.Categories = append(r.Categories, pc)
		}
		addExt(r.Extensions)
		for _, code := range append([]string{r.Country}, r.Alt...) {
			if _, dup := d.Regimes[code]; !dup {
				d.Regimes[code] = r
				d.RegimeCodes = append(d.RegimeCodes, code)
			}
		}
	}
	sort.Strings(d.RegimeCodes)

	// addons
	files, err = globSorted(filepath.Join(repo, "data", "addons"))
	if err != nil {
		return nil, err
	}
	for _, f := range files {
		var raw struct {
			Key        string      `json:"key"`
			Requires   []string    `json:"requires"`
			Tags       []rawTagSet `json:"tags"`
			Extensions []rawDef    `json:"extensions"`
		}
		if err := readJSON(f, &raw); err != nil {
			return nil, err
		}
		if raw.Key == "" {
			return nil, fmt.Errorf("%s: no key", f)
		}
		a := &PubAddon{Key: raw.Key, Requires: raw.Requires, Tags: tagSets(raw.Tags)}
		a.Extensions = extDefs(raw.Extensions, "addon:"+raw.Key)
		addExt(a.Extensions)
		d.Addons[a.Key] = a
		d.AddonKeys = append(d.AddonKeys, a.Key)
	}
	sort.Strings(d.AddonKeys)

	// catalogues
	files, err = globSorted(filepath.Join(repo, "data", "catalogues"))
	if err != nil {
		return nil, err
	}
	for _, f := range files {
		var raw struct {
			Key        string   `json:"key"`
			Extensions []rawDef `json:"extensions"`
		}
		if err := readJSON(f, &raw); err != nil {
			return nil, err
		}
		c := &PubCatalogue{Key: raw.Key}
		c.Extensions = extDefs(raw.Extensions, "catalogue:"+raw.Key)
		addExt(c.Extensions)
		d.Catalogues[c.Key] = c
	}
	for k := range d.Ext {
		d.ExtKeys = append(d.ExtKeys, k)
	}
	sort.Strings(d.ExtKeys)

	// currencies: the published tables
	files, err = globSorted(filepath.Join(repo, "data", "currency"))
	if err != nil {
		return nil, err
	}
	for _, f := range files {
		var raw []struct {
			ISOCode string `json:"iso_code"`
		}
		if err := readJSON(f, &raw); err != nil {
			return nil, err
		}
		for _, c := range raw {
			if c.ISOCode != "" {
				d.Currencies[c.ISOCode] = true
			}
		}
	}
	d.CurrencyList = keysOf(d.Currencies)

	// countries: no table is published on its own; the published schemas of
	// l10n carry the enumerations.
	for _, x := range []struct {
		file, def string
		into      map[string]bool
	}{
		{"iso-country-code.json", "ISOCountryCode", d.ISOCountries},
		{"tax-country-code.json", "TaxCountryCode", d.TaxCountries},
	} {
		var raw struct {
			Defs map[string]struct {
				OneOf []struct {
					Const string `json:"const"`
				} `json:"oneOf"`
			} `json:"$defs"`
		}
		p := filepath.Join(repo, "data", "schemas", "l10n", x.file)
		if err := readJSON(p, &raw); err != nil {
			return nil, err
		}
		for _, o := range raw.Defs[x.def].OneOf {
			if o.Const != "" {
				x.into[o.Const] = true
			}
		}
		if len(x.into) == 0 {
			return nil, fmt.Errorf("%s: no country enumeration", p)
		}
	}
	d.ISOList = keysOf(d.ISOCountries)
	d.TaxList = keysOf(d.TaxCountries)
	if len(d.Currencies) == 0 {
		return nil, fmt.Errorf("no published currencies")
	}
	return d, nil
}
