// Package pubdata reads the definition files published under /repo/data
// (regimes, addons, catalogues). Oracles resolve against these files rather
// than against the Go registries.
package pubdata

import (
	"encoding/json"
	"os"
	"path/filepath"
	"sort"
	"sync"

	_ "github.com/invopop/gobl" // registers regimes
	"github.com/invopop/gobl/l10n"
	"github.com/invopop/gobl/tax"
)

// RepoDir is the repository under test.
func RepoDir() string { return repoDir() }

// RegimeInfo is what the generators and oracles need to know about a regime,
// read from the published data files.
type RegimeInfo struct {
	Country    string
	Currency   string
	Rounding   string // calculator rounding rule ("" = precise)
	Categories []CategoryInfo
}

// CategoryInfo is one tax category of a published regime file.
type CategoryInfo struct {
	Code     string
	Retained bool
	Rates    []RateInfo
}

// RateInfo is one rate key of a category.
type RateInfo struct {
	Key       string
	Exempt    bool
	HasValues bool
	Qualified bool // some value needs tags or extensions
	// Exts lists the distinct extension sets that select a value of this rate,
	// when extensions (and never tags) are all that qualifies its values.
	Exts []map[string]string
}

var (
	regOnce sync.Once
	regs    map[string]*RegimeInfo
	regList []string
)

func repoDir() string {
	if r := os.Getenv("VERIF_REPO"); r != "" {
		return r
	}
	return "/repo"
}

// Regimes returns the regimes that are both registered in the library and
// published under data/regimes, keyed by country code.
func Regimes() (map[string]*RegimeInfo, []string) {
	regOnce.Do(func() {
		regs = map[string]*RegimeInfo{}
		files, _ := filepath.Glob(filepath.Join(repoDir(), "data", "regimes", "*.json"))
		for _, f := range files {
			data, err := os.ReadFile(f)
			if err != nil {
				continue
			}
			var d struct {
				Country    string   `json:"country"`
				Alt        []string `json:"alt_country_codes"`
				Currency   string   `json:"currency"`
				Rounding   string   `json:"calculator_rounding_rule"`
				Categories []struct {
					Code     string `json:"code"`
					Retained bool   `json:"retained"`
					Rates    []struct {
						Key    string `json:"key"`
						Exempt bool   `json:"exempt"`
						Values []struct {
							Tags []string          `json:"tags"`
							Ext  map[string]string `json:"ext"`
						} `json:"values"`
					} `json:"rates"`
				} `json:"categories"`
			}
			if json.Unmarshal(data, &d) != nil || d.Country == "" {
				continue
			}
			if def := tax.RegimeDefFor(l10n.Code(d.Country)); def == nil || string(def.Country) != d.Country {
				continue // published but not the file of a registered regime (stale file)
			}
			ri := &RegimeInfo{Country: d.Country, Currency: d.Currency, Rounding: d.Rounding}
			for _, c := range d.Categories {
				ci := CategoryInfo{Code: c.Code, Retained: c.Retained}
				for _, r := range c.Rates {
					x := RateInfo{Key: r.Key, Exempt: r.Exempt, HasValues: len(r.Values) > 0}
					tagged := false
					seenExt := map[string]bool{}
					for _, v := range r.Values {
						if len(v.Tags) > 0 || len(v.Ext) > 0 {
							x.Qualified = true
						}
						if len(v.Tags) > 0 {
							tagged = true
						}
						if len(v.Ext) > 0 {
							k, _ := json.Marshal(v.Ext)
							if !seenExt[string(k)] {
								seenExt[string(k)] = true
								x.Exts = append(x.Exts, v.Ext)
							}
						}
					}
					if tagged {
						x.Exts = nil
					}
					ci.Rates = append(ci.Rates, x)
				}
				ri.Categories = append(ri.Categories, ci)
			}
			regs[d.Country] = ri
			regList = append(regList, d.Country)
			for _, alt := range d.Alt {
				// alternative country codes select the same regime
				regs[alt] = ri
				regList = append(regList, alt)
			}
		}
		sort.Strings(regList)
	})
	return regs, regList
}

// Retained reports whether a category is a retained one in a regime.
// HasRegime reports whether a regime is published for the country.
func HasRegime(country string) bool {
	rs, _ := Regimes()
	return rs[country] != nil
}

func Retained(country, cat string) bool {
	rs, _ := Regimes()
	if r := rs[country]; r != nil {
		for _, c := range r.Categories {
			if c.Code == cat {
				return c.Retained
			}
		}
	}
	return false
}
